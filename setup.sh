#!/bin/sh
# Build the framework offline from files on disk: Lean library + driver, hook build of /repo, harness.
set -e
cd "$(dirname "$0")"
(cd lean/UncModel && lake build)
python3 - <<'PY'
import sys, os
sys.path.insert(0, os.getcwd())
from vlib import common, harness
common.build_repo(hooks=True)
harness.build_fnharness()
print("setup ok")
PY
