#!/usr/bin/env python3
"""Regenerates MANIFEST.json from the table below (kept here so the manifest stays consistent)."""
import json, os
ROOT = os.path.dirname(os.path.dirname(os.path.abspath(__file__)))
props = [json.loads(l) for l in open(os.path.join(ROOT, "properties.jsonl"))]

CHECKS = {
 "C02": dict(level="proof", design="6/C02",
   text="Lean theorems: find_punctuator model returns the longest enabled prefix (over the regenerated punctuator table); whitespace insertion never changes the token list of the specification lexer (generic theorem + code/directive instances); the fusion guard of space_text() is complete for word/number/punctuator pairs outside an explicit gap list, each gap a proved witness; the output machine emits the chunk texts once, in order (render_vis), every CR/LF is a whole terminator; character-level pipeline under monitored hypotheses. Tie: T-punct/T-chars regenerated each run, findPunct vs find_punctuator exhaustively (thorough), forceSpace vs PCF_FORCE_SPACE, hook-trace replay through Render. Monitors H-loss/H-text on the chunk dumps of every run. Oracle: input and output re-lexed by the independent specification lexer (C family) or uncrustify's own tokenizer (other languages)",
   note="trusted: Lean kernel; specification lexer and models validated by correspondence/corpus quietness; H-loss/H-text are monitored, not proved for the unmodelled passes; fusion-guard gaps are genuine defects listed in known_findings.json",
   technique="Lean 4 proof over hand-written models + regenerated tables + hook correspondence + monitors + independent re-lexing oracle"),
 "C03": dict(level="proof", design="6/C03",
   text="PARTIAL for comment bodies. Lean theorems: every chunk's text / every comment's recorded ops are emitted exactly once and in order (render_vis); a literal's text is written verbatim with is_literal (literal_verbatim, text_chunk_verbatim: tabs survive, only pending blanks precede it); the permitted comment normalisation is idempotent and identifies exactly the texts that differ by re-indentation/trailing blanks (C03_norm_idem, C03_norm_relayout). Tie: hook-trace replay through Render; monitors on the dumps (comment chunks at P1 = at P0, code text unchanged). Oracle: comments and literals extracted from input and output by the independent specification lexer: literals byte-identical, comments equal after the permitted normalisation, same order",
   note="the comment writers (2000 lines) are an oracle: comment bodies are checked by the oracle and the op-trace tie, not proved; C family only for the independent extraction",
   technique="Lean 4 proof over hand-written models + hook correspondence + monitors + independent extraction oracle"),
 "C05": dict(level="proof", design="6/C05",
   text="PARTIAL. Lean theorems: idempotence of the modelled appliers - the space_text() arithmetic re-reading its own gap reproduces it for every decision value (C05_space_apply_idem), the file-edge blank-line policy is idempotent, indentation does not read original columns - under a stable decision oracle. The fixed point of the whole program additionally needs that the heuristic decision passes answer the second run as the first; that is OBSERVED: the complete fixed universe (every C/C++ corpus file x every profile in /verif/profiles, three passes + --check) is enumerated in every tier with 34 individually listed exceptions, plus generated programs x profiles (instabilities keyed by root-cause class), plus the weaker claim (second pass accepts the first pass's output) on corpus x test configs",
   note="trusted: applier models tied to the code by the C19/C17/C18 checks; oracle stability is observed, not proved; quick tier uses a fixed set of generated programs plus a small seed-dependent part",
   technique="Lean 4 proof of applier idempotence + exhaustive enumeration of the fixed universe with listed exceptions"),
 "C06": dict(level="proof", design="6/C06",
   text="PARTIAL. Proved (Lean, over a table regenerated from the source each run): every exit()/main-return status in the sources is a documented status; the newline loop runs at most four times. Everything else the property says - no signal, no memory-safety/UB fault, bounded time, nothing on stdout when refused, a diagnostic on stderr - cannot be exhibited by an executable model and is EXPLORED: mutated corpus inputs (truncations, bracket/token edits, unterminated constructs, byte flips, random bytes, foreign language) in all nine languages under their test configs with a timeout; quick = fixed universe + seed-dependent part on the release build, thorough = seed-dependent on the ASan+UBSan build. Failures are identified by call site (gdb: pass + innermost function) for the known-findings list",
   note="exploration, not proof, for memory safety / UB / hangs (DESIGN.md 6/C06, 10); trusted: T-exit translator, timeout 20 s, gdb signatures; known defects of the unchanged tree listed by call site in known_findings.json",
   technique="Lean 4 proof of the status discipline over a regenerated table; mutation-based exploration with sanitizers for the rest"),
 "C07": dict(level="proof", design="6/C07",
   text="Lean theorems: while processing is off a line without marker becomes one CT_IGNORED chunk holding the whole line (model of parse_ignored, literal markers); output_text() writes a CT_IGNORED chunk raw, independent of and without touching the machine state. Tie: hook-trace replay through the Render model; monitor H-region (between the markers the chunk list handed to output_text() holds the input lines). Oracle on real bytes: region lines byte-identical and in order, blank lines, opacity under replacement of the body (generated programs with regions at every statement position, three marker kinds, unterminated regions, code-modifying option sets)",
   note="trusted: Lean kernel; models IgnoredScan/Render validated by correspondence; regex markers not modelled; that no pass between tokenizer and output touches region chunks is monitored (H-region), not proved; four known findings listed in known_findings.json",
   technique="Lean 4 proof over hand-written model + hook-trace correspondence + monitor + byte oracle"),
 "C08": dict(level="proof", design="6/C08",
   text="Lean theorems: every CR/LF the output machine emits is part of a whole copy of cpd.newline for every op sequence and every chunk list (addchar_terminators, render_terminators), terminator choice and whitespace census (Props/C08.lean); the hand-written models are tied to the code by replaying the hook trace of every run through the model (op sequence and bytes must agree) and by comparing chooseNewline with the real cpd.newline; direct oracles on real bytes (stray CR/LF scan, conversion commutes, crlf = lf with terminators replaced)",
   note="trusted: Lean kernel; models AddChar/Render/LineEnd validated by correspondence; comment writers are an oracle whose recorded ops are replayed; hypothesis 'raw writes carry no CR/LF' monitored",
   technique="Lean 4 proof over hand-written model + hook-trace correspondence + byte oracles"),
 "C09": dict(level="proof", design="6/C09",
   text="Lean theorems over a statement-by-statement model of unicode.cpp and the BOM policy (round trips for all code points / byte strings, identity rewrite for every decodable byte string, commutation with transcoding); model tied to the code by function-level differential runs (exhaustive over all scalars in the thorough tier) and CLI runs",
   note="trusted: Lean kernel; hand-written model validated by correspondence; code points < 2^31",
   technique="Lean 4 proof over hand-written model + differential correspondence against the compiled functions"),
 "C11": dict(level="proof", design="6/C11",
   text="Lean theorem: non-interference for every finite file sequence from a classification of all process-global state (K/R/W/D); the classification is total over inventories regenerated from the source on every run (members of cp_data_t, assignments in uncrustify_end(), writable globals from nm), contains no unsafe location and every R member is assigned in uncrustify_end(); the restore hypothesis is monitored by the digest hook at the head of every file of every batch, a monitor failure triggers a steered search for a file formatted differently; direct oracle: batch outputs vs single outputs (pairs, triples, -F lists, mixed languages/encodings/terminators/regions, with and without -l)",
   note="trusted: Lean kernel; T-reset translator; committed classification (W-class locations are assumed written before read, checked only through the oracle); digest hook H4",
   technique="Lean 4 proof (non-interference) + regenerated state inventory + digest monitor + differential batch/single runs"),
 "C18": dict(level="proof", design="6/C18",
   text="PARTIAL. Lean theorems about a stack-machine model of the frame handling of indent_text() for plain block structure: every first-on-line token is placed at 1 + depth*indent_columns (closing brace at the opener's column, case label at the switch's brace column), the model has no access to original columns; tabs/spaces realisation from Props/Render.lean. The model is specification-shaped, so the evidence about indent_text() is the tie: differential run of the real columns against the model on generated block-structured programs (the generator knows the lexical depth independently) and the metamorphic oracle (4 random original layouts of the same token structure must get identical columns), over indent_columns 1..16, indent_with_tabs 0..2, output_tab_size",
   note="indent_text() itself is an oracle; claims restricted to the generator's program class (if/else chains, loops, switch/case, do-while, bare blocks, brace-less bodies; default brace style); comment, preprocessor and continuation lines excluded as the property says",
   technique="Lean 4 proof over a specification-shaped model + differential and metamorphic correspondence"),
 "C17": dict(level="proof", design="6/C17",
   text="Lean theorems about the output machine: after every visible text chunk nothing blank is pending or last written, so a NEWLINE chunk emits exactly its terminators (no trailing blank); indentation written by output_to_column is tabs-then-spaces, spaces only with tabs off; file-edge policy (eat_start_end + do_blank_lines edge rule). Tie: hook-trace replay through the model on every run, eatEdge/fileEdge model vs real edge breaks; monitor of the WF hypothesis at P1; op-level and byte-level oracles",
   note="trusted: Lean kernel; models AddChar/Render/EatSE validated by correspondence; comment interiors, literals, disabled regions excluded as the property says; WF of chunk texts is monitored, not proved",
   technique="Lean 4 proof over hand-written model + hook-trace correspondence + monitors + oracles"),
 "C20": dict(level="proof", design="6/C20",
   text="Lean theorems over the write inventory of do_blank_lines() regenerated from the source on every run (T-blank: every statement that writes a newline count, its target, kind, options, enclosing conditions) and the guard list of too_big_for_nl_max() (T-nlmax): the inventory has the shape the model interprets and calls only accessors/predicates (C20_shape, C20_callees, C20_cap_cmp); with nl_max = N > 0 and the inventory's options <= N every newline chunk the pass visits or writes ends <= N, for every list of chunks, every initial count and every outcome of the unmodelled guards (C20_visit_bounded, C20_pass_bounded); all options of the inventory but one are covered by the configuration guard (C20_inventory_covered, C20_pass_bounded_guarded); the proviso is necessary (C20_cap_needed_witness); eat_blanks_* through a model of can_increase_nl() (C20_eat_blanks_after_open/_before_close), cleanup_dup keeps the bound, start/end of file (C20_sof_eof_exact), a NEWLINE chunk writes exactly nl_count terminators (C20_newline_chunk_breaks). Tie: hook H6 records every visited newline chunk and every SetNlCount() during do_blank_lines(); the Lean driver must explain each recorded write in order by an inventory entry and reproduce the final count; Render model reproduces the bytes of every run; eatEdge model vs real edge breaks. Monitor at P1: nl_count <= nl_max outside disabled regions and no adjacent newline chunks. Oracle: runs of line breaks in the real op trace, blank lines next to braces in the real bytes",
   note="trusted: Lean kernel; translators T-blank/T-nlmax; models Blank/EatSE/Render validated by the trace replay; the guards of do_blank_lines() and all other newline passes are an oracle - that no later pass exceeds the cap is monitored, not proved; two known findings (adjacent newline chunks around virtual braces) and one fixed defect in known_findings.json",
   technique="Lean 4 proof over a regenerated write inventory + hook-trace refinement check + P1 monitor + byte/op oracles"),
 "C04": dict(level="proof", design="6/C04",
   text="Lean theorems (Props/C04.lean). Bracket structure over a stack-machine model of token streams: inserting a bracket pair around a well-nested segment, deleting a matched pair, turning virtual braces into real ones and permuting whole well-nested lines keep the stream well nested and leave every other token in place (C04_insert_pair_nested, C04_remove_pair_nested, C04_vbrace_convert_nested, C04_lines_permute_nested, C04_edit_frame). Frame over tables regenerated from the source on every run (T-mods): every chunk add/delete/retext/move site of src/ lies in a function of the committed classification and no function gained sites (C04_sites_classified); functions classified mod are gated by mod_ options that are off by default (C04_mod_gates_default_off); the option tests around the modifying passes in uncrustify_file() are false at the defaults (C04_driver_gates_default_off). Tie: the Lean definition wellNested judges, through the driver, the real token streams of input and output and the chunk list incl. virtual braces at P1. Oracle: input and output re-lexed by the independent specification lexer; after deleting the token kinds the enabled options may add/remove the streams must be identical in order; additions only under add/force, removals only under remove; sorted/deduplicated include lines a permutation/subset; every mod_ option singly, families of interacting options, random combinations, defaults",
   note="trusted: Lean kernel; T-mods and the hand-made classification (a claim per function, re-reviewed when a function gains mutation sites); the table of token kinds per option in props/c04.py; the decisions of braces.cpp/parens.cpp/sorting.cpp are an oracle - the hypotheses of the bracket theorems (segment well nested, pair matched) are evaluated on real streams, not proved; C family only",
   technique="Lean 4 proof over a bracket-stream model + regenerated frame tables + token-stream oracle judged by the Lean definitions"),
}
EXTRA = {}
for f in sorted(os.listdir(ROOT)):
    if f.startswith("manifest_entries_") and f.endswith(".json"):
        d = json.load(open(os.path.join(ROOT, f)))
        for e in (d["checks"] if isinstance(d, dict) else d):
            EXTRA[e["property_id"]] = e

checks = []
for p in props:
    pid = p["id"]
    if pid in CHECKS:
        c = CHECKS[pid]
        checks.append({"property_id": pid, "quick_cmd": "./check %s quick" % pid, "thorough_cmd": "./check %s thorough" % pid,
                       "evidence_file": "evidence/%s.json" % pid, "replay_cmd_template": "cat {path}", "engine": "lean-model",
                       "level_claimed": {"category": c["level"], "text": c["text"], "design_ref": c["design"]},
                       "level_note": c["note"], "technique": c["technique"]})
    elif pid in EXTRA:
        checks.append(EXTRA[pid])
claimed = {c["property_id"] for c in checks}
m = {"version": 1, "setup_cmd": "./setup.sh",
     "hooks": {"guard": "UNCRUSTIFY_VERIF",
               "enable": "cmake -S /repo -B /verif/.cache/bld -G Ninja -DCMAKE_CXX_FLAGS=-DUNCRUSTIFY_VERIF (done by vlib/common.py build_repo on every check; hooks are active only when env UNC_VERIF_OUT names a file)",
               "baseline_off_cmd": "cmake -S /repo -B /repo/_build -G Ninja && cmake --build /repo/_build -j16 && ctest --test-dir /repo/_build -j8 --timeout 900",
               "source_commits": ["ca48173", "7614740", "9599255"], "add_only": True},
     "engines": [{"name": "lean-model", "path": "lean/UncModel", "serves_properties": sorted(claimed),
                  "kind_free_text": "Lean 4 models + theorems (Props/*.lean), compiled driver uncdrv for the correspondence checks"}],
     "checks": checks,
     "not_applicable": [{"property_id": p["id"], "reason": "check not built yet (work in progress, see DESIGN.md section 11)"}
                        for p in props if p["id"] not in claimed],
     "notes": "see DESIGN.md; known findings in known_findings.json"}
json.dump(m, open(os.path.join(ROOT, "MANIFEST.json"), "w"), indent=1)
print("claimed:", sorted(claimed))
