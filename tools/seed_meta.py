#!/usr/bin/env python3
"""development aid (never read by a check): fill seeded/<id>/meta.json from the seed's README.md and from the logs that
tools/seed_eval.sh left next to it (check_<Cxx>_<tier>.log), and print the matrix for DESIGN.md section 16.

usage: seed_meta.py            rewrite every meta.json, print the matrix (markdown)
"""
import glob
import json
import os
import re

ROOT = os.path.join(os.path.dirname(os.path.abspath(__file__)), "..", "seeded")


def needs(readme):
    """the README section that says what the change needs in order to manifest"""
    parts = re.split(r"^(#+ .*)$", readme, flags=re.M)
    for i in range(1, len(parts), 2):
        if re.search(r"needs|manifest|trigger|condition", parts[i], re.I):
            txt = re.sub(r"\s+", " ", parts[i + 1]).strip()
            return txt[:1200]
    return "see README.md"


def title(readme):
    m = re.search(r"^# (.*)$", readme, re.M)
    return m.group(1).strip() if m else ""


def parse_log(path):
    txt = open(path, errors="replace").read()
    rc = re.findall(r"^rc=(\d+)", txt, re.M)
    viol = re.findall(r"^VIOLATION .*$", txt, re.M)
    whats = re.findall(r"^  what: (.*)$", txt, re.M)
    summ = re.findall(r"^\[C\d\d\s+[\d.]+s\] (obligations .*)$", txt, re.M)
    return {"exit": int(rc[-1]) if rc else None,
            "violation_lines": len(viol),
            "with_failing_input": sum(1 for v in viol if "no-failing-input-found" not in v),
            "no_failing_input_found": sum(1 for v in viol if "no-failing-input-found" in v),
            "first_report": (whats[0][:400] if whats else None),
            "summary": summ[-1] if summ else None}


def main():
    rows = []
    for d in sorted(glob.glob(os.path.join(ROOT, "C??-?"))):
        sid = os.path.basename(d)
        mp = os.path.join(d, "meta.json")
        meta = json.load(open(mp))
        readme = open(os.path.join(d, "README.md"), errors="replace").read()
        meta["title"] = title(readme)
        meta["needs_to_manifest"] = needs(readme)
        meta["round"] = 1 if sid[-1] in "AB" else (2 if sid[-1] in "CD" else 3)
        notes = json.load(open(os.path.join(ROOT, "NOTES.json")))
        if sid in notes:
            meta["note"] = notes[sid]
        runs = {}
        for lp in sorted(glob.glob(os.path.join(d, "check_*_*.log"))):
            m = re.match(r"check_(C\d\d)_(\w+)\.log", os.path.basename(lp))
            runs["%s %s" % (m.group(1), m.group(2))] = parse_log(lp)
        meta["checks_run"] = runs
        meta["what_was_run"] = ("tools/seed_eval.sh %s <checks>: /verif at HEAD and /repo at HEAD + patch.diff in an isolated pair of worktrees "
                                "(VERIF_REPO), `./check <Cxx> <tier>`; the patch is never applied to /repo itself" % sid)
        json.dump(meta, open(mp, "w"), indent=1)
        open(mp, "a").write("\n")
        own = meta["property"]
        cell = {}
        for k, v in runs.items():
            c, tier = k.split()
            mark = "-"
            if v["exit"] == 1 and v["violation_lines"]:
                mark = "caught" + ("" if v["with_failing_input"] else " (no input)")
            elif v["exit"] == 0:
                mark = "missed"
            cell.setdefault(c, []).append("%s:%s" % (tier, mark))
        rows.append((sid, meta["title"][:70], own, cell))
    print("| seed | change | own check | other checks |")
    print("|---|---|---|---|")
    for sid, t, own, cell in rows:
        o = ", ".join(cell.get(own, ["not run"]))
        others = "; ".join("%s %s" % (c, ", ".join(v)) for c, v in sorted(cell.items()) if c != own)
        print("| %s | %s | %s | %s |" % (sid, t.replace("|", "/"), o, others))
    n = len(rows)
    own_q = sum(1 for r in rows if any(x.startswith("quick:caught") for x in r[3].get(r[2], [])))
    own_any = sum(1 for r in rows if any("caught" in x for x in r[3].get(r[2], [])))
    anyc = sum(1 for r in rows if any("caught" in x for v in r[3].values() for x in v))
    print("\n%d seeds; caught by the own property's quick check: %d; by the own check in some tier: %d; by some check: %d" % (n, own_q, own_any, anyc))


if __name__ == "__main__":
    main()
