#!/bin/bash
# development aid: evaluate every seed under /verif/seeded against its own property's quick check at HEAD, in N lanes
# (isolated worktree pairs /root/seedrun, /root/seedrun2, ...); cross-checks for the seeds another property's check is known to see
# usage: seed_matrix_run.sh [lanes=2]
cd /verif
LANES=${1:-2}
DIRS=(/root/seedrun /root/seedrun2 /root/seedrun3 /root/seedrun4)
IDS=($(ls seeded | grep -E '^C[0-9][0-9]-[A-Z]$'))
for ((l=0; l<LANES; l++)); do
  (
    for ((i=l; i<${#IDS[@]}; i+=LANES)); do
      ID=${IDS[$i]}; P=${ID%-*}
      EXTRA=""
      case $ID in
        C01-A|C01-C) EXTRA="C02";;
        C01-D) EXTRA="C04";;
        C10-B|C10-D|C08-D) EXTRA="C11";;
        C02-B) EXTRA="C03";;
        C05-A) EXTRA="C18";;
      esac
      rm -f seeded/$ID/check_*_quick.log
      SEEDRUN=${DIRS[$l]} tools/seed_eval.sh $ID $P $EXTRA
    done
  ) > /tmp/wt/matrix_lane$l.log 2>&1 &
done
wait
