#!/bin/bash
# development aid (never read by a check): evaluate the checks against a seeded change in an isolated pair of worktrees
#   /root/seedrun/verif (this repository at HEAD) and /root/seedrun/repo (uncrustify at /repo's HEAD + the seed's patch)
# usage: seed_eval.sh <seed id, e.g. C13-A> <check> [<check> ...]     (tier from $TIER, default quick)
ID=$1; shift
S=/verif/seeded/$ID
SEEDRUN=${SEEDRUN:-/root/seedrun}; SV=$SEEDRUN/verif; SR=$SEEDRUN/repo
TIER=${TIER:-quick}
# the worktree pair is scratch: created on demand, removed by hand when a campaign is over (git worktree remove --force)
[ -d $SV ] || git -C /verif worktree add -q --detach $SV HEAD || exit 2
[ -d $SR ] || git -C /repo worktree add -q --detach $SR HEAD || exit 2
git -C $SV reset -q --hard; git -C $SV checkout -q --detach $(git -C /verif rev-parse HEAD) || exit 2
git -C $SR checkout -q -- . ; git -C $SR checkout -q --detach $(git -C /repo rev-parse HEAD) || exit 2
if ! git -C $SR apply --check $S/patch.diff 2>/dev/null; then
  git -C $SR apply -3 $S/patch.diff 2>/dev/null || patch -d $SR -p1 --fuzz=3 < $S/patch.diff >/dev/null || { echo "$ID: patch does not apply to current HEAD"; exit 3; }
else
  git -C $SR apply $S/patch.diff
fi
for C in "$@"; do
  (cd $SV && VERIF_REPO=$SR ./check $C $TIER > $S/check_${C}_${TIER}.log 2>&1; echo "rc=$?" >> $S/check_${C}_${TIER}.log)
  echo "$ID $C $TIER: $(tail -1 $S/check_${C}_${TIER}.log) $(grep -c '^VIOLATION' $S/check_${C}_${TIER}.log) violation lines; $(grep '^VIOLATION' $S/check_${C}_${TIER}.log | grep -c no-failing-input-found) without input"
done
git -C $SR checkout -q -- . ; git -C $SR clean -fdq src
