#!/usr/bin/env python3
"""development aid: copy a confirmed seed from its scratch worktree into /verif/seeded/<Cxx>-<X>/ and write meta.json
usage: seed_import.py <Cxx> <A|B>"""
import json, os, shutil, sys
p, x = sys.argv[1], sys.argv[2]
y = sys.argv[3] if len(sys.argv) > 3 else x          # name under /verif/seeded (second round: A -> C, B -> D)
src = "/tmp/wt/%s/seed_out/%s" % (p, x)
dst = "/verif/seeded/%s-%s" % (p, y)
conf = json.load(open(os.path.join(src, "confirm.json")))
if not (conf.get("applies") and conf.get("builds") and conf.get("ctest_all_pass") and conf.get("demo_baseline_rc") == 0
        and conf.get("demo_modified_rc") not in (0, None)):
    print("NOT CONFIRMED", p, x, conf)
    sys.exit(1)
os.makedirs(dst, exist_ok=True)
for f in ("patch.diff", "demo.sh", "README.md"):
    shutil.copy(os.path.join(src, f), os.path.join(dst, f))
readme = open(os.path.join(src, "README.md"), errors="replace").read()
meta = {"id": "%s-%s" % (p, y), "property": p,
        "origin": "written by an independent sub-agent that saw only the property text and a scratch worktree of uncrustify",
        "needs_to_manifest": "see README.md (the sub-agent's description)",
        "confirmed": {"how": "tools/confirm_seed.sh in the scratch worktree: git apply, cmake --build, ctest -j8 (all 14 entries / 2035 cases), "
                             "demo.sh on the unmodified and on the modified binary",
                      "ctest": conf.get("ctest_summary"), "demo_unmodified_rc": conf.get("demo_baseline_rc"),
                      "demo_modified_rc": conf.get("demo_modified_rc")},
        "checks_run": {}}
mp = os.path.join(dst, "meta.json")
if os.path.exists(mp):
    old = json.load(open(mp))
    meta["checks_run"] = old.get("checks_run", {})
    meta["needs_to_manifest"] = old.get("needs_to_manifest", meta["needs_to_manifest"])
json.dump(meta, open(mp, "w"), indent=1)
print("imported", dst)
