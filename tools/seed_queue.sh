#!/bin/bash
# development aid: wait for confirmation of each listed seed, import it and evaluate the property's own quick check
for ID in "$@"; do
  P=${ID%-*}; X=${ID#*-}
  for i in $(seq 1 720); do [ -f /tmp/wt/$P/seed_out/$X/confirm.json ] && break; sleep 10; done
  python3 /verif/tools/seed_import.py $P $X || continue
  /verif/tools/seed_eval.sh $ID $P
done
