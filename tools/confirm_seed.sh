#!/bin/bash
# development aid (never read by a check): confirm a seeded change in its scratch worktree
# usage: confirm_seed.sh <Cxx> <A|B>   -> writes /tmp/wt/<Cxx>/seed_out/<X>/confirm.json
P=$1; X=$2; WT=/tmp/wt/$P; S=$WT/seed_out/$X
cd $WT || exit 2
git checkout -q -- src
git apply --check $S/patch.diff || { echo "{\"applies\": false}" > $S/confirm.json; exit 1; }
git apply $S/patch.diff
cmake -S $WT -B $WT/_build -G Ninja >/dev/null 2>&1
if ! cmake --build $WT/_build -j8 > $S/build.log 2>&1; then
  echo "{\"applies\": true, \"builds\": false}" > $S/confirm.json; git checkout -q -- src; exit 1
fi
ctest --test-dir $WT/_build -j8 --timeout 900 > $S/ctest.log 2>&1
CT=$(grep -c "100% tests passed" $S/ctest.log)
BASE=/tmp/wt/baseline/uncrustify; [ -x $WT/seed_out/baseline_uncrustify ] && BASE=$WT/seed_out/baseline_uncrustify
bash $S/demo.sh $BASE > $S/demo_base.log 2>&1; DB=$?
bash $S/demo.sh $WT/_build/uncrustify > $S/demo_mod.log 2>&1; DM=$?
git checkout -q -- src
echo "{\"applies\": true, \"builds\": true, \"ctest_all_pass\": $([ $CT = 1 ] && echo true || echo false), \"demo_baseline_rc\": $DB, \"demo_modified_rc\": $DM, \"ctest_summary\": \"$(grep 'tests passed' $S/ctest.log | head -1)\"}" > $S/confirm.json
cat $S/confirm.json
