#!/bin/bash
# development aid: evaluate every seed under /verif/seeded against its property's quick check (plus listed cross-checks) at HEAD
cd /verif
for d in seeded/C*-?; do
  ID=$(basename $d); P=${ID%-*}
  EXTRA=""
  [ "$ID" = "C01-A" ] && EXTRA="C02"
  [ "$ID" = "C10-B" ] && EXTRA="C11"
  [ "$ID" = "C02-B" ] && EXTRA="C03"
  tools/seed_eval.sh $ID $P $EXTRA
done
