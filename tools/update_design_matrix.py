#!/usr/bin/env python3
"""development aid: refresh the seed table of DESIGN.md section 16 from the evaluation logs (tools/seed_meta.py output)"""
import os
import re
import subprocess

ROOT = os.path.join(os.path.dirname(os.path.abspath(__file__)), "..")
out = subprocess.run(["python3", os.path.join(ROOT, "tools", "seed_meta.py")], capture_output=True, text=True).stdout
rows = [l for l in out.split("\n") if l.startswith("| C")]
summary = [l for l in out.split("\n") if l.startswith("80 seeds") or "seeds; caught" in l][-1]


def short(l):
    c = [x.strip() for x in l.strip("|").split("|")]
    t = re.sub(r"^(C\d\d )?[Ss]eed [AB]( \((C\d\d|round 2)\))?\s*[:—-]+\s*", "", c[1])
    t = re.sub(r"^C\d\d seed [AB]( \(round 2\))?\s*[:—-]+\s*", "", t)
    return "| %s | %s | %s | %s |" % (c[0], t, c[2].replace("quick:", ""), c[3].replace("quick:", ""))


table = "\n".join(short(l) for l in rows)
p = os.path.join(ROOT, "DESIGN.md")
s = open(p).read()
a = s.index("| seed | change | own check | other checks run |")
b = s.index("\n\n", s.index("| C20-D", a))
s = s[:a] + "| seed | change | own check | other checks run |\n|---|---|---|---|\n" + table + s[b:]
open(p, "w").write(s)
print(summary)
