#!/bin/sh
# development aid: run one check at many seeds and collect every violation key (never read by a check)
# usage: tools/sweep.sh <Cxx> <tier> <first seed> <last seed>
cd "$(dirname "$0")/.."
./setup.sh >/dev/null 2>&1
mkdir -p sweep_out
for s in $(seq $3 $4); do
  VERIF_SEED=$s VERIF_DUMP_VIOLATIONS=sweep_out/$1-$s.json ./check $1 $2 > sweep_out/$1-$s.log 2>&1
  tail -1 sweep_out/$1-$s.log
done
python3 - <<PY
import json,glob,collections
c=collections.Counter()
ex={}
for f in sorted(glob.glob('sweep_out/$1-*.json')):
    for v in json.load(open(f)):
        k=json.dumps(v['key'],sort_keys=True)
        c[k]+=1; ex.setdefault(k,v['what'])
for k,n in c.most_common(): print(n,k,'|',ex[k][:150])
PY
