#!/bin/bash
# second round: wait for the sub-agent's seed_out/{A,B}, confirm, import as <Cxx>-C / <Cxx>-D, evaluate
for P in "$@"; do
  for X in A B; do
    Y=$( [ $X = A ] && echo C || echo D )
    for i in $(seq 1 1080); do [ -f /tmp/wt/$P/seed_out/$X/patch.diff ] && [ -f /tmp/wt/$P/seed_out/$X/demo.sh ] && [ -f /tmp/wt/$P/seed_out/$X/README.md ] && break; sleep 20; done
    [ -d /tmp/wt/$P/seed_out/$X ] || continue
    sleep 60
    /verif/tools/confirm_seed.sh $P $X
    python3 /verif/tools/seed_import.py $P $X $Y || continue
    /verif/tools/seed_eval.sh $P-$Y $P
  done
done
