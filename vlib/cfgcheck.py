"""Shared machinery of C15/C16: run `uncrustify -c cfg [--set ..] --update-config` and the Lean model
(`config.run` / `config.dump` of the driver) on the same configuration and compare:
exit status, the sequence of diagnostics (class, file, line, option/word named, text echoed) and the dump.
Also the generators for option lines (value classes per option kind), directives and malformed texts.
"""
import os
import re
import shutil
import subprocess
import tempfile

from . import common
from translators import gen_config, t_opt

TIMEOUT = 20


def hx(b):
    return b.hex() if b else "-"


def unhx(s):
    return b"" if s == "-" else bytes.fromhex(s)


# ---------------------------------------------------------------------------
# tables
# ---------------------------------------------------------------------------

def regenerate(ctx):
    """T-opt/T-enum/T-nlmax/T-lang/T-compat -> Gen/*.lean; returns the parsed tables or None"""
    try:
        bld = common.build_dir(hooks=True)
        tabs = gen_config.regenerate(common.REPO, bld, common.LEAN_DIR, common.write_if_changed)
    except t_opt.TranslateError as e:
        ctx.oblige("translators T-opt/T-enum/T-nlmax/T-lang/T-compat parse the sources", False, "table", str(e))
        return None
    ctx.oblige("translators T-opt/T-enum/T-nlmax/T-lang/T-compat parse the sources (%d options, %d guarded, %d compat names)"
               % (len(tabs["options"]), len(tabs["guarded"]), len(tabs["compat"][0])), True, "table",
               {"regenerated": tabs["changed"]})
    ctx.oblige("T-nlmax call site: " + str(tabs["nlmax_site"] or "guard not between --set processing and the first read"),
               tabs["nlmax_site"] is not None, "table")
    for sf in tabs["soft_failures"]:
        ctx.oblige("source shape expected by the model: " + sf, False, "table", sf)
    return tabs


# ---------------------------------------------------------------------------
# running the real binary
# ---------------------------------------------------------------------------

class Case:
    """one configuration: files (name -> bytes; `main` is given to -c), --set arguments"""
    __slots__ = ("files", "main", "sets", "tag", "info")

    def __init__(self, files, main=b"main.cfg", sets=(), tag="", info=None):
        self.files = dict(files)
        self.main = main
        self.sets = list(sets)
        self.tag = tag
        self.info = info

    def request(self, op="config.run"):
        fl = sorted(self.files.items())
        w = [op, hx(self.main), str(len(fl))]
        for n, c in fl:
            w += [hx(n), hx(c)]
        w.append(str(len(self.sets)))
        w += [hx(s) for s in self.sets]
        return " ".join(w)

    def replay(self):
        return {"files": {n.decode("latin1"): c.decode("latin1") for n, c in self.files.items()},
                "files_hex": {n.hex(): c.hex() for n, c in self.files.items()},
                "argv": ["uncrustify", "-c", self.main.decode("latin1")] +
                        [x for s in self.sets for x in ("--set", s.decode("latin1"))] + ["--update-config"],
                "how": "write the files into an empty directory, cd there, run argv; model: `%s ...` to uncdrv" % "config.run",
                "tag": self.tag}


class Runner:
    def __init__(self, exe):
        self.exe = exe
        self.root = tempfile.mkdtemp(prefix="cfg-", dir=common.CACHE)
        self.n = 0

    def close(self):
        shutil.rmtree(self.root, ignore_errors=True)

    def newdir(self):
        self.n += 1
        d = os.path.join(self.root, "c%d" % self.n)
        os.makedirs(d)
        return d

    def run(self, case, extra=("--update-config",), keep=False):
        """-> (rc, stdout, stderr, dir or None); rc None on timeout, negative on signal"""
        d = self.newdir()
        for n, c in case.files.items():
            p = os.path.join(os.fsencode(d), n)
            os.makedirs(os.path.dirname(p), exist_ok=True)
            with open(p, "wb") as f:
                f.write(c.replace(b"@ABS@", os.fsencode(d)))     # absolute paths are known only now
        argv = [os.fsencode(self.exe), b"-c", case.main]
        for s in case.sets:
            argv += [b"--set", s]
        argv += [os.fsencode(x) for x in extra]
        try:
            r = subprocess.run(argv, cwd=d, stdin=subprocess.DEVNULL, stdout=subprocess.PIPE, stderr=subprocess.PIPE,
                               timeout=TIMEOUT)
            res = (r.returncode, r.stdout, r.stderr)
        except subprocess.TimeoutExpired as e:
            res = (None, e.stdout or b"", e.stderr or b"")
        if keep:
            return res + (d,)
        shutil.rmtree(d, ignore_errors=True)
        return res + (None,)

    def run_many(self, cases, **kw):
        return common.pmap(lambda c: self.run(c, **kw), cases)


# ---------------------------------------------------------------------------
# canonical forms
# ---------------------------------------------------------------------------

_P = [
    (re.compile(rb"^Option<\w+>: at (.*?):(\d+): Expected .*?, for '(\w+)'; got '(.*)'$", re.S), "unexpected-value", (1, 2, 3, 4)),
    (re.compile(rb"^Option<\w+>: at (.*?):(\d+): (\w+) references option (\w+) with incompatible type \w+$"), "incompatible-ref", (1, 2, 3, 4)),
    (re.compile(rb"^Option<\w+>: at (.*?):(\d+): requested value (-?\d+) for option '(\w+)' is less than the minimum value -?\d+$"), "less-than-min", (1, 2, 4, 3)),
    (re.compile(rb"^Option<\w+>: at (.*?):(\d+): requested value (-?\d+) for option '(\w+)' is greater than the maximum value -?\d+$"), "greater-than-max", (1, 2, 4, 3)),
    (re.compile(rb"^(.*?):(\d+): unknown option '(.*)'$", re.S), "unknown-option", (1, 2, 3, None)),
    (re.compile(rb"^(.*?):(\d+): (.*) requires at least (?:two|three) arguments$", re.S), "too-few-args", (1, 2, 3, None)),
    (re.compile(rb"^(.*?):(\d+): found unterminated quoted-string$"), "unterminated", (1, 2, None, None)),
    (re.compile(rb"^(.*?):(\d+): unexpected text following quoted-string$"), "unexpected-text", (1, 2, None, None)),
    (re.compile(rb"^(.*?):(\d+): (set): unknown type '(.*)'$", re.S), "set-unknown-type", (1, 2, 3, 4)),
    (re.compile(rb"^(.*?):(\d+): (file_ext): unknown language '(.*)'$", re.S), "file-ext-unknown-lang", (1, 2, 3, 4)),
    (re.compile(rb"^(.*?):(\d+): (include): path cannot be empty$"), "include-empty", (1, 2, 3, None)),
    (re.compile(rb"^(.*?):(\d+): (include): files are nested too deeply$"), "include-too-deep", (1, 2, 3, None)),
    (re.compile(rb"^(.*?):(\d+): (using) requires a version number in the form MAJOR\.MINOR\[\.PATCH\]$"), "using-bad-version", (1, 2, 3, None)),
    (re.compile(rb"^(.*?):(\d+): option '(\w+)' (?:is deprecated|never works);.*$"), "deprecated", (1, 2, 3, None)),
    (re.compile(rb"^(.*?): line (\d+): Character at position (\d+), is not printable\.$"), "not-printable", (1, 2, None, 3)),
    (re.compile(rb"^(.*?): file could not be opened: .* \(\d+\)$"), "cannot-open", (1, None, None, None)),
    (re.compile(rb"^The buffer is to short for the set argument '.*'$", re.S), "set-too-long", (None, None, None, None)),
    (re.compile(rb"^Error while parsing --set$"), "set-parse", (None, None, None, None)),
    (re.compile(rb"^Unknown option '(.*)' to override\.$", re.S), "set-unknown", (None, None, 1, None)),
]
_SKIP = [re.compile(rb"^$"), re.compile(rb"^Try running with -h for usage information$"),
         re.compile(rb"^during the development of version 0\.76\. Use '\w+' and '\w+' instead\.$"),
         re.compile(rb"^You can also use '\w+' for additional functionality\.$")]


def parse_stderr(err):
    """-> (list of diag strings in the driver's format, list of unparsed lines)"""
    out, bad = [], []
    lines = err.split(b"\n")
    i = 0
    while i < len(lines):
        ln = lines[i]
        i += 1
        if any(p.match(ln) for p in _SKIP):
            continue
        for rx, kind, (gf, gl, gn, ga) in _P:
            m = rx.match(ln)
            if m:
                f = m.group(gf) if gf else b""
                l = int(m.group(gl)) if gl else 0
                n = m.group(gn) if gn else b""
                a = m.group(ga) if ga else b""
                if kind == "using-bad-version":
                    a = None        # the message does not echo the argument
                out.append((kind, f, l, n, a))
                break
        else:
            bad.append(ln)
    return out, bad


def parse_model_diags(s):
    out = []
    if s == "-":
        return out
    for d in s.split(";"):
        k, f, l, n, a = d.split(":")
        out.append((k, unhx(f), int(l), unhx(n), unhx(a)))
    return out


def diags_equal(model, real):
    if len(model) != len(real):
        return False
    for m, r in zip(model, real):
        if m[:4] != r[:4]:
            return False
        if r[4] is not None and m[4] != r[4]:
            return False
    return True


def parse_answer(ans):
    d = {}
    for w in ans.split(" "):
        k, _, v = w.partition("=")
        d[k] = v
    return d


def strip_version(out):
    """drop the first line `# Uncrustify-…` of a dump"""
    i = out.find(b"\n")
    return out[i + 1:] if out.startswith(b"# ") and i >= 0 else out


def minimal_of(full, baseline):
    """the lines of a full dump that the minimal dump keeps: option lines differing from the baseline
    (= default) dump, everything after the option block"""
    fl, bl = full.split(b"\n"), baseline.split(b"\n")
    nopt = len(bl) - 3          # option lines, then trailer (2 lines) and the final ""
    out = [a for a, b in zip(fl[:nopt], bl[:nopt]) if a != b] + fl[nopt:]
    return b"\n".join(out)


class Model:
    def __init__(self):
        pass

    def run(self, cases, op="config.run"):
        lines = [c.request(op) for c in cases]
        ans = common.run_driver(lines)
        if len(ans) != len(lines):
            raise RuntimeError("uncdrv answered %d of %d requests" % (len(ans), len(lines)))
        return [parse_answer(a) for a in ans]


def compare(ctx, case, ans, real, baseline, what, full=False):
    """one correspondence case; returns None when equal, else a description"""
    rc, out, err, _ = real
    if rc is None or rc < 0:
        return "real binary %s" % ("timed out" if rc is None else "died with signal %d" % -rc)
    if "exit" not in ans:
        return "model answered %r" % ans
    mexit = 0 if ans["exit"] == "-" else int(ans["exit"])
    if mexit != rc:
        return "exit status: model %d, real %d (stderr %r)" % (mexit, rc, err[-300:])
    rd, bad = parse_stderr(err)
    if bad:
        return "stderr line not understood: %r" % bad[:2]
    md = parse_model_diags(ans["diags"])
    if not diags_equal(md, rd):
        k = next((i for i, (a, b) in enumerate(zip(md, rd)) if a[:4] != b[:4] or (b[4] is not None and a[4] != b[4])), min(len(md), len(rd)))
        return "diagnostics differ at #%d: model %r real %r (model %d, real %d)" % (
            k, md[k] if k < len(md) else None, rd[k] if k < len(rd) else None, len(md), len(rd))
    if rc == 78:
        names = re.findall(rb"The option '(\w+)'", out)
        mn = [] if ans["toobig"] == "-" else [unhx(x) for x in ans["toobig"].split(",")]
        if names != mn:
            return "nl_max guard names: model %r real %r" % (mn, names)
        return None
    if rc != 0:
        return None
    body = strip_version(out)
    msave = unhx(ans["save"])
    want = body if full else minimal_of(body, baseline)
    if msave != want:
        ml, rl = msave.split(b"\n"), want.split(b"\n")
        k = next((i for i, (a, b) in enumerate(zip(ml, rl)) if a != b), min(len(ml), len(rl)))
        return "dump differs at line %d: model %r real %r" % (k, ml[k] if k < len(ml) else None, rl[k] if k < len(rl) else None)
    return None


# ---------------------------------------------------------------------------
# generators
# ---------------------------------------------------------------------------

SEPS = [b"=", b" ", b" = ", b"\t", b",", b" , ", b"\t=\t", b"==", b" \t ", b"= "]
STR_SPECIALS = [b" ", b'"', b"\\", b"#", b"=", b",", b"'", b"`", b".*", b"[a-z]+", b"(x|y)?", b"^$", b"\t", b"{2,3}", b"\\.h",
                b"\\\\", b"\\\"", b"a b", b"//"]


def rand_case(rng, name):
    mode = rng.randrange(4)
    if mode == 0:
        return name
    if mode == 1:
        return name.upper()
    return bytes(c ^ 0x20 if (97 <= c <= 122 and rng.random() < 0.5) else c for c in name)


def rand_string_value(rng):
    n = rng.choice([0, 1, 2, 3, 5, 9])
    parts = []
    for _ in range(n):
        if rng.random() < 0.5:
            parts.append(rng.choice(STR_SPECIALS))
        else:
            parts.append(bytes(rng.randrange(33, 127) for _ in range(rng.randrange(1, 5))))
    return b"".join(parts)


def quote_value(rng, v):
    """a spelling of the argument `v` in a config line (always readable back as exactly v)"""
    q = rng.choice([b'"', b"'", b"`"])
    body = b""
    for c in v:
        ch = bytes([c])
        if ch == b"\\" or ch == q:
            body += b"\\" + ch
        elif rng.random() < 0.05:
            body += b"\\" + ch
        else:
            body += ch
    return q + body + q


class Tables:
    def __init__(self, tabs):
        self.opts = tabs["options"]
        self.by_name = {o["name"]: o for o in self.opts}
        self.by_kind = {}
        for o in self.opts:
            self.by_kind.setdefault(o["kind"], []).append(o)
        self.enums = tabs["enums"]
        self.guarded = tabs["guarded"]
        self.langs = tabs["languages"]
        self.toks = tabs["tokens"]
        self.compat = tabs["compat"][0]

    def value_classes(self, o):
        """names of the value classes for option o: (class name, valid?)"""
        k = o["kind"]
        if k == "bool":
            return (["sp:%s" % t for t, _ in self.enums["bool"]["spellings"]] +
                    ["ref", "ref~", "ref!", "ref-", "bad:word", "bad:num", "bad:empty", "bad:reftype", "bad:dangling",
                     "bad:dangling~", "bad:tilde"])
        if k in ("iarf", "lineend", "tokenpos"):
            return (["sp:%s" % t for t, _ in self.enums[k]["spellings"]] +
                    ["ref", "bad:word", "bad:num", "bad:empty", "bad:reftype", "bad:dangling", "bad:-ref"])
        if k in ("num", "unum"):
            cl = ["interior", "zero", "plus", "spaces", "leadzero", "ref", "-ref", "bad:word", "bad:trail", "bad:hex",
                  "bad:reftype", "bad:dangling", "bad:-dangling", "bad:minus", "empty", "huge", "-huge", "long", "float"]
            if o["bounded"]:
                cl += ["lo", "hi", "bad:lo-1", "bad:hi+1", "bad:refrange"]
            else:
                cl += ["int-min", "int-max", "int-max+1"]
            return cl
        return ["str:empty", "str:plain", "str:special", "str:special", "str:unquoted", "str:name-of-option", "str:number"]

    def make_value(self, rng, o, cls):
        """-> the argument text (bytes) before quoting, and whether to force quoting"""
        k = o["kind"]
        if cls.startswith("sp:"):
            return rand_case(rng, cls[3:].encode()), False
        if cls in ("ref", "ref~", "ref!", "ref-", "-ref"):
            pool = [p for p in self.by_kind[k if k not in ("num", "unum") else rng.choice(["num", "unum"])] if p is not o]
            r = rng.choice(pool or [o])
            pre = {"ref~": b"~", "ref!": b"!", "ref-": b"-", "-ref": b"-"}.get(cls, b"")
            return pre + rand_case(rng, r["name"].encode()), False
        if cls == "bad:-ref":
            return b"-" + rng.choice(self.by_kind[k])["name"].encode(), False
        if cls == "bad:refrange":
            # a numeric option whose default is outside this option's range, if any
            pool = [p for p in self.by_kind["num"] + self.by_kind["unum"]
                    if not (o["lo"] <= p["dflt"][1] <= o["hi"])] or [p for p in self.by_kind["unum"] if p["hi"] > o["hi"]]
            if not pool:
                return b"nosuch_option", False
            return rng.choice(pool)["name"].encode(), False
        if cls == "bad:reftype":
            other = rng.choice([x for x in ("bool", "iarf", "tokenpos", "num", "unum", "string", "lineend")
                                if x != k and not (k in ("num", "unum") and x in ("num", "unum"))])
            return rng.choice(self.by_kind[other])["name"].encode(), False
        if cls in ("bad:dangling", "bad:dangling~", "bad:-dangling"):
            pre = {"bad:dangling~": b"~", "bad:-dangling": b"-"}.get(cls, b"")
            return pre + rng.choice([b"nosuch_option", b"indent_colums", b"xyz", b"sp_", b"truee"]), False
        if cls == "bad:tilde":
            return rng.choice([b"~", b"!", b"-", b"~~true", b"~true"]), False
        if cls == "bad:word":
            return rng.choice([b"maybe", b"lead_break_x", b"forced", b"ignor", b"truefalse", b"lf+cr", b"?", b"*"]), False
        if cls == "bad:num":
            return rng.choice([b"2", b"3", b"17", b"-1", b"00", b"01"]), False
        if cls in ("bad:empty", "empty", "str:empty"):
            return b"", True
        if cls == "interior":
            if o["bounded"]:
                return str(rng.randint(o["lo"], o["hi"])).encode(), False
            return str(rng.randint(-50, 200)).encode(), False
        if cls == "zero":
            return b"0", False
        if cls == "plus":
            return b"+" + str(rng.randint(max(o["lo"], 0), o["hi"]) if o["bounded"] else rng.randint(0, 99)).encode(), False
        if cls == "spaces":
            return rng.choice([b" ", b"\t ", b"  "]) + str(rng.randint(max(o["lo"], 0), o["hi"]) if o["bounded"] else 5).encode(), True
        if cls == "leadzero":
            return b"00" + str(rng.randint(max(o["lo"], 0), o["hi"]) if o["bounded"] else 7).encode(), False
        if cls == "lo":
            return str(o["lo"]).encode(), False
        if cls == "hi":
            return str(o["hi"]).encode(), False
        if cls == "bad:lo-1":
            return str(o["lo"] - 1).encode(), False
        if cls == "bad:hi+1":
            return str(o["hi"] + 1).encode(), False
        if cls == "bad:trail":
            return rng.choice([b"7x", b"1 ", b"3.5", b"4;", b"1e3", b"5-"]), True
        if cls == "bad:hex":
            return rng.choice([b"0x10", b"0b1", b"1_0"]), False
        if cls == "bad:minus":
            return rng.choice([b"-", b"+", b"--1", b"+-1", b"- 1"]), True
        if cls == "huge":
            return rng.choice([b"99999999999", b"9223372036854775807", b"9223372036854775808", b"4294967296", b"4294967295",
                               b"123456789012345678901234567890"]), False
        if cls == "-huge":
            return rng.choice([b"-99999999999", b"-9223372036854775808", b"-9223372036854775809", b"-4294967296",
                               b"-2147483649"]), False
        if cls == "long":
            return b"0" * rng.choice([30, 300]) + b"1", False
        if cls == "float":
            return rng.choice([b"1.0", b".5", b"1e1"]), False
        if cls == "int-min":
            return b"-2147483648", False
        if cls == "int-max":
            return b"2147483647", False
        if cls == "int-max+1":
            return b"2147483648", False
        if cls == "str:plain":
            return bytes(rng.choice(b"abcdefghijklmnopqrstuvwxyzABCXYZ0123456789_-./") for _ in range(rng.randrange(1, 12))), rng.random() < 0.5
        if cls == "str:special":
            return rand_string_value(rng), True
        if cls == "str:unquoted":
            # backslash-escaped separators in an unquoted word
            return rng.choice([b"a b", b"x=y", b"p,q", b"#c", b"a\\b"]), None
        if cls == "str:name-of-option":
            return rng.choice(self.opts)["name"].encode(), False
        if cls == "str:number":
            return rng.choice([b"12", b"-3", b"true"]), False
        raise ValueError(cls)

    def option_line(self, rng, o, cls):
        v, q = self.make_value(rng, o, cls)
        if q is None:       # unquoted with backslash escapes
            arg = b"".join((b"\\" + bytes([c])) if bytes([c]) in b" =,#\\\"'`\t" else bytes([c]) for c in v)
        elif q or v == b"" or any(bytes([c]) in b" \t=,#\\\"'`\r\v\f" for c in v) or rng.random() < 0.15:
            arg = quote_value(rng, v)
        else:
            arg = v
        name = rand_case(rng, o["name"].encode())
        lead = rng.choice([b"", b"", b"", b" ", b"\t", b"  "])
        tail = rng.choice([b"", b"", b"", b" ", b" # comment", b"\t#x=1", b" extra", b" , extra more"])
        if tail and not tail.startswith((b" ", b"\t")):
            tail = b" " + tail
        return lead + name + rng.choice(SEPS) + arg + tail

    # -- directives ------------------------------------------------------------
    def word(self, rng, special=0.25):
        if rng.random() < special:
            return rng.choice([b"a b", b"x#y", b"q\"r", b"back\\slash", b"it's", b"`tick`", b"k=v", b"c,d", b"#lead", b"",
                               b"tab\there", b"UPPER lower", b"\\", b"\"", b"a  b", b"x\\\"y"])
        return bytes(rng.choice(b"abcdefghijklmnopqrstuvwxyzABCDEFGHIJKLMNOPQRSTUVWXYZ_0123456789")
                     for _ in range(rng.randrange(1, 10)))

    def arg(self, rng, w):
        if w == b"" or any(bytes([c]) in b" \t=,#\\\"'`\r\v\f" for c in w) or rng.random() < 0.1:
            return quote_value(rng, w)
        return w

    def directive_line(self, rng, includes=()):
        k = rng.choice(["type", "type", "set", "set", "macro-open", "macro-close", "macro-else", "file_ext", "file_ext",
                        "using", "compat", "include", "bad-set", "bad-ext", "few", "comment", "blank", "unknown"])
        sp = lambda: rng.choice([b" ", b"  ", b"\t", b" = ", b","])
        cs = lambda s: rand_case(rng, s)
        if k == "type":
            return cs(b"type") + b"".join(sp() + self.arg(rng, self.word(rng)) for _ in range(rng.randrange(1, 4)))
        if k == "set":
            tok = rng.choice(self.toks[1:]).encode()
            return cs(b"set") + sp() + cs(tok) + b"".join(sp() + self.arg(rng, self.word(rng)) for _ in range(rng.randrange(1, 4)))
        if k in ("macro-open", "macro-close", "macro-else"):
            return cs(k.encode()) + sp() + self.arg(rng, self.word(rng)) + rng.choice([b"", b" ignored"])
        if k == "file_ext":
            lang = rng.choice(self.langs)[0].encode()
            return cs(b"file_ext") + sp() + cs(lang) + b"".join(
                sp() + self.arg(rng, rng.choice([b".x", b".yy", b".c", b".h++", b".my ext", b".q#", b".", b".Z"]))
                for _ in range(rng.randrange(1, 4)))
        if k == "using":
            return b"using " + rng.choice([b"0.68", b"0.69", b"0.70", b"0.71", b"0.73", b"0.74", b"0.75", b"0.76", b"0.77", b"0.78",
                                           b"0.79", b"0.80", b"0.75.1", b"1.0", b"0.0", b"0", b"a.b", b"1.2.3.4", b"0.x", b"99999999999.1",
                                           b"0.76junk", b"\"0.7", b"0..77", b"", b" 0.70"])
        if k == "compat":
            thr, old, new = rng.choice(self.compat)
            val = rng.choice([b"add", b"force", b"1", b"3", b"true", b"nonsense", b"ignore"])
            return cs(old.encode()) + sp() + val
        if k == "include":
            if includes and rng.random() < 0.8:
                return b"include " + self.arg(rng, rng.choice(list(includes)))
            return rng.choice([b"include \"\"", b"include"])
        if k == "bad-set":
            return b"set " + rng.choice([b"NOPE", b"NONE", b"", b"TYPEX"]) + b" foo bar"
        if k == "bad-ext":
            return b"file_ext " + rng.choice([b"SQL", b"nolang", b"C++", b""]) + b" .a .b"
        if k == "few":
            return rng.choice([b"set BOOL", b"set", b"file_ext CPP", b"type", b"macro-open", b"include", b"using", b"indent_columns",
                               b"nosuch"])
        if k == "comment":
            return rng.choice([b"# comment", b"   # indented comment with = and \"", b"#", b"\t#\xc3\xa9 non-ascii in a comment"])
        if k == "blank":
            return rng.choice([b"", b"   ", b"\t", b" , = ", b"\r"])
        return rng.choice([b"nosuch_option = 1", b"indent_colums 4", b"sp_arith_ = add", b"= 5", b"\"quoted name\" = 1",
                           b"Type_ foo", b"custom type X"])

    def mixed_config(self, rng, nlines, valid_bias=0.7, includes=()):
        """random whole configuration: option lines (random options / classes) and directives"""
        lines = []
        for _ in range(nlines):
            if rng.random() < 0.25:
                lines.append(self.directive_line(rng, includes))
            else:
                o = rng.choice(self.opts)
                cl = self.value_classes(o)
                good = [c for c in cl if not c.startswith("bad:")]
                bad = [c for c in cl if c.startswith("bad:")]
                c = rng.choice(good) if (rng.random() < valid_bias or not bad) else rng.choice(bad)
                lines.append(self.option_line(rng, o, c))
        return lines

    def all_options_config(self, rng, valid_bias, seed_rot=0):
        """one line per option (every option of the registry is touched); classes rotate with seed_rot"""
        lines = []
        opts = list(self.opts)
        rng.shuffle(opts)
        hist = {}
        for n, o in enumerate(opts):
            cl = self.value_classes(o)
            good = [c for c in cl if not c.startswith("bad:")]
            bad = [c for c in cl if c.startswith("bad:")]
            pool = good if (rng.random() < valid_bias or not bad) else bad
            c = pool[(n + seed_rot + rng.randrange(2)) % len(pool)]
            hist[c.split(":")[0] + ":" + o["kind"]] = hist.get(c.split(":")[0] + ":" + o["kind"], 0) + 1
            lines.append(self.option_line(rng, o, c))
        return lines, hist


def join_lines(rng, lines):
    """file text: LF line ends, sometimes CRLF on a line, sometimes no final newline"""
    out = b""
    for i, ln in enumerate(lines):
        out += ln
        if i < len(lines) - 1 or rng.random() < 0.8:
            out += b"\r\n" if rng.random() < 0.03 else b"\n"
    return out
