"""shared by props/c04.py (correspondence model = binary) and props/c01.py (types unchanged): the universe of `change_int_types()`

Universe: every sequence of 1..3 words over {short long signed unsigned int char double const static} that holds one of the four
keywords, a seeded sample of longer ones, and the contexts in which the neighbour search matters (casts, parameters, sizeof,
preprocessor lines directly before / after a declaration).  Settings: the eight iarf options x {ignore, add, remove} and
mod_int_prefer_int_on_left: every single option, every pair of the two options of one keyword, and seeded random full settings.
"""
import itertools
import os
import random
import subprocess

from . import common

ALPHA = ["short", "long", "signed", "unsigned", "int", "char", "double", "const", "static"]
KEYS = ("short", "long", "signed", "unsigned")
OPTS = ["mod_int_short", "mod_short_int", "mod_int_long", "mod_long_int", "mod_int_signed", "mod_signed_int", "mod_int_unsigned", "mod_unsigned_int"]
CODE = {"ignore": 0, "add": 1, "remove": 2, "force": 3}


def universe(rng, extra=700):
    """list of lines; each line = list of (token, in_preproc)"""
    seqs = []
    for n in (1, 2, 3):
        for s in itertools.product(ALPHA, repeat=n):
            if any(w in KEYS for w in s):
                seqs.append(list(s))
    r = random.Random("intty-universe")
    for _ in range(extra):
        s = [r.choice(ALPHA) for _ in range(r.choice([4, 4, 5]))]
        if any(w in KEYS for w in s):
            seqs.append(s)
    lines = []
    for k, s in enumerate(seqs):
        lines.append([(w, False) for w in s] + [("v%d" % k, False), (";", False)])
    n = len(lines)
    ctx_lines = []
    for k, s in enumerate(seqs[:400]):
        j = n + 3 * k
        ctx_lines.append([("int", False), ("c%d" % j, False), ("=", False), ("(", False)] + [(w, False) for w in s] + [(")", False), ("1", False), (";", False)])
        ctx_lines.append([("void", False), ("f%d" % j, False), ("(", False)] + [(w, False) for w in s] + [("a", False), (",", False), ("int", False), ("b", False), (")", False), (";", False)])
        ctx_lines.append([("int", False), ("s%d" % j, False), ("=", False), ("sizeof", False), ("(", False)] + [(w, False) for w in s] + [(")", False), (";", False)])
    # preprocessor lines: a macro ending in a keyword, followed by a declaration starting with int (and the other way round)
    pp = []
    for k, key in enumerate(KEYS):
        pp.append(("#define T%d %s" % (k, key), [("#", True), ("define", True), ("T%d" % k, True), (key, True)]))
        pp.append(("int p%d;" % k, [("int", False), ("p%d" % k, False), (";", False)]))
        pp.append(("#define I%d int" % k, [("#", True), ("define", True), ("I%d" % k, True), ("int", True)]))
        pp.append(("%s q%d;" % (key, k), [(key, False), ("q%d" % k, False), (";", False)]))
        pp.append(("#define C%d static %s const" % (k, key), [("#", True), ("define", True), ("C%d" % k, True), ("static", True), (key, True), ("const", True)]))
        pp.append(("int r%d;" % k, [("int", False), ("r%d" % k, False), (";", False)]))
    return lines + ctx_lines, pp


def settings(rng, nrandom=60):
    out = []
    for o in OPTS:
        for v in ("add", "remove"):
            for pl in ("true", "false"):
                out.append({o: v, "mod_int_prefer_int_on_left": pl})
    for a, b in zip(OPTS[0::2], OPTS[1::2]):
        for va in ("add", "remove"):
            for vb in ("add", "remove"):
                for pl in ("true", "false"):
                    out.append({a: va, b: vb, "mod_int_prefer_int_on_left": pl})
    for _ in range(nrandom):
        s = {o: rng.choice(["ignore", "add", "remove", "force"]) for o in OPTS}
        s["mod_int_prefer_int_on_left"] = rng.choice(["true", "false"])
        out.append(s)
    return out


def digits(s):
    return "".join(str(CODE[s.get(o, "ignore")]) for o in OPTS) + ("1" if s.get("mod_int_prefer_int_on_left", "true") == "true" else "0")


def render(lines, pp):
    """the C text: one line per entry; returns (text, list of token lists in file order)"""
    out, toks = [], []
    for ln in lines:
        out.append(" ".join(w for w, _ in ln))
        toks.append(ln)
    for txt, tk in pp:
        out.append(txt)
        toks.append(tk)
    return "\n".join(out) + "\n", toks


def run_real(exe, text, setting, workdir, tag):
    p = os.path.join(workdir, "intty_%s.c" % tag)
    c = os.path.join(workdir, "intty_%s.cfg" % tag)
    with open(p, "w") as f:
        f.write(text)
    with open(c, "w") as f:
        f.write("".join("%s=%s\n" % kv for kv in setting.items()) + "nl_max=0\n")
    r = subprocess.run([exe, "-q", "-c", c, "-l", "C", "-f", p], stdout=subprocess.PIPE, stderr=subprocess.PIPE, timeout=120)
    return r.returncode, r.stdout.decode("latin1")


def model_file(toks, setting):
    """the whole file through the model as ONE token list (the state `int_keyword` and the neighbour search do not stop at line ends);
    returns the output tokens per line, cut at the line's last input token"""
    flat = []
    for ln in toks:
        flat += ["%s%s" % (w, "@" if p else "") for w, p in ln]
    ans = common.run_driver(["intty.run %s %s" % (digits(setting), " ".join(flat))])[0]
    return ans.split()
