"""Shared machinery for the properties that look at whole formatter runs (C02-C08, C17-C20):
run the hook build on (config, input) jobs in parallel, tie every run to the Render/AddChar model."""
import os
import shutil
import tempfile

from . import common, unc


class Job:
    __slots__ = ("name", "cfg", "inp", "lang", "meta", "res", "vals", "hdr", "chunks", "outs")

    def __init__(self, name, cfg, inp, lang=None, meta=None):
        self.name, self.cfg, self.inp, self.lang, self.meta = name, cfg, inp, lang, meta or {}
        self.res = None


class Scratch:
    def __init__(self, prefix):
        self.dir = tempfile.mkdtemp(prefix=prefix + "-", dir=common.CACHE)
        self.n = 0

    def write(self, data, suffix="", name=None):
        self.n += 1
        p = os.path.join(self.dir, name or ("f%d%s" % (self.n, suffix)))
        with open(p, "wb") as f:
            f.write(data if isinstance(data, bytes) else data.encode())
        return p

    def cfg(self, base, extra):
        """config file = base config text (if any) + overriding lines; written next to nothing it includes"""
        txt = ""
        if base:
            txt = open(base, "rb").read().decode("latin1")
            # `include` lines are resolved relative to the config's directory: make them absolute
            bdir = os.path.dirname(os.path.abspath(base))
            out = []
            for ln in txt.split("\n"):
                w = ln.split()
                if len(w) >= 2 and w[0] == "include" and not os.path.isabs(w[1].strip('"')):
                    ln = 'include "%s"' % os.path.join(bdir, w[1].strip('"'))
                out.append(ln)
            txt = "\n".join(out)
        if not txt.endswith("\n"):
            txt += "\n"
        for k, v in extra.items():
            txt += "%s = %s\n" % (k, v)
        return self.write(txt, ".cfg")

    def close(self):
        shutil.rmtree(self.dir, ignore_errors=True)


def run_jobs(exe, jobs, hooks=True, timeout=60):
    def one(j):
        j.res = unc.run(exe, j.cfg, j.inp, j.lang, hooks=hooks, timeout=timeout)
        if j.res["rc"] == "timeout" and timeout < 30:
            # a short timeout on a loaded machine is not a hang: confirm with a generous one before any check calls it one
            j.res = unc.run(exe, j.cfg, j.inp, j.lang, hooks=hooks, timeout=max(30, 4 * timeout))
        j.vals = unc.cfg_values(exe, j.cfg)
        if hooks and j.res["rc"] == 0:
            j.hdr, j.chunks = unc.dump(j.res["trace"], "P1")
            j.outs = unc.out_records(j.res["trace"])
        else:
            j.hdr, j.chunks, j.outs = None, [], []
        return j
    return common.pmap(one, jobs)


def decode_out(job):
    """code points of the real output (BOM dropped) using the model's own decoder is avoided here:
    outputs are compared at byte level via unicode.emit; for ASCII/UTF-8 inputs decode directly."""
    raw = job.res["out"]
    enc = int(job.hdr.get("enc", "0"))
    bom = job.hdr.get("bom", "0") == "1"
    if enc in (0, 1):
        return list(raw)
    if enc == 2:
        if bom and raw[:3] == b"\xef\xbb\xbf":
            raw = raw[3:]
        return _utf8_cps(raw)
    be = enc == 4
    if bom:
        raw = raw[2:]
    ws = [(raw[i] << 8 | raw[i + 1]) if be else (raw[i] | raw[i + 1] << 8) for i in range(0, len(raw) - 1, 2)]
    out, i = [], 0
    while i < len(ws):
        w = ws[i]
        if 0xd800 <= w < 0xdc00 and i + 1 < len(ws):
            out.append(0x10000 + ((w & 0x3ff) << 10) + (ws[i + 1] & 0x3ff))
            i += 2
        else:
            out.append(w)
            i += 1
    return out


def _utf8_cps(raw):
    out, i, n = [], 0, len(raw)
    while i < n:
        b = raw[i]
        if b < 0x80:
            out.append(b)
            i += 1
            continue
        if b >> 5 == 6:
            cnt, ch = 1, b & 31
        elif b >> 4 == 14:
            cnt, ch = 2, b & 15
        elif b >> 3 == 30:
            cnt, ch = 3, b & 7
        elif b >> 2 == 62:
            cnt, ch = 4, b & 3
        elif b >> 1 == 126:
            cnt, ch = 5, b & 1
        else:
            out.append(b)
            i += 1
            continue
        for k in range(1, cnt + 1):
            if i + k < n:
                ch = ch << 6 | raw[i + k] & 63
        out.append(ch)
        i += cnt + 1
    return out


def hexl(l):
    return ".".join("%x" % x for x in l) if l else "-"


def render_check(ctx, jobs, label="render", request="render.check"):
    """Tie: the Render model, fed with the P1 dump and the recorded comment ops of each run, must reproduce
    the recorded add_char op sequence AND the bytes the real program wrote.  Returns the jobs that agree."""
    good = [j for j in jobs if j.res["rc"] == 0 and j.hdr is not None
            and j.vals.get("debug_print_version", "false") == "false"]
    lines = []
    for j in good:
        for ln in j.chunks + j.outs:
            lines.append("+" + ln)
        lines.append(request + " " + " ".join(unc.render_cfg_words(j.vals, j.hdr)))
    ans = common.run_driver(lines) if lines else []
    ok_jobs, bad = [], 0
    for j, a in zip(good, ans):
        ctx.case(label + ":" + j.name)
        real = hexl(decode_out(j))
        if a.startswith("ok ") and a[3:] == real:
            ok_jobs.append(j)
            continue
        bad += 1
        if bad <= 3:
            ctx.violation("%s: model of output_text()/add_char() does not reproduce the run %s (%s)"
                          % (label, j.name, a[:300] if not a.startswith("ok ") else "op sequence equal but bytes differ"),
                          {"config": j.cfg, "input": j.inp, "lang": j.lang, "meta": j.meta,
                           "driver_answer": a[:600], "cmd": "UNC_VERIF_OUT=trace uncrustify -q -c <config> -f <input>"},
                          key=None, found_input=False)
    ctx.oblige("%s correspondence: Render/AddChar model reproduces op sequence and bytes of %d runs" % (label, len(good)),
               bad == 0 and len(ans) == len(good), "corr", "%d mismatches" % bad)
    return ok_jobs


def reencode_terminators(data, mode, rng=None):
    """re-encode the line terminators of `data` (bytes): mode in lf/crlf/cr/mixed"""
    lines = data.replace(b"\r\n", b"\n").replace(b"\r", b"\n").split(b"\n")
    t = {"lf": b"\n", "crlf": b"\r\n", "cr": b"\r"}
    out = bytearray()
    for i, ln in enumerate(lines):
        out += ln
        if i + 1 < len(lines):
            if mode == "mixed":
                k = rng.choice(["lf", "crlf", "cr"])
                # a CR terminator directly followed by an empty line ended by LF would read as one CRLF
                if k == "cr" and i + 1 < len(lines) and lines[i + 1] == b"":
                    k = "crlf"
                out += t[k]
            else:
                out += t[mode]
    return bytes(out)
