"""Running the real binary (optionally with hooks) and reading its hook records."""
import hashlib
import os
import re
import subprocess
import tempfile

from . import common

_cfg_cache = {}


def test_pairs(suites=None):
    """(number, config path, input path, lang or None) from tests/*.test of the repository."""
    tdir = os.path.join(common.REPO, "tests")
    out = []
    for f in sorted(os.listdir(tdir)):
        if not f.endswith(".test"):
            continue
        if suites and f[:-5] not in suites:
            continue
        for ln in open(os.path.join(tdir, f), errors="replace"):
            ln = ln.strip()
            if not ln or ln.startswith("#"):
                continue
            w = ln.split()
            if len(w) < 3:
                continue
            num = w[0].rstrip("!")
            cfg = os.path.join(tdir, "config", w[1])
            inp = os.path.join(tdir, "input", w[2])
            lang = w[3] if len(w) > 3 else None
            if os.path.exists(cfg) and os.path.exists(inp):
                out.append((f[:-5] + ":" + num, cfg, inp, lang))
    return out


def cfg_values(exe, cfg):
    """effective option values of a config file, via --update-config (cached per content)."""
    key = hashlib.sha1(open(cfg, "rb").read()).hexdigest() if cfg else "-"
    if key in _cfg_cache:
        return _cfg_cache[key]
    cmd = [exe, "-c", cfg or "/dev/null", "--update-config"]
    r = subprocess.run(cmd, stdout=subprocess.PIPE, stderr=subprocess.PIPE, cwd=os.path.dirname(cfg) if cfg else None)
    vals = {}
    for ln in r.stdout.decode("latin1").split("\n"):
        m = re.match(r"^([a-z_0-9]+)\s*=\s*(.*?)\s*(#.*)?$", ln)
        if m:
            v = m.group(2).strip()
            if len(v) >= 2 and v[0] == '"' and v[-1] == '"':
                v = v[1:-1]
            vals[m.group(1)] = v
    _cfg_cache[key] = vals
    return vals


def run(exe, cfg, path, lang=None, hooks=False, extra=(), timeout=60, stdin=None, env=None):
    """returns dict(rc, out, err, trace) ; trace = list of hook record lines (if hooks)"""
    cmd = [exe, "-q", "-c", cfg, "-f", path] + (["-l", lang] if lang else []) + list(extra)
    e = dict(os.environ if env is None else env)
    tf = None
    if hooks:
        fd, tf = tempfile.mkstemp(prefix="hk-", dir=common.CACHE)
        os.close(fd)
        e["UNC_VERIF_OUT"] = tf
    try:
        try:
            r = subprocess.run(cmd, stdout=subprocess.PIPE, stderr=subprocess.PIPE, env=e, timeout=timeout, input=stdin)
            res = {"rc": r.returncode, "out": r.stdout, "err": r.stderr}
        except subprocess.TimeoutExpired:
            res = {"rc": "timeout", "out": b"", "err": b""}
        res["trace"] = open(tf, errors="replace").read().split("\n") if tf else []
    finally:
        if tf and os.path.exists(tf):
            os.unlink(tf)
    return res


def dump(trace, point):
    """(header fields, chunk lines) of DUMP point=<point> (first occurrence)"""
    hdr, lines, on = None, [], False
    for ln in trace:
        if ln.startswith("DUMP point=" + point + " "):
            hdr, on, lines = fields(ln), True, []
        elif on and ln.startswith("ENDDUMP"):
            return hdr, lines
        elif on:
            lines.append(ln)
    return hdr, lines if hdr else []


def fields(ln):
    d = {}
    for w in ln.split():
        if "=" in w:
            k, v = w.split("=", 1)
            d[k] = v
    return d


def out_records(trace):
    """the OUTBEGIN..OUTEND lines"""
    res, on = [], False
    for ln in trace:
        if ln.startswith("OUTBEGIN"):
            on = True
        if on:
            res.append(ln)
        if ln.startswith("OUTEND"):
            break
    return res


def parse_chunk(ln):
    f = fields(ln)
    x = f.get("x", "-")
    f["txt"] = [] if x == "-" else [int(h, 16) for h in x.split(".")]
    for k in ("i", "ol", "oc", "oe", "ps", "col", "ci", "nl", "nc", "lv", "bl", "pl"):
        f[k] = int(f.get(k, 0))
    f["fl"] = int(f.get("fl", "0"), 16)
    return f


def bool01(v):
    return "1" if str(v).lower() in ("true", "1", "t", "y", "yes") else "0"


def render_cfg_words(vals, hdr):
    """fields of the driver's render.check / addchar.run request from option values + dump header"""
    return ["nl=" + hdr.get("newline", "a"), "tab=" + vals.get("output_tab_size", "8"),
            "iwt=" + vals.get("indent_with_tabs", "1"), "ppiwt=" + vals.get("pp_indent_with_tabs", "-1"),
            "inpp=" + hdr.get("inpp", "0"), "awt=" + bool01(vals.get("align_with_tabs", "false")),
            "akt=" + bool01(vals.get("align_keep_tabs", "false")), "spnc=" + vals.get("sp_before_nl_cont", "add"),
            "ftad=" + bool01(vals.get("force_tab_after_define", "false")),
            "cts=" + bool01(vals.get("cmt_convert_tab_to_spaces", "false"))]
