"""strace-based crash / fault scheduler for the in-place rewriting protocol (C13, C14).

No LD_PRELOAD: glibc's internal write/open calls are not interposable.  Every run of the real binary
happens under `strace -f -y -xx`, optionally with `-e inject=<syscall>:error=<E>:when=<n>` (the n-th
call of that syscall fails without being executed) or `:signal=SIGKILL:when=<n>` (the process is
killed on ENTERING the n-th call, i.e. the call is not executed).

The file-related system calls that touch the tracked directory are mapped onto the four roles of
the Lean model (`target`, `tmp` = <name>.uncrustify, `bak` = <name>.unc-backup~,
`md5` = <name>.unc-backup.md5~, plus `dir`) and aligned with the model's trace of abstract calls
(`R:<role>`, `cmp`, `mkdir`, `creat:<role>`, `write:<role>:<hex>`, `rename:a:b`, `unlink:<role>`).
"""
import hashlib
import os
import re
import shutil
import subprocess

TRACE_SET = ("open,openat,creat,stat,lstat,fstat,newfstatat,statx,read,pread64,write,pwrite64,close,rename,renameat,"
             "renameat2,unlink,unlinkat,mkdir,mkdirat,utime,utimes,utimensat,truncate,ftruncate,fsync,fdatasync,"
             "lseek,link,linkat,symlink,symlinkat,chmod,fchmod,fchmodat")
SUFFIX_ROLE = ((".unc-backup.md5~", "md5"), (".unc-backup~", "bak"), (".uncrustify", "tmp"))
ROLES = ("target", "tmp", "bak", "md5")

_line_re = re.compile(r"^(\d+)\s+(\w+)\((.*)\)\s+=\s+(-?\d+|\?)(?:<((?:\\x[0-9a-f]{2})*)>)?\s*(\w+)?")
_str_re = re.compile(r'"((?:\\x[0-9a-f]{2})*)"(\.\.\.)?')
_fd_re = re.compile(r"^(\d+|AT_FDCWD)<((?:\\x[0-9a-f]{2})*)>")


def unhex(s):
    return bytes(int(s[i + 2:i + 4], 16) for i in range(0, len(s), 4))


def hexl(bs):
    return ".".join("%x" % b for b in bs) if bs else "-"


def unhexl(s):
    if s == "~":
        return None
    if s == "-":
        return b""
    return bytes(int(x, 16) for x in s.split("."))


class Layout:
    """scratch/<cfg files…>, scratch/d/<name> (+ the three side files)"""

    def __init__(self, scratch, name="t.c", sub="d"):
        self.scratch = scratch
        self.sub = sub
        self.name = name
        self.dir = os.path.join(scratch, sub)
        self.rel = os.path.join(sub, name)

    def path(self, role):
        base = os.path.join(self.dir, self.name)
        return {"target": base, "tmp": base + ".uncrustify", "bak": base + ".unc-backup~",
                "md5": base + ".unc-backup.md5~"}[role]

    def role_of(self, p, cwd_abs=True):
        """role of a path as it appears in the trace (relative to scratch, or absolute)"""
        if not os.path.isabs(p):
            p = os.path.normpath(os.path.join(self.scratch, p))
        else:
            p = os.path.normpath(p)
        if p == os.path.normpath(self.dir):
            return "dir"
        if os.path.dirname(p) != os.path.normpath(self.dir):
            return None
        b = os.path.basename(p)
        if b == self.name:
            return "target"
        for suf, role in SUFFIX_ROLE:
            if b == self.name + suf:
                return role
        return "other:" + b

    def reset(self, state):
        """state: dict role -> bytes or None"""
        if os.path.isdir(self.dir):
            shutil.rmtree(self.dir)
        os.makedirs(self.dir)
        for r in ROLES:
            if state.get(r) is not None:
                with open(self.path(r), "wb") as f:
                    f.write(state[r])

    def snapshot(self):
        st = {}
        for r in ROLES:
            p = self.path(r)
            st[r] = open(p, "rb").read() if os.path.exists(p) else None
        extra = sorted(f for f in os.listdir(self.dir)
                       if os.path.join(self.dir, f) not in [self.path(r) for r in ROLES])
        st["extra"] = extra
        return st


def md5_line(content, name):
    return (hashlib.md5(content).hexdigest() + "  " + name + "\n").encode()


MD5_MARK = 0x100


def md5_described(md5_bytes, candidates, name):
    """canonical form of the md5 file = the driver's digest `hD c = 0x100 :: c` of the candidate content it
    describes, as a tuple of ints; () for an empty md5 file; ('?', raw) when it describes none of the
    candidates / is malformed."""
    if md5_bytes is None:
        return None
    if md5_bytes == b"":
        return ()
    for c in candidates:
        if c is not None and md5_bytes == md5_line(c, name):
            return (MD5_MARK,) + tuple(c)
    return ("?", md5_bytes)


def md5_model(content):
    """model-side md5 file for described content (None = no md5 file)"""
    return None if content is None else (MD5_MARK,) + tuple(content)


def hexl_ints(t):
    return ".".join("%x" % b for b in t) if t else "-"


def unhexl_ints(s):
    if s == "~":
        return None
    if s == "-":
        return ()
    return tuple(int(x, 16) for x in s.split("."))


class Event:
    __slots__ = ("name", "nth", "role", "role2", "kind", "ret", "err", "data", "fd", "line")

    def __repr__(self):
        return "%s#%d[%s %s%s ret=%s%s]" % (self.name, self.nth, self.kind, self.role,
                                            (">" + self.role2) if self.role2 else "", self.ret,
                                            (" " + self.err) if self.err else "")


def parse_trace(text, lay):
    """-> (events touching the tracked directory, exit: int | 'killed' | None)"""
    counts = {}
    evs = []
    fdmode = {}      # fd -> 'r' | 'w' for descriptors opened on tracked paths
    status = None
    for line in text.split("\n"):
        if "+++ exited with" in line:
            status = int(line.split("+++ exited with")[1].split()[0])
            continue
        if "+++ killed by" in line:
            status = "killed"
            continue
        m = _line_re.match(line)
        if not m:
            continue
        name, args, ret, retpath, err = m.group(2), m.group(3), m.group(4), m.group(5), m.group(6)
        counts[name] = counts.get(name, 0) + 1
        e = Event()
        e.name, e.nth, e.ret, e.err, e.line = name, counts[name], ret, (err if ret == "-1" else None), line
        e.role = e.role2 = e.kind = e.data = e.fd = None
        strs = [unhex(s.group(1)) for s in _str_re.finditer(args)]
        fdm = _fd_re.match(args)
        fdpath = unhex(fdm.group(2)).decode("utf-8", "replace") if fdm else None
        fdnum = fdm.group(1) if fdm else None
        if name in ("open", "openat", "creat"):
            if not strs:
                continue
            e.role = lay.role_of(strs[0].decode("utf-8", "replace"))
            wr = ("O_WRONLY" in args or "O_RDWR" in args or name == "creat")
            e.kind = "creat" if wr else "open_r"
            if e.role and ret not in ("-1", "?"):
                fdmode[ret] = "w" if wr else "r"
                e.fd = ret
        elif name in ("stat", "lstat", "newfstatat", "statx", "fstat"):
            if fdnum not in (None, "AT_FDCWD") and (not strs or strs[0] == b""):
                e.role = lay.role_of(fdpath)
                e.kind = "fstat_w" if fdmode.get(fdnum) == "w" else "fstat_r"
                e.fd = fdnum
            elif strs:
                e.role = lay.role_of(strs[0].decode("utf-8", "replace"))
                e.kind = "stat"
        elif name in ("read", "pread64", "lseek"):
            if fdpath is None:
                continue
            e.role = lay.role_of(fdpath)
            e.kind = "read"
            e.fd = fdnum
        elif name in ("write", "pwrite64", "fsync", "fdatasync", "ftruncate", "fchmod"):
            if fdpath is None:
                continue
            e.role = lay.role_of(fdpath)
            e.kind = "write" if name in ("write", "pwrite64") else "wmisc"
            e.fd = fdnum
            e.data = strs[0] if strs else b""
        elif name == "close":
            if fdpath is None:
                continue
            e.role = lay.role_of(fdpath)
            e.kind = "close_w" if fdmode.get(fdnum) == "w" else "close_r"
            e.fd = fdnum
            if ret == "0":
                fdmode.pop(fdnum, None)
        elif name in ("rename", "renameat", "renameat2", "link", "linkat", "symlink", "symlinkat"):
            if len(strs) < 2:
                continue
            e.role = lay.role_of(strs[0].decode("utf-8", "replace"))
            e.role2 = lay.role_of(strs[1].decode("utf-8", "replace"))
            e.kind = "rename" if name.startswith("rename") else "link"
            if e.role is None and e.role2 is not None:
                e.role = "outside"
        elif name in ("unlink", "unlinkat", "truncate", "chmod", "fchmodat"):
            if not strs:
                continue
            e.role = lay.role_of(strs[0].decode("utf-8", "replace"))
            e.kind = "unlink" if name.startswith("unlink") else "wmisc"
        elif name in ("mkdir", "mkdirat"):
            if not strs:
                continue
            e.role = lay.role_of(strs[0].decode("utf-8", "replace"))
            # a directory prefix of the tracked directory counts as `dir`, too
            if e.role is None:
                p = os.path.normpath(os.path.join(lay.scratch, strs[0].decode("utf-8", "replace")))
                if os.path.normpath(lay.dir).startswith(p):
                    e.role = "dir"
            e.kind = "mkdir"
        elif name in ("utime", "utimes", "utimensat"):
            if strs:
                e.role = lay.role_of(strs[0].decode("utf-8", "replace"))
            elif fdpath:
                e.role = lay.role_of(fdpath)
            e.kind = "utime"
        if e.role is None:
            continue
        evs.append(e)
    return evs, status


def run_traced(exe, argv, lay, injects=(), timeout=60, env=None):
    """Run the binary under strace in lay.scratch; returns (status, events, raw trace, stderr)."""
    tf = os.path.join(lay.scratch, "strace.out")
    cmd = ["strace", "-f", "-y", "-xx", "-s", "1000000", "-o", tf, "-e", "trace=" + TRACE_SET]
    for i in injects:
        cmd += ["-e", "inject=" + i]
    cmd += [exe] + list(argv)
    r = subprocess.run(cmd, cwd=lay.scratch, stdin=subprocess.DEVNULL, stdout=subprocess.PIPE,
                       stderr=subprocess.PIPE, timeout=timeout, env=env)
    text = open(tf, errors="replace").read() if os.path.exists(tf) else ""
    evs, status = parse_trace(text, lay)
    if status is None:
        status = "killed" if r.returncode in (-9, 137) else r.returncode
    return status, evs, text, r.stderr.decode("utf-8", "replace")


# ---------------------------------------------------------------------------
# alignment of the real trace with the model's trace
# ---------------------------------------------------------------------------

R_KINDS = ("stat", "open_r", "read", "close_r", "fstat_r")


def parse_model_events(s):
    """'R:target,creat:bak!e0,…' -> list of dicts"""
    out = []
    if s == "-":
        return out
    for tok in s.split(","):
        oc = "o"
        if "!" in tok:
            tok, oc = tok.split("!")
        parts = tok.split(":")
        d = {"op": parts[0], "outcome": oc, "text": tok}
        if parts[0] == "R":
            d["roles"] = {parts[1]}
        elif parts[0] == "cmp":
            d["roles"] = {"tmp", "target"}
        elif parts[0] == "mkdir":
            d["roles"] = {"dir"}
        elif parts[0] in ("creat", "unlink"):
            d["roles"] = {parts[1]}
        elif parts[0] == "write":
            d["roles"] = {parts[1]}
            if parts[1] == "md5":
                ints = unhexl_ints(parts[2])
                d["bytes"] = bytes(ints[1:]) if ints and ints[0] == MD5_MARK else None
            else:
                d["bytes"] = unhexl(parts[2])
        elif parts[0] == "rename":
            d["roles"] = {parts[1]}
            d["to"] = parts[2]
        out.append(d)
    return out


def align(model_evs, real_evs, md5name="t.c"):
    """Assign every real syscall to a model call.  Returns (assignment, error):
    assignment[j] = index of the model call real event j belongs to; error is None when the two
    traces are the same sequence of abstract calls (consecutive writes merged, read-side calls of
    one probe merged), else a description of the first difference."""
    assign = [None] * len(real_evs)
    j = 0
    n = len(real_evs)
    for i, me in enumerate(model_evs):
        op = me["op"]
        start = j
        if op in ("R", "cmp"):
            while j < n and real_evs[j].kind in R_KINDS and real_evs[j].role in me["roles"]:
                assign[j] = i
                j += 1
            if j == start and me["outcome"] == "o":
                return assign, "model call %d (%s): no read-side system call on %s at real event %d (%r)" % (
                    i, me["text"], sorted(me["roles"]), j, real_evs[j] if j < n else None)
        elif op == "mkdir":
            while j < n and real_evs[j].kind == "mkdir":
                assign[j] = i
                j += 1
            if j == start and me["outcome"] == "o":
                return assign, "model call %d (mkdir): no mkdir at real event %d (%r)" % (i, j, real_evs[j] if j < n else None)
        elif op == "creat":
            if j < n and real_evs[j].kind == "creat" and real_evs[j].role in me["roles"]:
                assign[j] = i
                j += 1
                while j < n and real_evs[j].kind == "fstat_w" and real_evs[j].role in me["roles"]:
                    assign[j] = i
                    j += 1
            else:
                return assign, "model call %d (%s) vs real event %d (%r)" % (i, me["text"], j, real_evs[j] if j < n else None)
        elif op == "write":
            data = b""
            while j < n and real_evs[j].kind in ("write", "close_w", "fstat_w", "wmisc") and real_evs[j].role in me["roles"]:
                if real_evs[j].kind == "write" and real_evs[j].ret not in ("-1", "?"):
                    data += real_evs[j].data[:int(real_evs[j].ret)]
                assign[j] = i
                j += 1
            if me["roles"] == {"md5"}:
                want = md5_line(me["bytes"], md5name) if me["bytes"] is not None else None
            else:
                want = me["bytes"]
            if me["outcome"] == "o" and data != want:
                return assign, "model call %d (write %s): %d bytes in the model, %d bytes written by the binary%s" % (
                    i, sorted(me["roles"]), len(want or b""), len(data), "" if len(data) != len(want or b"") else " (content differs)")
        elif op == "rename":
            if j < n and real_evs[j].kind == "rename" and real_evs[j].role in me["roles"] and real_evs[j].role2 == me["to"]:
                assign[j] = i
                j += 1
            else:
                return assign, "model call %d (%s) vs real event %d (%r)" % (i, me["text"], j, real_evs[j] if j < n else None)
        elif op == "unlink":
            if j < n and real_evs[j].kind == "unlink" and real_evs[j].role in me["roles"]:
                assign[j] = i
                j += 1
            else:
                return assign, "model call %d (%s) vs real event %d (%r)" % (i, me["text"], j, real_evs[j] if j < n else None)
        else:
            return assign, "unknown model op " + op
    if j < n:
        return assign, "binary makes a call the model does not have: real event %d (%r)" % (j, real_evs[j])
    return assign, None


def fault_class(ev, model_ev):
    """how an injected failure of real syscall `ev` maps onto the model:
    ('benign', None)   — the C library / the code ignores it and nothing depends on it
                         (close/fstat of a read-only descriptor, fstat of a written one)
    ('tolerated', i)   — model call fails, the code falls back (md5 read, compare): not a hard failure
    ('hard', i)        — model call fails, must end in a non-zero exit status"""
    if ev.kind in ("close_r", "fstat_r", "fstat_w"):
        return "benign"
    if model_ev["op"] == "cmp":
        return "tolerated"
    if model_ev["op"] == "R" and model_ev["roles"] == {"md5"}:
        return "tolerated"
    return "hard"


def bytes_before(real_evs, j):
    """bytes already written to the descriptor of real event j by earlier write calls"""
    tot = 0
    for k in range(j - 1, -1, -1):
        e = real_evs[k]
        if e.role != real_evs[j].role:
            continue
        if e.kind == "creat":
            break
        if e.kind == "write" and e.ret not in ("-1", "?"):
            tot += int(e.ret)
    return tot


BIG = 999999999


def model_k(evs, j, extra=0):
    """bytes of the merged write that reached the file before real event j, in the model's units
    (the model's md5 file is not the real md5 line: only 'nothing' and 'everything' translate)"""
    k = bytes_before(evs, j) + extra
    if evs[j].role != "md5":
        return k
    total = sum(int(e.ret) for e in evs if e.role == "md5" and e.kind == "write" and e.ret not in ("-1", "?"))
    return 0 if k == 0 else (BIG if k >= total else None)


def kill_schedule(evs, mevs, assign, j):
    """model schedule for 'killed on entering real syscall j' (None: not expressible)"""
    ev = evs[j]
    pre = [m["outcome"] for m in mevs[:assign[j]]]
    if ev.kind in ("write", "close_w", "wmisc"):
        k = model_k(evs, j)
        if k is None:
            return None
    elif ev.kind == "fstat_w":
        k = 1
    else:
        k = 0
    return pre + ["k%d" % k]


def completed_calls(evs, mevs, assign, j):
    """texts of the mutating model calls that were complete when real syscall j was entered"""
    i = assign[j]
    done = [m["text"] for m in mevs[:i] if m["op"] in ("creat", "write", "rename", "unlink")]
    ev = evs[j]
    if ev.kind == "fstat_w" and mevs[i]["op"] == "creat":
        done.append(mevs[i]["text"])
    return done
