"""Seeded generator of *compilable* C / C++ / Java translation units for the C01 search (object-code comparison).

Everything used is declared; expressions are over int-valued things, so gcc/g++/javac accept every output.  The layout
(indentation, blanks between tokens, blank lines, comments) is randomised; constructs the code-modifying options act on
(single-statement bodies with and without braces, nested if/else that would dangle, redundant parentheses, `return (x)`,
extra semicolons, `for(;;)`/`while(1)`, `short int`, trailing enum commas, duplicate includes, multi-line macros) are
produced on purpose.  __LINE__/__FILE__/assert are never used, so the object code depends on the token stream only.
"""

BIN = ["+", "-", "*", "&", "|", "^", "<", ">", "<=", ">=", "==", "!=", "&&", "||", "<<", ">>", "/", "%"]
ASG = ["=", "+=", "-=", "*=", "|=", "&=", "^=", "<<=", ">>="]


IDIOMS_C = [
    "typedef struct { int x ; int y ; } P2 ;",
    "static P2 mk ( int a ) { P2 r = { a , a + 1 } ; return r ; }",
    "union U { int i ; char c [ 4 ] ; } ;",
    "static int sw ( int a ) { switch ( a ) { case 1 : { g0 = 1 ; } break ; case 2 : { g1 = 2 ; } return 3 ; case 3 : g2 = 3 ; case 4 : g2 ++ ; break ; default : break ; } return 0 ; }",
    "static void lp ( void ) { for ( ; ; ) { if ( g0 ++ > 3 ) break ; } while ( 1 ) { if ( g1 ++ > 3 ) break ; } do { g2 ++ ; } while ( g2 < 3 ) ; }",
    "static int ( * fp ) ( int ) = sw ;",
    "static int cm ( int a ) { return ( g0 = a , g1 = a + 1 , g0 + g1 ) ; }",
    "static int tern ( int a ) { return a ? a > 2 ? 1 : 2 : a < - 2 ? 3 : 4 ; }",
    "static const char * str ( void ) { return \"a\" \"b\" ; }",
    "static int emp ( int a ) { if ( a ) ; else g0 = 1 ; while ( g0 -- > 0 ) ; ; return g0 ; }",
    "static int lbl ( int a ) { if ( a ) goto end ; g0 = 5 ; end : ; return g0 ; }",
    "enum E2 { X1 = 1 , X2 = X1 << 2 } ;",
    "enum E3 { Y1 , Y2\n#define E3_LAST Y2\n} ;",
    "enum E4 { Z1 ,\n#if 1\nZ2\n#else\nZ3\n#endif\n} ;",
    "static int e3 ( void ) { return E3_LAST + Z1 ; }",
    "struct B { unsigned int f1 : 3 ; unsigned f2 : 1 ; } ;",
    "static int neg ( int a ) { if ( ! ( a > 1 ) ) return - a ; if ( a > 2 && g0 || g1 ) return ( a ) ; return ( a == 1 ) ; }",
    "static int nest ( int a ) { if ( a ) { if ( g0 ) { g1 = 1 ; } } else { g1 = 2 ; } if ( a ) if ( g0 ) g1 = 3 ; else g1 = 4 ; return g1 ; }",
    "static void use_all ( void ) { ( void ) mk ( 1 ) ; lp ( ) ; ( void ) fp ; ( void ) cm ( 1 ) ; ( void ) tern ( 1 ) ; ( void ) str ( ) ; ( void ) emp ( 1 ) ; ( void ) lbl ( 1 ) ; ( void ) neg ( 1 ) ; ( void ) nest ( 1 ) ; ( void ) e3 ( ) ; }",
]
IDIOMS_ONLY_C = [
    "static int use_lit ( int a ) { return ( ( P2 ) { a , 2 } ) . y ; }",
    "static int de ( void ) { struct S s = { . a = 1 , . b = 2 } ; int q [ 3 ] = { [ 1 ] = 5 } ; return s . a + q [ 1 ] ; }",
]
IDIOMS_CPP = [
    "class K1 { public : K1 ( ) : m ( 0 ) { } int get ( ) const { return m ; } ; private : int m ; } ;",
    "static int lam ( int a ) { auto f = [ a ] ( int x ) { return x + a ; } ; return f ( 1 ) ; }",
    "static int rng ( ) { int t = 0 ; for ( int x : arr ) { t += x ; } return t ; }",
    "namespace n2 { namespace n3 { static int deep = 1 ; } }",
    "static int cast ( long v ) { return static_cast < int > ( v ) + n2 :: n3 :: deep ; }",
]


class CGen:
    def __init__(self, rng, lang="C", stats=None, div_deref=True):
        self.r = rng
        self.lang = lang
        self.div_deref = div_deref
        self.stats = stats if stats is not None else {}
        self.nfun = 0
        self.out = []

    def hit(self, k):
        self.stats["cgen:" + k] = self.stats.get("cgen:" + k, 0) + 1

    # ---------------- expressions (strings, fully tokenised by blanks so the layout pass can re-space them) ----------
    def var(self, loc):
        r = self.r
        pool = loc + ["g0", "g1", "g2"]
        return r.choice(pool)

    def lval(self, loc):
        r = self.r
        k = r.random()
        if k < 0.6:
            return self.var(loc)
        if k < 0.75:
            return "arr [ %s & 7 ]" % self.expr(loc, 1)
        if k < 0.85:
            return "s0 . a" if r.random() < 0.5 else "ps -> b"
        return "* p"

    def expr(self, loc, d):
        r = self.r
        k = r.random()
        if d <= 0 or k < 0.3:
            self.hit("e:atom")
            hexn = "0x%x" % r.randrange(0, 255)
            if not self.div_deref and hexn[-1] == "e":
                hexn += "0"               # `0x1e + a` -> `0x1e+a` is a known finding as well
            if r.random() < 0.08:
                self.hit("e:hexfloat")
                return "( int ) " + r.choice(["0x1p+2", "0x1.8p-1", "0x3p+1f", "0xAp-2", "1e+2", "2.5e-1", "1.e+1f"])
            return r.choice([self.var(loc), self.var(loc), str(r.randrange(0, 50)), hexn, "1", "0", "'a'", "07",
                             "3u" if self.lang != "JAVA" else "3", "sizeof ( int )" if self.lang != "JAVA" else "4"])
        if k < 0.55:
            op = r.choice(BIN)
            a, b = self.expr(loc, d - 1), self.expr(loc, d - 1)
            self.hit("e:bin")
            if op in ("/", "%"):
                if self.lang != "JAVA" and self.div_deref and r.random() < 0.5:
                    self.hit("e:div-deref")
                    return "%s %s * p" % (a, op)          # `a / *p`: must not become a comment opener
                b = "( %s | 1 )" % b
            if op in ("<<", ">>"):
                b = "( %s & 7 )" % b
            if self.lang == "JAVA" and op in ("&&", "||"):
                return "( ( %s != 0 %s %s != 0 ) ? 1 : 0 )" % (a, op, b)
            if self.lang == "JAVA" and op in ("<", ">", "<=", ">=", "==", "!="):
                return "( %s %s %s ? 1 : 0 )" % (self.paren(a), op, self.paren(b))
            if r.random() < (0.6 if op in ("+", "-") else 0.25) and op in (("+", "-", "&", "*", "<", ">", "|", "^", "==") if self.lang != "JAVA" else ("+", "-", "&", "*", "|", "^")):
                # an operator directly followed by a prefix operator: only blanks keep `- -x`, `+ +x`, `& &g0`... apart
                self.hit("e:op-prefix-op")
                pre = r.choice(["-", "+", "~"] + (["!"] if self.lang != "JAVA" else []) + ([op, "++", "--", "++", "--"] if op in ("+", "-") else []))
                return "%s %s %s %s" % (self.paren(a), op, pre, r.choice(loc) if pre in ("++", "--") else self.var(loc))
            if r.random() < 0.5:
                return "( %s %s %s )" % (a, op, b)
            return "%s %s %s" % (self.paren(a), op, self.paren(b))
        if k < 0.65:
            self.hit("e:unary")
            op = r.choice(["-", "~", "+"] + (["!"] if self.lang != "JAVA" else []))
            return "%s %s" % (op, self.paren(self.expr(loc, d - 1)))
        if k < 0.72 and self.lang != "JAVA":
            self.hit("e:lval")
            return self.lval(loc)
        if k < 0.8:
            self.hit("e:ternary")
            c = self.expr(loc, d - 1)
            if self.lang == "JAVA":
                c = "%s != 0" % self.paren(c)
            if self.lang == "CPP" and r.random() < 0.25:
                self.hit("e:ternary-global-scope")
                return "( %s ? %s : :: g0 )" % (c, self.expr(loc, d - 1))          # `: ::g0` must not become `:::g0`
            return "( %s ? %s : %s )" % (c, self.expr(loc, d - 1), self.expr(loc, d - 1))
        if k < 0.9 and self.nfun > 0:
            self.hit("e:call")
            return "f%d ( %s , %s )" % (r.randrange(self.nfun), self.expr(loc, d - 1), self.expr(loc, d - 1))
        if k < 0.95:
            self.hit("e:cast")
            return "( int ) %s" % self.paren(self.expr(loc, d - 1))
        self.hit("e:parens")
        return "( ( %s ) )" % self.expr(loc, d - 1)

    def paren(self, e):
        return e if (" " not in e) else "( %s )" % e

    def cond(self, loc):
        if self.lang != "JAVA" and self.r.random() < 0.15:
            # an assignment inside the condition, followed by a comparison and a boolean operator: `v = a == b && c`
            self.hit("e:assign-in-cond")
            return "%s %s %s %s %s %s %s" % (self.r.choice(loc), self.r.choice(["=", "+=", "|="]), self.paren(self.expr(loc, 1)),
                                             self.r.choice(["==", "<", "!=", ">="]), self.paren(self.expr(loc, 1)),
                                             self.r.choice(["&&", "||"]), self.paren(self.expr(loc, 1)))
        e = self.expr(loc, 2)
        if self.lang == "JAVA":
            return "( g0 + %s ) != 0" % self.paren(e)      # never a constant expression (javac rejects unreachable code)
        return e

    # ---------------- statements: list of lines (token strings) with depth --------------------------------------
    def emit(self, d, toks):
        self.out.append((d, toks))

    def body(self, loc, d, depth, force_brace=None):
        """a controlled statement: braces or not"""
        r = self.r
        braces = force_brace if force_brace is not None else r.random() < 0.55
        if braces:
            self.emit(d, "{")
            n = 1 if r.random() < 0.6 else r.randrange(0, 3)
            for _ in range(n):
                self.stmt(loc, d + 1, depth - 1)
            self.emit(d, "}")
            self.hit("body:braced%d" % min(n, 2))
        else:
            if r.random() < 0.5:
                self.stmt(loc, d + 1, depth - 1, simple_only=True)
            else:
                self.compound(loc, d + 1, depth - 1)
            self.hit("body:bare")

    def compound(self, loc, d, depth):
        """a single non-simple statement (so that it can stand as an unbraced body)"""
        for _ in range(20):
            mark = len(self.out)
            self.stmt(loc, d, max(depth, 1))
            if len(self.out) - mark == 1 and self.out[mark][1].count(";") > 1 and "for" not in self.out[mark][1]:
                del self.out[mark:]          # `x = 1 ; ;` is two statements
                continue
            return

    def stmt(self, loc, d, depth, simple_only=False):
        r = self.r
        k = r.random()
        if depth <= 0 or simple_only or k < 0.35:
            kk = r.random()
            if kk < 0.6:
                self.hit("s:assign")
                self.emit(d, "%s %s %s ;" % (self.lval(loc) if self.lang != "JAVA" else self.var(loc), r.choice(ASG), self.expr(loc, 2)))
            elif kk < 0.75:
                self.hit("s:incr")
                self.emit(d, r.choice(["%s ++ ;", "++ %s ;", "%s -- ;"]) % self.var(loc))
            elif kk < 0.85 and self.nfun > 0:
                self.hit("s:call")
                self.emit(d, "f%d ( %s , %s ) ;" % (r.randrange(self.nfun), self.expr(loc, 1), self.expr(loc, 1)))
            elif kk < 0.92:
                self.hit("s:empty")
                self.emit(d, r.choice([";", "g0 = 1 ; ;"]) if not simple_only else ";")
            else:
                self.hit("s:cmt")
                self.emit(d, r.choice(["/* note */ g1 = g0 ;", "g2 = g1 ; // trailing", "// a line comment\ng0 = g0 ;"]))
            return
        if k < 0.55:
            self.hit("s:if")
            self.emit(d, "if ( %s )" % self.cond(loc))
            kk = r.random()
            if kk < 0.3:
                # the dangling-else shape: braces around an inner if without else, then else
                self.hit("s:if-dangling-shape")
                self.emit(d, "{")
                self.emit(d + 1, "if ( %s )" % self.cond(loc))
                self.body(loc, d + 1, depth - 1)
                self.emit(d, "}")
                self.emit(d, "else")
                self.body(loc, d, depth - 1)
                return
            self.body(loc, d, depth)
            if r.random() < 0.5:
                self.emit(d, "else")
                if r.random() < 0.3:
                    self.emit(d, "if ( %s )" % self.cond(loc))
                    self.body(loc, d, depth)
                    if r.random() < 0.5:
                        self.emit(d, "else")
                        self.body(loc, d, depth)
                else:
                    self.body(loc, d, depth)
            return
        if k < 0.65:
            self.hit("s:while")
            self.emit(d, r.choice(["while ( %s )" % self.cond(loc), "while ( %s )" % self.cond(loc), "for ( ; %s ; )" % self.cond(loc)]))
            self.body(loc, d, depth)
            return
        if k < 0.72:
            self.hit("s:for")
            v = self.var(loc)
            self.emit(d, "for ( %s = 0 ; %s < %d ; %s ++ )" % (v, v, r.randrange(1, 9), v))
            self.body(loc, d, depth)
            return
        if k < 0.78:
            self.hit("s:do")
            self.emit(d, "do")
            self.body(loc, d, depth, force_brace=True if r.random() < 0.8 else None)
            self.emit(d, "while ( %s ) ;" % self.cond(loc))
            return
        if k < 0.84:
            self.hit("s:forever")
            self.emit(d, r.choice({"C": ["for ( ; ; )", "while ( 1 )"], "CPP": ["for ( ; ; )", "while ( 1 )", "while ( true )"],
                                   "JAVA": ["for ( ; ; )", "while ( true )"]}[self.lang]))
            self.emit(d, "{")
            self.emit(d + 1, "if ( %s ) break ;" % self.cond(loc))
            self.stmt(loc, d + 1, depth - 1, simple_only=True)
            self.emit(d + 1, "break ;")
            self.emit(d, "}")
            return
        if k < 0.92:
            self.hit("s:switch")
            self.emit(d, "switch ( %s )" % self.expr(loc, 1))
            self.emit(d, "{")
            for c in range(r.randrange(1, 4)):
                self.emit(d, "case %d :" % c)
                if r.random() < 0.4:
                    self.emit(d + 1, "{")
                    self.stmt(loc, d + 2, depth - 1, simple_only=True)
                    self.emit(d + 1, "}")
                else:
                    self.stmt(loc, d + 1, depth - 1, simple_only=True)
                self.emit(d + 1, "break ;")
            self.emit(d, "default :")
            self.stmt(loc, d + 1, depth - 1, simple_only=True)
            self.emit(d + 1, "break ;")
            self.emit(d, "}")
            return
        self.hit("s:block")
        self.emit(d, "{")
        self.stmt(loc, d + 1, depth - 1)
        self.emit(d, "}")

    # ---------------- translation unit -------------------------------------------------------------------------
    def function(self):
        r = self.r
        i = self.nfun
        loc = ["a", "b", "v0", "v1"]
        ret = r.choice(["int", "int", "long", "short int", "unsigned int", "unsigned"]) if self.lang != "JAVA" else "int"
        if self.lang == "JAVA":
            self.emit(1, "static int f%d ( int a , int b )" % i)
            d = 1
        else:
            self.emit(0, "%s f%d ( int a , int b )" % (ret, i))
            d = 0
        self.emit(d, "{")
        self.emit(d + 1, "int v0 = %s ;" % self.expr(["a", "b"], 1))
        self.emit(d + 1, "int v1 = %s , unused%d = 0 ;" % (self.expr(["a", "b", "v0"], 1), i) if self.lang != "JAVA" else "int v1 = %s ;" % self.expr(["a", "b", "v0"], 1))
        for _ in range(r.randrange(2, 7)):
            self.stmt(loc, d + 1, 3)
        e = self.expr(loc, 2)
        self.emit(d + 1, r.choice(["return %s ;", "return ( %s ) ;"]) % e)
        self.emit(d, "}")
        if ret == "void":
            pass
        self.nfun += 1

    def unit(self):
        r = self.r
        if self.lang == "JAVA":
            self.emit(0, "public class T")
            self.emit(0, "{")
            self.emit(1, "static int g0 , g1 , g2 ;")
            for _ in range(r.randrange(1, 4)):
                self.emit(0, "")
                self.function()
            self.emit(0, "}")
            return self.out
        if r.random() < 0.5:
            # the same header in both branches of a conditional: neither #include is redundant
            self.emit(0, "#ifdef CGEN_NEVER_DEFINED\n#include <limits.h>\n#else\n#include <limits.h>\n#endif")
            self.emit(0, "int lim = INT_MAX ;")
        self.emit(0, "#include <stddef.h>")
        if r.random() < 0.5:
            self.emit(0, "#include <stddef.h>")
        self.emit(0, "#define M1( x ) ( ( x ) + 1 )")
        self.emit(0, "#define M2( x , y ) do { \\\n      ( x ) = ( y ) ; \\\n   } while ( 0 )")
        self.emit(0, "struct S { int a ; int b ; } ;")
        self.emit(0, "enum E { EA , EB %s } ;" % ("," if r.random() < 0.5 else ""))
        self.emit(0, "int g0 , g1 , g2 ;")
        self.emit(0, "int arr [ 8 ] ;")
        self.emit(0, "int * p = arr ;")
        self.emit(0, "struct S s0 ;")
        self.emit(0, "struct S * ps = & s0 ;")
        self.emit(0, r.choice(["short int si ;", "short si ;", "unsigned int ui ;", "long int li ;", "signed int sgi ;"]))
        if self.lang == "CPP":
            self.emit(0, "template < typename T > T ident ( T x ) { return x ; }")
            self.emit(0, "template < typename T > struct Box { T v ; } ;")
            self.emit(0, "Box < Box < int > > bb ;")
            self.emit(0, "namespace ns { int nv ; }")
        if self.lang != "JAVA":
            # the goto-cleanup idiom: a `return;` that is NOT the last statement, and one that is
            self.emit(0, "void vg ( int a ) { if ( a ) goto out ; g0 = 1 ; return ; out : g1 = 2 ; }")
            self.emit(0, "void vh ( void ) { g0 = 2 ; return ; }")
        if self.lang != "JAVA":
            # idiom zoo: the constructs the code-modifying passes look for, in compilable form
            for ln in IDIOMS_C + (IDIOMS_CPP if self.lang == "CPP" else IDIOMS_ONLY_C):
                self.emit(0, ln)
        self.emit(0, "#if 1")
        self.emit(0, "void vf ( void ) { g0 = M1 ( g1 ) ; M2 ( g2 , g0 ) ; return ; }")
        self.emit(0, "#else")
        self.emit(0, "void vf ( void ) { }")
        self.emit(0, "#endif")
        for _ in range(r.randrange(1, 4)):
            self.emit(0, "")
            self.function()
        return self.out


def layout(lines, rng, style="random"):
    """render the (depth, tokens) lines; blanks between tokens are kept at least where the tokens need them"""
    r = rng
    out = []
    # sometimes a closing brace shares its line with what follows (`} break;`, `} return x;`, `} else`, `}}`)
    joined = []
    for d, toks in lines:
        if (style != "clean" and joined and joined[-1][1] == "}" and toks and not toks.startswith("#") and "\\" not in toks
                and "//" not in toks and r.random() < 0.3):
            joined[-1] = (joined[-1][0], "} " + toks)
        else:
            joined.append((d, toks))
    lines = joined
    for d, toks in lines:
        for sub in toks.split("\n"):
            if sub.startswith("#") or "\\" in sub:
                out.append(sub)           # preprocessor lines verbatim
                continue
            words = [w for w in sub.split(" ") if w]
            s = ""
            for i, w in enumerate(words):
                if i:
                    a, b = words[i - 1], w
                    need = (a[-1].isalnum() or a[-1] in "_'\"") and (b[0].isalnum() or b[0] in "_'\"")
                    need = need or (a[-1] in "+-&|<>=!*/%^:.?" and b[0] in "+-&|<>=!*/%^:.?") or a.startswith("//") or a.startswith("/*") or b.startswith("/*") or b.startswith("//") or a.endswith("*/")
                    if style == "clean":
                        g = " "
                    else:
                        g = r.choice(["", " ", " ", "  ", "\t"])
                        if need and g == "":
                            g = " "
                    s += g
                s += w
            ind = ("    " * d) if style == "clean" else r.choice(["    " * d, "\t" * d, " " * r.randrange(0, 9), ""])
            out.append(ind + s if s.strip() else "")
            if style != "clean" and r.random() < 0.08:
                out.append("")
    return "\n".join(out) + "\n"


def program(rng, lang="C", stats=None, style="random", div_deref=True):
    """div_deref=False: no `a / *p` (its fusion into a comment opener is a known finding that would mask every other fusion of the same run)"""
    g = CGen(rng, lang, stats, div_deref)
    return layout(g.unit(), rng, style)
