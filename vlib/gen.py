"""Seeded generator of C-family programs (token level) with randomised original whitespace.

A program is first built as a list of *lines*, each a list of token strings (plus comment tokens); layout
(indentation, inter-token blanks, blank lines, trailing blanks, tabs) is then drawn separately, so the same
token structure can be rendered under several layouts (metamorphic checks).
Every production's hit count is reported through `stats`.
"""
import random

IDS = ["a", "b", "c", "x", "y", "z", "i", "j", "k", "n", "p", "q", "val", "ptr", "cnt", "idx", "tmp", "foo", "bar", "baz", "v0", "v1", "len2"]
TYPES = ["int", "char", "long", "unsigned", "short", "double", "float", "unsigned int", "long long", "size_t", "my_t"]
BINOPS = ["+", "-", "*", "/", "%", "<<", ">>", "<", ">", "<=", ">=", "==", "!=", "&", "|", "^", "&&", "||"]
ASSIGN = ["=", "+=", "-=", "*=", "/=", "|=", "&=", "<<="]
UNOPS = ["-", "!", "~", "*", "&", "++", "--"]


class Gen:
    def __init__(self, rng, lang="C", depth=3, comments=True, preproc=True, stats=None, cmt_prob=0.12, nested_nobrace=False):
        self.cmt_prob = cmt_prob
        self.nested_nobrace = nested_nobrace      # brace-less bodies may be control statements themselves (`while (a) if (b) x; else y;`)
        self.r = rng
        self.lang = lang
        self.maxdepth = depth
        self.comments = comments
        self.preproc = preproc
        self.stats = stats if stats is not None else {}
        self.lines = []       # list of (depth, [tokens], kind)

    def hit(self, k):
        self.stats[k] = self.stats.get(k, 0) + 1

    # ---- expressions (token lists) -------------------------------------
    def ident(self):
        return self.r.choice(IDS)

    def number(self):
        r = self.r
        return r.choice([str(r.randrange(0, 100)), "0x%X" % r.randrange(0, 4096), "0", "1", "07", "1u", "2UL", "1.5", "3.0f",
                         "1e3", "0b101" if self.lang == "CPP" else "5", ".5", "1e-3", "2.5E+4", "0x1.8p-3" if self.lang != "JAVA" else "1e-2",
                         "0x1p+2" if self.lang != "JAVA" else "7"])

    def string(self):
        r = self.r
        if self.lang == "CPP" and r.random() < 0.2:
            self.hit("expr:rawstr")
            return r.choice(['R"(raw "q" text)"', 'LR"(wide raw)"', 'u8R"x(a )" b)x"', 'uR"(u16)"', 'UR"d(U32 \\n)d"', 'R"(two\nlines)"'])
        body = r.choice(["", "x", "hello world", "a\\n", "tab\\there", "%d %s", "q\\\"q", "it's", "  sp  ", "/* no */", "// no"])
        pre = r.choice(["", "", "", "L", "u8"]) if self.lang in ("C", "CPP") else ""
        return pre + '"' + body + '"'

    def charlit(self):
        return self.r.choice(["'a'", "'\\n'", "'\\''", "'\\\\'", "'0'", "' '"])

    def primary(self, d):
        r = self.r
        k = r.random()
        if d <= 0 or k < 0.35:
            self.hit("expr:id")
            return [self.ident()]
        if k < 0.55:
            self.hit("expr:num")
            return [self.number()]
        if k < 0.62:
            self.hit("expr:str")
            return [self.string()]
        if k < 0.66:
            self.hit("expr:char")
            return [self.charlit()]
        if k < 0.78:
            self.hit("expr:call")
            args = []
            for i in range(r.randrange(0, 4)):
                if i:
                    args.append(",")
                args += self.expr(d - 1)
            return [self.ident(), "("] + args + [")"]
        if k < 0.86:
            self.hit("expr:index")
            return [self.ident(), "["] + self.expr(d - 1) + ["]"]
        if k < 0.93:
            self.hit("expr:paren")
            return ["("] + self.expr(d - 1) + [")"]
        self.hit("expr:member")
        return [self.ident(), r.choice([".", "->"]), self.ident()]

    def unary(self, d):
        r = self.r
        if d > 0 and r.random() < 0.2:
            self.hit("expr:unary")
            op = r.choice(UNOPS)
            inner = self.primary(d - 1)
            if op in ("++", "--", "&", "*") and not inner[0][0].isalpha():
                inner = [self.ident()]
            return [op] + inner
        if d > 0 and r.random() < 0.05:
            self.hit("expr:sizeof")
            return ["sizeof", "("] + [r.choice(TYPES).split()[0]] + [")"]
        if d > 0 and r.random() < 0.05:
            self.hit("expr:cast")
            return ["(", r.choice(["int", "char", "long"]), ")"] + self.primary(d - 1)
        return self.primary(d)

    def expr(self, d=2):
        r = self.r
        e = self.unary(d)
        n = 0
        while d > 0 and r.random() < 0.45 and n < 3:
            self.hit("expr:binop")
            e = e + [r.choice(BINOPS)] + self.unary(d - 1)
            n += 1
        if d > 1 and r.random() < 0.06:
            self.hit("expr:ternary")
            e = e + ["?"] + self.unary(d - 1) + [":"] + self.unary(d - 1)
        return e

    # ---- statements ----------------------------------------------------
    def emit(self, depth, toks, kind="stmt"):
        self.lines.append((depth, toks, kind))

    def comment_line(self, depth):
        r = self.r
        if not self.comments or r.random() > self.cmt_prob:
            return
        k = r.random()
        if k < 0.08:
            # a line comment whose last non-blank character is a backslash, followed by blanks: NOT a continuation
            self.hit("cmt:cpp-backslash-blank")
            self.emit(depth, ["// see C:\\tmp\\" + r.choice([" ", "  ", "\t", " \t "])], "cmt")
            # ISO C does not splice here (gcc/clang do, with a warning); the specification lexer follows ISO for line comments
        elif k < 0.5:
            self.hit("cmt:cpp")
            self.emit(depth, ["// " + r.choice(["note", "TODO: x", "a  b", "x = y;", "end", "été ünï"])], "cmt")
        elif k < 0.58:
            self.hit("cmt:multi-starstar")
            self.emit(depth, ["/*\n** second line, two-character leader\n** third\n*/"], "cmt")
        elif k < 0.85:
            self.hit("cmt:c")
            self.emit(depth, ["/* " + r.choice(["c", "multi word", "x*y", "a/b"]) + " */"], "cmt")
        else:
            self.hit("cmt:multi")
            self.emit(depth, ["/* first\n" + "  " * depth + " * second\n" + "  " * depth + " */"], "cmt")

    def trailing_comment(self, toks):
        r = self.r
        if self.comments and r.random() < 0.08:
            self.hit("cmt:trailing")
            return toks + [r.choice(["// t", "/* t */"])]
        return toks

    def decl(self, depth):
        r = self.r
        self.hit("stmt:decl")
        t = r.choice(TYPES).split()
        toks = list(t)
        if r.random() < 0.2:
            toks = [r.choice(["const", "static", "volatile"])] + toks
        n = r.randrange(1, 3)
        for i in range(n):
            if i:
                toks.append(",")
            if r.random() < 0.2:
                toks.append("*")
            toks.append(self.ident())
            if r.random() < 0.15:
                toks += ["[", str(r.randrange(1, 9)), "]"]
            elif r.random() < 0.5:
                toks += ["="] + self.expr(2)
        self.emit(depth, self.trailing_comment(toks + [";"]))

    def simple(self, depth):
        r = self.r
        k = r.random()
        if k < 0.45:
            self.hit("stmt:assign")
            lhs = [self.ident()]
            if r.random() < 0.2:
                lhs = ["*"] + lhs
            elif r.random() < 0.2:
                lhs += ["["] + self.expr(1) + ["]"]
            self.emit(depth, self.trailing_comment(lhs + [r.choice(ASSIGN)] + self.expr(2) + [";"]))
        elif k < 0.7:
            self.hit("stmt:call")
            self.emit(depth, self.trailing_comment(self.primary(2) if False else [self.ident(), "("] + self.expr(1) + [")", ";"]))
        elif k < 0.8:
            self.hit("stmt:incr")
            self.emit(depth, [self.ident(), r.choice(["++", "--"]), ";"])
        elif k < 0.9:
            self.hit("stmt:return")
            self.emit(depth, ["return"] + (self.expr(2) if r.random() < 0.8 else []) + [";"])
        elif k < 0.95:
            self.hit("stmt:empty")
            self.emit(depth, [";"])
        else:
            self.hit("stmt:break")
            self.emit(depth, [r.choice(["break", "continue"]), ";"])

    def body(self, depth, d, braces=None, may_nest=False):
        """statement forming the body of a control construct: block or single statement"""
        r = self.r
        if braces is None:
            braces = r.random() < (0.55 if self.nested_nobrace else 0.7)
        if braces:
            self.emit(depth, ["{"], "open")
            for _ in range(r.randrange(0, 4)):
                self.stmt(depth + 1, d - 1)
            self.emit(depth, ["}"], "close")
        elif self.nested_nobrace and may_nest and d > 0 and r.random() < 0.5:
            # a control statement as brace-less body (never directly under an `if` that may get an `else`: no dangling else)
            self.hit("body:nobrace-nested")
            k = r.random()
            if may_nest == "noif":
                k = 0.6 + 0.4 * k       # `else` + `if` on the next line is an else-if chain for uncrustify, not a nested statement
            if k < 0.6:
                self.emit(depth + 1, ["if", "("] + self.expr(1) + [")"], "head")
                self.body(depth + 1, d - 1)
                if r.random() < 0.7:
                    self.emit(depth + 1, ["else"], "head")
                    self.body(depth + 1, d - 1, may_nest="noif")
            elif k < 0.8:
                self.emit(depth + 1, ["while", "("] + self.expr(1) + [")"], "head")
                self.body(depth + 1, d - 1, may_nest=True)
            else:
                self.emit(depth + 1, ["for", "(", ";", ";", ")"], "head")
                self.body(depth + 1, d - 1, may_nest=True)
        else:
            self.hit("body:nobrace")
            self.simple(depth + 1)

    def stmt(self, depth, d):
        r = self.r
        self.comment_line(depth)
        if r.random() < 0.08:
            self.emit(depth, [], "blank")
        k = r.random()
        if d <= 0 or k < 0.45:
            self.simple(depth)
        elif k < 0.55:
            self.decl(depth)
        elif k < 0.70:
            self.hit("stmt:if")
            self.emit(depth, ["if", "("] + self.expr(2) + [")"], "head")
            self.body(depth, d)
            while r.random() < 0.3:
                self.hit("stmt:elseif")
                self.emit(depth, ["else", "if", "("] + self.expr(1) + [")"], "head")
                self.body(depth, d)
            if r.random() < 0.4:
                self.hit("stmt:else")
                self.emit(depth, ["else"], "head")
                self.body(depth, d, may_nest="noif")
        elif k < 0.78:
            self.hit("stmt:while")
            self.emit(depth, ["while", "("] + self.expr(2) + [")"], "head")
            self.body(depth, d, may_nest=True)
        elif k < 0.86:
            self.hit("stmt:for")
            init = [self.ident(), "="] + self.expr(1) if r.random() < 0.8 else []
            cond = self.expr(1) if r.random() < 0.8 else []
            inc = [self.ident(), "++"] if r.random() < 0.8 else []
            self.emit(depth, ["for", "("] + init + [";"] + cond + [";"] + inc + [")"], "head")
            self.body(depth, d, may_nest=True)
        elif k < 0.90:
            self.hit("stmt:do")
            self.emit(depth, ["do"], "head")
            self.body(depth, d, braces=True)
            self.emit(depth, ["while", "("] + self.expr(1) + [")", ";"])
        elif k < 0.95:
            self.hit("stmt:switch")
            self.emit(depth, ["switch", "("] + self.expr(1) + [")"], "head")
            self.emit(depth, ["{"], "open")
            for _ in range(r.randrange(1, 4)):
                self.emit(depth, ["case", self.number() if False else str(r.randrange(0, 9)), ":"], "case")
                for _ in range(r.randrange(0, 3)):
                    self.simple(depth + 1)
                if r.random() < 0.8:
                    self.emit(depth + 1, ["break", ";"])
            if r.random() < 0.6:
                self.emit(depth, ["default", ":"], "case")
                self.simple(depth + 1)
            self.emit(depth, ["}"], "close")
        else:
            self.hit("stmt:block")
            self.emit(depth, ["{"], "open")
            for _ in range(r.randrange(0, 3)):
                self.stmt(depth + 1, d - 1)
            self.emit(depth, ["}"], "close")

    def function(self):
        r = self.r
        self.hit("top:func")
        ret = r.choice(["int", "void", "static int", "char *", "unsigned long"]).split()
        params = []
        for i in range(r.randrange(0, 4)):
            if i:
                params.append(",")
            params += r.choice(TYPES).split() + ([] if r.random() < 0.8 else ["*"]) + [self.ident()]
        if not params:
            params = ["void"] if r.random() < 0.5 else []
        self.emit(0, ret + [self.ident() + "_fn", "("] + params + [")"], "head")
        self.emit(0, ["{"], "open")
        for _ in range(r.randrange(1, 7)):
            self.stmt(1, self.maxdepth)
        self.emit(0, ["}"], "close")

    def directive(self):
        r = self.r
        k = r.random()
        if k < 0.3:
            self.hit("pp:include")
            self.emit(0, ["#include " + r.choice(["<stdio.h>", "<stdlib.h>", '"my.h"', "<string.h>"])], "pp")
        elif k < 0.6:
            self.hit("pp:define")
            self.emit(0, ["#define " + r.choice(["N 10", "MAX(a,b) ((a) > (b) ? (a) : (b))", "FLAG", "STR \"s\"", "SQ(x) ((x)*(x))"])], "pp")
        elif k < 0.68:
            self.hit("pp:define-braces")
            self.emit(0, ["#define " + r.choice(["CHK(x) do { if (x) { fa(); } else { fb(); } } while (0)",
                                                  "TWO(n) int n##_a(void) { return 1; } int n##_b(void) { return 2; }",
                                                  "BLK { g1(); } g2();"])], "pp")
        elif k < 0.71:
            # a directive continued over a line break, with blanks after the backslash
            self.hit("pp:continued-blanks")
            self.emit(0, [r.choice(["#pragma mark first \\  \n    second", "#define CONT(a) do_it(a); \\   \n    more(a)",
                                    "#pragma omp parallel \\ \t \n    for"])], "pp")
        elif k < 0.75:
            self.hit("pp:define-multi")
            self.emit(0, ["#define SWAP(a, b) \\\n    do { int t = a; \\\n         a = b; b = t; \\\n    } while (0)"], "pp")
        else:
            self.hit("pp:if")
            self.emit(0, ["#if " + r.choice(["defined(A)", "N > 3", "0", "1"])], "pp")
            self.decl(0)
            if r.random() < 0.4:
                self.emit(0, ["#else"], "pp")
                self.decl(0)
            self.emit(0, ["#endif"], "pp")

    def cpp_class(self):
        r = self.r
        self.hit("top:class")
        n = r.randrange(100)
        self.emit(0, ["class", "K%d" % n, r.choice(["// base list follows:", "/* bases */", ""])], "head")
        self.emit(1, [":", "public", "B%d" % n, ",", "private", "C%d" % n], "head")
        self.emit(0, ["{"], "open")
        self.emit(0, ["public", ":"], "case")
        self.emit(1, ["K%d" % n, "(", "int", "a", ")", r.choice(["// trailing: x(1)", ""])], "head")
        self.emit(2, [":", "x", "(", "a", ")", ",", "y", "(", "0", ")"], "head")
        self.emit(1, ["{"], "open")
        self.simple(2)
        self.emit(1, ["}"], "close")
        self.emit(1, ["int", "x", ",", "y", ";"])
        # conversion operators, with a comment inside the type
        self.emit(1, ["operator", "const", r.choice(["/* c */", ""]), "char", "*", "(", ")", "const", ";"])
        self.emit(1, ["operator", "unsigned", r.choice(["/* u */", "// why\n", ""]), "long", "(", ")", ";"])
        self.emit(0, ["}", ";"], "close")

    def program(self, nfuncs=None):
        r = self.r
        if self.preproc:
            for _ in range(r.randrange(0, 3)):
                self.directive()
        for _ in range(r.randrange(0, 3)):
            self.decl(0)
        if self.lang == "CPP" and self.preproc and r.random() < 0.3:
            self.cpp_class()
        for _ in range(nfuncs if nfuncs is not None else r.randrange(1, 4)):
            if self.preproc and r.random() < 0.2:
                self.directive()
            self.emit(0, [], "blank")
            self.function()
        return self.lines


def needs_space(a, b):
    """conservative: is whitespace REQUIRED between tokens a and b to keep them apart?"""
    if not a or not b:
        return False
    x, y = a[-1], b[0]
    wa = x.isalnum() or x == "_" or ord(x) > 127
    wb = y.isalnum() or y == "_" or ord(y) > 127 or y in "\"'"
    if wa and wb:
        return True
    if wa and y == ".":  # 1 .5
        return a[0].isdigit()
    if x in "+-&|<>=!*/%^:.#?" and y in "+-&|<>=!*/%^:.#?":
        return True
    if x == "." and y.isdigit():
        return True
    if x == "/" and y in "/*":
        return True
    return False


def render(lines, rng, layout):
    """layout: dict(indent: 'random'|'clean'|int, tabs: bool, trailing: prob, blanklines: prob, gaps: 'random'|'one'|'min')"""
    r = rng
    out = []
    for depth, toks, kind in lines:
        if kind == "blank":
            out.append(r.choice(["", "", "   ", "\t"]) if layout.get("trailing", 0) > 0 else "")
            continue
        ind = layout.get("indent", "random")
        if kind == "pp":
            lead = "" if r.random() < 0.8 or ind == "clean" else " " * r.randrange(0, 4)
        elif ind == "random":
            lead = r.choice([" " * r.randrange(0, 13), "\t" * r.randrange(0, 4), " " * r.randrange(0, 4) + "\t", ""])
        elif ind == "clean":
            lead = "    " * depth
        else:
            lead = " " * (int(ind) * depth)
        s = lead
        for i, t in enumerate(toks):
            if i:
                gaps = layout.get("gaps", "random")
                need = needs_space(toks[i - 1], t) or toks[i - 1].startswith(("//", "/*")) or t.startswith(("//", "/*"))
                if gaps == "one":
                    g = " "
                elif gaps == "min":
                    g = " " if need else ""
                else:
                    g = r.choice(["", " ", " ", " ", "  ", "   ", "\t", " \t"])
                    if need and g == "":
                        g = " "
                s += g
            s += t
        if layout.get("trailing", 0) > r.random() and not (toks and toks[-1].startswith("//")):
            s += r.choice([" ", "  ", "\t", " \t "])
        out.append(s)
        if layout.get("blanklines", 0) > r.random():
            out += [""] * r.randrange(1, 6)
    return "\n".join(out) + "\n"


def program(rng, lang="C", layout=None, stats=None, **kw):
    g = Gen(rng, lang=lang, stats=stats, **kw)
    lines = g.program()
    lay = layout or {"indent": "random", "gaps": "random", "trailing": 0.2, "blanklines": 0.15}
    return lines, render(lines, rng, lay)
