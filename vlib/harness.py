"""Function-level harness: the repo's own functions behind the driver line protocol."""
import os
import subprocess

from . import common


def build_fnharness():
    """(Re)link harness/fnharness.cpp against the object files of the current hook build."""
    common.build_repo(hooks=True)
    bld = common.build_dir(hooks=True)
    hdir = os.path.join(common.CACHE, "harness")
    os.makedirs(hdir, exist_ok=True)
    exe = os.path.join(hdir, "fnharness")
    objdir = os.path.join(bld, "CMakeFiles", "uncrustify.dir")
    objs = []
    for base, _, files in os.walk(objdir):
        for f in files:
            if f.endswith(".o"):
                objs.append(os.path.join(base, f))
    newest = max(os.path.getmtime(o) for o in objs)
    src = os.path.join(common.ROOT, "harness", "fnharness.cpp")
    with common.Lock("harness"):
        if os.path.exists(exe) and os.path.getmtime(exe) >= max(newest, os.path.getmtime(src)):
            return exe
        mainobj = [o for o in objs if o.endswith("/src/uncrustify.cpp.o")][0]
        nomain = os.path.join(hdir, "uncrustify_nomain.o")
        r = common.sh(["objcopy", "--redefine-sym", "main=uncrustify_main", mainobj, nomain])
        if r.returncode != 0:
            raise common.BuildError("objcopy failed: " + r.stdout)
        cmd = ["g++", "-O1", "-std=gnu++11", "-DUNCRUSTIFY_VERIF", "-I" + os.path.join(common.REPO, "src"),
               "-I" + bld, "-I" + os.path.join(bld, "src"), src, nomain] + \
              [o for o in objs if o != mainobj] + ["-o", exe]
        r = common.sh(cmd)
        if r.returncode != 0:
            raise common.BuildError("harness build failed:\n" + r.stdout[-3000:])
    return exe


def run_fnharness(lines, timeout=900):
    exe = build_fnharness()
    data = "\n".join(lines) + "\n"
    r = subprocess.run([exe], input=data, stdout=subprocess.PIPE, stderr=subprocess.PIPE, text=True, timeout=timeout)
    out = r.stdout.split("\n")
    if out and out[-1] == "":
        out.pop()
    if r.returncode != 0:
        out.append("HARNESS-EXIT %d %s" % (r.returncode, r.stderr[-500:].replace("\n", " ")))
    return out
