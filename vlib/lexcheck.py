"""Lexical layer (L4) helpers for C02 / C03 / C01.

* regen_tables(ctx)          T-punct, T-chars -> Gen/Punct.lean, Gen/CharTable.lean
* punct_correspondence(ctx)  findPunct vs the real find_punctuator (exhaustive, function level) + chartable
* lex_tokens(lang, texts)    the specification lexer (compiled Lean driver) on a list of texts
* lex_cmp(lang, a, b)        compare the token streams of two texts
* corpus_selftest()          run as `python3 -m vlib.lexcheck`: lex tests/input|expected/{c,cpp}
"""
import os
import string
import subprocess
import sys

from . import common, harness

LANGS = {"C": 0x0001, "CPP": 0x0002, "D": 0x0004, "CS": 0x0008, "JAVA": 0x0010, "OC": 0x0020,
         "VALA": 0x0040, "PAWN": 0x0080, "ECMA": 0x0100}
FLAG_DIG = 0x4000      # in a `lex.*` request: lex with digraphs/trigraph punctuators enabled

# all ASCII punctuation characters + form feed (a table tag) + one letter (a non-punctuator)
PUNCT_ALPHABET = [ord(c) for c in string.punctuation] + [0x0c, ord("a")]


def hexl(cps):
    return ".".join("%x" % c for c in cps) if cps else "-"


def cps_of(data):
    """bytes -> code points the way the oracle wants them: UTF-8 if valid, else Latin-1"""
    if isinstance(data, str):
        return [ord(c) for c in data]
    try:
        return [ord(c) for c in data.decode("utf-8")]
    except UnicodeDecodeError:
        return list(data)


# ---------------------------------------------------------------------------
# tables
# ---------------------------------------------------------------------------

def regen_tables(ctx=None):
    """run T-punct and T-chars; returns True when both parsed.  A translator that cannot parse fails the check."""
    from translators import t_punct, t_chars
    common.build_repo(hooks=True)     # T-punct reads the generated punctuator_table.h of the current tree
    ok = True
    for name, mod in (("T-punct", t_punct), ("T-chars", t_chars)):
        try:
            changed = mod.run()
            if ctx:
                ctx.oblige("%s regenerated (%s)" % (name, "changed" if changed else "unchanged"), True, "table")
        except Exception as e:  # TranslateError or I/O
            ok = False
            if ctx:
                ctx.oblige("%s: %s" % (name, e), False, "table", str(e))
            else:
                raise
    return ok


# ---------------------------------------------------------------------------
# findPunct / chartable correspondence
# ---------------------------------------------------------------------------

def _unrank(i, n, al):
    out = []
    for _ in range(n):
        out.append(al[i % len(al)])
        i //= len(al)
    return out[::-1]


def punct_correspondence(ctx, maxlen=4):
    """Exhaustive: every string of length 1..maxlen over PUNCT_ALPHABET x 9 languages x digraphs off/on,
    model `findPunct` (driver `punct.sweep`) against the real `find_punctuator` (harness `punct.sweep`);
    a sample through the single-string command `punct.find`; `chartable` on 0..255.
    Returns the number of mismatching strings."""
    al = PUNCT_ALPHABET
    # trie nodes whose tag pointer is out of bounds (see translators/t_punct.py): calling the real function on
    # a string that reaches such a node is undefined behaviour (observed: SIGSEGV), so those strings are skipped
    from translators import t_punct
    entries, _ = t_punct.parse_symbols(common.REPO)
    ph = [[ord(c) for c in t] for t, _ in t_punct.phantoms(entries, common.REPO)]
    skip = (" " + ",".join(hexl(p) for p in ph)) if ph else ""
    for p in ph:
        ctx.assumptions.append("find_punctuator is not called on strings starting with %r: the generated trie has a node "
                               "for it whose tag pointer is one past the end of its symbols array (out-of-bounds read)"
                               % "".join(map(chr, p)))
    reqs = []
    for lname, lf in LANGS.items():
        for dig in (0, 1):
            for n in range(1, maxlen + 1):
                reqs.append((lname, lf, dig, n))
    # also: combined masks as cpd.lang_flags can carry them (C header = C|HDR, "all")
    for lf in (0x2001, 0x2002, 0x0fff, 0x4002, 0x0000):
        for dig in (0, 1):
            for n in range(1, min(maxlen, 3) + 1):
                reqs.append(("mask%04x" % lf, lf, dig, n))
    lines = ["punct.sweep %x %d %s %d%s" % (lf, dig, hexl(al), n, skip) for _, lf, dig, n in reqs]
    real = harness.run_fnharness(lines)

    def drv(chunk):
        return common.run_driver(chunk)
    k = max(1, len(lines) // common.NCPU)
    chunks = [lines[i:i + k] for i in range(0, len(lines), k)]
    model = [a for part in common.pmap(drv, chunks) for a in part]
    bad = 0
    total = 0
    for (lname, lf, dig, n), r, m in zip(reqs, real, model):
        ok = (r == m and len(r) == len(al) ** n)
        total += len(al) ** n
        ctx.evals += len(al) ** n
        ctx.count("punct.sweep len=%d" % n, len(al) ** n)
        if not ok:
            where = next((i for i in range(min(len(r), len(m))) if r[i] != m[i]), None)
            s = _unrank(where, n, al) if where is not None else None
            bad += 1
            ctx.violation("findPunct disagrees with find_punctuator: lang=%s(0x%x) digraphs=%d text=%r real=%s model=%s"
                          % (lname, lf, dig, "".join(map(chr, s)) if s else None,
                             r[where] if where is not None else r[:40], m[where] if where is not None else m[:40]),
                          {"request": "punct.find %x %d %s" % (lf, dig, hexl(s) if s else "?")},
                          found_input=False)
        ctx.oblige("findPunct = find_punctuator, lang %s digraphs %d, all %d strings of length %d"
                   % (lname, dig, len(al) ** n, n), ok, "correspondence")
    ctx.distinct.add(b"punct-sweep")
    # the single-string command, incl. longer strings, NUL and non-ASCII bytes (the C string ends at NUL)
    rng = ctx.rng
    samples = []
    tags = ["??(??)", "??!??!", "??=??=", "??!=", "%:%:", "<::>", ">>>=", "<<=", "->*", "...", "??/", "[]", "<=>"]
    for _ in range(600):
        t = [ord(c) for c in rng.choice(tags)]
        t = t[:rng.randrange(1, len(t) + 1)] + [rng.choice(al + [0x80, 0xe9, 0x20, 0x31]) for _ in range(rng.randrange(0, 4))]
        if 0 in t or any(t[:len(p)] == p for p in ph):
            continue
        samples.append((rng.choice(list(LANGS.values()) + [0x0fff]), rng.randrange(2), t))
    lines = ["punct.find %x %d %s" % (lf, dig, hexl(t)) for lf, dig, t in samples]
    lines += ["punct.find %x %s" % (lf, hexl(t)) for lf, dig, t in samples[:100]]
    real = harness.run_fnharness(lines)
    model = common.run_driver(lines)
    nbad = 0
    for ln, r, m in zip(lines, real, model):
        ctx.case("pf " + ln)
        if r != m:
            nbad += 1
            ctx.violation("findPunct disagrees with find_punctuator on `%s`: real=%s model=%s" % (ln, r, m),
                          {"request": ln}, found_input=False)
    ctx.oblige("punct.find single-string command, %d sampled requests" % len(lines), nbad == 0, "correspondence")
    bad += nbad
    # char table
    lines = ["chartable %x" % c for c in range(256)] + ["chartable %x" % c for c in (0x100, 0x7ff, 0xffff, 0x10ffff)]
    real = harness.run_fnharness(lines)
    model = common.run_driver(lines)
    cbad = [ln for ln, r, m in zip(lines, real, model) if r != m]
    for ln in lines:
        ctx.case("ct " + ln)
    for ln in cbad[:5]:
        ctx.violation("isKw1/isKw2 disagree with CharTable on `%s`" % ln, {"request": ln}, found_input=False)
    ctx.oblige("isKw1/isKw2 = CharTable::IsKw1/IsKw2 on 0..255 and 4 larger code points", not cbad, "correspondence")
    return bad + len(cbad)


def guard_texts():
    """chunk texts for the fusion-guard correspondence: every table tag, words, numbers, the exempted strings"""
    from translators import t_punct
    entries, _ = t_punct.parse_symbols(common.REPO)
    tags = sorted({t for t, _, _ in entries})
    ph = [t for t, _ in t_punct.phantoms(entries, common.REPO)]
    tags = [t for t in tags if not any(t.startswith(p) for p in ph)]
    extra = ["a", "ab", "x1", "_", "$", "L", "u8", "R", "abcd", "1", "12", "1.", "1e", "0x1e", "1e+", ".5", "1.5f", "1234",
             "[]", "{{", "}}", "()", "{", "}", "(", ")", "@\"x\"", "@\"", "@", "\"x\"", "'c'", "é", "aé", "é+", "+é",
             "\\", "`", "->*", "+++", "<<<<", ">>>>"]
    return [[ord(c) for c in t] for t in tags + extra]


def force_correspondence(ctx, thorough=False):
    """`forceSpace` (driver `space.force`) against PCF_FORCE_SPACE as set by the real space_text()
    (harness `space.force`: a two-chunk list [pc, next] run through space_text())."""
    texts = guard_texts()
    rng = ctx.rng
    from translators import t_punct
    entries, _ = t_punct.parse_symbols(common.REPO)
    ph = [[ord(c) for c in t] for t, _ in t_punct.phantoms(entries, common.REPO)]

    def reaches_phantom(a, b):
        # the guard calls find_punctuator(a ++ b): undefined behaviour when that reaches a phantom trie node
        s = a + b
        return any(s[:len(p)] == p for p in ph)
    lines = []
    cfam = [LANGS["C"], LANGS["CPP"], LANGS["OC"], LANGS["JAVA"]]
    for lf in cfam:
        for dig in (0, 1):
            for permit in (0, 1):
                for ac in (0, 1):
                    if not thorough and (dig, permit, ac) not in ((0, 0, 0), (0, 1, 1), (1, 0, 1), (0, 0, 1), (1, 1, 0)):
                        continue
                    for a in texts:
                        for b in texts:
                            if reaches_phantom(a, b):
                                continue
                            if thorough or len(a) + len(b) <= 4 or rng.random() < 0.25:
                                lines.append("space.force %x %d %d %s %d %s %d" % (lf, dig, permit, hexl(a), ac, hexl(b), ac))
    others = [v for v in LANGS.values() if v not in cfam] + [0x2001, 0x2002, 0x0fff]
    for _ in range(60000 if thorough else 12000):
        a, b = rng.choice(texts), rng.choice(texts + [[]])
        if reaches_phantom(a, b):
            continue
        lines.append("space.force %x %d %d %s %d %s %d" % (rng.choice(others + cfam), rng.randrange(2), rng.randrange(2),
                                                          hexl(a), rng.randrange(2), hexl(b), rng.randrange(2)))
    real = harness.run_fnharness(lines)
    n = max(1, (len(lines) + common.NCPU - 1) // common.NCPU)
    model = [x for part in common.pmap(common.run_driver, [lines[i:i + n] for i in range(0, len(lines), n)]) for x in part]
    bad = 0
    for ln, r, m in zip(lines, real, model):
        ctx.case("sf " + ln)
        if r != m:
            bad += 1
            if bad <= 5:
                ctx.violation("forceSpace disagrees with space_text() on `%s`: real=%s model=%s" % (ln, r, m),
                              {"request": ln}, found_input=False)
    ctx.count("space.force requests", len(lines))
    ctx.oblige("forceSpace = PCF_FORCE_SPACE set by space_text(), %d two-chunk lists" % len(lines), bad == 0 and len(real) == len(lines),
               "correspondence")
    return bad


# ---------------------------------------------------------------------------
# the specification lexer through the driver
# ---------------------------------------------------------------------------

def decode_text(data):
    """file bytes -> code points (BOM-aware: UTF-8/UTF-16; fallback Latin-1), BOM dropped"""
    if data[:3] == b"\xef\xbb\xbf":
        data = data[3:]
    if data[:2] in (b"\xff\xfe", b"\xfe\xff"):
        try:
            return [ord(c) for c in data.decode("utf-16")]
        except UnicodeDecodeError:
            pass
    return cps_of(data)


def lang_flags(lang, digraphs=False):
    lf = lang if isinstance(lang, int) else LANGS[{"OC+": "OC", "C++": "CPP", "C-HEADER": "C"}.get(lang.upper(), lang.upper())]
    return lf | (FLAG_DIG if digraphs else 0)


def _parse_toks(ans):
    if ans == "fail" or ans == "bad-op":
        return None
    if ans == "-":
        return []
    out = []
    for w in ans.split(" "):
        k, h = w.split(":", 1)
        out.append((k, [] if h == "-" else [int(x, 16) for x in h.split(".")]))
    return out


def _run_parallel(lines_per_req, reqs):
    """reqs = list of request blocks (each a list of lines producing ONE answer); keeps order"""
    n = max(1, (len(reqs) + common.NCPU - 1) // common.NCPU)
    chunks = [reqs[i:i + n] for i in range(0, len(reqs), n)]

    def one(chunk):
        return common.run_driver([ln for blk in chunk for ln in blk])
    return [a for part in common.pmap(one, chunks) for a in part]


def lex_tokens(lang, texts, comments=False, digraphs=False):
    """texts: list of code-point lists / str / bytes.  Returns for each text the token list
    [(kind, code points)] of the specification lexer, or None where the lexer rejects.
    kinds: id num str chr punct other eod hdr (+ cmtl cmtb with comments=True)"""
    lf = lang_flags(lang, digraphs)
    cmd = "lex.allc" if comments else "lex.all"
    reqs = [["%s %x %s" % (cmd, lf, hexl(t if isinstance(t, list) else cps_of(t)))] for t in texts]
    return [_parse_toks(a) for a in _run_parallel(1, reqs)]


def lex_cmp(lang, pairs, comments=False, digraphs=False):
    """pairs: list of (a, b) texts.  Returns per pair ("same", n) | ("diff", index, tokA, tokB) | ("fail", which)"""
    lf = lang_flags(lang, digraphs) if not isinstance(lang, list) else None
    cmd = "lex.cmpc" if comments else "lex.cmp"
    reqs = []
    for i, (a, b) in enumerate(pairs):
        l = lf if lf is not None else lang_flags(lang[i], digraphs)
        reqs.append(["+" + hexl(a if isinstance(a, list) else cps_of(a)),
                     "+" + hexl(b if isinstance(b, list) else cps_of(b)),
                     "%s %x" % (cmd, l)])
    out = []
    for a in _run_parallel(3, reqs):
        w = a.split(" ")
        if w[0] == "same":
            out.append(("same", int(w[1])))
        elif w[0] == "diff":
            out.append(("diff", int(w[1]), w[2], w[3]))
        else:
            out.append(("fail", a))
    return out


def show_tok(w):
    """'id:61.62' -> 'id:ab' for messages"""
    if ":" not in w:
        return w
    k, h = w.split(":", 1)
    return k + ":" + ("" if h == "-" else "".join(chr(int(x, 16)) for x in h.split(".")))


# ---------------------------------------------------------------------------
# configuration classes (DESIGN.md appendix C), by option name
# ---------------------------------------------------------------------------

WS_PREFIXES = ("sp_", "indent_", "nl_", "pos_", "align_", "ls_", "pp_", "use_", "eat_blanks_", "donot_")
WS_NAMES = {"newlines", "input_tab_size", "output_tab_size", "code_width", "indent_with_tabs", "indent_columns",
            "force_tab_after_define"}
NOT_WS = {"pp_ignore_define_body"}


def is_ws_option(name):
    if name in NOT_WS or name.startswith("sp_cmt_cpp_"):
        return False
    return name in WS_NAMES or name.startswith(WS_PREFIXES)


def nondefault_options(exe, cfg):
    from . import unc
    base = unc.cfg_values(exe, None)
    vals = unc.cfg_values(exe, cfg)
    return {k: v for k, v in vals.items() if base.get(k) != v}


def config_class(exe, cfg):
    """'ws' (whitespace-only), 'cmt' (additionally only comment options), or 'mod' (anything else);
    plus the offending option names.  Tokenizer directives (set/type/macro-*/file_ext) make it 'mod'."""
    nd = nondefault_options(exe, cfg)
    other = sorted(k for k in nd if not is_ws_option(k))
    txt = open(cfg, errors="replace").read()
    import re
    if re.search(r"^\s*(set|type|macro-open|macro-close|macro-else|define|include|file_ext|using)\b", txt, re.M):
        other.append("<directive>")
    if not other:
        return "ws", []
    if all(k.startswith("cmt_") and not k.startswith("cmt_insert") for k in other):
        return "cmt", other
    return "mod", other


# ---------------------------------------------------------------------------
# self-test on the repository's own test corpus
# ---------------------------------------------------------------------------

def corpus_pairs(suites=("c", "cpp")):
    """(test id, config, input, expected, lang name) for the format tests of the given suites"""
    import re
    tdir = os.path.join(common.REPO, "tests")
    decl = re.compile(r"^(?P<num>\d+)(?P<mark>[~!]*)\s+(?P<config>\S+)\s+(?P<input>\S+)(?:\s+(?P<lang>\S+))?$")
    out = []
    for s in suites:
        for ln in open(os.path.join(tdir, s + ".test"), errors="replace"):
            m = decl.match(ln.strip())
            if not m:
                continue
            inp = os.path.join(tdir, "input", m.group("input"))
            d = os.path.dirname(m.group("input"))
            exp = os.path.join(tdir, "expected", d, "%s-%s" % (m.group("num"), os.path.basename(inp)))
            cfg = os.path.join(tdir, "config", m.group("config"))
            lang = m.group("lang") or common.LANG_OF_DIR.get(d, d.upper())
            if os.path.exists(inp) and os.path.exists(exp) and os.path.exists(cfg):
                out.append((s + ":" + m.group("num") + m.group("mark"), cfg, inp, exp, lang))
    return out


def corpus_selftest(suites=("c", "cpp"), digraphs=False, verbose=True):
    exe = common.build_repo(hooks=True)
    tdir = os.path.join(common.REPO, "tests")
    # (1) acceptance
    files = []
    for sub in ("input", "expected"):
        for s in suites:
            base = os.path.join(tdir, sub, s)
            for root, _, fs in os.walk(base):
                for f in sorted(fs):
                    files.append((os.path.join(root, f), s))
    texts = [decode_text(open(p, "rb").read()) for p, _ in files]
    langs = [common.LANG_OF_DIR[s] for _, s in files]
    lfs = [lang_flags(l, digraphs) for l in langs]
    reqs = [["lex.count %x %s" % (lf, hexl(t))] for lf, t in zip(lfs, texts)]
    ans = _run_parallel(1, reqs)
    rejected = [p for (p, _), a in zip(files, ans) if a == "fail"]
    res = {"files": len(files), "accepted": len(files) - len(rejected), "rejected": rejected}
    # (2) token equality on (input, expected)
    pairs = corpus_pairs(suites)
    cls = {}
    for _, cfg, _, _, _ in pairs:
        if cfg not in cls:
            cls[cfg] = config_class(exe, cfg)
    io = [(decode_text(open(i, "rb").read()), decode_text(open(e, "rb").read())) for _, _, i, e, _ in pairs]
    cmp_ = lex_cmp([p[4] for p in pairs], io, digraphs=digraphs)
    stats = {}
    diffs = []
    for p, r in zip(pairs, cmp_):
        c = cls[p[1]][0]
        st = stats.setdefault(c, {"pairs": 0, "same": 0, "diff": 0, "fail": 0})
        st["pairs"] += 1
        st[r[0]] += 1
        if r[0] != "same":
            diffs.append((c, p, r))
    res["pairs"] = stats
    res["diffs"] = diffs
    if verbose:
        print("files lexed: %d, accepted: %d" % (res["files"], res["accepted"]))
        for p in rejected:
            print("  rejected:", os.path.relpath(p, tdir))
        for c, st in sorted(stats.items()):
            print("config class %-4s: %s" % (c, st))
        for c, p, r in diffs:
            if c == "mod":
                continue
            print("  %s %s cfg=%s in=%s: %s" % (c, p[0], os.path.relpath(p[1], tdir), os.path.relpath(p[2], tdir),
                                               " ".join(show_tok(x) if isinstance(x, str) else str(x) for x in r)))
    return res


if __name__ == "__main__":
    corpus_selftest(digraphs="--dig" in sys.argv)


# ---------------------------------------------------------------------------
# replays of the fusion-guard gaps on the real binary (direct oracle material for C01/C02)
# ---------------------------------------------------------------------------

# (name of the Lean witness, language, input text, configuration lines, lex with digraphs as tokens?)
GUARD_GAP_REPLAYS = [
    ("comment_open", "C", "void f(int a, int *p)\n{\n   int x = a / *p;\n}\n", ["sp_arith = remove"], False),
    ("comment_open", "CPP", "#define DIV(a, p) a / *p\n", ["sp_arith = remove"], False),
    ("hex_exponent_sign", "C", "int x = 0x1e + 3;\n", ["sp_arith = remove"], False),
    ("hex_exponent_sign", "CPP", "int x = 0xE - 1;\n", ["sp_arith_additive = remove"], False),
    ("hex_exponent_sign", "JAVA", "class A { int x = 0x1e + 3; }\n", ["sp_arith = remove"], False),
    ("number_ellipsis", "C", "#define E 1 ... 5\n", ["sp_before_ellipsis = remove"], False),
    ("number_dot", "C", "void f()\n{\n   x = 1 . a;\n}\n", [], False),
    ("ellipsis", "C", "void f()\n{\n   f(a, . . .);\n}\n", [], False),
    ("digraph_lt_scope", "C", "void f()\n{\n   x = a < ::b;\n}\n", ["sp_compare = remove"], True),
    ("digraph_lt_scope", "OC", "void f()\n{\n   x = a < ::b;\n}\n", ["sp_compare = remove"], True),
    ("digraph_lt_colon", "CPP", "void f()\n{\n   y = a ? x < : b;\n}\n", ["sp_cond_colon = remove"], True),
]


def replay_guard_gaps(exe=None):
    """run every replay; returns [(name, lang, input, cfg, output, lex_cmp result)] -- a result other than
    ("same", n) is a token change produced by the real binary under a whitespace-only configuration"""
    import tempfile
    exe = exe or common.build_repo(hooks=True)
    out = []
    for name, lang, text, cfg, dig in GUARD_GAP_REPLAYS:
        with tempfile.TemporaryDirectory(dir=common.CACHE) as d:
            cp = os.path.join(d, "c.cfg")
            ip = os.path.join(d, "in.txt")
            open(cp, "w").write("\n".join(cfg) + "\n")
            open(ip, "w").write(text)
            r = subprocess.run([exe, "-q", "-c", cp, "-l", lang, "-f", ip], stdout=subprocess.PIPE, stderr=subprocess.PIPE)
        res = lex_cmp(lang, [(text, r.stdout.decode("latin-1"))], digraphs=dig)[0] if r.returncode == 0 else ("refused", r.returncode)
        out.append((name, lang, text, cfg, r.stdout.decode("latin-1"), res))
    return out
