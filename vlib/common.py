"""Shared machinery of the /verif checks: builds, Lean audit, evidence, reporting.

Every path is derived from this file's location so the same code runs from a
snapshot (vp run) or from /verif itself.
"""
import fcntl
import hashlib
import json
import os
import random
import re
import shutil
import subprocess
import sys
import time

ROOT = os.path.dirname(os.path.dirname(os.path.abspath(__file__)))
REPO = os.environ.get("VERIF_REPO", "/repo")
CACHE = os.path.join(ROOT, ".cache")
LEAN_DIR = os.path.join(ROOT, "lean", "UncModel")
EVID_DIR = os.path.join(ROOT, "evidence")
REPLAY_DIR = os.path.join(ROOT, "replays")
NCPU = os.cpu_count() or 4

ALLOWED_AXIOMS = {"propext", "Classical.choice", "Quot.sound"}
FORBIDDEN = re.compile(
    r"\b(sorry|admit|native_decide|bv_decide|implemented_by)\b|^\s*axiom\s|\bunsafe\s|maxHeartbeats\s+0\b",
    re.M)


def sh(cmd, **kw):
    kw.setdefault("stdout", subprocess.PIPE)
    kw.setdefault("stderr", subprocess.STDOUT)
    kw.setdefault("text", True)
    return subprocess.run(cmd, **kw)


class Lock:
    def __init__(self, name):
        os.makedirs(CACHE, exist_ok=True)
        self.path = os.path.join(CACHE, name + ".lock")

    def __enter__(self):
        self.f = open(self.path, "w")
        fcntl.flock(self.f, fcntl.LOCK_EX)
        return self

    def __exit__(self, *a):
        fcntl.flock(self.f, fcntl.LOCK_UN)
        self.f.close()


# ---------------------------------------------------------------------------
# building /repo's working tree
# ---------------------------------------------------------------------------

def build_repo(hooks=True, sanitize=False):
    """Build /repo's current working tree (incrementally) and return the binary path.

    The build directory lives under /verif/.cache; ninja rebuilds exactly what
    changed in /repo since the last call, so a check always runs the current tree.
    """
    name = "bld" + ("" if hooks else "-nohook") + ("-san" if sanitize else "")
    bdir = os.path.join(CACHE, name)
    flags = []
    if hooks:
        flags.append("-DUNCRUSTIFY_VERIF")
    if sanitize:
        flags.append("-fsanitize=address,undefined -fno-sanitize-recover=undefined -fno-omit-frame-pointer -O1")
    with Lock(name):
        if not os.path.exists(os.path.join(bdir, "build.ninja")):
            os.makedirs(bdir, exist_ok=True)
            cfg = ["cmake", "-S", REPO, "-B", bdir, "-G", "Ninja",
                   "-DCMAKE_BUILD_TYPE=Release",
                   "-DCMAKE_CXX_FLAGS=" + " ".join(flags)]
            if sanitize:
                cfg.append("-DCMAKE_EXE_LINKER_FLAGS=-fsanitize=address,undefined")
            r = sh(cfg)
            if r.returncode != 0:
                raise BuildError("cmake configure failed:\n" + r.stdout[-3000:])
        r = sh(["cmake", "--build", bdir, "-j", str(NCPU)])
        if r.returncode != 0:
            raise BuildError("build of /repo failed:\n" + r.stdout[-4000:])
    return os.path.join(bdir, "uncrustify")


def build_dir(hooks=True, sanitize=False):
    name = "bld" + ("" if hooks else "-nohook") + ("-san" if sanitize else "")
    return os.path.join(CACHE, name)


class BuildError(Exception):
    pass


# ---------------------------------------------------------------------------
# Lean: build, audit, driver
# ---------------------------------------------------------------------------

def lake_build(targets):
    with Lock("lake"):
        r = sh(["lake", "build"] + list(targets), cwd=LEAN_DIR)
    return r.returncode == 0, r.stdout


def lean_files():
    out = []
    for base, _, files in os.walk(LEAN_DIR):
        if ".lake" in base:
            continue
        for f in files:
            if f.endswith(".lean"):
                out.append(os.path.join(base, f))
    return sorted(out)


def strip_lean_comments(src):
    # remove /- ... -/ (nested) and -- ... comments
    out = []
    i, depth, n = 0, 0, len(src)
    while i < n:
        if src.startswith("/-", i):
            depth += 1
            i += 2
        elif depth and src.startswith("-/", i):
            depth -= 1
            i += 2
        elif depth:
            i += 1
        elif src.startswith("--", i):
            j = src.find("\n", i)
            i = n if j < 0 else j
        else:
            out.append(src[i])
            i += 1
    return "".join(out)


def grep_forbidden():
    """Forbidden constructs anywhere in the Lean sources (comments stripped)."""
    hits = []
    for f in lean_files():
        body = strip_lean_comments(open(f).read())
        for m in FORBIDDEN.finditer(body):
            hits.append((os.path.relpath(f, LEAN_DIR), m.group(0).strip()))
    return hits


def theorems_in(relpath):
    src = strip_lean_comments(open(os.path.join(LEAN_DIR, relpath)).read())
    return re.findall(r"^\s*theorem\s+([A-Za-z0-9_.']+)", src, re.M)


def audit_axioms(module, names, namespace="Unc"):
    """Run `#print axioms` for each theorem; returns {name: [axioms]} or raises."""
    os.makedirs(os.path.join(CACHE, "audit"), exist_ok=True)
    # one file per process: several checks audit the same module (Props.Render) concurrently
    path = os.path.join(CACHE, "audit", "%s_%d.lean" % (module.replace(".", "_"), os.getpid()))
    with Lock("lake"):
        with open(path, "w") as f:
            f.write("import %s\nopen %s\n" % (module, namespace))
            for n in names:
                f.write("#print axioms %s\n" % n)
        r = sh(["lake", "env", "lean", path], cwd=LEAN_DIR)
        try:
            os.unlink(path)
        except OSError:
            pass
    res = {}
    text = r.stdout
    for m in re.finditer(r"'([^']+)' (does not depend on any axioms|depends on axioms: \[([^\]]*)\])", text, re.S):
        nm = m.group(1).split(".")[-1] if m.group(1).split(".")[-1] in names else m.group(1)
        axs = [] if m.group(3) is None else [a.strip() for a in m.group(3).replace("\n", " ").split(",") if a.strip()]
        res[nm] = axs
    return res, text, r.returncode


def driver_path():
    return os.path.join(LEAN_DIR, ".lake", "build", "bin", "uncdrv")


def run_driver(lines, timeout=600):
    """Feed request lines to the compiled Lean driver; returns list of answer lines."""
    data = "\n".join(lines) + "\n"
    r = subprocess.run([driver_path()], input=data, stdout=subprocess.PIPE,
                       stderr=subprocess.PIPE, text=True, timeout=timeout)
    if r.returncode != 0:
        raise RuntimeError("uncdrv failed: " + r.stderr[-2000:])
    out = r.stdout.split("\n")
    if out and out[-1] == "":
        out.pop()
    return out


# ---------------------------------------------------------------------------
# known findings
# ---------------------------------------------------------------------------

def load_known():
    p = os.path.join(ROOT, "known_findings.json")
    if not os.path.exists(p):
        return []
    return json.load(open(p))


def canon(obj):
    return json.dumps(obj, sort_keys=True, separators=(",", ":"))


# ---------------------------------------------------------------------------
# the per-run context
# ---------------------------------------------------------------------------

class Ctx:
    def __init__(self, prop, tier, level="proof"):
        self.prop = prop
        self.tier = tier
        self.level = level
        self.seed = int(os.environ.get("VERIF_SEED", "0") or 0)
        self.rng = random.Random((self.seed, prop).__repr__())
        self.t0 = time.time()
        self.obligations = []      # (name, kind, ok, detail)
        self.violations = []       # dicts
        self.known_hits = []
        self.samples = []
        self.cov = {}
        self.assumptions = []
        self.trusted = []
        self.hist = {}
        self.evals = 0
        self.distinct = set()
        self.known = [k for k in load_known() if k.get("property") == prop]
        os.makedirs(EVID_DIR, exist_ok=True)
        os.makedirs(REPLAY_DIR, exist_ok=True)

    # -- bookkeeping ------------------------------------------------------
    def log(self, *a):
        print("[%s %6.1fs]" % (self.prop, time.time() - self.t0), *a, flush=True)

    def oblige(self, name, ok, kind="theorem", detail=None):
        self.obligations.append({"name": name, "kind": kind, "ok": bool(ok), "detail": detail})
        return ok

    def count(self, key, n=1):
        self.hist[key] = self.hist.get(key, 0) + n

    def case(self, canon_repr=None, nontrivial=True):
        self.evals += 1
        if nontrivial and canon_repr is not None:
            self.distinct.add(hashlib.sha1(canon_repr.encode() if isinstance(canon_repr, str) else canon_repr).digest()[:8])

    def sample(self, obj, limit=6):
        if len(self.samples) < limit:
            self.samples.append(obj)

    # -- reporting ---------------------------------------------------------
    def violation(self, what, replay, key=None, found_input=True):
        """Record a violation.  `key` identifies the failing input for known-findings matching."""
        if key is not None:
            for k in self.known:
                if k.get("status") == "known" and canon(k.get("key")) == canon(key):
                    if canon(key) not in [canon(h["key"]) for h in self.known_hits]:
                        self.known_hits.append({"key": key, "what": k.get("what", what)})
                    return False
        self.violations.append({"what": what, "replay": replay, "key": key, "found_input": found_input})
        return True

    def finish(self):
        wall = time.time() - self.t0
        n_ob = len(self.obligations)
        n_ok = sum(1 for o in self.obligations if o["ok"])
        failed = [o for o in self.obligations if not o["ok"]]
        # failed obligations that no concrete violation explains -> no-failing-input-found
        if failed and not self.violations:
            self.violations.append({
                "what": "proof obligation / correspondence no longer checks: " + ", ".join(o["name"] for o in failed[:8]),
                "replay": {"failed_obligations": failed[:40]},
                "key": None, "found_input": False})
        dump = os.environ.get("VERIF_DUMP_VIOLATIONS")
        if dump:
            # development aid: every violation of this run with its key (never read back by a check)
            with open(dump, "w") as f:
                json.dump([{"what": v["what"], "key": v["key"]} for v in self.violations], f, indent=1)
        for h in self.known_hits:
            print("KNOWN-FINDING: property=%s %s" % (self.prop, h["what"]))
        # merge violations into at most a handful of replay files
        lines = []
        for i, v in enumerate(self.violations[:10]):
            path = os.path.join(REPLAY_DIR, "%s-%d.json" % (self.prop, i))
            with open(path, "w") as f:
                json.dump({"property": self.prop, "what": v["what"], "seed": self.seed, "tier": self.tier,
                           "replay": v["replay"], "key": v["key"],
                           "failed_obligations": failed[:40]}, f, indent=1, default=str)
            tail = "" if v["found_input"] else " no-failing-input-found"
            lines.append("VIOLATION property=%s replay=%s%s" % (self.prop, path, tail))
            print("  what: " + v["what"][:600])
        cov = {
            "obligations": n_ob, "discharged": n_ok,
            "checker_cmd": "cd lean/UncModel && lake build UncModel.Props.%s && lake env lean <audit:#print axioms>" % self.prop,
            "trusted_base": self.trusted,
            "evaluations": self.evals,
            "distinct_nontrivial": len(self.distinct),
            "rule": self.cov.pop("rule", "see DESIGN.md section for this property"),
            "samples": self.samples if self.samples else [o["name"] for o in self.obligations[:5]],
            "obligation_list": [{"name": o["name"], "kind": o["kind"], "ok": o["ok"]} for o in self.obligations][:400],
            "histogram": self.hist,
            "known_findings_hit": self.known_hits,
        }
        cov.update(self.cov)
        ev = {"property_id": self.prop, "tier": self.tier, "seed": self.seed, "level": self.level,
              "coverage": cov, "assumptions": self.assumptions, "wall_s": round(wall, 2),
              "violations": len(self.violations)}
        with open(os.path.join(EVID_DIR, self.prop + ".json"), "w") as f:
            json.dump(ev, f, indent=1, default=str)
        for ln in lines:
            print(ln)
        self.log("obligations %d/%d, evaluations %d (distinct %d), violations %d, known %d, %.1fs"
                 % (n_ok, n_ob, self.evals, len(self.distinct), len(self.violations), len(self.known_hits), wall))
        return 1 if self.violations else 0

    # -- the common Lean steps --------------------------------------------
    def lean_obligations(self, module="UncModel.Props.%s", extra_targets=("uncdrv",), thorough_leanchecker=True):
        """lake build + forbidden grep + axiom audit for Props/<prop>.lean"""
        mod = module % self.prop if "%s" in module else module
        rel = mod.replace(".", "/") + ".lean"
        ok, out = lake_build([mod] + list(extra_targets))
        self.oblige("lake build " + mod, ok, "build", None if ok else out[-3000:])
        if not ok:
            self.log("lake build failed:\n" + out[-3000:])
            return False
        hits = grep_forbidden()
        self.oblige("no sorry/admit/axiom/native_decide/bv_decide/implemented_by/unsafe/maxHeartbeats 0 in lean sources",
                    not hits, "audit", hits[:20])
        names = theorems_in(rel)
        self.oblige("Props file declares theorems", len(names) > 0, "audit", rel)
        res, text, rc = audit_axioms(mod, names)
        for n in names:
            axs = res.get(n)
            good = axs is not None and set(axs) <= ALLOWED_AXIOMS
            self.oblige("theorem %s (axioms: %s)" % (n, "missing from audit output" if axs is None else ",".join(axs) or "none"),
                        good, "theorem", None if good else text[-1500:])
        if self.tier == "thorough" and thorough_leanchecker:
            with Lock("lake"):
                r = sh(["lake", "env", "leanchecker", mod], cwd=LEAN_DIR)
            self.oblige("leanchecker " + mod, r.returncode == 0, "audit", r.stdout[-1500:])
        self.trusted += ["Lean 4.33.0 kernel", "axioms: subset of propext, Classical.choice, Quot.sound (audited per theorem this run)"]
        return all(o["ok"] for o in self.obligations)


def lean_extra(ctx, module, names=None, namespace="Unc"):
    """audit further theorems (all of a Props module, or the named ones) for this property"""
    ok, out = lake_build([module])
    ctx.oblige("lake build " + module, ok, "build", None if ok else out[-2000:])
    if not ok:
        return
    allnames = theorems_in(module.replace(".", "/") + ".lean")
    if names is None:
        names = allnames
    for n in names:
        if n not in allnames:
            ctx.oblige("theorem %s exists in %s" % (n, module), False, "theorem")
    names = [n for n in names if n in allnames]
    res, text, rc = audit_axioms(module, names, namespace)
    for n in names:
        axs = res.get(n)
        good = axs is not None and set(axs) <= ALLOWED_AXIOMS
        ctx.oblige("theorem %s (axioms: %s)" % (n, "missing from audit output" if axs is None else ",".join(axs) or "none"),
                   good, "theorem", None if good else text[-1500:])


def write_if_changed(path, text):
    if os.path.exists(path) and open(path).read() == text:
        return False
    os.makedirs(os.path.dirname(path), exist_ok=True)
    with open(path, "w") as f:
        f.write(text)
    return True


def pmap(fn, items, workers=None):
    from concurrent.futures import ThreadPoolExecutor
    with ThreadPoolExecutor(max_workers=workers or NCPU) as ex:
        return list(ex.map(fn, items))


def corpus_files(langs=None):
    """The repository's own test inputs, as (path, language-dir)."""
    base = os.path.join(REPO, "tests", "input")
    out = []
    for d in sorted(os.listdir(base)):
        if langs and d not in langs:
            continue
        dd = os.path.join(base, d)
        if not os.path.isdir(dd):
            continue
        for root, _, files in os.walk(dd):
            for f in sorted(files):
                out.append((os.path.join(root, f), d))
    return out


LANG_OF_DIR = {"c": "C", "cpp": "CPP", "c-sharp": "CS", "d": "D", "ecma": "ECMA", "java": "JAVA",
               "objective-c": "OC+", "pawn": "PAWN", "vala": "VALA", "staging": "CPP", "imported": "CPP"}
