"""Minimal reader of the option registry src/options.h (name, type, bounds, default), documented format:
    extern TYPE
    NAME; // = DEFAULT
"""
import os
import re

from . import common

_cache = {}


def registry():
    path = os.path.join(common.REPO, "src", "options.h")
    key = os.path.getmtime(path)
    if _cache.get("key") == key:
        return _cache["reg"]
    src = open(path).read()
    reg = {}
    for m in re.finditer(r"extern\s+((?:Bounded)?Option<[^\n]*>)\s*\n([a-z_0-9]+);(?:\s*//\s*=\s*(.*))?", src):
        ty, name, dflt = m.group(1), m.group(2), (m.group(3) or "").strip()
        kind, lo, hi = "other", None, None
        if "iarf_e" in ty:
            kind = "iarf"
        elif "bool" in ty:
            kind = "bool"
        elif "line_end_e" in ty:
            kind = "lineend"
        elif "token_pos_e" in ty:
            kind = "tokenpos"
        elif "string" in ty:
            kind = "string"
        elif "unsigned" in ty:
            kind = "unum"
        elif "signed" in ty:
            kind = "num"
        b = re.search(r"BoundedOption<\s*\w+\s*,\s*(-?\d+)\s*,\s*(-?\d+)\s*>", ty)
        if b:
            lo, hi = int(b.group(1)), int(b.group(2))
        reg[name] = {"kind": kind, "min": lo, "max": hi, "default": dflt}
    if len(reg) < 700:
        raise RuntimeError("options.h: only %d options parsed" % len(reg))
    _cache["key"], _cache["reg"] = key, reg
    return reg


def names(kind=None, prefix=None):
    return sorted(n for n, o in registry().items() if (kind is None or o["kind"] == kind) and (prefix is None or n.startswith(prefix)))
