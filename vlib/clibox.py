"""Sandboxed runs of the real binary + the matching requests to the Lean CLI model (C10, C12).

A *box* is a private directory holding a few source files, configs and list files.  `run_real` runs
the binary inside a fresh copy of it and reports exit status, stdout, stderr and the difference of
two directory snapshots (names, sizes, mtimes, hashes).  `model_env` describes the same box to the
Lean model (`cli.plan` / `cli.run` requests of Driver/CliDrv.lean), `check_effects` compares what the
model says the process does with what it did.
"""
import hashlib
import os
import shutil
import subprocess
import tempfile

from . import common


def hx(s):
    b = s.encode("utf-8", "surrogateescape") if isinstance(s, str) else bytes(s)
    return ".".join("%x" % c for c in b) if b else "-"


def unhx(w):
    if w in ("-", ""):
        return b""
    return bytes(int(x, 16) for x in w.split("."))


# one scratch directory per check process: checks of different properties may run at the same time and each removes its own
BOXDIR = os.path.join(common.CACHE, "box", "p%d" % os.getpid())


def snapshot(root):
    """{relpath: ('d',) | ('f', size, mtime_ns, sha1)}; symlinks are not followed"""
    out = {}
    for base, dirs, files in os.walk(root):
        for d in dirs:
            out[os.path.relpath(os.path.join(base, d), root)] = ("d",)
        for f in files:
            p = os.path.join(base, f)
            st = os.lstat(p)
            try:
                h = hashlib.sha1(open(p, "rb").read()).hexdigest()
            except OSError:
                h = "?"
            out[os.path.relpath(p, root)] = ("f", st.st_size, st.st_mtime_ns, h)
    return out


def diff_snap(a, b):
    created = sorted(k for k in b if k not in a)
    deleted = sorted(k for k in a if k not in b)
    modified = sorted(k for k in b if k in a and a[k][0] == "f" and b[k][0] == "f" and (a[k][1], a[k][3]) != (b[k][1], b[k][3]))
    touched = sorted(k for k in b if k in a and a[k][0] == "f" and b[k][0] == "f" and a[k][2] != b[k][2] and k not in modified)
    return {"created": created, "deleted": deleted, "modified": modified, "touched": touched}


class Real:
    """result of one sandboxed run"""
    content = {}


def run_real(exe, template, argv, stdin=b"", env=None, keep=False, pre=None, wrapper=(), timeout=60, tmpdir=None):
    """copy `template` to a fresh directory, run `exe argv` there, snapshot before/after"""
    tmpdir = tmpdir or BOXDIR
    os.makedirs(tmpdir, exist_ok=True)
    root = tempfile.mkdtemp(prefix="b-", dir=tmpdir)
    work = os.path.join(root, "w")
    shutil.copytree(template, work, symlinks=True, copy_function=shutil.copy2)
    if pre:
        pre(work)
    before = snapshot(work)
    e = {"PATH": os.environ.get("PATH", "/usr/bin:/bin"), "LC_ALL": "C"}
    if env:
        for k, v in env.items():
            if v is None:
                e.pop(k, None)
            else:
                e[k] = v.replace("@BOX@", work) if isinstance(v, str) else v
    r = Real()
    r.timeout = False
    try:
        p = subprocess.run(list(wrapper) + [exe] + list(argv), input=stdin, stdout=subprocess.PIPE, stderr=subprocess.PIPE,
                           cwd=work, env=e, timeout=timeout)
        r.rc, r.out, r.err = p.returncode, p.stdout, p.stderr
    except subprocess.TimeoutExpired as ex:
        r.rc, r.out, r.err, r.timeout = 124, ex.stdout or b"", ex.stderr or b"", True
    r.after = snapshot(work)
    r.diff = diff_snap(before, r.after)
    r.root = work
    if not keep:
        r.after = {k: v for k, v in r.after.items()}
        # keep contents of created/modified files (small) before removing the directory
        r.content = {}
        for k in r.diff["created"] + r.diff["modified"]:
            p = os.path.join(work, k)
            if os.path.isfile(p) and os.path.getsize(p) < 4_000_000:
                r.content[k] = open(p, "rb").read()
        shutil.rmtree(root, ignore_errors=True)
    return r


# ---------------------------------------------------------------------------
# describing a box to the model
# ---------------------------------------------------------------------------

def list_chunks(text):
    """fgets(buf, 256) pieces"""
    out, i = [], 0
    while i < len(text):
        j = text.find(b"\n", i, i + 255)
        j = i + 255 if j < 0 else j + 1
        out.append(text[i:j])
        i = j
    return out


def candidates(argv, lists):
    """every byte string the model may ask the environment about"""
    c = set()
    for w in argv:
        b = w.encode("utf-8", "surrogateescape") if isinstance(w, str) else w
        for i in range(len(b) + 1):
            c.add(b[i:])
    for text in lists:
        for ch in list_chunks(text):
            c.add(ch.strip(b" \t\n\r\x0b\x0c").replace(b"\\", b"/"))
    c.add(b"stdin")
    return c


def norm(p):
    return os.path.normpath(p)


def model_env(work, argv, stdin=b"", envcfg=None, homecfg=None, known_opts=(), bad_vals=(), ext=(), tbad_status=None):
    """the `key=value` words for cli.plan / cli.run describing directory `work`"""
    def full(b):
        return os.path.join(os.fsencode(work), b) if not b.startswith(b"/") else b
    lists = [stdin]
    argv = list(argv) + [x for x in (envcfg, homecfg) if x]
    cand0 = candidates(argv, [])
    for b in cand0:
        p = full(b)
        if b and os.path.isfile(p) and os.path.getsize(p) < 8192:
            lists.append(open(p, "rb").read())
    cand = candidates(argv, lists)
    files, cfgbad, nowrite, tbad, lsts = [], [], [], [], []
    for b in sorted(cand):
        if b"\x00" in b:
            continue
        p = full(b)
        isf = bool(b) and os.path.isfile(p)
        if isf:
            files.append(b)
            if os.path.getsize(p) < 8192:
                lsts.append((b, open(p, "rb").read()))
        if b and not os.path.exists(p):
            cfgbad.append((b, 70))
        d = os.path.dirname(p)
        if (not b) or os.path.isdir(p) or not os.path.isdir(d):
            nowrite.append(b)
        if b:
            if not os.path.exists(p):
                tbad.append((b, 74))
            elif tbad_status is not None:
                st = tbad_status(b, p)
                if st is not None:
                    tbad.append((b, st))
    lsts.append((b"-", stdin))
    words = ["files=" + ",".join(hx(b) for b in files),
             "cfgbad=" + ",".join("%s:%s" % (hx(b), hx(str(n))) for b, n in cfgbad),
             "nowrite=" + ",".join(hx(b) for b in nowrite),
             "tbad=" + ",".join("%s:%s" % (hx(b), hx(str(n))) for b, n in tbad),
             "list=" + ",".join("%s:%s" % (hx(b), hx(t)) for b, t in lsts),
             "envcfg=" + ("none" if envcfg is None else hx(envcfg)),
             "home=" + ("none" if homecfg is None else hx(homecfg)),
             "opts=" + ",".join(hx(o) for o in known_opts),
             "badval=" + ",".join(hx(o) for o in bad_vals),
             "ext=" + ",".join("%s:%s" % (hx(a), hx(b)) for a, b in ext)]
    return words


def argv_words(argv):
    return [hx(a) for a in argv]


def parse_plan(line):
    """'exit n' | 'run k=v …|job k=v …' -> dict"""
    if line.startswith("exit "):
        return {"exit": int(line.split()[1])}
    parts = line.split("|")
    head = dict(kv.split("=", 1) for kv in parts[0].split()[1:])
    jobs = []
    for p in parts[1:]:
        jobs.append(dict(kv.split("=", 1) for kv in p.split()[1:]))
    return {"run": head, "jobs": jobs}


def parse_effects(line):
    parts = line.split("|")
    status = int(parts[0].split()[1])
    effs = []
    for p in parts[1:]:
        f = p.split(":")
        effs.append(f)
    return status, effs


def parse_opts(line):
    return dict(kv.split("=", 1) for kv in line.split())


def optstr(v):
    return None if v == "none" else unhx(v)


# ---------------------------------------------------------------------------
# comparing the model's effects with a real run
# ---------------------------------------------------------------------------

def expected_fs(effs):
    """model effects -> (files that must exist with content | None, prefixes of dump files, stdout bytes, report lines)"""
    want = {}          # relpath -> bytes or None (exists, content unknown)
    dump_prefixes = []
    out = b""
    lines = []
    for f in effs:
        k = f[0]
        if k == "stdout":
            out += unhx(f[1])
        elif k == "write":
            want[norm(os.fsdecode(unhx(f[1])))] = unhx(f[2])
        elif k == "replace":
            p = os.fsdecode(unhx(f[1]))
            want[norm(p)] = unhx(f[2])
            if f[3] == "1":
                want[norm(p + ".unc-backup~")] = None
                want[norm(p + ".unc-backup.md5~")] = None
        elif k == "backup":
            # backup_copy_file alone (the md5 file is only written after the output file is closed)
            p = os.fsdecode(unhx(f[1]))
            want[norm(p + ".unc-backup~")] = None
        elif k == "side":
            p = os.fsdecode(unhx(f[2]))
            if f[1] == "dump":
                dump_prefixes.append(p)
            elif p != "-":
                want[norm(p)] = None
        elif k == "line":
            lines.append(f[1:])
    return want, dump_prefixes, out, lines


def check_effects(real, status, effs, before, compare_stdout=True):
    """returns a list of disagreement strings (empty = the real run did what the model says)"""
    bad = []
    if real.timeout:
        return ["timeout"]
    if real.rc != status:
        bad.append("exit status: real %d model %d" % (real.rc, status))
    want, dumps, out, lines = expected_fs(effs)
    changed = set(real.diff["created"]) | set(real.diff["modified"])
    files_changed = {k for k in changed if real.after.get(k, ("f",))[0] == "f"}
    dirs_created = {k for k in real.diff["created"] if real.after.get(k, ("f",))[0] == "d"}
    explained = set()
    for p, content in want.items():
        rel = norm(p)
        if rel.startswith("/"):
            continue
        st = real.after.get(rel)
        if st is None or st[0] != "f":
            bad.append("model says %s is written; it does not exist" % rel)
            continue
        explained.add(rel)
        if content is not None:
            got = real.content.get(rel)
            if got is None:
                # unchanged by the run: must already have held these bytes
                if hashlib.sha1(content).hexdigest() != st[3]:
                    bad.append("content of %s differs from the model's bytes (file was not modified)" % rel)
            elif got != content:
                bad.append("content of %s differs from the model's bytes (%d vs %d bytes)" % (rel, len(got), len(content)))
    for d in dumps:
        hits = [k for k in files_changed if k.startswith(norm(d) + "_") and k.endswith(".log")]
        if not hits:
            bad.append("model says dump files %s_nnn.log are written; none exist" % d)
        explained.update(hits)
    extra = files_changed - explained
    if extra:
        bad.append("files written that the model does not name: %s" % sorted(extra)[:5])
    if real.diff["deleted"]:
        bad.append("files deleted: %s" % real.diff["deleted"][:5])
    # directories may only appear as parents of written files
    for d in dirs_created:
        if not any(e.startswith(d + os.sep) for e in explained):
            bad.append("directory %s created without a written file below it" % d)
    if compare_stdout and real.out != out:
        bad.append("stdout differs: real %d bytes, model %d bytes" % (len(real.out), len(out)))
    return bad


def sink_uncreatable(work, effs):
    """a file the model says is written cannot be created in `work`: a parent is a regular file, or it is a directory"""
    for f in effs:
        if f[0] in ("write", "replace"):
            p = norm(os.fsdecode(unhx(f[1])))
            full = os.path.join(work, p)
            if os.path.isdir(full):
                return True
            d = os.path.dirname(p)
            while d:
                if os.path.isfile(os.path.join(work, d)):
                    return True
                d = os.path.dirname(d)
    return False


# ---------------------------------------------------------------------------
# language names
# ---------------------------------------------------------------------------

def lang_name_from_flags(table, flags):
    """language_name_from_flags() of the binary, from the translated table"""
    for n, v in table["names"]:
        if v == flags:
            return n
    parts = []
    for n, v in table["names"]:
        if n == "OC+":
            break
        if v & flags:
            parts.append(n)
    return ", ".join(parts)
