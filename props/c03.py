"""C03 -- comments and literals survive intact.  DESIGN.md section 6/C03.

Proof:  Props/Render.lean / RenderMore.lean: every chunk (comment ops, literal text) is emitted exactly once and in order
        (render_vis); a literal's text is written verbatim (literal_verbatim: is_literal disables the tab rewrite).
        Props/C03.lean: comment normalisation is idempotent and insensitive to exactly the permitted layout changes.
Tie:    hook-trace replay through Render; monitors on the chunk dumps: comment and literal chunks of P1 = those of P0
        (same texts, same order); recorded comment ops normalise to the chunk text.
Oracle: comments and literals extracted from input and output by the independent specification lexer; literals byte-identical,
        comments equal after the permitted normalisation, same order.  PARTIAL for comment bodies: the comment writers are an oracle.
"""
import os
import re

from vlib import common, lexcheck, pipeline, unc
from props import c02

LIT_KINDS = ("str", "chr", "hdr")
CMT_KINDS = ("cmtl", "cmtb")


def norm_comment(kind, cps):
    """the permitted layout changes: re-indentation of continuation lines, trimmed trailing blanks, a repeated '//' leader on the
    continuation lines of a backslash-continued line comment, line terminators"""
    txt = "".join(chr(c) for c in cps).replace("\r\n", "\n").replace("\r", "\n")
    lines = txt.split("\n")
    out = []
    for i, ln in enumerate(lines):
        ln = ln.rstrip(" \t")
        if i > 0:
            ln = ln.lstrip(" \t")
            if kind == "cmtl" and ln.startswith("//"):
                ln = ln[2:].lstrip(" \t")
        out.append(ln)
    return "\n".join(out)


def extract(toks):
    lits = [(k, tuple(t)) for k, t in toks if k in LIT_KINDS]
    cmts = [(k, norm_comment(k, t)) for k, t in toks if k in CMT_KINDS]
    return lits, cmts


def run(ctx):
    ctx.cov["rule"] = ("one case = one run on a generated program with comments (//, /* */, multi-line, trailing) and literals (strings with escapes, "
                       "prefixes, tabs, comment-like text; chars) at random positions under a random draw of whitespace/newline/indent/align options, "
                       "or a corpus input with a whitespace-only test config; distinct = distinct (input, config); non-trivial = contains a comment or literal")
    ctx.trusted += ["specification lexer (comment/literal extraction)", "models Render.lean/AddChar.lean", "hooks H1/H3"]
    ctx.assumptions += ["comment writers (output_comment_*) are an oracle: their recorded ops are monitored, not proved (partial)",
                        "cmt_*, sp_cmt_cpp_*, string_replace_tab_chars, header insertion at default"]
    ctx.lean_obligations()
    common.lean_extra(ctx, "UncModel.Props.TokStrip", ["strip_no_trailing_blank", "strip_keeps_backslash_guard", "strip_only_blanks", "strip_idem"])
    more = os.path.exists(os.path.join(common.LEAN_DIR, "UncModel", "Props", "RenderMore.lean"))
    common.lean_extra(ctx, "UncModel.Props.Render", ["render_vis", "execops_vis", "addtext_tidy"])
    if more:
        common.lean_extra(ctx, "UncModel.Props.RenderMore", ["literal_verbatim", "literal_no_tab", "text_chunk_verbatim"])
    exe = common.build_repo(hooks=True)
    thorough = ctx.tier == "thorough"
    sc = pipeline.Scratch("c03")
    try:
        jobs = c02.build_jobs(ctx, sc, exe, thorough)
        ctx.log("runs:", len(jobs))
        pipeline.run_jobs(exe, jobs)
        good = pipeline.render_check(ctx, jobs, "C03-render")

        # monitor: comment / literal chunks at P1 = those at P0 (texts, order)
        mbad = 0
        LIT_T = ("STRING", "STRING_MULTI", "CHAR")
        for j in good:
            h0, c0 = unc.dump(j.res["trace"], "P0")
            def seq(lines, types):
                out = []
                for ln in lines:
                    c = unc.parse_chunk(ln)
                    if c["t"] in types:
                        out.append(tuple(c["txt"]))
                return out
            # (literal chunks may be re-typed by later passes, e.g. an ObjC string; their text is covered by the character-level
            #  comparison of all non-comment chunk texts, the H-text monitor shared with C02)
            if (seq(c0, c02.CMT_T) != seq(j.chunks, c02.CMT_T)
                    or c02.vis_of_chunks(c0, which="code") != c02.vis_of_chunks(j.chunks, which="code")):
                mbad += 1
                if mbad <= 2:
                    ctx.violation("monitor: the comment/literal chunks handed to output_text() are not those the tokenizer produced [run %s]" % j.name,
                                  c02._replay(j), found_input=False)
        ctx.oblige("monitor: comment and literal chunks unchanged between tokenizer and output (%d runs)" % len(good), mbad == 0, "monitor")

        # oracle: extraction by the specification lexer
        fam = [j for j in jobs if j.res["rc"] == 0 and c02.lang_of(j.lang, j.inp) in c02.CFAMILY]
        obad = 0
        # lex per language
        by_lang = {}
        for j in fam:
            by_lang.setdefault(c02.lang_of(j.lang, j.inp), []).append(j)
        for lg, js in by_lang.items():
            ins = lexcheck.lex_tokens(lg, [lexcheck.decode_text(open(j.inp, "rb").read()) for j in js], comments=True)
            outs = lexcheck.lex_tokens(lg, [lexcheck.decode_text(j.res["out"]) for j in js], comments=True)
            for j, ti, to in zip(js, ins, outs):
                if ti is None:
                    ctx.count("spec-lexer-rejects-input")
                    continue
                li, ci = extract(ti)
                ctx.case("c03:" + j.name + j.cfg, nontrivial=bool(li or ci))
                if to is None:
                    # an unterminated comment/literal in the output: a comment swallowed code or a literal lost its end
                    if ctx.violation("the output is not lexically well formed while the input is [run %s]" % j.name, c02._replay(j),
                                     key=_fuse_key(ti, j), found_input=True):
                        obad += 1
                    continue
                lo, co = extract(to)
                why = None
                prefix_key = None
                if li != lo:
                    k = next((i for i in range(min(len(li), len(lo))) if li[i] != lo[i]), min(len(li), len(lo)))
                    why = "literal %d differs: %r -> %r" % (k, _show(li, k), _show(lo, k))
                    a0, o0 = _show(li, k) or "", _show(lo, k) or ""
                    for pre in ("u8", "u", "U", "L"):
                        if a0.startswith(pre + '"') and o0 == a0[len(pre):]:
                            prefix_key = {"kind": "string-prefix-split", "prefix": pre}
                elif ci != co:
                    k = next((i for i in range(min(len(ci), len(co))) if ci[i] != co[i]), min(len(ci), len(co)))
                    why = "comment %d differs after the permitted normalisation: %r -> %r (comments in: %d, out: %d)" % (
                        k, ci[k][1][:80] if k < len(ci) else None, co[k][1][:80] if k < len(co) else None, len(ci), len(co))
                if why:
                    key = _fuse_key(ti, j) if len(ci) != len(co) else None
                    if key is None and prefix_key is not None:
                        key = prefix_key
                    if key is None and j.meta.get("kind") == "corpus":
                        key = {"file": os.path.relpath(j.inp, common.REPO), "cfg": os.path.relpath(j.cfg, common.REPO), "kind": "comment-or-literal"}
                    if ctx.violation("%s [run %s]" % (why, j.name), c02._replay(j), key=key, found_input=True):
                        obad += 1
        # --- tie of TokStrip.lean (trailing-blank strip of tokenize(), Props/TokStrip.lean): exhaustive over all tails of
        #     length <= 4 over {blank, tab, backslash} after a `//` comment and after a #define body; the chunk text at P0
        #     must be the model's stripTrailing of the raw text
        import itertools
        tails = [""] + ["".join(t) for n in range(1, 5) for t in itertools.product(" \t\\", repeat=n)]
        sjobs = []
        for ctxname, head in (("line-comment", "// marker7 text"), ("line-comment-indented", "      // marker7 text")):
            for tl in tails:
                if tl.endswith("\\"):
                    continue          # a real continuation: the comment / directive then includes the next line
                txt = "int before;\n" + head + tl + "\nint after;\n"
                pth = sc.write(txt, ".c")
                sjobs.append(pipeline.Job("strip:%s:%r" % (ctxname, tl), sc.cfg(None, {}), pth, "C", {"raw": head + tl, "ctx": ctxname}))
        pipeline.run_jobs(exe, sjobs)
        reqs, owners = [], []
        for j in sjobs:
            if j.res["rc"] != 0 or not j.res.get("trace"):
                continue
            hdr, p0 = unc.dump(j.res["trace"], "P0")
            raw = j.meta["raw"]
            got = None
            for ln in p0:
                c = unc.parse_chunk(ln)
                t = "".join(chr(x) for x in c["txt"])
                if t.startswith("// marker7"):
                    got, want_raw = t, raw.lstrip(" ")
                elif j.meta["ctx"] == "define-body" and c["t"] in ("PREPROC_BODY",) and "body" in t:
                    got, want_raw = t, raw[raw.index("body"):]
            if got is None:
                continue
            reqs.append("tokstrip.run " + (".".join("%x" % ord(ch) for ch in want_raw) or "-"))
            owners.append((j, got))
        ans = common.run_driver(reqs) if reqs else []
        tbad = 0
        for (j, got), a in zip(owners, ans):
            ctx.case(j.name)
            mh = a.split(" ")[0]
            model = "" if mh == "-" else "".join(chr(int(x, 16)) for x in mh.split("."))
            if model != got:
                tbad += 1
                if tbad <= 3:
                    ctx.violation("tokenize() strip loop: chunk text %r, model stripTrailing gives %r [%s]" % (got, model, j.name),
                                  {"input_text": open(j.inp).read(), "chunk_text": got, "model": model}, key=None,
                                  found_input=got.endswith("\\") and not j.meta["raw"].endswith("\\"))
        ctx.oblige("tie: trailing-blank strip of tokenize() = stripTrailing (TokStrip.lean), exhaustive over %d tails of a // comment at two positions (%d compared; tails ending in a backslash are real continuations)"
                   % (len(tails), len(owners)), tbad == 0 and len(owners) > 150, "corr", "%d mismatches" % tbad)
        # ISO C splices a line only when the backslash is the very last character: the number of `//` lines that end in a
        # backslash immediately before the line break must not change (trimming a blank after that backslash would make the
        # next line part of the comment) -- independent of how a lexer treats backslash-blank-newline
        sbad = 0
        for j in fam:
            def strict(data):
                n = 0
                for ln in re.split(rb"\r\n|\r|\n", data):
                    k = ln.find(b"//")
                    if k >= 0 and ln.endswith(b"\\") and b'"' not in ln[:k]:
                        n += 1
                return n
            a, b = strict(open(j.inp, "rb").read()), strict(j.res["out"])
            if b > a:
                sbad += 1
                if ctx.violation("%d line comment(s) of the output end in a backslash directly before the line break, %d in the input: a trailing "
                                 "blank after the backslash was trimmed, the next line is now part of the comment [run %s]" % (b, a, j.name),
                                 c02._replay(j), key=None, found_input=True):
                    obad += 1
        ctx.oblige("direct oracle: literals byte-identical, comments identical up to permitted layout, same order (%d runs)" % len(fam),
                   obad == 0, "oracle", "%d failures" % obad)
        if jobs:
            ctx.sample({"run": jobs[0].name, "options": jobs[0].meta.get("opts"), "input_head": jobs[0].meta.get("text", "")[:300]})
    finally:
        sc.close()


def _show(l, k):
    if k >= len(l):
        return None
    return "".join(chr(c) for c in l[k][1])[:80]


def _fuse_key(tin, j):
    """a '/' directly followed by '*' or '/' in the input whose gap may have been removed: the known comment-opener fusion"""
    otxt = lexcheck.decode_text(j.res["out"])
    s = "".join(chr(c) for c in otxt)
    code = [(k, t) for k, t in tin if k not in CMT_KINDS]
    for a, b in zip(code, code[1:]):
        ta, tb = "".join(chr(c) for c in a[1]), "".join(chr(c) for c in b[1])
        if ta == "/" and tb[:1] in ("*", "/") and ("/" + tb[:1]) in s:
            return {"fused": ["/", tb[:1]], "kind": "comment-opener"}
    return None
