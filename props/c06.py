"""C06 -- any input terminates cleanly: formatted, or refused with a diagnostic.  DESIGN.md section 6/C06.

Proof part (Props/C06.lean): the exit-status discipline over the regenerated inventory of every exit()/return status
in the sources (T-exit), the bound of the newline loop.  Everything about memory safety, undefined behaviour, signals
and hangs cannot be expressed in an executable model (DESIGN.md section 10) and is EXPLORATION: truncations and
mutations of the corpus under a timeout (thorough tier: AddressSanitizer+UBSan build).
"""
import os
import re
import subprocess

from vlib import common, gen, pipeline, unc
from translators import t_exit

DOCUMENTED = {0, 1, 64, 66, 67, 68, 70, 74, 78}
LANGS = {"c": "C", "cpp": "CPP", "cs": "CS", "d": "D", "ecma": "ECMA", "java": "JAVA", "oc": "OC", "pawn": "PAWN", "vala": "VALA"}
EXT = {"C": ".c", "CPP": ".cpp", "CS": ".cs", "D": ".d", "ECMA": ".es", "JAVA": ".java", "OC": ".m", "PAWN": ".pawn", "VALA": ".vala"}
TIMEOUT = 20


def mutate(rng, data, kind):
    lines = data.split(b"\n")
    if kind == "trunc-line":
        k = rng.randrange(0, len(lines) + 1)
        return b"\n".join(lines[:k]) + (b"\n" if rng.random() < 0.7 and k else b"")
    if kind == "trunc-byte":
        return data[:rng.randrange(0, len(data) + 1)]
    if kind == "del-line" and len(lines) > 1:
        k = rng.randrange(len(lines))
        return b"\n".join(lines[:k] + lines[k + 1:])
    if kind == "dup-line" and lines:
        k = rng.randrange(len(lines))
        return b"\n".join(lines[:k + 1] + lines[k:])
    if kind == "del-bracket":
        idx = [i for i, b in enumerate(data) if b in b"(){}[]<>"]
        if idx:
            i = rng.choice(idx)
            return data[:i] + data[i + 1:]
    if kind == "add-bracket":
        i = rng.randrange(len(data) + 1)
        return data[:i] + rng.choice([b"(", b")", b"{", b"}", b"[", b"]", b"<", b">"]) + data[i:]
    if kind == "open-comment":
        i = rng.randrange(len(data) + 1)
        return data[:i] + rng.choice([b"/*", b"//", b"\"", b"'", b"R\"x(", b"/* *INDENT-OFF* */", b"#if 0\n", b"#define X \\\n", b"\\"]) + data[i:]
    if kind == "byte-flip" and data:
        i = rng.randrange(len(data))
        return data[:i] + bytes([rng.randrange(256)]) + data[i + 1:]
    if kind == "del-token":
        toks = list(re.finditer(rb"[A-Za-z_][A-Za-z_0-9]*|[0-9]+|[^\sA-Za-z_0-9]", data))
        if toks:
            m = rng.choice(toks)
            return data[:m.start()] + data[m.end():]
    if kind == "swap-token":
        toks = list(re.finditer(rb"[A-Za-z_][A-Za-z_0-9]*|[0-9]+|[^\sA-Za-z_0-9]", data))
        if len(toks) > 1:
            a = rng.choice(toks)
            b = rng.choice(toks)
            if a.start() > b.start():
                a, b = b, a
            if a.end() <= b.start():
                return data[:a.start()] + data[b.start():b.end()] + data[a.end():b.start()] + data[a.start():a.end()] + data[b.end():]
    if kind == "random-bytes":
        return bytes(rng.randrange(256) for _ in range(rng.randrange(0, 200)))
    return data


KINDS = ["trunc-line", "trunc-line", "trunc-line", "trunc-byte", "del-line", "dup-line", "del-bracket", "add-bracket", "open-comment",
         "byte-flip", "del-token", "swap-token", "random-bytes", "valid"]


def classify(rc, out, err, quiet):
    """returns None if the run is acceptable, else a description"""
    e = err.decode("latin1", "replace")
    if rc == "timeout":
        return "does not terminate within %d s" % TIMEOUT
    if "ERROR: AddressSanitizer" in e or "runtime error:" in e or "ERROR: LeakSanitizer" in e:
        m = re.search(r"(ERROR: AddressSanitizer[^\n]*|[^\n]*runtime error:[^\n]*)", e)
        return "sanitizer report: " + (m.group(1)[:200] if m else "?")
    if isinstance(rc, int) and rc < 0:
        return "killed by signal %d" % (-rc)
    if rc not in DOCUMENTED:
        return "exit status %s is not a documented status" % rc
    if rc != 0 and out:
        return "exit status %d but %d bytes were written to stdout" % (rc, len(out))
    if rc != 0 and not quiet and not e.strip():
        return "exit status %d without a diagnostic on stderr" % rc
    return None


SKIP_FRAMES = ("verif_", "Chunk::", "std::", "__", "UncText::", "operator", "abort", "raise", "_Unwind", "log_", "ListManager", "unc_text",
               "ChunkStack", "gsignal", "pthread", "logger", "??")


def signature(exe, cfg, lg, path, env, hang):
    """where does it hang / abort?  (pass called from uncrustify_file/main, innermost own function) via gdb"""
    cmd = [exe, "-q", "-c", cfg, "-l", lg, "-f", path]
    try:
        if hang:
            p = subprocess.Popen(cmd, stdout=subprocess.DEVNULL, stderr=subprocess.DEVNULL, env=env, cwd=os.path.dirname(cfg))
            try:
                p.wait(timeout=4)
                return None
            except subprocess.TimeoutExpired:
                pass
            r = subprocess.run(["gdb", "-p", str(p.pid), "-batch", "-ex", "bt 40"], stdout=subprocess.PIPE, stderr=subprocess.DEVNULL,
                               text=True, timeout=60)
            p.kill()
            p.wait()
        else:
            r = subprocess.run(["gdb", "-batch", "-ex", "run", "-ex", "bt 40", "--args"] + cmd, stdout=subprocess.PIPE,
                               stderr=subprocess.DEVNULL, text=True, timeout=120, env=env, cwd=os.path.dirname(cfg))
    except Exception:
        return None
    frames = []
    for ln in r.stdout.split("\n"):
        m = re.match(r"^#\d+\s+(?:0x[0-9a-f]+ in )?(.+?) \(", ln)
        if m:
            frames.append(m.group(1).strip())
    own = [f for f in frames if not f.startswith(SKIP_FRAMES)]
    if not own:
        return None
    pas = None
    for i, f in enumerate(frames):
        if f.startswith(("uncrustify_file", "uncrustify_start", "main", "load_option_file", "do_source_file")) and i > 0:
            cand = [g for g in frames[:i] if not g.startswith(SKIP_FRAMES)]
            pas = cand[-1] if cand else f
            break
    return {"pass": re.sub(r"\(.*", "", pas or own[-1]), "in": re.sub(r"\(.*", "", own[0])}


def width_loop_monitor(ctx, exe, sc, pairs, env, thorough):
    """tie of C06_width_loop_bounded: hook H7 records cpd.changes and the number of newline chunks at the head and the foot of every
    iteration of the code_width loop.  Hypothesis of the theorem = every counted change of an iteration (after the one that runs the
    one-off `first` block, which may also remove line breaks) uses up a slot: it adds a line break or clears one-liner flags;
    conclusion = iterations <= free slots + 1."""
    from vlib import gen
    rng = ctx.rng
    jobs = []
    cw_sets = [{"code_width": 40, "nl_remove_extra_newlines": 2}, {"code_width": 30}, {"code_width": 60, "ls_func_split_full": "true", "ls_for_split_full": "true"},
               {"code_width": 20, "indent_columns": 8}, {"code_width": 50, "ls_code_width": "true"}]
    small = [p for p in pairs if os.path.getsize(p[2]) < 8000]
    for i in range(400 if thorough else 90):
        o = rng.choice(cw_sets)
        if i % 3 == 0:
            lg = rng.choice(["C", "CPP", "JAVA"])
            data = gen.program(rng, lg, stats=ctx.hist)[1].encode()
            src = "<generated>"
        else:
            name, cfg, inp, lang = rng.choice(small)
            d = os.path.basename(os.path.dirname(inp))
            lg = (lang or LANGS.get(d, "C") or "C").split("+")[0]
            data = open(inp, "rb").read()
            src = os.path.relpath(inp, common.REPO)
        jobs.append((sc.write(data, EXT.get(lg, ".c")), sc.cfg(None, o), lg, o, src))
    # the regression inputs of the fixed loop defects first
    import json
    for c in json.load(open(os.path.join(common.ROOT, "corpus", "c06.json")))["cases"]:
        if "code_width" in c.get("options", {}):
            jobs.insert(0, (sc.write(c["input"].encode("latin1"), EXT.get(c["lang"], ".c")), sc.cfg(None, c["options"]), c["lang"], c["options"], "corpus:" + c["name"]))

    def one(j):
        p, cfg, lg, o, src = j
        tr = p + ".trace"
        e = dict(env, UNC_VERIF_OUT=tr)
        try:
            r = subprocess.run([exe, "-q", "-c", cfg, "-l", lg, "-f", p], stdout=subprocess.DEVNULL, stderr=subprocess.DEVNULL, env=e, timeout=TIMEOUT)
            rc = r.returncode
        except subprocess.TimeoutExpired:
            rc = "timeout"
        recs = []
        if os.path.exists(tr):
            with open(tr, errors="replace") as f:
                for ln in f:
                    if ln.startswith("WL "):
                        recs.append(dict(x.split("=", 1) for x in ln.split()[1:]))
            os.remove(tr)
        return rc, recs
    res = common.pmap(one, jobs)
    bad = iters = checked = 0
    for (p, cfg, lg, o, src), (rc, recs) in zip(jobs, res):
        ctx.case("wl:%s:%s:%s" % (src, sorted(o.items()), hash(open(p, "rb").read())))
        if not recs:
            continue
        its = []
        for a, b in zip(recs[0::2], recs[1::2]):
            if a["point"] == "head" and b["point"] == "foot":
                its.append((a, b))
        iters += len(its)
        checked += 1
        ctx.count("width-loop-iterations:%s" % (len(its) if len(its) < 6 else "6+"))
        why = None
        if its:
            # slots of the model: gaps without a line break + chunks flagged as one-liner
            free0 = int(its[0][0]["n"]) - int(its[0][0]["nlc"]) + int(its[0][0].get("ol", 0))
            # iterations after the one that consumed `first` (its one-off newline passes may also remove line breaks)
            for k, (a, b) in enumerate(its):
                ran_first = a["first"] == "1" and b["first"] == "0"
                dch, dnl = int(b["changes"]) - int(a["changes"]), int(b["nlc"]) - int(a["nlc"])
                dol = int(b.get("ol", 0)) - int(a.get("ol", 0))
                if dch > 0 and dnl <= 0 and dol >= 0 and not ran_first:
                    why = ("iteration %d of the code_width loop counts %d change(s) but neither adds a line break (%s -> %s newline chunks) nor "
                           "undoes a one-liner (%s -> %s flagged chunks)" % (k + 1, dch, a["nlc"], b["nlc"], a.get("ol"), b.get("ol")))
                    break
            if why is None and len(its) > free0 + 2:
                why = "the code_width loop ran %d times, more than the %d free slots (gaps without a line break, one-liner flags) + 2" % (len(its), free0)
        if why is None and rc == "timeout" and its:
            why = "the run does not end within %d s inside the code_width loop (%d iterations recorded)" % (TIMEOUT, len(its))
        if why:
            bad += 1
            if bad <= 3:
                ctx.violation("%s [%s, options %s]: the hypothesis of theorem C06_width_loop_bounded (a counted change uses up a slot) does not "
                              "describe this run" % (why, src, o),
                              {"input_latin1": open(p, "rb").read().decode("latin1")[:20000], "lang": lg, "options": o, "source": src,
                               "records": recs[:12], "how": "hook build, UNC_VERIF_OUT=trace uncrustify -q -c cfg -l L -f input; lines `WL ...` of the trace"},
                              key=None, found_input=True)
    ctx.oblige("monitor H7: in the code_width loop every counted change adds a line break or undoes a one-liner; iterations <= free slots + 2 (%d runs, %d iterations)"
               % (checked, iters), bad == 0, "monitor", "%d" % bad)


def no_final_newline_universe(ctx, exe, sc, pairs, env, thorough):
    """a text file need not end in a line break: every test pair whose input is accepted must be accepted with its final line break
    taken away (many passes close a construct at the chunk AFTER it, and the last line of such a file has none).  Fixed universe
    (all pairs) in the thorough tier, a fixed half of it in the quick tier."""
    sel = [p for i, p in enumerate(sorted(pairs)) if os.path.getsize(p[2]) < 60000 and (thorough or i % 2 == 0)]

    def one(p):
        name, cfg, inp, lang = p
        data = open(inp, "rb").read()
        if b"\x00" in data or not data.endswith(b"\n"):
            return None
        cut = data[:-2] if data.endswith(b"\r\n") else data[:-1]
        if cut.rstrip(b" \t").endswith(b"\\") or not cut.strip():
            return None            # a line continuation at the end of the file is not a complete file
        args = ["-l", lang] if lang else []
        try:
            r0 = subprocess.run([exe, "-q", "-c", cfg, "-f", inp] + args, stdout=subprocess.DEVNULL, stderr=subprocess.DEVNULL, env=env, timeout=3 * TIMEOUT,
                                cwd=os.path.dirname(cfg))
        except subprocess.TimeoutExpired:
            return None
        if r0.returncode != 0:
            return None
        q = sc.write(cut, os.path.splitext(inp)[1] or ".c")
        try:
            r = subprocess.run([exe, "-q", "-c", cfg, "-f", q] + args, stdout=subprocess.DEVNULL, stderr=subprocess.PIPE, env=env, timeout=TIMEOUT,
                               cwd=os.path.dirname(cfg))
            return r.returncode, r.stderr[-300:]
        except subprocess.TimeoutExpired:
            return "timeout", b""
    res = common.pmap(one, sel)
    bad = n = 0
    for (name, cfg, inp, lang), r in zip(sel, res):
        if r is None:
            continue
        n += 1
        ctx.case("noeol:" + name)
        rc, err = r
        if rc != 0:
            bad += 1
            if bad <= 4:
                ctx.violation("test %s is formatted with exit 0, but without the final line break of the input the run ends with %s: %s"
                              % (name, rc, err.decode("latin1").strip().split("\n")[-1][:160] if err else ""),
                              {"input": os.path.relpath(inp, common.REPO), "config": os.path.relpath(cfg, common.REPO), "lang": lang,
                               "how": "remove the last line break of the input file; uncrustify -q -c config -f file [-l lang]"},
                              key={"kind": "no-final-newline", "input": os.path.relpath(inp, common.REPO), "config": os.path.relpath(cfg, common.REPO)},
                              found_input=True)
    ctx.oblige("fixed universe: every accepted test input is accepted without its final line break (%d pairs)" % n, bad == 0, "oracle", "%d" % bad)


TINY = ["", "\n", "x", ";", "{", "}", "//", "/*", "#", "int a;", "int a;\n\n\n", "void f(){}", "a=b", "#if 1", "return", "if", "else", "case 1:", "\\", "\"", "'",
        "()", "int f(", "class A", "namespace", "@", "#define A \\", "//\\", "\r", "\r\n\r\n", "\t \t", "x\n#endif", "do", "for(;;)", "switch(x){", "enum{", "a?b:c", "[",
        "]", "<>", "template<", "operator", "@interface", "#pragma region", "default:", "else if", "while", "goto", "typedef", "struct{", "union", "try", "catch", "using",
        "new", "delete", "sizeof", "#include", "#include <a>", "?", ":", "::", "->", "...", "=", "==", ",", "*", "&", "~", "!", "0", "0x", "1e", ".", "L", "R\"", "u8"]


def tiny_inputs_universe(ctx, exe, sc, env, thorough):
    """every test configuration x the smallest inputs (one or two tokens, unterminated constructs, empty file) in six languages: a pass that
    looks for 'the token before / after' finds none.  Fixed universe, a sixth of it per thorough run and a sixtieth per quick run (rotating with the seed)."""
    import glob
    cfgs = sorted(glob.glob(os.path.join(common.REPO, "tests", "config", "*", "*.cfg")))
    paths = []
    for i, t in enumerate(TINY):
        for ext, lang in ((".c", "C"), (".cpp", "CPP"), (".cs", "CS"), (".m", "OC"), (".java", "JAVA"), (".d", "D")):
            paths.append((sc.write(t.encode("latin1"), ext), lang, t))
    jobs = []
    for ci, c in enumerate(cfgs):
        for pi, p in enumerate(paths):
            if (ci + pi + ctx.seed) % (6 if thorough else 60) == 0:
                jobs.append((c, p))

    def one(j):
        c, (p, lang, t) = j
        try:
            x = subprocess.run([exe, "-q", "-c", c, "-l", lang, "-f", p], stdout=subprocess.PIPE, stderr=subprocess.PIPE, env=env, timeout=TIMEOUT, cwd=os.path.dirname(c))
            return x.returncode, x.stdout, x.stderr
        except subprocess.TimeoutExpired:
            return "timeout", b"", b""
    res = common.pmap(one, jobs)
    bad = 0
    for (c, (p, lang, t)), (rc, out, err) in zip(jobs, res):
        ctx.case("tiny:%s:%s:%r" % (os.path.relpath(c, common.REPO), lang, t))
        why = classify(rc, out, err, True)
        if why:
            key = None
            if rc == "timeout" or (isinstance(rc, int) and rc < 0):
                sig = signature(exe, c, lang, p, env, rc == "timeout")
                if sig:
                    key = dict(sig, kind="hang" if rc == "timeout" else "signal%d" % (-rc))
                    why += " in %s (pass %s)" % (sig["in"], sig["pass"])
            if ctx.violation("%s [input %r as %s under %s]" % (why, t, lang, os.path.relpath(c, common.REPO)),
                             {"input_latin1": t, "lang": lang, "config": os.path.relpath(c, common.REPO), "argv": "uncrustify -q -c <config> -l %s -f <input>" % lang},
                             key=key, found_input=True):
                bad += 1
    ctx.oblige("fixed universe: every test configuration x %d tiny inputs x 6 languages ends with a documented status (%d runs)" % (len(TINY), len(jobs)),
               bad == 0, "oracle", "%d" % bad)


DENSE_CFGS = {
    "default": {},
    "mods": {"mod_full_brace_if": "add", "mod_full_brace_for": "remove", "mod_full_paren_if_bool": "true", "mod_paren_on_return": "add", "mod_remove_extra_semicolon": "true",
             "mod_infinite_loop": 2, "mod_case_brace": "add", "mod_move_case_break": "true", "mod_move_case_return": "true", "mod_remove_empty_return": "true",
             "mod_enum_last_comma": "add", "mod_sort_include": "true", "mod_unsigned_int": "add", "mod_add_long_function_closebrace_comment": 1},
    "nl": {"nl_after_semicolon": "true", "nl_if_brace": "force", "nl_brace_else": "remove", "nl_before_case": "true", "nl_after_case": "true", "nl_create_if_one_liner": "true",
           "nl_remove_extra_newlines": 2, "code_width": 20, "nl_max": 2, "nl_end_of_file": "force", "nl_end_of_file_min": 1, "nl_start_of_file": "remove",
           "pp_region_indent_code": "true", "indent_func_def_force_col1": "true"},
    "align": {"align_assign_span": 2, "align_var_def_span": 2, "align_right_cmt_span": 3, "align_nl_cont": 1, "align_pp_define_span": 2, "align_struct_init_span": 2,
              "align_typedef_span": 2, "indent_with_tabs": 0, "cmt_width": 20, "cmt_reflow_mode": 2},
}


def tiny_pairs_universe(ctx, exe, sc, env, thorough):
    """every ordered pair of tiny inputs, joined by a blank or a line break, rotating over six languages and four dense configurations
    (code-modifying options, newline options, alignment/comment options, defaults).  All of it in the thorough tier, a sixth per quick run."""
    import itertools
    cfgp = {k: sc.cfg(None, v) for k, v in DENSE_CFGS.items()}
    names = list(cfgp)
    jobs = []
    n = 0
    for a, b in itertools.product(TINY, TINY):
        for sep in (" ", "\n"):
            n += 1
            if not thorough and (n + ctx.seed) % 6:
                continue
            lang, ext = [("C", ".c"), ("CPP", ".cpp"), ("CS", ".cs"), ("OC", ".m"), ("JAVA", ".java"), ("D", ".d")][n % 6]
            jobs.append((a + sep + b, lang, ext, names[(n // 6) % 4]))

    def one(j):
        txt, lang, ext, cn = j
        p = sc.write(txt.encode("latin1"), ext)
        try:
            x = subprocess.run([exe, "-q", "-c", cfgp[cn], "-l", lang, "-f", p], stdout=subprocess.PIPE, stderr=subprocess.PIPE, env=env, timeout=TIMEOUT)
            r = (x.returncode, x.stdout, x.stderr)
        except subprocess.TimeoutExpired:
            r = ("timeout", b"", b"")
        os.remove(p)
        return r
    res = common.pmap(one, jobs)
    bad = 0
    for (txt, lang, ext, cn), (rc, out, err) in zip(jobs, res):
        ctx.case("tiny2:%s:%s:%r" % (cn, lang, txt))
        why = classify(rc, out, err, True)
        if why:
            if ctx.violation("%s [input %r as %s under the `%s` configuration]" % (why, txt, lang, cn),
                             {"input_latin1": txt, "lang": lang, "options": DENSE_CFGS[cn], "argv": "uncrustify -q -c <config> -l %s -f <input>" % lang},
                             key={"kind": "tiny-pair", "status": str(rc), "tail": err.decode("latin1")[-60:]}, found_input=True):
                bad += 1
    ctx.oblige("fixed universe: ordered pairs of tiny inputs x 4 dense configurations x 6 languages end with a documented status (%d runs)" % len(jobs),
               bad == 0, "oracle", "%d" % bad)


def run(ctx):
    ctx.level = "proof"
    ctx.cov["rule"] = ("one case = one run of the real binary on a mutated corpus input (line/byte truncation, deleted/duplicated line, bracket "
                       "deletion/insertion, unterminated comment/string/region/continuation, byte flip, token deletion/swap, random bytes) or a "
                       "generated program, in its own language, with its test config, under a %d s timeout; thorough tier runs the ASan+UBSan build; "
                       "distinct = distinct input bytes x config; non-trivial = non-empty input" % TIMEOUT)
    ctx.trusted += ["T-exit translator (regex over src/**/*.cpp)", "timeout as the bound of 'bounded time'"]
    ctx.assumptions += ["memory safety / UB / hang freedom are explored, not proved: no executable model can exhibit them (DESIGN.md 6/C06, 10)",
                        "sanitizer reports are only visible in the thorough tier"]
    thorough = ctx.tier == "thorough"
    exe = common.build_repo(hooks=True, sanitize=thorough)
    try:
        sites = t_exit.generate()
        ctx.oblige("T-exit: %d exit()/return status sites regenerated" % len(sites), True, "table")
        ctx.cov["exit_sites"] = len(sites)
    except Exception as e:
        ctx.oblige("T-exit translator parses the current source", False, "table", str(e))
    try:
        from translators import t_loops
        tl = t_loops.regenerate(common.REPO, common.LEAN_DIR, common.write_if_changed)
        import collections
        ctx.oblige("T-loops: %d loops of tokenize.cpp classified %s" % (len(tl["loops"]), dict(collections.Counter(l["class"] for l in tl["loops"]))),
                   True, "table")
    except Exception as e:
        ctx.oblige("T-loops: loops of tokenize.cpp classified", False, "table", str(e))
    try:
        from translators import t_walks
        tw = t_walks.regenerate(common.REPO, common.ROOT, common.LEAN_DIR, common.write_if_changed)
        import collections
        ctx.oblige("T-walks: %d chunk-list walks of src/ classified %s" % (len(tw["walks"]), dict(collections.Counter(w["class"] for w in tw["walks"]))),
                   True, "table")
        ctx.cov["chunk_walks"] = dict(collections.Counter(w["class"] for w in tw["walks"]))
    except Exception as e:
        ctx.oblige("T-walks: chunk-list walks classified", False, "table", str(e))
    ctx.lean_obligations()

    # the quick tier explores a FIXED universe (seed-independent) plus a small seed-dependent part, so that the defects of the
    # unchanged tree it meets are exactly the listed known findings; the thorough tier is fully seed-dependent
    import random
    fixed_rng = random.Random("C06-fixed-universe")
    rng = ctx.rng
    env = dict(os.environ, ASAN_OPTIONS="detect_leaks=0:abort_on_error=0:exitcode=99:allocator_may_return_null=1",
               UBSAN_OPTIONS="print_stacktrace=0:halt_on_error=1:exitcode=98")
    sc = pipeline.Scratch("c06")
    try:
        pairs = [p for p in unc.test_pairs() if os.path.getsize(p[2]) < 20000]
        fixed_rng.shuffle(pairs)
        jobs = []
        import json
        past = json.load(open(os.path.join(common.ROOT, "corpus", "c06.json")))["cases"]
        for c in past:
            p = sc.write(c["input"].encode("latin1"), EXT.get(c["lang"], ".c"))
            cfg = sc.cfg(None, c.get("options", {}))
            jobs.append((p, cfg, c["lang"], "corpus:" + c["name"], c))
        # fixed universe: every language x every opener of a lexical construct left unterminated at the very end of the file
        # (and in the middle of a line): the scanners of tokenize.cpp must stop at the end of the data
        OPENERS = [b'R"', b'R"abc', b'u8R"x', b'LR"', b'uR"d(', b'@R"', b'@"', b'$"', b'$@"{', b'$"{x', b'"', b"'", b'L"', b"/*", b"/**",
                   b"// x\\", b"#define X \\", b"#if", b"`", b'r"', b"q{", b'q"(', b'"""', b"<<<EOT", b"@'", b"[[", b"<:", b"x = @{", b"0x", b"1e", b"'\\"]
        dcfg = sc.cfg(None, {})
        for lg in sorted(EXT):
            for op in OPENERS:
                for body in (b"int a;\n" + op, b"int a;\nint b = " + op + b"\n", op):
                    p = sc.write(body, EXT[lg])
                    jobs.append((p, dcfg, lg, "open-at-eof", {"lang": lg, "opener": op.decode("latin1"), "mutation": "open-at-eof",
                                                               "input": body.decode("latin1")}))
        # fixed universe: stray / unbalanced / malformed preprocessor directives in every language that has them
        STRAY = [b"#else\n", b"#elif X\n", b"#endif\n", b"#else\n#endif\n", b"#if A\n#else\n#else\n#endif\n", b"#if A\n#elif\n", b"#if\n",
                 b"#endif\n#if B\n", b"#region\n#endregion\n#endregion\n", b"#define\n", b"#include\n", b"#\n", b"# 12 \"f\"\n", b"#elif A\n#else\n#endif\n#endif\n"]
        for lg in sorted(EXT):
            if lg in ("JAVA", "ECMA"):
                continue
            for st in STRAY:
                for body in (st, b"int a;\n" + st + b"int b;\n", b"void f() {\n" + st + b"}\n"):
                    p = sc.write(body, EXT[lg])
                    jobs.append((p, dcfg, lg, "stray-directive", {"lang": lg, "mutation": "stray-directive", "input": body.decode("latin1")}))
        n = (6000 if thorough else 1400) + len(jobs)
        srcs = pairs[:(600 if thorough else 200)]
        nfixed = 0 if thorough else 1200 + len(jobs)
        while len(jobs) < n:
            if len(jobs) == nfixed:
                rng_fixed_done = True
            rng = fixed_rng if len(jobs) < nfixed else ctx.rng
            name, cfg, inp, lang = rng.choice(srcs)
            d = os.path.basename(os.path.dirname(inp))
            lg = lang or LANGS.get(d, "C")
            lg = lg.split("+")[0] if lg else "C"
            kind = rng.choice(KINDS)
            data = open(inp, "rb").read()
            if kind == "valid":
                if rng.random() < 0.5:
                    lg = rng.choice(["C", "CPP", "JAVA"])
                    data = gen.program(rng, lg, stats=ctx.hist)[1].encode()
                    cfg = rng.choice(srcs)[1]
            else:
                data = mutate(rng, data, kind)
                if rng.random() < 0.15:
                    data = mutate(rng, data, rng.choice(KINDS[:-1]))
            if rng.random() < 0.1:
                lg = rng.choice(list(EXT))        # a foreign language on purpose
            p = sc.write(data, EXT.get(lg, ".c"))
            jobs.append((p, cfg, lg, kind, {"src": os.path.relpath(inp, common.REPO), "cfg": os.path.relpath(cfg, common.REPO), "mutation": kind}))
        ctx.log("runs:", len(jobs), "binary:", exe)

        def one(j):
            p, cfg, lg, kind, meta = j
            quiet = hash(p) % 3 == 0
            cmd = [exe, "-c", cfg, "-l", lg, "-f", p] + (["-q"] if quiet else [])
            try:
                r = subprocess.run(cmd, stdout=subprocess.PIPE, stderr=subprocess.PIPE, env=env, timeout=TIMEOUT,
                                   cwd=os.path.dirname(cfg))
                return j, r.returncode, r.stdout, r.stderr, quiet
            except subprocess.TimeoutExpired:
                return j, "timeout", b"", b"", quiet
        res = common.pmap(one, jobs)
        bad = 0
        for (p, cfg, lg, kind, meta), rc, out, err, quiet in res:
            data = open(p, "rb").read()
            ctx.case(data + cfg.encode(), nontrivial=len(data) > 0)
            ctx.count("mut:" + kind.split(":")[0])
            ctx.count("rc:%s" % rc)
            ctx.count("lang:" + lg)
            why = classify(rc, out, err, quiet)
            if why:
                key = None
                if rc == "timeout" or (isinstance(rc, int) and rc < 0):
                    sig = signature(exe, cfg, lg, p, env, rc == "timeout")
                    if sig:
                        key = dict(sig, kind="hang" if rc == "timeout" else "signal%d" % (-rc))
                        why += " in %s (pass %s)" % (sig["in"], sig["pass"])
                elif why.startswith("sanitizer report"):
                    m = re.search(r"(/[^\s:]+/src/[^\s:]+):(\d+)", err.decode("latin1", "replace"))
                    if m:
                        key = {"kind": "sanitizer", "at": os.path.relpath(m.group(1), common.REPO) + ":" + m.group(2)}
                if ctx.violation("%s [lang %s, mutation %s]" % (why, lg, kind),
                                 {"input_latin1": data.decode("latin1")[:20000], "lang": lg, "config": meta.get("cfg") or meta.get("options"),
                                  "meta": {k: v for k, v in meta.items() if k != "input"}, "stderr_tail": err.decode("latin1")[-400:],
                                  "argv": "uncrustify -c <config> -l %s -f <input>%s" % (lg, " -q" if quiet else "")},
                                 key=key, found_input=True):
                    bad += 1
        # several files in one invocation (per-file state such as keyword tables must not grow without bound)
        mbad = 0
        mruns = 0
        by_lang = {}
        for name, cfg, inp, lang in pairs[:400]:
            d = os.path.basename(os.path.dirname(inp))
            if os.path.getsize(inp) < 20000:
                by_lang.setdefault(d, []).append(inp)
        for d, files in sorted(by_lang.items()):
            for k in range(2 if thorough else 1):
                group = files[k * 8:k * 8 + 8]
                if len(group) < 3:
                    continue
                gd = os.path.join(sc.dir, "multi-%s-%d" % (d, k))
                os.makedirs(gd, exist_ok=True)
                local = []
                for i, f in enumerate(group):
                    q = os.path.join(gd, "%d_%s" % (i, os.path.basename(f)))
                    with open(q, "wb") as fh:
                        fh.write(open(f, "rb").read())
                    local.append(q)
                try:
                    r = subprocess.run([exe, "-q", "-c", dcfg] + local, stdout=subprocess.PIPE, stderr=subprocess.PIPE, env=env, timeout=4 * TIMEOUT)
                    rc = r.returncode
                except subprocess.TimeoutExpired:
                    rc = "timeout"
                mruns += 1
                ctx.case("multi:%s:%d" % (d, k))
                if rc == "timeout" or (isinstance(rc, int) and (rc < 0 or rc not in DOCUMENTED)):
                    mbad += 1
                    ctx.violation("%d files of tests/input/%s in one invocation end with %s" % (len(local), d, "a timeout" if rc == "timeout" else "status %s" % rc),
                                  {"files": [os.path.relpath(f, common.REPO) for f in group], "argv": "uncrustify -q -c /dev/null f1 f2 ..."},
                                  key=None, found_input=True)
        ctx.oblige("exploration: several files in one invocation end with a documented status (%d invocations)" % mruns, mbad == 0, "oracle", "%d" % mbad)
        width_loop_monitor(ctx, exe, sc, pairs, env, thorough)
        no_final_newline_universe(ctx, exe, sc, unc.test_pairs(), env, thorough)
        tiny_inputs_universe(ctx, exe, sc, env, thorough)
        tiny_pairs_universe(ctx, exe, sc, env, thorough)
        ctx.oblige("exploration: every run ends with a documented status, no signal/sanitizer report/timeout, nothing on stdout when refused (%d runs)"
                   % len(res), bad == 0, "oracle", "%d failures" % bad)
        ctx.sample({"mutation": res[0][0][3], "rc": res[0][1], "lang": res[0][0][2]})
    finally:
        sc.close()
