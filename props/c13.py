"""C13 -- in-place rewriting is all-or-nothing.  DESIGN.md section 6/C13.

Proof:  UncModel/Props/C13.lean over the hand-written model UncModel/FsProto.lean (do_source_file as a
        decision tree over abstract system calls; crash states and fault observations by structural recursion).
Tie:    every run of the REAL binary happens under strace (vlib/inject.py).  The un-injected syscall trace
        (paths normalised, consecutive writes merged) must equal the model's trace; then every file-related
        syscall of the run is used as a crash point (SIGKILL on entering it) and as a fault point (ENOSPC, EACCES,
        EIO), singly (quick) and in pairs (thorough); directory state and exit status after each run are compared
        with the model for the same schedule AND directly with the property.
"""
import os
import shutil
import subprocess

from vlib import common, inject

LEVEL = "proof"

CFG = {"a": "indent_with_tabs=0\nindent_columns=4\n",
       "b": "indent_with_tabs=0\nindent_columns=2\n"}
ERRNOS = ("ENOSPC", "EACCES", "EIO")
MODE_ARGV = {"replace": lambda rel: ["--replace", rel],
             "nobackup": lambda rel: ["--no-backup", rel],
             "oeqf": lambda rel: ["-f", rel, "-o", rel]}


def load_extra_known(ctx):
    """known findings prepared by this work package live in known_findings_fs.json until merged"""
    p = os.path.join(common.ROOT, "known_findings_fs.json")
    if os.path.exists(p):
        import json
        have = [common.canon(k.get("key")) for k in ctx.known]
        for k in json.load(open(p)):
            if k.get("property") == ctx.prop and common.canon(k.get("key")) not in have:
                ctx.known.append(k)


def gen_inputs(rng, thorough):
    """input kind -> bytes.  `changes` is reformatted by cfg a, `noop` is its own output,
    `fail*` make uncrustify_file() exit, `big` spans several stdio buffers."""
    v = rng.randrange(1000)
    body = "int  main%d( ){\nif(x){\nreturn   %d;}\n}\n" % (v, v)
    ins = {"changes": ("// t\n" + body).encode(),
           "fail70": ("void f%d()\n{\n   }\n}\n#endif\n" % v).encode()}
    big = "".join("int  f%d_%d( int a ){\nif(a){\nreturn   a+%d;}\nreturn 0;}\n" % (v, i, i) for i in range(170))
    ins["big"] = big.encode()
    if thorough:
        ins["fail74"] = ("void f%d()\n{\n   if (x) {\n" % v).encode()
        ins["fail1"] = ("void f%d()\n{\n   g(a, b));\n}\n" % v).encode()
        ins["empty"] = b""
    return ins


def fmt_result(exe, scratch, cfgname, content):
    """the formatter's result for `content`: (exit status, stdout bytes)"""
    p = os.path.join(scratch, "fmt_in.c")
    with open(p, "wb") as f:
        f.write(content)
    r = subprocess.run([exe, "-q", "-c", cfgname + ".cfg", "-l", "C", "-f", "fmt_in.c"], cwd=scratch,
                       stdin=subprocess.DEVNULL, stdout=subprocess.PIPE, stderr=subprocess.PIPE)
    return r.returncode, r.stdout


class Scenario:
    def __init__(self, sid, mode, kind, md5state, orig, fmt_status, out, init):
        self.sid, self.mode, self.kind, self.md5state = sid, mode, kind, md5state
        self.orig, self.fmt_status, self.out, self.init = orig, fmt_status, out, init
        self.argv = ["-q", "-c", "a.cfg", "-l", "C"] + MODE_ARGV[mode]("d/t.c")

    def fmt_arg(self):
        if self.fmt_status == 0:
            return "ok:" + inject.hexl(self.out)
        return "fail:%d:-" % self.fmt_status

    def model_init(self):
        """initial FS for the driver (md5 rendered as the content it describes: h = id)"""
        def c(x):
            return "~" if x is None else inject.hexl(x)
        d = self.init.get("md5_describes")
        return "%s %s %s %s" % (c(self.init["target"]), c(self.init.get("tmp")), c(self.init.get("bak")),
                                "~" if d is None else inject.hexl_ints(inject.md5_model(d)))

    def fs_state(self):
        st = {"target": self.init["target"], "tmp": self.init.get("tmp"), "bak": self.init.get("bak")}
        d = self.init.get("md5_describes")
        st["md5"] = None if d is None else inject.md5_line(d, "t.c")
        return st

    def name(self):
        return "%s/%s/md5-%s" % (self.mode, self.kind, self.md5state)


def model_request(sc, schedule, fixed=(1, 1)):
    return "fs.run %s %d %d %s %s %s" % (sc.mode, fixed[0], fixed[1], sc.fmt_arg(), sc.model_init(),
                                        ",".join(schedule) if schedule else "-")


def parse_model_answer(ans):
    """-> (events, status, faults, hard, {role: bytes|None})"""
    evs, st, fs = [x.strip() for x in ans.split("|")]
    stw = st.split()
    w = fs.split()
    cont = [inject.unhexl(x) for x in w[:3]] + [inject.unhexl_ints(w[3])]
    return (inject.parse_model_events(evs), stw[0], int(stw[1]), stw[2] == "1",
            dict(zip(inject.ROLES, cont)))


def canon_real(sc, snap):
    """real directory state in the model's terms"""
    cands = [sc.orig, sc.out, sc.init.get("md5_describes"), sc.init.get("bak"), b""] + \
            [snap[r] for r in ("target", "tmp", "bak")]
    d = dict(snap)
    d["md5"] = inject.md5_described(snap["md5"], cands, "t.c")
    return d


def show(x):
    if x is None:
        return "absent"
    if isinstance(x, tuple):
        if x and x[0] == "?":
            return "unrecognised:" + repr(x[1][:60])
        if not x:
            return "empty md5 file"
        return "md5 of (%s)" % show(bytes(x[1:])) if x[0] == inject.MD5_MARK else "md5 file torn"
    return "%d bytes md5=%s" % (len(x), __import__("hashlib").md5(x).hexdigest()[:8])


def replay_of(sc, injects, extra=None):
    cmd = "cd <scratch>; mkdir d; printf <input> > d/t.c; strace -f -o /dev/null %s <uncrustify> %s" % (
        " ".join("-e inject=" + i for i in injects), " ".join(sc.argv))
    d = {"scenario": sc.name(), "argv": sc.argv, "cfg_a": CFG["a"], "input_hex": inject.hexl(sc.orig)[:4000],
         "initial_side_files": {k: (None if v is None else inject.hexl(v)[:400]) for k, v in sc.fs_state().items()
                                if k != "target"},
         "strace_inject": list(injects), "how": cmd}
    if extra:
        d.update(extra)
    return d


def direct_oracle(sc, snap, status, hard_fault, killed):
    """the property itself on the real outcome; returns list of failed clauses"""
    bad = []
    t = snap["target"]
    allowed = [sc.orig] + ([sc.out] if sc.fmt_status == 0 else [])
    if t not in allowed:
        bad.append("target holds neither the original nor the formatted bytes (%s)" % show(t))
    if sc.mode != "nobackup" and t != sc.orig:
        # C13 wants the backup to hold the original; when the stored md5 says the "original" is uncrustify's own
        # earlier output, the backup may instead be left as it was (it holds the older user text: C14)
        want = [sc.orig] + ([sc.init.get("bak")] if sc.md5state == "match" else [])
        if snap["bak"] not in want:
            bad.append("target no longer holds the original but the backup is %s (want %s)" % (
                show(snap["bak"]), " or ".join(show(w) for w in want)))
    if hard_fault and not killed and status == 0:
        bad.append("a system call failed but the exit status is 0")
    if sc.fmt_status != 0 and not killed and status == 0:
        bad.append("formatting failed but the exit status is 0")
    return bad


BIG = inject.BIG
model_k = inject.model_k


def run(ctx):
    thorough = ctx.tier == "thorough"
    ctx.cov["rule"] = ("one case = one run of the real binary under strace (un-injected, killed on entering one file-related "
                       "syscall, or with one / two such syscalls failing), compared with the Lean model for the same schedule "
                       "and with the property directly; distinct = distinct (scenario, injection); all are non-trivial")
    ctx.trusted += ["hand-written model UncModel/FsProto.lean of do_source_file()/backup.cpp (validated by the trace equality and "
                    "the per-injection state comparison of this check)",
                    "strace (syscall decoding, fault and signal injection), the kernel's file semantics (rename atomicity)",
                    "python harness vlib/inject.py"]
    ctx.assumptions += ["stdio buffering is below the model: the writes to one stream and its close are one abstract call whose "
                        "failure leaves any prefix",
                        "tolerated read-side failures (reading the md5 file -> a backup is made; comparing temp and target -> "
                        "rename) and ignored ones (close/fstat of descriptors) are exempt from 'failure => exit != 0'",
                        "--mtime and --if-changed are not given; the model merges fopen/fread of backup_create_md5_file "
                        "(exit 70 vs 74 both map to its error branch)",
                        "a formatting failure has a non-zero status (C06)"]
    load_extra_known(ctx)
    ctx.lean_obligations()

    exe = common.build_repo(hooks=True)
    rng = ctx.rng
    root = os.path.join(common.CACHE, "scratch-c13-%d" % os.getpid())
    shutil.rmtree(root, ignore_errors=True)
    os.makedirs(root)
    try:
        _run(ctx, exe, rng, root, thorough)
    finally:
        shutil.rmtree(root, ignore_errors=True)
    # concrete failing inputs first (only the first ten violations get replay files)
    def prio(v):
        w = v["what"]
        return (not v["found_input"], 0 if "target holds neither" in w else 1 if "but the backup is" in w else 2,
                "ENOSPC" not in w, len(w))
    ctx.violations.sort(key=prio)


def mk_layout(root, tag):
    sdir = os.path.join(root, tag)
    os.makedirs(sdir, exist_ok=True)
    for k, v in CFG.items():
        with open(os.path.join(sdir, k + ".cfg"), "w") as f:
            f.write(v)
    return inject.Layout(sdir)


def _run(ctx, exe, rng, root, thorough):
    lay0 = mk_layout(root, "fmt")
    inputs = gen_inputs(rng, thorough)
    fmt = {}
    for k, c in inputs.items():
        fmt[k] = fmt_result(exe, lay0.scratch, "a", c)
    # `noop`: the output of `changes` (must be a fixed point, else the scenario is not what it claims)
    st, out = fmt["changes"]
    ctx.oblige("scenario inputs: 'changes' formats (status 0, output differs)", st == 0 and out != inputs["changes"], "setup")
    inputs["noop"] = out
    fmt["noop"] = fmt_result(exe, lay0.scratch, "a", out)
    ctx.oblige("scenario inputs: 'noop' is a fixed point", fmt["noop"] == (0, out), "setup")
    ctx.oblige("scenario inputs: 'fail70' makes formatting fail", fmt["fail70"][0] != 0, "setup", fmt["fail70"][0])
    ctx.oblige("scenario inputs: 'big' spans several stdio buffers", fmt["big"][0] == 0 and len(fmt["big"][1]) > 9000, "setup")
    older = b"/* older user text */\nint old;\n"
    older_out = b"/* uncrustify's older output */\nint old;\n"

    scs = []
    kinds = ["changes", "noop", "fail70"] + (["fail74", "fail1", "empty", "big"] if thorough else [])
    for mode in ("replace", "nobackup", "oeqf"):
        for kind in kinds:
            scs.append((mode, kind, "none"))
    scs += [("replace", "changes", "stale"), ("replace", "changes", "match"), ("replace", "noop", "match"),
            ("oeqf", "changes", "match"), ("replace", "big", "none"), ("nobackup", "big", "none")]
    if thorough:
        scs += [("replace", "fail70", "match"), ("replace", "fail70", "stale"), ("oeqf", "noop", "stale"),
                ("replace", "big", "match"), ("oeqf", "big", "stale")]
    seen = set()
    scenarios = []
    for mode, kind, md5state in scs:
        if (mode, kind, md5state) in seen:
            continue
        seen.add((mode, kind, md5state))
        orig = inputs[kind]
        init = {"target": orig}
        if md5state == "stale":
            init.update(bak=older, md5_describes=older_out)
        elif md5state == "match":
            init.update(bak=older, md5_describes=orig)
        if mode == "nobackup" and md5state != "none":
            continue
        scenarios.append(Scenario(len(scenarios), mode, kind, md5state, orig, fmt[kind][0], fmt[kind][1], init))
        ctx.count("scenario:" + scenarios[-1].name())

    # ---------------- round 1: un-injected runs, trace equality ----------------
    def base_run(sc):
        lay = mk_layout(root, "s%d-base" % sc.sid)
        lay.reset(sc.fs_state())
        status, evs, text, err = inject.run_traced(exe, sc.argv, lay)
        snap = lay.snapshot()
        shutil.rmtree(lay.scratch, ignore_errors=True)
        return status, evs, snap, err

    bases = common.pmap(base_run, scenarios)
    VARIANTS = [(1, 1), (0, 0), (0, 1), (1, 0)]
    answers = common.run_driver([model_request(sc, [], fixed=v) for sc in scenarios for v in VARIANTS])
    points = []      # (sc, kind 'kill'|'fault', real event, errno, model index, class, schedule)
    base_info = {}
    n_trace_ok = 0
    for si, (sc, (status, evs, snap, err)) in enumerate(zip(scenarios, bases)):
        ans = answers[si * len(VARIANTS)]
        if ans == "bad-op":
            ctx.oblige("driver answers fs.run for " + sc.name(), False, "correspondence", model_request(sc, [])[:300])
            continue
        mevs, mstatus, _, _, mfs = parse_model_answer(ans)
        assign, aerr = inject.align(mevs, evs)
        real = canon_real(sc, snap)
        ctx.case("base|" + sc.name())
        same_state = all(real[r] == mfs[r] for r in inject.ROLES) and str(status) == mstatus and not snap["extra"]
        variant = (1, 1)
        if aerr is None and same_state:
            n_trace_ok += 1
        else:
            what = "un-injected run differs from the model: " + (aerr or "final state/status differ: real %s status %s, model %s status %s" % (
                {r: show(real[r]) for r in inject.ROLES}, status, {r: show(mfs[r]) for r in inject.ROLES}, mstatus))
            bad = direct_oracle(sc, snap, status, False, False)
            ctx.violation("C13 " + sc.name() + ": " + (("; ".join(bad) + " -- ") if bad else "") + what,
                          replay_of(sc, [], {"real_trace": [repr(e) for e in evs][:80],
                                             "model_trace": [m["text"] for m in mevs], "stderr": err[-500:]}),
                          found_input=bool(bad))
            # keep exploring with the property's direct oracle: use whichever variant of the model (statement
            # order / error checking of the code before the fix patches) has the binary's trace, for the mapping only
            variant = None
            for vi, v in enumerate(VARIANTS[1:], 1):
                a2 = answers[si * len(VARIANTS) + vi]
                if a2 == "bad-op":
                    continue
                mevs2 = parse_model_answer(a2)[0]
                assign2, aerr2 = inject.align(mevs2, evs)
                if aerr2 is None:
                    variant, mevs, assign = v, mevs2, assign2
                    break
            if variant is None:
                continue
            ctx.count("explored-with-model-variant:%d%d" % variant)
        bad = direct_oracle(sc, snap, status, False, False)
        if bad:
            ctx.violation("C13 " + sc.name() + " (no injection): " + "; ".join(bad), replay_of(sc, []), found_input=True)
        base_info[sc.sid] = (evs, mevs, assign, status, snap)
        ctx.sample({"scenario": sc.name(), "model_trace": ",".join(m["text"][:40] for m in mevs),
                    "file_syscalls": len(evs)})
        for j, ev in enumerate(evs):
            i = assign[j]
            pre = [m["outcome"] for m in mevs[:i]]
            # kill on entering syscall j
            if ev.kind in ("write", "close_w", "wmisc"):
                k0 = model_k(evs, j)
                alt = model_k(evs, j, int(ev.ret) if ev.kind == "write" else 0)
                if k0 is None or alt is None:
                    ctx.count("skipped:partial-md5-write")
                    continue
            elif ev.kind == "fstat_w":
                k0, alt = 1, 1
            else:
                k0, alt = 0, 1
            points.append(dict(sc=sc, what="kill", ev=ev, j=j, errno=None, injects=["%s:signal=SIGKILL:when=%d" % (ev.name, ev.nth)],
                               sched=pre + ["k%d" % k0], alt=pre + ["k%d" % alt], cls="kill", skip_roles=(), variant=variant))
            for en in ERRNOS:
                cls = inject.fault_class(ev, mevs[i])
                if cls == "benign":
                    sched = []
                elif ev.kind in ("write", "close_w", "wmisc"):
                    sched = pre + ["e%d" % (model_k(evs, j) or 0)]
                else:
                    sched = pre + ["e0"]
                skip = (ev.role,) if ev.kind in ("write", "close_w", "wmisc") else ()
                points.append(dict(sc=sc, what="fault", ev=ev, j=j, errno=en, injects=["%s:error=%s:when=%d" % (ev.name, en, ev.nth)],
                                   sched=sched, alt=None, cls=cls, skip_roles=skip, variant=variant))
    ctx.oblige("un-injected syscall trace == model trace, final state and status agree (%d/%d scenarios)" % (n_trace_ok, len(scenarios)),
               n_trace_ok == len(scenarios), "correspondence")

    # ---------------- round 2: single crash / fault points ----------------
    pair_seeds = run_points(ctx, exe, root, points, "single", collect_pairs=thorough)

    # ---------------- round 3 (thorough): pairs ----------------
    if thorough and pair_seeds:
        rng.shuffle(pair_seeds)
        ctx.log("pairs: %d (first fault, second fault) schedules found, %d of them run" % (len(pair_seeds), min(len(pair_seeds), 6000)))
        ctx.cov["pair_candidates"] = len(pair_seeds)
        run_points(ctx, exe, root, pair_seeds[:6000], "pair", collect_pairs=False)


def run_points(ctx, exe, root, points, label, collect_pairs):
    def real_run(ix):
        p = points[ix]
        sc = p["sc"]
        lay = mk_layout(root, "%s-%d" % (label, ix))
        lay.reset(sc.fs_state())
        status, evs, text, err = inject.run_traced(exe, sc.argv, lay, injects=p["injects"])
        snap = lay.snapshot()
        shutil.rmtree(lay.scratch, ignore_errors=True)
        return status, evs, snap, err

    reals = common.pmap(real_run, range(len(points)))
    reqs = []
    for p in points:
        reqs.append(model_request(p["sc"], p["sched"], fixed=p["variant"]))
        reqs.append(model_request(p["sc"], p["alt"] if p["alt"] is not None else p["sched"], fixed=p["variant"]))
    answers = common.run_driver(reqs) if reqs else []
    fired = {"kill": 0, "fault": 0}
    notfired = 0
    executed_anyway = 0
    mismatches = 0
    oracle_fail = 0
    pair_seeds = []
    for ix, (p, (status, evs, snap, err)) in enumerate(zip(points, reals)):
        sc, ev = p["sc"], p["ev"]
        inj_desc = " + ".join(p["injects"])
        # did the injection fire?
        if p["what"] == "kill":
            did = status == "killed"
        else:
            need = p.get("need_fired", [(ev.name, ev.nth, p["errno"])])
            did = all(any(e.name == n and e.nth == k and e.err == en for e in evs) for n, k, en in need)
        ctx.case("%s|%s|%s" % (label, sc.name(), inj_desc))
        ctx.count("%s:%s:%s" % (label, p["what"], p["cls"]))
        if not did:
            notfired += 1
            ctx.count("%s:not-fired" % label)
            continue
        fired[p["what"]] += 1
        killed = status == "killed"
        hard = p["cls"] == "hard" or p.get("hard_before", False)
        # --- the property, directly
        bad = direct_oracle(sc, snap, status, hard and p["what"] == "fault", killed)
        if snap["extra"]:
            bad.append("unexpected files " + repr(snap["extra"]))
        # --- the model
        real = canon_real(sc, snap)
        ok_model = False
        detail = None
        for which, ans in ((0, answers[2 * ix]), (1, answers[2 * ix + 1])):
            if ans == "bad-op":
                detail = "driver: bad-op for " + reqs[2 * ix + which][:200]
                continue
            mevs, mstatus, _, mhard, mfs = parse_model_answer(ans)
            st_ok = (mstatus == "killed") == killed and (killed or mstatus == str(status))
            if not st_ok and not killed and "read" in p.get("inj_kinds", (ev.kind,)) and mstatus == "70" and status == 74:
                st_ok = True      # model merges fopen/fread of backup_create_md5_file (see assumptions)
            fs_ok = all((r in p["skip_roles"] and (real[r] is None) == (mfs[r] is None)) or real[r] == mfs[r]
                        for r in inject.ROLES)
            _, aerr = inject.align(mevs, evs) if not killed else (None, None)
            if st_ok and fs_ok and aerr is None:
                ok_model = True
                if which == 1 and p["alt"] is not None and p["alt"] != p["sched"]:
                    executed_anyway += 1
                if collect_pairs and p["what"] == "fault":
                    assign, _ = inject.align(mevs, evs)
                    pair_seeds += make_pairs(p, evs, mevs, assign)
                break
            detail = "status real %s model %s; state real %s model %s%s" % (
                status, mstatus, {r: show(real[r]) for r in inject.ROLES}, {r: show(mfs[r]) for r in inject.ROLES},
                ("; trace: " + aerr) if aerr else "")
        if bad:
            oracle_fail += 1
            ctx.violation("C13 %s, %s: %s" % (sc.name(), inj_desc, "; ".join(bad)),
                          replay_of(sc, p["injects"], {"exit_status": status, "state_after": {r: show(snap[r]) for r in inject.ROLES},
                                                       "stderr": err[-400:]}),
                          found_input=True)
        elif not ok_model and p["variant"] == (1, 1):
            mismatches += 1
            ctx.violation("C13 %s, %s: binary and model disagree (%s)" % (sc.name(), inj_desc, detail),
                          replay_of(sc, p["injects"], {"model_request": reqs[2 * ix][:600], "real_trace": [repr(e) for e in evs][-25:]}),
                          found_input=False)
    ctx.log("%s: %d crash points and %d fault points fired (%d injections did not fire, %d killed calls had executed), "
            "%d model mismatches, %d property violations" % (label, fired["kill"], fired["fault"], notfired, executed_anyway,
                                                              mismatches, oracle_fail))
    ctx.cov["%s_crash_points_fired" % label] = fired["kill"]
    ctx.cov["%s_fault_points_fired" % label] = fired["fault"]
    ctx.cov["%s_injections_not_fired" % label] = notfired
    ctx.oblige("%s injections: binary == model for every crash/fault point (%d fired)" % (label, fired["kill"] + fired["fault"]),
               mismatches == 0, "correspondence")
    ctx.oblige("%s injections: property holds directly on the binary" % label, oracle_fail == 0, "oracle")
    ctx.oblige("%s injections: some fired" % label, fired["kill"] + fired["fault"] > 0 or not points, "setup")
    return pair_seeds


def make_pairs(p, evs, mevs, assign):
    """second fault points: every file-related syscall after the first failing one, in the trace of the
    singly-faulted run"""
    first = p["ev"]
    pos = None
    for j, e in enumerate(evs):
        if e.name == first.name and e.nth == first.nth:
            pos = j
            break
    if pos is None:
        return []
    out = []
    en = p["errno"]
    for j in range(pos + 1, len(evs)):
        ev = evs[j]
        i = assign[j]
        if i is None:
            continue
        cls = inject.fault_class(ev, mevs[i])
        pre = [m["outcome"] for m in mevs[:i]]
        if cls == "benign":
            sched = list(p["sched"])
        elif ev.kind in ("write", "close_w", "wmisc"):
            sched = pre + ["e%d" % (model_k(evs, j) or 0)]
        else:
            sched = pre + ["e0"]
        if ev.name == first.name:
            d = ev.nth - first.nth
            if d <= 0:
                continue
            injects = ["%s:error=%s:when=%d..%d+%d" % (ev.name, en, first.nth, ev.nth, d)]
        else:
            injects = list(p["injects"]) + ["%s:error=%s:when=%d" % (ev.name, en, ev.nth)]
        skip = tuple(set(p["skip_roles"]) | ({ev.role} if ev.kind in ("write", "close_w", "wmisc") else set()))
        out.append(dict(sc=p["sc"], what="fault", ev=ev, j=j, errno=en, injects=injects, sched=sched, alt=None, cls=cls,
                        skip_roles=skip, variant=p["variant"], inj_kinds=(first.kind, ev.kind), hard_before=(p["cls"] == "hard"),
                        need_fired=[(first.name, first.nth, en), (ev.name, ev.nth, en)]))
    return out
