"""C15 -- configuration round-trips.  DESIGN.md section 6/C15.

Proof:  UncModel/Props/C15.lean over the hand-written model UncModel/Config.lean and the generated
        registry (Gen/Options.lean ... regenerated from $VERIF_REPO by this check).
Tie:    CLI-level correspondence: `uncrustify -c cfg [--set ..] --update-config` vs the Lean driver
        (`config.run`, `config.dump`): exit status, diagnostics (class, file, line, option, echoed text), dump.
Oracle: (real binary only) dump -> reload -> dump is byte-identical and silent; with-doc dump reloads to the
        same dump; formatted bytes of sample inputs are identical under the original and the reloaded config.
"""
import os
import shutil
import subprocess

from vlib import common, cfgcheck as cc

SAMPLES = {
    "a.c": b"#include <stdio.h>\n#include \"b.h\"\n#include \"a.h\"\nint main(int argc,char**argv){int i;\nfor(i=0;i<argc;i++){printf(\"%s\\n\",argv[i]);}\n"
           b"if(argc>2)return 1;else{return 0;}}\nstruct S{int a;char*b;};\n/* comment */\n#define X(a) ((a)+1)\nBEGIN_MAP(x)\nEND_MAP()\nmytype_t v;\n",
    "b.cpp": b"#include <vector>\nnamespace n{template<typename T>class C:public B{public:C():x(0){}\nvirtual ~C(){}\nint f(int a,int b)const;private:int x;};}\n"
             b"auto l=[](int a){return a*2;};\nMyType*p=nullptr;\nvoid g(){switch(x){case 1:break;default:;}}\n",
}


def run(ctx):
    ctx.cov["rule"] = ("one case = one configuration (files + --set arguments) processed by the real binary "
                       "(`--update-config`) and by the Lean model; equal = same exit status, same diagnostics in the same "
                       "order (class, file, line, option named, text echoed), same dump; distinct = distinct request; "
                       "an all-options configuration counts as one case but touches every option of the registry")
    ctx.trusted += ["hand-written model UncModel/Config.lean of option.cpp / keywords.cpp / language_names.cpp / main()",
                    "translators T-opt, T-enum, T-nlmax, T-lang, T-compat (fail loudly on unparsed sources)",
                    "python: stderr parser and generators in vlib/cfgcheck.py"]
    ctx.assumptions += ["char is signed (x86-64); \"C\" locale", "`using` components in 0..1023 (no int overflow in option_level)",
                        "include paths are ASCII and name files literally (no ./ or ../ aliases) in compared cases",
                        "--find_deprecated not given", "string values contain no LF/NUL and are ASCII before a '#'"]
    exe = common.build_repo(hooks=True)
    tabs = cc.regenerate(ctx)
    if tabs is None:
        return
    ctx.lean_obligations()
    T = cc.Tables(tabs)
    R = cc.Runner(exe)
    M = cc.Model()
    try:
        _run(ctx, T, R, M)
    finally:
        R.close()


def _corr(ctx, R, M, cases, baseline, name, full=False, oblige=True):
    real = R.run_many(cases)
    ans = M.run(cases, "config.dump" if full else "config.run")
    bad = 0
    for c, a, r in zip(cases, ans, real):
        ctx.case(c.request(), nontrivial=bool(c.files.get(c.main)))
        d = cc.compare(ctx, c, a, r, baseline, name, full=full)
        if d is not None:
            bad += 1
            if bad <= 3:
                crashed = r[0] is None or r[0] < 0
                ctx.violation("%s: %s" % (name, d), dict(c.replay(), model=str(a)[:2000], real_rc=r[0],
                                                         real_stderr=r[2].decode("latin1")[-1500:]),
                              key=None, found_input=crashed)
    if not oblige:
        return real, bad
    ctx.oblige("correspondence %s: model = real binary on %d configurations" % (name, len(cases)), bad == 0, "corr",
               "%d mismatches" % bad)
    return real


def _roundtrip(ctx, R, cases, real, name, with_doc_every=4, oblige=True):
    """direct oracle on the real binary: dump -> reload -> dump"""
    ok_cases = [(c, r) for c, r in zip(cases, real) if r[0] == 0]
    again = [cc.Case({b"main.cfg": r[1]}, tag="reload:" + c.tag) for c, r in ok_cases]
    res2 = R.run_many(again)
    bad = 0
    for (c, r), c2, r2 in zip(ok_cases, again, res2):
        ctx.case(b"rt:" + c.request().encode(), nontrivial=True)
        why = None
        if r2[0] != 0:
            why = "reloading the dump exits with %s" % r2[0]
        elif r2[2].strip():
            why = "reloading the dump prints diagnostics: %r" % r2[2][:300]
        elif r2[1] != r[1]:
            a, b = r[1].split(b"\n"), r2[1].split(b"\n")
            k = next((i for i, (x, y) in enumerate(zip(a, b)) if x != y), min(len(a), len(b)))
            why = "dump of the reloaded dump differs at line %d: %r -> %r" % (k + 1, a[k:k + 1], b[k:k + 1])
        if why:
            bad += 1
            if bad <= 3:
                ctx.violation("%s: %s" % (name, why),
                              dict(c.replay(), how="argv > d1.cfg ; uncrustify -c d1.cfg --update-config > d2.cfg ; cmp d1.cfg d2.cfg"),
                              key=None, found_input=True)
    if oblige:
        ctx.oblige("oracle %s: --update-config output reloads silently to a byte-identical dump (%d configurations)"
                   % (name, len(ok_cases)), bad == 0, "oracle", "%d failures" % bad)
    # with-doc dump reloads to the plain dump
    sub = ok_cases[::with_doc_every]
    docs = R.run_many([c for c, _ in sub], extra=("--update-config-with-doc",))
    again = [cc.Case({b"main.cfg": d[1]}, tag="reload-doc") for d in docs]
    res3 = R.run_many(again)
    badd = 0
    for (c, r), d, r3 in zip(sub, docs, res3):
        ctx.case(b"rtdoc:" + c.request().encode(), nontrivial=True)
        if d[0] != 0 or r3[0] != 0 or r3[2].strip() or r3[1] != r[1]:
            badd += 1
            if badd <= 2:
                ctx.violation("%s: the --update-config-with-doc output does not reload to the same settings (rc %s/%s, stderr %r)"
                              % (name, d[0], r3[0], r3[2][:200]),
                              dict(c.replay(), how="argv with --update-config-with-doc > d.cfg ; uncrustify -c d.cfg --update-config ; compare with argv output"),
                              key=None, found_input=True)
    if not oblige:
        return ok_cases, [len(ok_cases), bad, len(sub), badd]
    ctx.oblige("oracle %s: --update-config-with-doc output reloads to the same dump (%d configurations)" % (name, len(sub)),
               badd == 0, "oracle", "%d failures" % badd)
    return ok_cases


def _format(exe, cfgdir, cfgname, src, sets=()):
    argv = [os.fsencode(exe), b"-q", b"-c", os.fsencode(cfgname)]
    for s in sets:
        argv += [b"--set", s]
    r = subprocess.run(argv + [b"-f", os.fsencode(src)], cwd=cfgdir, stdin=subprocess.DEVNULL,
                       stdout=subprocess.PIPE, stderr=subprocess.PIPE, timeout=60)
    return r.returncode, r.stdout


def _argorder(ctx, R, ok_cases, rng):
    """the meaning of `--set name=value` does not depend on where it stands on the command line: the --update-config dump is the same
    for every order of the arguments, also with other option words (-q, -l L, --type T, -L 0, --no-backup) between them"""
    sub = [(c, r) for c, r in ok_cases if c.sets][:120]
    jobs = []
    for c, r in sub:
        types = [b"CliT%d" % rng.randrange(100) for _ in range(rng.choice([1, 1, 2]))]
        blocks = [[b"-c", c.main]] + [[b"--set", s] for s in c.sets] + [[b"--type", t] for t in types]
        blocks += rng.sample([[b"-q"], [b"-l", b"CPP"], [b"--no-backup"], [b"-L", b"0"]], rng.randrange(0, 3))
        canon = [x for b in [[b"-c", c.main]] + [[b"--set", s] for s in c.sets] + [[b"--type", t] for t in types] for x in b] + [b"--update-config"]
        jobs.append((c, canon, True))
        for _ in range(3):
            # keep the relative order of the --set words (later ones win), move everything else freely
            others = [b for b in blocks if b[0] != b"--set"] + [[b"--update-config"]]
            rng.shuffle(others)
            sets = [b for b in blocks if b[0] == b"--set"]
            merged = others[:]
            pos = sorted(rng.randrange(0, len(merged) + 1) for _ in sets)
            for k, (p, sb) in enumerate(zip(pos, sets)):
                merged.insert(p + k, sb)
            jobs.append((c, [x for b in merged for x in b], False))

    def one(j):
        c, argv, _ = j
        d = R.newdir()
        for n, body in c.files.items():
            p = os.path.join(os.fsencode(d), n)
            os.makedirs(os.path.dirname(p), exist_ok=True)
            open(p, "wb").write(body.replace(b"@ABS@", os.fsencode(d)))
        r = subprocess.run([os.fsencode(R.exe)] + argv, cwd=d, stdin=subprocess.DEVNULL, stdout=subprocess.PIPE, stderr=subprocess.PIPE, timeout=60)
        shutil.rmtree(d, ignore_errors=True)
        return r.returncode, r.stdout
    res = common.pmap(one, jobs)
    bad = 0
    ref = None
    for (c, argv, is_ref), (rc, out) in zip(jobs, res):
        if is_ref:
            ref = (rc, out, argv)
            continue
        ctx.case(b"argorder:" + b" ".join(argv) + c.request().encode()[:200], nontrivial=True)
        if (rc, out) != ref[:2]:
            bad += 1
            if bad <= 3:
                dl = [(a, b) for a, b in zip(ref[1].split(b"\n"), out.split(b"\n")) if a != b][:3]
                ctx.violation("the order of the command-line arguments changes the configuration: %s gives another --update-config dump than %s "
                              "(first differing lines %s)" % ([a.decode("latin1") for a in argv], [a.decode("latin1") for a in ref[2]],
                                                             [(a.decode("latin1"), b.decode("latin1")) for a, b in dl]),
                              dict(c.replay(), argv=["uncrustify"] + [a.decode("latin1") for a in argv],
                                   reference_argv=["uncrustify"] + [a.decode("latin1") for a in ref[2]]), key=None, found_input=True)
    ctx.oblige("oracle: the --update-config dump does not depend on the order of --set / --type / -c / -q / -l on the command line (%d orders of %d configurations)"
               % (len(jobs) - len(sub), len(sub)), bad == 0, "oracle", "%d differing" % bad)


def _behaviour(ctx, R, ok_cases, n):
    """formatted bytes under the original configuration and under its reloaded dump"""
    jobs = []
    for c, r in ok_cases[:n]:
        d = R.newdir()
        for fn, body in c.files.items():
            p = os.path.join(os.fsencode(d), fn)
            os.makedirs(os.path.dirname(p), exist_ok=True)
            open(p, "wb").write(body)
        open(os.path.join(d, "reloaded.cfg"), "wb").write(r[1])
        for sn, sb in SAMPLES.items():
            open(os.path.join(d, sn), "wb").write(sb)
        for sn in SAMPLES:
            jobs.append((c, d, sn))

    def one(j):
        c, d, sn = j
        try:
            a = _format(R.exe, d, c.main.decode(), sn, c.sets)
            b = _format(R.exe, d, "reloaded.cfg", sn)
        except subprocess.TimeoutExpired:
            return ("timeout", None)
        return (a, b)
    res = common.pmap(one, jobs)
    bad = 0
    for (c, d, sn), (a, b) in zip(jobs, res):
        ctx.case(b"fmt:" + sn.encode() + c.request().encode(), nontrivial=True)
        if a == "timeout":
            continue        # a hang of the formatter is C06's business
        if a != b:
            bad += 1
            if bad <= 2:
                ctx.violation("formatting %s differs between a configuration and its --update-config dump (rc %s vs %s)"
                              % (sn, a[0], b[0]),
                              dict(c.replay(), sample=SAMPLES[sn].decode(),
                                   how="argv > reloaded.cfg ; uncrustify -c main.cfg -f sample vs uncrustify -c reloaded.cfg -f sample"),
                              key=None, found_input=True)
    ctx.oblige("oracle: byte-identical formatting under a configuration and its reloaded dump (%d runs)" % len(jobs),
               bad == 0, "oracle", "%d differences" % bad)


def _mixed_case(ctx, T, rng):
    incs = {}
    if rng.random() < 0.4:
        for nm in rng.sample([b"inc1.cfg", b"sub/inc2.cfg", b"sub/deep/inc3.cfg", b"inc 4.cfg"], rng.randrange(1, 4)):
            incs[nm] = None
    files = {}
    names = list(incs)
    for j, nm in enumerate(names):
        # an included file may include files later in the list (no cycles here), relative to its own directory
        later = [os.path.relpath(x.decode(), os.path.dirname(nm.decode()) or ".").encode() for x in names[j + 1:]]
        later = [x for x in later if not x.startswith(b"..")]
        files[nm] = cc.join_lines(rng, T.mixed_config(rng, rng.randrange(0, 12), 0.8, later))
    files[b"main.cfg"] = cc.join_lines(rng, T.mixed_config(rng, rng.choice([0, 1, 3, 10, 40, 120]), 0.8, names))
    sets = []
    if rng.random() < 0.35:
        for _ in range(rng.randrange(1, 4)):
            o = rng.choice(T.opts)
            cl = rng.choice([c for c in T.value_classes(o) if c not in ("spaces",)])
            v, _q = T.make_value(rng, o, cl)
            form = rng.random()
            nm = cc.rand_case(rng, o["name"].encode())
            if form < 0.8:
                sets.append(nm + b"=" + v)
            elif form < 0.9:
                sets.append(nm + rng.choice([b"==", b"=", b" "]) + v + rng.choice([b"", b"=", b"=x"]))
            else:
                sets.append(rng.choice([b"nosuch=1", b"=", b"novalue", b"a=b=c", b"indent_columns=" + b"1" * 300]))
    for s in sets:
        ctx.count("set-arg")
    return cc.Case(files, sets=[s for s in sets if b"\0" not in s and s != b""], tag="mixed")


def _run(ctx, T, R, M):
    rng = ctx.rng
    thorough = ctx.tier == "thorough"
    base_out = R.run(cc.Case({b"main.cfg": b""}))
    ctx.oblige("real binary dumps the default configuration", base_out[0] == 0, "corr", base_out[2][-300:])
    baseline = cc.strip_version(base_out[1])
    nopt = baseline.count(b"\n") - 2
    ctx.oblige("registry size: T-opt %d options = %d option lines in the real dump" % (len(T.opts), nopt),
               nopt == len(T.opts), "table")

    # --- (1) full dumps: every option line, padding, order (model text = real text)
    cases = [cc.Case({b"main.cfg": b""}, tag="default")]
    for k in range(20 if thorough else 4):
        lines, _ = T.all_options_config(rng, 0.9, k)
        cases.append(cc.Case({b"main.cfg": cc.join_lines(rng, lines)}, tag="full-dump"))
    _corr(ctx, R, M, cases, baseline, "full dump text", full=True)

    # --- (2) every option x value classes (one line per option in each configuration); in batches to bound memory
    nall = 1200 if thorough else 200
    ok_all, bad_all, n_all, rt_all = [], 0, 0, [0, 0, 0, 0]
    for b0 in range(0, nall, 100):
        cases = []
        for k in range(b0, min(nall, b0 + 100)):
            lines, hist = T.all_options_config(rng, 0.85, ctx.seed * 7 + k)
            for h, n in hist.items():
                ctx.count("class:" + h, n)
            cases.append(cc.Case({b"main.cfg": cc.join_lines(rng, lines)}, tag="all-options"))
        if b0 == 0:
            ctx.sample({"all_options_config_head": cases[0].files[b"main.cfg"][:400].decode("latin1")})
        real, bad = _corr(ctx, R, M, cases, baseline, "all options x value classes", oblige=False)
        bad_all += bad
        n_all += len(cases)
        ok, r4 = _roundtrip(ctx, R, cases, real, "all-options", oblige=False)
        rt_all = [a + b for a, b in zip(rt_all, r4)]
        if len(ok_all) < 60:
            ok_all += ok[:10]
    ctx.oblige("correspondence all options x value classes: model = real binary on %d configurations" % n_all, bad_all == 0,
               "corr", "%d mismatches" % bad_all)
    ctx.oblige("oracle all-options: --update-config output reloads silently to a byte-identical dump (%d configurations)" % rt_all[0],
               rt_all[1] == 0, "oracle", "%d failures" % rt_all[1])
    ctx.oblige("oracle all-options: --update-config-with-doc output reloads to the same dump (%d configurations)" % rt_all[2],
               rt_all[3] == 0, "oracle", "%d failures" % rt_all[3])

    # --- (3) random whole configurations with directives, includes, using, --set
    nmix = 15000 if thorough else 2500
    ok_mixed, bad_mix, n_mix, rt_mix = [], 0, 0, [0, 0, 0, 0]
    for b0 in range(0, nmix, 500):
        cases = [_mixed_case(ctx, T, rng) for _ in range(b0, min(nmix, b0 + 500))]
        if b0 == 0:
            ctx.sample({"mixed_config": cases[1].files[b"main.cfg"][:400].decode("latin1"),
                        "sets": [s.decode("latin1") for s in cases[1].sets]})
        real, bad = _corr(ctx, R, M, cases, baseline, "random whole configurations (directives, include, using, --set)", oblige=False)
        bad_mix += bad
        n_mix += len(cases)
        ok, r4 = _roundtrip(ctx, R, cases, real, "mixed", oblige=False)
        rt_mix = [a + b for a, b in zip(rt_mix, r4)]
        if len(ok_mixed) < 300:
            ok_mixed += ok[:40]
    ctx.oblige("correspondence random whole configurations (directives, include, using, --set): model = real binary on %d configurations"
               % n_mix, bad_mix == 0, "corr", "%d mismatches" % bad_mix)
    ctx.oblige("oracle mixed: --update-config output reloads silently to a byte-identical dump (%d configurations)" % rt_mix[0],
               rt_mix[1] == 0, "oracle", "%d failures" % rt_mix[1])
    ctx.oblige("oracle mixed: --update-config-with-doc output reloads to the same dump (%d configurations)" % rt_mix[2],
               rt_mix[3] == 0, "oracle", "%d failures" % rt_mix[3])

    _argorder(ctx, R, ok_mixed, rng)
    # --- (4) behavioural equivalence on sample inputs
    pick = ok_mixed[:(300 if thorough else 40)] + ok_all[:(60 if thorough else 8)]
    _behaviour(ctx, R, pick, len(pick))
    ctx.cov["options_touched_per_all_options_case"] = len(T.opts)
