"""C09 -- encoding transparency.  DESIGN.md section 6/C09.

Proof: UncModel/Props/C09.lean over the hand-written model UncModel/Unicode.lean.
Tie:   function-level correspondence (decode_unicode / write_char / write_bom in-process
       vs the compiled Lean driver) + CLI-level identity and transcoding runs.
"""
import os
import subprocess
import tempfile

from vlib import common, harness

ENC_CODES = {"ascii": 0, "byte": 1, "utf8": 2, "utf16le": 3, "utf16be": 4}


def hexl(bs):
    return ".".join("%x" % b for b in bs) if bs else "-"


def scalars_boundary():
    pts = [0x7f, 0x80, 0x7ff, 0x800, 0xd7ff, 0xe000, 0xfffd, 0xffff, 0x10000, 0x10ffff, 0xfeff, 0xfffe,
           0x1fffff, 0x200000, 0x3ffffff, 0x4000000, 0x7fffffff, 0xd800, 0xdbff, 0xdc00, 0xdfff, 0x110000]
    out = set()
    for p in pts:
        for d in (-2, -1, 0, 1, 2):
            if 0 < p + d <= 0x7fffffff:
                out.add(p + d)
    return sorted(out)


def is_scalar(c):
    return c < 0xd800 or 0xe000 <= c < 0x110000


def enc_utf8(c):
    if c < 0x80:
        return [c]
    if c < 0x800:
        return [0xC0 | c >> 6, 0x80 | c & 63]
    if c < 0x10000:
        return [0xE0 | c >> 12, 0x80 | (c >> 6) & 63, 0x80 | c & 63]
    if c < 0x200000:
        return [0xF0 | c >> 18, 0x80 | (c >> 12) & 63, 0x80 | (c >> 6) & 63, 0x80 | c & 63]
    if c < 0x4000000:
        return [0xF8 | c >> 24, 0x80 | (c >> 18) & 63, 0x80 | (c >> 12) & 63, 0x80 | (c >> 6) & 63, 0x80 | c & 63]
    return [0xFC | c >> 30, 0x80 | (c >> 24) & 63, 0x80 | (c >> 18) & 63, 0x80 | (c >> 12) & 63,
            0x80 | (c >> 6) & 63, 0x80 | c & 63]


def enc_utf16(c, be):
    ws = [c] if c < 0x10000 else [0xD800 + ((c - 0x10000) >> 10), 0xDC00 + ((c - 0x10000) & 0x3ff)]
    out = []
    for w in ws:
        out += [w >> 8, w & 255] if be else [w & 255, w >> 8]
    return out


def encode_as(kind, cps):
    if kind == "ascii" or kind == "utf8":
        return [b for c in cps for b in enc_utf8(c)]
    if kind == "utf8bom":
        return [0xef, 0xbb, 0xbf] + [b for c in cps for b in enc_utf8(c)]
    if kind == "utf16le":
        return [0xff, 0xfe] + [b for c in cps for b in enc_utf16(c, False)]
    if kind == "utf16be":
        return [0xfe, 0xff] + [b for c in cps for b in enc_utf16(c, True)]
    if kind == "utf16le-nobom":
        return [b for c in cps for b in enc_utf16(c, False)]
    if kind == "utf16be-nobom":
        return [b for c in cps for b in enc_utf16(c, True)]
    raise ValueError(kind)


def gen_bytes(rng):
    """structured byte strings: mostly-valid encodings with defects spliced in"""
    kind = rng.choice(["utf8", "utf8", "utf8bom", "utf16le", "utf16be", "utf16le-nobom", "utf16be-nobom",
                       "random", "ascii"])
    n = rng.choice([0, 1, 2, 3, 5, 8, 13, 30])
    pool = [rng.choice([rng.randrange(1, 128), rng.randrange(128, 0x800), rng.randrange(0x800, 0xd800),
                        rng.randrange(0xe000, 0x10000), rng.randrange(0x10000, 0x110000), rng.randrange(32, 127),
                        rng.randrange(32, 127)])
            for _ in range(n)]
    if kind == "random":
        bs = [rng.randrange(256) for _ in range(n)]
    elif kind == "ascii":
        bs = [rng.randrange(1, 128) for _ in range(n)]
    else:
        bs = encode_as(kind, pool)
    defect = rng.choice(["none", "none", "none", "overlong", "lone-hi", "lone-lo", "trunc", "flip", "zero", "odd",
                         "cont", "fe-ff", "long56", "utf8-surrogate"])
    pos = rng.randrange(len(bs) + 1)
    if defect == "overlong":
        c = rng.choice([0x2f, 0x41, 0x7f, 0x80, 0x7ff, 0x0])
        form = rng.choice([[0xC0 | c >> 6, 0x80 | c & 63], [0xE0, 0x80 | (c >> 6) & 63, 0x80 | c & 63],
                           [0xF0, 0x80, 0x80 | (c >> 6) & 63, 0x80 | c & 63]])
        bs[pos:pos] = form
    elif defect == "lone-hi":
        w = rng.randrange(0xd800, 0xdc00)
        bs[pos - pos % 2:pos - pos % 2] = [w & 255, w >> 8] if "le" in kind else [w >> 8, w & 255]
    elif defect == "lone-lo":
        w = rng.randrange(0xdc00, 0xe000)
        bs[pos - pos % 2:pos - pos % 2] = [w & 255, w >> 8] if "le" in kind else [w >> 8, w & 255]
    elif defect == "trunc" and bs:
        bs = bs[:rng.randrange(len(bs))]
    elif defect == "flip" and bs:
        i = rng.randrange(len(bs))
        bs[i] ^= 1 << rng.randrange(8)
    elif defect == "zero":
        bs[pos:pos] = [0]
    elif defect == "odd":
        bs[pos:pos] = [rng.randrange(256)]
    elif defect == "cont":
        bs[pos:pos] = [rng.randrange(0x80, 0xc0)]
    elif defect == "fe-ff":
        bs[pos:pos] = [rng.choice([0xfe, 0xff])]
    elif defect == "long56":
        c = rng.choice([0x200000, 0x3ffffff, 0x4000000, 0x7fffffff, rng.randrange(0x200000, 0x7fffffff)])
        bs[pos:pos] = enc_utf8(c)
    elif defect == "utf8-surrogate":
        bs[pos:pos] = enc_utf8(rng.randrange(0xd800, 0xe000))
    return kind + "/" + defect, bs


def run(ctx):
    ctx.cov["rule"] = ("function-level: one case = one request line answered by both the compiled C++ "
                       "(decode_unicode/write_char/write_bom in-process) and the Lean driver; distinct = distinct request lines; "
                       "non-trivial = not the empty input. CLI-level: one case = one file run through the real binary")
    ctx.trusted += ["hand-written model UncModel/Unicode.lean of src/unicode.cpp + uncrustify_file() policy block",
                    "bit operations written arithmetically in the model (validated by the function-level correspondence)",
                    "fnharness.cpp (calls the repo's own functions), python generators"]
    ctx.assumptions += ["code points fit a C++ int (< 2^31)", "rename/stdio below the model"]
    ctx.lean_obligations()

    exe = common.build_repo(hooks=True)
    thorough = ctx.tier == "thorough"
    rng = ctx.rng

    # ---- function level: encoders, every scalar (thorough) / boundaries + sample (quick)
    if thorough:
        cps_all = [c for c in range(1, 0x110000)] + [c for c in scalars_boundary() if c >= 0x110000]
    else:
        cps_all = scalars_boundary() + sorted(set(rng.randrange(1, 0x110000) for _ in range(20000)))
    lines = []
    B = 256
    for enc in (2, 3, 4, 0, 1):
        for i in range(0, len(cps_all), B):
            lines.append("unicode.emit %d %d %s" % (enc, (i // B) % 2, hexl(cps_all[i:i + B])))
    # ---- decode of the encoders' outputs and of structured/defective byte strings
    ndec = 60000 if thorough else 6000
    kinds = []
    for _ in range(ndec):
        k, bs = gen_bytes(rng)
        kinds.append(k)
        ctx.count("decode:" + k.split("/")[1])
        lines.append("unicode.decode 1 " + hexl(bs))
    for i in range(0, len(cps_all), B):
        blk = [c for c in cps_all[i:i + B] if is_scalar(c)]
        for kind in ("utf8", "utf8bom", "utf16le", "utf16be"):
            lines.append("unicode.decode 1 " + hexl(encode_as(kind, blk)))
    ctx.log("function-level requests:", len(lines))
    model = common.run_driver(lines)
    real = harness.run_fnharness(lines)
    ok = len(model) == len(real) == len(lines)
    ctx.oblige("function-level correspondence ran (%d answers each)" % len(lines), ok, "corr",
               None if ok else (len(model), len(real), real[-1:] if real else None))
    bad = 0
    for ln, m, r in zip(lines, model, real):
        ctx.case(ln, nontrivial=not ln.endswith(" -"))
        if m != r:
            bad += 1
            if bad <= 3:
                _report_fn_mismatch(ctx, ln, m, r)
    ctx.oblige("function-level correspondence: model = implementation on every request", bad == 0, "corr",
               "%d mismatches" % bad)
    ctx.sample({"request": lines[len(lines) // 2][:200], "answer": model[len(lines) // 2][:200] if model else None})
    if thorough:
        ctx.cov["exhaustive_scalars"] = True

    # ---- CLI level: identity on stable inputs, all encodings x BOM options, + transcoding commutation
    _cli_level(ctx, exe, thorough)


def _report_fn_mismatch(ctx, ln, m, r):
    """model and implementation disagree: is the property itself broken on this input?"""
    w = ln.split()
    prop_broken = False
    what = "model/implementation disagree on `%s`: model=%s impl=%s" % (ln[:300], m[:200], r[:200])
    if w[0] == "unicode.decode" and r not in ("fail",) and not r.startswith("HARNESS"):
        # implementation decoded: re-encode with the implementation's own writer and compare bytes
        enc, bom, cps = r.split()
        back = harness.run_fnharness(["unicode.emit %d %s %s" % (ENC_CODES[enc], bom, cps)])[0]
        src = w[2]
        if back != src and not (enc.startswith("utf16") and bom == "0"):
            prop_broken = True
            what = ("decode_unicode accepts bytes %s as %s and write_char re-emits them as %s: silently altered"
                    % (src, enc, back))
    elif w[0] == "unicode.emit":
        # implementation wrote bytes for scalars: decode them back with the implementation
        enc = int(w[1])
        if enc in (2, 3, 4):
            back = harness.run_fnharness(["unicode.decode 1 " + r])[0]
            cps = w[3]
            if not back.endswith(" " + cps) and not (w[2] == "0" and enc in (3, 4)):
                prop_broken = True
                what = "write_char(enc=%d) of code points %s gives bytes %s which decode back as %s" % (enc, cps[:120], r[:120], back[:120])
    ctx.violation(what, {"request": ln, "model": m, "impl": r,
                         "how": "echo '<request>' | .cache/harness/fnharness ; same line to lean/UncModel/.lake/build/bin/uncdrv"},
                  key=None, found_input=prop_broken)


def _run_unc(exe, cfg, path, extra=()):
    r = subprocess.run([exe, "-q", "-c", cfg, "-f", path] + list(extra), stdout=subprocess.PIPE, stderr=subprocess.PIPE)
    return r.returncode, r.stdout, r.stderr


def _cli_level(ctx, exe, thorough):
    rng = ctx.rng
    tmp = tempfile.mkdtemp(prefix="c09-", dir=common.CACHE)
    try:
        cfgs = {}
        for ubom in ("ignore", "add", "remove", "force"):
            for ubyte in ("false", "true"):
                for uforce in ("false", "true"):
                    p = os.path.join(tmp, "c-%s-%s-%s.cfg" % (ubom, ubyte, uforce))
                    open(p, "w").write("utf8_bom=%s\nutf8_byte=%s\nutf8_force=%s\n" % (ubom, ubyte, uforce))
                    cfgs[(ubom, ubyte, uforce)] = p
        iarf = {"ignore": 0, "add": 1, "remove": 2, "force": 3}
        # payload scalars: printable, no whitespace/controls so that formatting is the identity on the file
        def payload(n):
            out = []
            while len(out) < n:
                c = rng.choice([rng.randrange(0x21, 0x7f), rng.randrange(0xa1, 0x800), rng.randrange(0x800, 0xd800),
                                rng.randrange(0xe000, 0xfffe), rng.randrange(0x10000, 0x110000)])
                if c in (0x2a, 0x2f, 0x5c, 0x22, 0x27, 0xfeff):
                    continue
                out.append(c)
            return out
        nfiles = 400 if thorough else 60
        cases = []
        for i in range(nfiles):
            body = []
            for _ in range(rng.randrange(1, 6)):
                if rng.random() < 0.5:
                    body += [ord(c) for c in "/* x"] + payload(rng.randrange(1, 40)) + [ord(c) for c in "y */\n"]
                else:
                    body += [ord(c) for c in "const char *s = \"x"] + payload(rng.randrange(1, 40)) + [ord(c) for c in "y\";\n"]
            kind = rng.choice(["utf8", "utf8bom", "utf16le", "utf16be", "utf16le-nobom", "utf16be-nobom", "ascii", "byte"])
            if kind == "ascii":
                body = [c if c < 128 else 0x61 for c in body]
                raw = body
            elif kind == "byte":
                # not valid UTF-8: a stray continuation byte inside a comment
                raw = [b for c in body for b in enc_utf8(c)]
                raw[3:3] = [0xa9]
            else:
                raw = encode_as(kind, body)
            cases.append((kind, raw))
        lines = []
        jobs = []
        for i, (kind, raw) in enumerate(cases):
            path = os.path.join(tmp, "in%d.c" % i)
            open(path, "wb").write(bytes(raw))
            keys = list(cfgs) if (thorough or i % 8 == 0) else [("ignore", "false", "false"), rng.choice(list(cfgs))]
            for k in keys:
                jobs.append((i, kind, raw, path, k))
                lines.append("unicode.run 1 %d %d %d %s" % (iarf[k[0]], k[1] == "true", k[2] == "true", hexl(raw)))
        model = common.run_driver(lines)
        res = common.pmap(lambda j: _run_unc(exe, cfgs[j[4]], j[3]), jobs)
        bad = 0
        for (i, kind, raw, path, k), m, (rc, out, err) in zip(jobs, model, res):
            ctx.case("cli:%s:%s" % (hexl(raw), k))
            ctx.count("cli:" + kind)
            realhex = hexl(list(out)) if rc == 0 else "fail"
            if m != realhex:
                bad += 1
                if bad <= 3:
                    # direct property reading: default options must reproduce the input (BOM-less UTF-16 gains a BOM)
                    direct = k == ("ignore", "false", "false") and rc == 0 and bytes(raw) != out and "nobom" not in kind
                    ctx.violation("CLI run differs from model runBytes: kind=%s opts=%s rc=%d model=%s real=%s"
                                  % (kind, k, rc, m[:160], realhex[:160]),
                                  {"input_hex": hexl(raw), "options": dict(zip(("utf8_bom", "utf8_byte", "utf8_force"), k)),
                                   "argv": "uncrustify -q -c <cfg> -f <file>", "model": m, "real": realhex,
                                   "stderr": err.decode("latin1")[-400:]},
                                  key=None, found_input=direct)
        ctx.oblige("CLI-level correspondence: bytes written = model runBytes (identity-stable inputs x BOM options)",
                   bad == 0, "corr", "%d mismatches of %d" % (bad, len(jobs)))
        ctx.sample({"cli_case": {"kind": cases[0][0], "input_hex": hexl(cases[0][1])[:160]}})

        # transcoding commutation on real formatting: corpus C files with a non-ASCII comment/literal spliced in
        files = [p for p, d in common.corpus_files(["c", "cpp"]) if os.path.getsize(p) < 20000]
        rng.shuffle(files)
        files = files[:(150 if thorough else 25)]
        tjobs = []
        for fi, p in enumerate(files):
            try:
                txt = open(p, "rb").read().decode("ascii")
            except UnicodeDecodeError:
                continue
            if "\x00" in txt or not txt:
                continue
            cps = [ord(c) for c in txt] + [ord(c) for c in "\n/* "] + payload(12) + [ord(c) for c in " */\n"]
            for kind in ("utf8", "utf8bom", "utf16le", "utf16be"):
                q = os.path.join(tmp, "t%d-%s%s" % (fi, kind, os.path.splitext(p)[1] or ".c"))
                open(q, "wb").write(bytes(encode_as(kind, cps)))
                tjobs.append((fi, kind, q, p))
        dcfg = cfgs[("ignore", "false", "false")]
        tres = common.pmap(lambda j: _run_unc(exe, dcfg, j[2]), tjobs)
        by_file = {}
        for (fi, kind, q, p), (rc, out, err) in zip(tjobs, tres):
            by_file.setdefault(fi, {})[kind] = (rc, out, p)
        tbad = 0
        dec_lines, dec_keys = [], []
        for fi, d in by_file.items():
            for kind, (rc, out, p) in d.items():
                dec_lines.append("unicode.decode 1 " + hexl(list(out)) if rc == 0 else "unicode.decode 1 -")
                dec_keys.append((fi, kind))
        dec = dict(zip(dec_keys, harness.run_fnharness(dec_lines))) if dec_lines else {}
        for fi, d in by_file.items():
            ctx.case("transcode:%s" % d["utf8"][2])
            ref_rc = d["utf8"][0]
            ref = dec[(fi, "utf8")].split()[-1] if ref_rc == 0 else None
            for kind in ("utf8bom", "utf16le", "utf16be"):
                rc, out, p = d[kind]
                got = dec[(fi, kind)].split()
                okk = rc == ref_rc and (rc != 0 or (got[-1] == ref and got[0] == {"utf8bom": "utf8"}.get(kind, kind) and got[1] == "1"))
                if not okk:
                    tbad += 1
                    if tbad <= 3:
                        ctx.violation("format(transcode(x)) != transcode(format(x)) for %s as %s (rc %s vs %s)" % (p, kind, rc, ref_rc),
                                      {"file": p, "encoding": kind, "note": "non-ASCII comment appended; default options"},
                                      key=None, found_input=True)
        ctx.oblige("direct oracle: formatting commutes with transcoding on %d corpus files x 4 encodings" % len(by_file),
                   tbad == 0, "oracle", "%d failures" % tbad)
    finally:
        import shutil
        shutil.rmtree(tmp, ignore_errors=True)
