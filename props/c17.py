"""C17 -- whitespace hygiene of the output.  DESIGN.md section 6/C17.

Proof:  Props/Render.lean (tidy state after every text chunk => a NEWLINE chunk emits exactly its terminators, no
        trailing blank; indentation is tabs-then-spaces, spaces only when tabs are off) + Props/C17.lean (EOF policy).
Tie:    Render/AddChar model reproduces op sequence and bytes of every run; eatEdge model vs real trailing breaks.
Monitors (hypotheses of the theorems evaluated on the real chunk lists): visible chunk texts do not end in a blank.
Oracle: op-level and byte-level scan of the real output.
"""
import os

from vlib import common, gen, pipeline, unc

COMMENT_T = {"COMMENT", "COMMENT_MULTI", "COMMENT_CPP", "COMMENT_ENDIF", "COMMENT_CPP_ENDIF"}
EXEMPT_T = COMMENT_T | {"IGNORED", "JUNK", "STRING_MULTI", "STRING", "CHAR"}
IARF = {"ignore": 0, "add": 1, "remove": 2, "force": 3}


def oc_records(outs):
    """[(fields, [op words])] of one run"""
    recs = []
    for ln in outs:
        if ln.startswith("OC "):
            recs.append((unc.fields(ln), []))
        elif ln.startswith("OPS") and recs:
            recs[-1][1].extend(ln.split()[1:])
    return recs


def trailing_blank_events(recs):
    """line breaks written by NEWLINE / NL_CONT chunks that directly follow a blank written for a code chunk"""
    ev = []
    last = None      # (op word, chunk type, chunk idx)
    for f, ops in recs:
        t = f["t"]
        for k, w in enumerate(ops):
            if w[0] not in "ALR":
                continue
            if t in ("NEWLINE", "NL_CONT") and w in ("Aa",):
                if last is not None and last[0] in ("A20", "A9", "L20", "L9"):
                    if last[1] in ("NEWLINE",):
                        ev.append(("blank-line-indent", f["i"], last))
                    elif last[1] not in EXEMPT_T:
                        ev.append(("code", f["i"], last))
            last = (w, t, f["i"])
    return ev


def line_prefixes(out, nl):
    """leading whitespace of every non-empty line of the output"""
    res = []
    for ln in out.split(nl):
        s = ln.lstrip(b" \t")
        res.append((ln[:len(ln) - len(s)], s, ln))
    return res


def run(ctx):
    ctx.cov["rule"] = ("one case = one run of the hook build on a generated program (random original whitespace, trailing blanks, tabs after "
                       "spaces, whitespace-only blank lines) or a corpus input, under a draw of the tab/indent/align options; distinct = distinct "
                       "(input, option draw); non-trivial = exit 0")
    ctx.trusted += ["hand-written models AddChar.lean / Render.lean / EatSE.lean", "hooks H1/H3", "comment writers are an oracle"]
    ctx.assumptions += ["WF: text of every visible non-comment chunk is non-empty and does not end in a blank (monitored at P1)",
                        "comment interiors, literals and disabled regions are excluded as the property says"]
    ctx.lean_obligations()
    common.lean_extra(ctx, "UncModel.Props.Render",
                      ["addtext_tidy", "rendertext_tidy", "newline_run", "newline_run_indented", "nlcont_emits",
                       "to_column_spaces_only_partial", "to_column_tabs_then_spaces_partial", "to_column_spaces_only_flushed",
                       "to_column_tabs_then_spaces_flushed", "first_on_line_prefix", "render_gap"])
    common.lean_extra(ctx, "UncModel.Props.PpBody",
                      ["PpBody_no_backslash_blank", "PpBody_no_trailing_blank", "PpBody_no_line_break", "PpBody_only_blanks_dropped",
                       "PpBody_old_trailing_tab_witness"], namespace="Unc.PpBody")
    exe = common.build_repo(hooks=True)
    thorough = ctx.tier == "thorough"
    rng = ctx.rng
    sc = pipeline.Scratch("c17")
    try:
        jobs = []
        nprog = 400 if thorough else 60
        for i in range(nprog):
            lang = rng.choice(["C", "C", "CPP", "JAVA"])
            lines, txt = gen.program(rng, lang, stats=ctx.hist,
                                     layout={"indent": "random", "gaps": "random", "trailing": 0.35, "blanklines": 0.1})
            if lang != "JAVA" and rng.random() < 0.35:
                # directive lines continued over a line break with blanks after the backslash; a region; a namespace at the end
                txt += rng.choice(["#pragma region tail \\  \n    more\n", "#pragma mark x \\ \t \n    y\n#define CONT2(a) f(a); \\   \n   g(a)\n",
                                   "#error message \\    \n   continued\n"])
            if lang != "JAVA" and rng.random() < 0.4:
                txt += "#if A\n#if B\n#define DEEP(x) \\\n        first(x); \\\n        second(x)\n#if C\nint deep_v;\n#endif\n#endif\n#endif\n"
            tailns = lang == "CPP" and rng.random() < 0.3
            if tailns:
                txt += "namespace tailns {\nint tv;\n}\n"
            k = rng.random() if not tailns else 0.4      # after a namespace at the end: always some surplus blank lines
            if k < 0.3:
                txt = txt.rstrip("\n")            # no line break at end of file
            elif k < 0.5:
                txt += "\n" * rng.randrange(1, 5)
            if rng.random() < 0.25:
                txt = "\n" * rng.randrange(1, 4) + txt
            p = sc.write(txt, {"C": ".c", "CPP": ".cpp", "JAVA": ".java"}[lang])
            for _ in range(6 if thorough else 3):
                opts = {"indent_with_tabs": rng.choice([0, 0, 1, 2]), "output_tab_size": rng.choice([1, 2, 3, 4, 8]),
                        "indent_columns": rng.choice([1, 2, 3, 4, 8, 16]), "input_tab_size": rng.choice([2, 4, 8]),
                        "align_with_tabs": rng.choice(["true", "false"]), "align_keep_tabs": rng.choice(["true", "false"]),
                        "pp_indent_with_tabs": rng.choice([-1, -1, 0, 1, 2]), "pp_indent": rng.choice(["ignore", "add", "force"]),
                        "align_var_def_span": rng.choice([0, 0, 2]), "align_assign_span": rng.choice([0, 0, 2]),
                        "align_right_cmt_span": rng.choice([0, 3]), "indent_brace": rng.choice([0, 0, 2]),
                        "indent_single_newlines": "false",
                        "disable_processing_nl_cont": rng.choice(["false", "false", "true"]),
                        "nl_before_namespace": rng.choice([0, 0, 2]), "pp_ignore_define_body": rng.choice(["false", "false", "true"]),
                        "nl_end_of_file": rng.choice(["ignore", "add", "remove", "force"]), "nl_end_of_file_min": rng.choice([0, 1, 2, 3]),
                        "nl_start_of_file": rng.choice(["ignore", "ignore", "add", "remove", "force"]),
                        "nl_start_of_file_min": rng.choice([0, 1, 2])}
                if rng.random() < 0.2:
                    # the matrix of the two tab policies: code and preprocessor lines governed by different settings
                    opts.update({"indent_with_tabs": rng.choice([0, 1, 2]), "pp_indent_with_tabs": rng.choice([0, 1, 2]),
                                 "pp_indent": rng.choice(["add", "force"]), "pp_indent_count": rng.choice([1, 4, 8])})
                if tailns and rng.random() < 0.7:
                    # the last newline chunk follows a namespace brace: do_blank_lines() does not force it to 1
                    opts.update({"nl_before_namespace": 2, "nl_end_of_file": rng.choice(["force", "force", "add"]), "nl_end_of_file_min": rng.choice([1, 2])})
                jobs.append(pipeline.Job("gen%d" % i, sc.cfg(None, opts), p, lang, {"opts": opts, "kind": "gen", "text": txt}))
        # ---- the tab-policy matrix on one fixed program that holds every kind of chunk that can be first on a line at several
        #      nesting depths: code, a `<<` continuation (placed by align_left_shift), a continued call argument, a continued
        #      condition, a trailing-operator continuation, a comment, a label, a preprocessor line
        MTXT = ("int g0;\nvoid sh(int lv, int *q)\n{\n  if (lv) {\n    out << \"first part\" << lv\n      << \" and that is all\";\n"
                "    if (lv > 1) {\n      stream << \"x\"\n       << \"y\" << lv\n    << \"z\";\n      call_some(lv, q,\n  lv + 1,\n          q);\n"
                "      if (lv > 2 &&\n   q) {\n        g0 = lv +\n   2;\n        /* c */\n        // d\n#ifdef A\n        g0++;\n#endif\n      }\n"
                "    }\n  }\nend:\n  return;\n}\n")
        mp = sc.write(MTXT, ".cpp")
        for iwt in (0, 1, 2):
            for awt in ("true", "false"):
                for ic, ts in ((4, 8), (3, 8), (2, 4), (8, 8), (4, 4), (8, 4)):
                    opts = {"indent_with_tabs": iwt, "align_with_tabs": awt, "indent_columns": ic, "output_tab_size": ts, "input_tab_size": 8,
                            "align_keep_tabs": "false", "pp_indent_with_tabs": -1, "pp_indent": "ignore", "align_var_def_span": 0,
                            "align_assign_span": 0, "align_right_cmt_span": 0, "indent_brace": 0, "indent_single_newlines": "false",
                            "disable_processing_nl_cont": "false", "nl_before_namespace": 0, "pp_ignore_define_body": "false",
                            "nl_end_of_file": "ignore", "nl_end_of_file_min": 0, "nl_start_of_file": "ignore", "nl_start_of_file_min": 0}
                    jobs.append(pipeline.Job("tabmatrix:%d:%s:%d:%d" % (iwt, awt, ic, ts), sc.cfg(None, opts), mp, "CPP",
                                             {"opts": opts, "kind": "gen", "text": MTXT}))
        pairs = [p for p in unc.test_pairs() if os.path.getsize(p[2]) < 30000]
        rng.shuffle(pairs)
        for name, cfg, inp, lang in pairs[:(600 if thorough else 60)]:
            jobs.append(pipeline.Job(name, cfg, inp, lang, {"kind": "corpus", "opts": None}))
        ctx.log("runs:", len(jobs))
        pipeline.run_jobs(exe, jobs)
        for j in jobs:
            ctx.count("rc:%s" % j.res["rc"])
        good = pipeline.render_check(ctx, jobs, "C17-render")

        # ---- monitor: WF of the chunk list handed to output_text()
        mbad = 0
        for j in good:
            for ln in j.chunks:
                c = unc.parse_chunk(ln)
                if c["t"] in EXEMPT_T or c["t"] in ("NEWLINE", "NL_CONT") or not c["txt"]:
                    continue
                if c["txt"][-1] in (32, 9) and len(c["txt"]) > 1 and c["txt"][-2] == 92:
                    continue         # one blank kept after a backslash on purpose (TokStrip.lean, strip_keeps_backslash_guard)
                if c["txt"][-1] in (32, 9, 10, 13):
                    mbad += 1
                    if mbad <= 2:
                        ctx.violation("monitor WF: chunk %s of type %s ends in a blank at P1 (run %s)" % (c["i"], c["t"], j.name),
                                      _replay(j), found_input=False)
        ctx.oblige("monitor WF (no visible code chunk ends in a blank) on %d runs" % len(good), mbad == 0, "monitor")

        # ---- oracle: trailing blanks / indentation characters / EOF policy, on the real op trace and the real bytes
        obad = 0
        eof_lines, eof_jobs = [], []
        for j in jobs:
            if j.res["rc"] != 0 or j.hdr is None:
                continue
            vals = j.vals
            recs = oc_records(j.outs)
            for kind, idx, last in trailing_blank_events(recs):
                if kind == "blank-line-indent" and vals.get("indent_single_newlines", "false") != "false":
                    continue
                if vals.get("force_tab_after_define", "false") != "false" and last[1] == "PP_DEFINE":
                    continue
                obad += _viol(ctx, j, "output line ends in a blank (%s) before the line break of chunk %s, written for chunk %s of type %s"
                              % (last[0], idx, last[2], last[1]),
                              key={"file": _rel(j), "cfg": _relcfg(j), "kind": "trailing-blank"} if j.meta["kind"] == "corpus" else
                              ({"kind": "trailing-blank", "type": last[1], "char": "tab" if last[0].endswith("9") else "space"}
                               if last[1] in ("PREPROC_BODY", "PP_IGNORE") else None))
                break
            # indentation characters (byte level, whole file; lines inside multi-line comments/strings are skipped via the op trace
            # being too coarse here: only generated programs, whose comments we know, are scanned at byte level)
            if j.meta["kind"] == "gen":
                nl = {"a": b"\n", "d.a": b"\r\n", "d": b"\r"}[j.hdr["newline"]]
                iwt = int(vals.get("indent_with_tabs", "1"))
                ppiwt = int(vals.get("pp_indent_with_tabs", "-1"))
                in_cmt = False
                cont = False
                for lead, rest, full in line_prefixes(j.res["out"], nl):
                    is_pp = rest.startswith(b"#") or cont
                    cont = full.endswith(b"\\") if full is not None else False      # a blank after the backslash: no continuation
                    eff = iwt if (not is_pp or ppiwt == -1) else ppiwt
                    if not rest:
                        continue
                    skip = in_cmt or rest.startswith(b"*")
                    if b"/*" in rest and b"*/" not in rest.split(b"/*")[-1]:
                        in_cmt = True
                    elif in_cmt and b"*/" in rest:
                        in_cmt = False
                    if skip:
                        continue
                    if eff == 0 and b"\t" in lead:
                        obad += _viol(ctx, j, "indent_with_tabs=0 (effective) but the indentation %r contains a tab: %r" % (lead, rest[:40]))
                        break
                    if b" \t" in lead:
                        obad += _viol(ctx, j, "a space precedes a tab in the indentation %r of line %r" % (lead, rest[:40]))
                        break
            # EOF policy: reference run with nl_end_of_file=ignore gives the edge
            if j.meta["kind"] == "gen":
                eof_jobs.append(j)
        refs = {}
        ref_jobs = []
        for j in eof_jobs:
            if j.inp not in refs:
                o = dict(j.meta["opts"])
                o["nl_end_of_file"] = "ignore"
                o["nl_start_of_file"] = "ignore"
                rj = pipeline.Job("ref", sc.cfg(None, o), j.inp, j.lang, {})
                refs[j.inp] = rj
                ref_jobs.append(rj)
        pipeline.run_jobs(exe, ref_jobs, hooks=False)
        lines = []
        for j in eof_jobs:
            rj = refs[j.inp]
            nlb = {"a": b"\n", "d.a": b"\r\n", "d": b"\r"}[j.hdr["newline"]]
            n0 = _trailing(rj.res["out"], nlb)
            s0 = _leading(rj.res["out"], nlb)
            o = j.meta["opts"]
            lines.append("eatse.edge 0 %d %s %s" % (IARF[o["nl_end_of_file"]], o["nl_end_of_file_min"], n0 if n0 else "-"))
            lines.append("eatse.edge 0 %d %s %s" % (IARF[o["nl_start_of_file"]], o["nl_start_of_file_min"], s0 if s0 else "-"))
        ans = common.run_driver(lines) if lines else []
        # `fileEdge` presumes do_blank_lines() forces the edge chunk to 1; can_increase_nl() answers true earlier for namespace braces,
        # and a `tmp` write may raise the edge chunk afterwards: those edges are judged by the direct oracle only (as in C20)
        from props import c20 as _c20
        edge_lines, edge_owner, not_forced = [], [], set()
        for k, j in enumerate(eof_jobs):
            blks = _c20.blank_blocks(j.res.get("trace") or [])
            last = blks[-1] if blks else []
            tmp_written = {w["i"] for bv, bws in last for w in bws if w["i"] != bv["i"]}
            for bv, _ in last:
                if bv["head"] == "1" or bv["tail"] == "1":
                    which = "start" if bv["head"] == "1" else "end"
                    edge_lines.append(_c20.caninc_request(bv, j.vals))
                    edge_owner.append((k, which))
                    if bv["i"] in tmp_written:
                        not_forced.add((k, which))
        for (k, which), a in zip(edge_owner, common.run_driver(edge_lines) if edge_lines else []):
            if a == "1":
                not_forced.add((k, which))
        ebad = 0
        for k, j in enumerate(eof_jobs):
            nlb = {"a": b"\n", "d.a": b"\r\n", "d": b"\r"}[j.hdr["newline"]]
            o = j.meta["opts"]
            got_e, got_s = _trailing(j.res["out"], nlb), _leading(j.res["out"], nlb)
            ctx.case("eof:%s:%s" % (j.inp, sorted(o.items())))
            if not j.res["out"].strip():
                continue
            for which, got, model, opt, mn in (("end", got_e, ans[2 * k], o["nl_end_of_file"], o["nl_end_of_file_min"]),
                                               ("start", got_s, ans[2 * k + 1], o["nl_start_of_file"], o["nl_start_of_file_min"])):
                direct_bad = (opt == "force" and got != mn) or (opt == "remove" and got != 0) or (opt == "add" and got < mn)
                if (str(got) != model and (k, which) not in not_forced) or direct_bad:
                    ebad += 1
                    if ebad <= 3:
                        _viol(ctx, j, "nl_%s_of_file=%s min=%s: %d line breaks at the %s of the output, model says %s"
                              % (which, opt, mn, got, which, model), found=direct_bad)
        ppbody_tie(ctx, exe, sc)
        ctx.oblige("EOF/SOF policy: eatEdge model = real count of line breaks at both file edges (%d runs)" % len(eof_jobs), ebad == 0, "corr")
        ctx.oblige("direct oracles: no trailing blank, indentation characters, on %d runs" % len(jobs), obad == 0, "oracle", "%d failures" % obad)
        if jobs:
            ctx.sample({"run": jobs[0].name, "opts": jobs[0].meta["opts"], "input_head": jobs[0].meta.get("text", "")[:200]})
    finally:
        sc.close()


def ppbody_tie(ctx, exe, sc):
    """tie of PpBody.lean (`parse_next()`: body of an unknown directive, then the strip of `tokenize()`): exhaustive over all tails of
    length <= 4 (thorough: 5) over {a, blank, TAB, backslash, '/', '*'} behind `#pragma k` / `#error k` / `#warning k`; the text of the
    first CT_PREPROC_BODY chunk of the directive line at P0 must be the model's `body`."""
    import itertools
    alpha = "a \t\\/*"
    maxn = 5 if ctx.tier == "thorough" else 4
    tails = [""] + ["".join(t) for n in range(1, maxn + 1) for t in itertools.product(alpha, repeat=n)]
    per = 150
    jobs = []
    for d, directive in enumerate(("#pragma", "#error", "#warning")):
        sub = tails if d == 0 else tails[d::3]
        for b in range(0, len(sub), per):
            batch = sub[b:b + per]
            txt = "".join("%s k%s\nint s%d; /* z */\n" % (directive, tl, k) for k, tl in enumerate(batch))
            pth = sc.write(txt, ".c")
            jobs.append(pipeline.Job("ppbody:%s:%d" % (directive, b), sc.cfg(None, {}), pth, "C", {"batch": batch, "text": txt}))
    pipeline.run_jobs(exe, jobs)
    reqs, owners = [], []
    missing = 0
    for j in jobs:
        if j.res["rc"] != 0 or not j.res.get("trace"):
            missing += len(j.meta["batch"])
            continue
        hdr, p0 = unc.dump(j.res["trace"], "P0")
        first = {}
        for ln in p0:
            c = unc.parse_chunk(ln)
            if c["t"] == "PREPROC_BODY" and c["ol"] % 2 == 1 and c["ol"] not in first:
                first[c["ol"]] = "".join(chr(x) for x in c["txt"])
        for k, tl in enumerate(j.meta["batch"]):
            raw = "k" + tl + "\n"
            reqs.append("ppbody.run " + ".".join("%x" % ord(ch) for ch in raw))
            owners.append((j, tl, first.get(2 * k + 1)))
    ans = common.run_driver(reqs) if reqs else []
    bad = 0
    for (j, tl, got), a in zip(owners, ans):
        ctx.case("ppbody:%s:%r" % (j.name.split(":")[1], tl))
        mh = a.split(" ")[0]
        model = "" if mh == "-" else "".join(chr(int(x, 16)) for x in mh.split("."))
        if got is None or model != got:
            bad += 1
            if bad <= 3:
                line = "%s k%s" % (j.name.split(":")[1], tl)
                ends_blank = bool(got) and got[-1] in " \t"
                ctx.violation("parse_next() directive body: line %r gives the CT_PREPROC_BODY text %r, model PpBody.body gives %r%s"
                              % (line, got, model, " -- the chunk text ends in a blank: the output line ends in a blank" if ends_blank else ""),
                              {"input_text": line + "\nint s;\n", "language": "C", "config": {}, "chunk_text": got, "model": model,
                               "theorem": "PpBody_no_trailing_blank (Props/PpBody.lean) is about the model; correspondence ppbody.run"},
                              key=None, found_input=ends_blank)
    ctx.oblige("tie: text of the CT_PREPROC_BODY chunk of #pragma/#error/#warning lines = PpBody.body (PpBody.lean), exhaustive over %d tails "
               "of length <= %d over {a, blank, TAB, backslash, /, *} (%d lines compared, %d not compared)" % (len(tails), maxn, len(owners), missing),
               bad == 0 and missing == 0 and len(owners) > 1500, "corr", "%d mismatches" % bad)


def _trailing(out, nl):
    n = 0
    while out.endswith(nl):
        out = out[:-len(nl)]
        n += 1
    return n


def _leading(out, nl):
    n = 0
    while out.startswith(nl):
        out = out[len(nl):]
        n += 1
    return n


def _rel(j):
    return os.path.relpath(j.inp, common.REPO)


def _relcfg(j):
    return os.path.relpath(j.cfg, common.REPO)


def _replay(j):
    r = {"lang": j.lang, "options": j.meta.get("opts")}
    if j.meta.get("kind") == "gen":
        r["input_text"] = j.meta["text"]
    else:
        r["input"] = j.inp
        r["config"] = j.cfg
    r["how"] = "write input_text to a file and the options as name=value lines to a cfg; uncrustify -q -c cfg -l LANG -f file"
    return r


def _viol(ctx, j, what, key=None, found=True):
    return 1 if ctx.violation("%s [run %s]" % (what, j.name), _replay(j), key=key, found_input=found) else 0
