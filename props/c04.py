"""C04 -- code-modifying options change only the tokens they name.  DESIGN.md section 6/C04.

Proof:  Props/C04.lean -- bracket structure (insert a pair around a well-nested segment, delete a matched pair, turn virtual
        braces into real ones, permute whole lines: nesting and all other tokens are kept) and the frame statements over
        tables regenerated from the source (T-mods): every chunk add/delete/retext/move site lies in a classified function,
        `mod` functions and the driver's option tests are off at the defaults.
Tie:    the Lean definition `wellNested` judges the real token streams (driver request bracket.nested) of input and output
        (independent specification lexer) and the chunk list handed to output_text() including virtual braces; T-mods
        regenerated every run.
Oracle: token streams of input and output, re-lexed by the specification lexer (C family): after deleting the tokens of
        the kinds the enabled mod_ options may add/remove the two streams must be identical (order included); tokens may
        only be added (removed) where the option's value says add (remove); sort options: the non-sorted tokens identical,
        sorted lines a permutation; with every mod_ option at its default the streams are identical.
"""
import collections
import os
import re
import subprocess

from translators import t_mods
from translators.t_opt import TranslateError
from vlib import common, gen, lexcheck, optreg, pipeline, unc

BRACE_IARF = ["mod_full_brace_do", "mod_full_brace_for", "mod_full_brace_function", "mod_full_brace_if", "mod_full_brace_while",
              "mod_full_brace_using", "mod_case_brace"]
INT_IARF = ["mod_int_short", "mod_short_int", "mod_int_long", "mod_long_int", "mod_int_signed", "mod_signed_int", "mod_int_unsigned",
            "mod_unsigned_int"]
SORTS = ["mod_sort_import", "mod_sort_using", "mod_sort_include"]
LOOP_TOKS = {"for", "while", "do", "(", ")", ";", "1", "true", "{", "}"}


def allowed(vals):
    """(may_add, may_remove, permute_lines) : token texts an enabled option may add / remove"""
    add, rem = set(), set()
    v = lambda k: vals.get(k, "")

    def iarf(k, toks):
        x = v(k)
        if x in ("add", "force"):
            add.update(toks)
        if x in ("remove",):
            rem.update(toks)
        if x == "force":       # force = add|remove: a pass may normalise both ways
            rem.update(toks)
    for k in BRACE_IARF:
        iarf(k, ["{", "}"])
    if v("mod_full_brace_if_chain") not in ("0", "") or v("mod_full_brace_if_chain_only") == "true":
        add.update("{}")
        rem.update("{}")
    iarf("mod_paren_on_return", ["(", ")"])
    iarf("mod_paren_on_throw", ["(", ")"])
    for k in ("mod_full_paren_if_bool", "mod_full_paren_assign_bool", "mod_full_paren_return_bool"):
        if v(k) == "true":
            add.update("()")
    if v("mod_remove_extra_semicolon") == "true":
        rem.add(";")
    if v("mod_pawn_semicolon") == "true":
        add.add(";")
    if v("mod_remove_empty_return") == "true":
        rem.update(["return", ";"])
    for k in INT_IARF:
        iarf(k, ["int"])
    iarf("mod_enum_last_comma", [","])
    if v("mod_infinite_loop") not in ("0", ""):
        add.update(LOOP_TOKS)
        rem.update(LOOP_TOKS)
    moves = v("mod_move_case_break") == "true" or v("mod_move_case_return") == "true"
    sort = any(v(k) == "true" for k in SORTS) or v("mod_sort_oc_properties") == "true"
    # whole duplicate #include lines may go: mod_remove_duplicate_include, and the de-duplication that the grouping mode of
    # the include sorter performs (dedupe_imports() in sorting.cpp) -- both "whole duplicate #include lines" of the property
    dup = v("mod_remove_duplicate_include") == "true" or (sort and v("mod_sort_incl_import_grouping_enabled") == "true")
    return add, rem, sort, dup, moves


def draw_mods(rng, reg, single=None):
    o = {}
    names = [k for k in reg if k.startswith("mod_")]
    if single:
        names = [single]
    for k in names:
        if not single and rng.random() > 0.12:
            continue
        r = reg[k]
        if r["kind"] == "iarf":
            o[k] = rng.choice(["add", "remove", "force"])
        elif r["kind"] == "bool":
            o[k] = "true"
        elif r["kind"] == "unum":
            o[k] = rng.choice([1, 1, 2, 3]) if (r["max"] or 0) <= 5 else rng.choice([1, 2, 5, 40])
        elif r["kind"] == "num":
            o[k] = rng.choice([0, 1, 5])
    return o


def draw_ws(rng):
    o = {}
    if rng.random() < 0.5:
        o["nl_if_brace"] = rng.choice(["add", "remove", "force"])
    if rng.random() < 0.3:
        o["nl_after_semicolon"] = "true"
    if rng.random() < 0.3:
        o["nl_after_brace_open"] = "true"
    if rng.random() < 0.3:
        o["sp_before_sparen"] = rng.choice(["add", "remove", "force"])
    if rng.random() < 0.3:
        o["code_width"] = rng.choice([40, 80])
    if rng.random() < 0.3:
        o["indent_columns"] = rng.choice([2, 4, 8])
    return o


EXTRA_C = """
#include <stdio.h>
#include "b.h"
#include <stdio.h>
#include "a.h"
enum E1 { A1, B1, };
enum E2 { A2, B2 };
short int si; unsigned u1; long int li; signed int sg; int unsigned iu;
void g(void) { for (;;) { break; } while (1) { break; } do { x(); } while (1); return; }
int h(int a, int b) { if (a) { return (a + b); } else return b; ;
  switch (a) { case 1: { b++; } break; case 2: b--; break; default: { return 1; } } return a && b || a < b; }
void m(int a, int b) {
  if (a &&
      b) {
    while (a) b--;
  } else if (b ||
             a) {
    for (;;) a++;
  }
  if (a
      && b)
  {
    if (b) a--;
  }
  if (a) { { g(); } h(1, 2); } else { k(0, 0, 0); }
  while (a) for (;b;) { if (b) a--; }
}
void k(int *t, int n, int i) { int ok = t[i < n ? i : n] == 0 && n > 1; if (ok && (t[i] || n)) return; }
void gc(void) { for (;; /* c1 */) { break; } while (1 /* c2 */) { break; } do { x(); } while (1 /* c3 */); do { x(); } while (1
  ); while ( /* c4 */ 1) { break; } for ( /* c5 */ ; ; ) { break; } do /* c6 */ { x(); } while /* c7 */ (1); return /* c8 */ ; }
int hc(int a, int b) { if (a /* c9 */) { return (a + b) /* c10 */; } else /* c11 */ return b;
  return ( /* c12 */ a); }
enum E3 { A3, B3 /* c13 */ };
enum E4 { A4, B4, /* c14 */ };
short /* c15 */ int sc; unsigned /* c16 */ uc;
"""


EXTRA_CPP = """
namespace outer { namespace inner { int q; int r;
int s; }}
int sw(int a) { switch (a) { case 1: a++; break;
default: a--; } return -1; }
class Kc { public: int m() { int z = 1;
return z; } int w; };
"""

EXTRA_OC = """
@interface Foo : NSObject
@property (nonatomic, strong, readonly, nullable) NSString *name;
@property (copy, nonatomic, getter=isOn, setter=setOn:) id thing;
@property (class, atomic, assign, readwrite, nonnull) Foo *shared;
@end
"""


def tok_texts(toks):
    out = []
    for k, cps in toks:
        if k in ("cmtl", "cmtb"):
            continue
        t = "".join(chr(c) for c in cps)
        if k == "punct" and t in (">>", ">>>"):
            out += [">"] * len(t)        # closing template brackets: uncrustify may write `> >` for `>>` (sp_angle_shift / tok_split_gte)
        else:
            out.append(t)
    return out


def directive_lines(texts, toks):
    """split the token list into lines at 'eod' tokens (end of directive) and statements are not split: returns
    (list of directive token tuples for include/import/using lines, remaining token list)"""
    out_lines, rest = [], []
    cur = None
    kinds = []
    for k, cps in toks:
        if k in ("cmtl", "cmtb"):
            continue
        t = "".join(chr(c) for c in cps)
        kinds += [k] * (len(t) if (k == "punct" and t in (">>", ">>>")) else 1)      # as tok_texts() splits `>>`
    i, n = 0, len(texts)
    while i < n:
        t = texts[i]
        if t == "#" and i + 1 < n and texts[i + 1] in ("include", "import"):
            j = i
            while j < n and kinds[j] != "eod":
                j += 1
            out_lines.append(tuple(texts[i:j]))
            i = j + 1
            continue
        if t in ("import", "using") and (i == 0 or texts[i - 1] in (";", "}", "{") or kinds[i - 1] == "eod"):
            j = i
            while j < n and texts[j] != ";":
                j += 1
            out_lines.append(tuple(texts[i:j + 1]))
            i = j + 1
            continue
        rest.append(t)
        i += 1
    return out_lines, rest


def sort_property_attrs(toks):
    out, i, n = [], 0, len(toks)
    while i < n:
        if toks[i] == "@" and i + 2 < n and toks[i + 1] == "property" and toks[i + 2] == "(":
            j, depth = i + 3, 1
            while j < n and depth:
                depth += toks[j] == "("
                depth -= toks[j] == ")"
                j += 1
            inner = toks[i + 3:j - 1]
            items, cur = [], []
            for t in inner:
                if t == ",":
                    items.append(tuple(cur))
                    cur = []
                else:
                    cur.append(t)
            items.append(tuple(cur))
            out += toks[i:i + 3]
            for k, it in enumerate(sorted(items)):
                if k:
                    out.append(",")
                out += list(it)
            out.append(")")
            i = j
        else:
            out.append(toks[i])
            i += 1
    return out


BR = {"(": "a", ")": "b", "[": "c", "]": "d", "{": "e", "}": "f"}


def bracket_string(texts):
    return "".join(BR.get(t, ".") for t in texts)


TOK = re.compile(r"[A-Za-z_0-9]+|\S")


def int_types_correspondence(ctx, exe, sc, thorough):
    """model of change_int_types() (IntTypes.lean, theorem IntTypes_only_int_edited) = the binary, token for token, on the universe of
    vlib/inttycheck.py under every listed setting of the nine options"""
    from vlib import inttycheck as itc
    lines, pp = itc.universe(ctx.rng)
    text, toks = itc.render(lines, pp)
    sets = itc.settings(ctx.rng, 200 if thorough else 40)
    flat_in = [w for ln in toks for w, _ in ln]

    def one(k):
        rc, out = itc.run_real(exe, text, sets[k], sc.dir, "k%d" % k)
        return rc, TOK.findall(out)
    res = common.pmap(one, list(range(len(sets))))
    reqs = []
    flat = " ".join("%s%s" % (w, "@" if p else "") for ln in toks for w, p in ln)
    for st in sets:
        reqs.append("intty.run %s %s" % (itc.digits(st), flat))
    model = common.run_driver(reqs)
    bad = 0
    for st, (rc, real), m in zip(sets, res, model):
        ctx.case("intty:%s" % sorted(st.items()), nontrivial=True)
        ctx.count("intty:settings")
        mt = m.split()
        if rc != 0 or real != mt:
            bad += 1
            if bad <= 3:
                i = next((x for x in range(min(len(real), len(mt))) if real[x] != mt[x]), min(len(real), len(mt)))
                ctx.violation("change_int_types(): the binary and the model (IntTypes.lean) differ under %s at output token %d: binary ...%s, model ...%s (exit %s)"
                              % ({k: v for k, v in st.items() if v != "ignore"}, i, " ".join(real[max(0, i - 6):i + 4]), " ".join(mt[max(0, i - 6):i + 4]), rc),
                              {"options": st, "input_text_head": text[:400], "how": "vlib/inttycheck.py universe(); uncrustify -q -c cfg -l C -f file; tokens compared with `intty.run` of uncdrv",
                               "binary_tokens": real[max(0, i - 12):i + 8], "model_tokens": mt[max(0, i - 12):i + 8]}, key=None, found_input=True)
        # the theorem's statement on the real tokens
        if rc == 0 and [w for w in real if w != "int"] != [w for w in flat_in if w != "int"]:
            ctx.violation("change_int_types(): the binary's output differs from its input in tokens other than `int` under %s" % st,
                          {"options": st, "how": "strike `int` from input and output of the universe file"}, key=None, found_input=True)
            bad += 1
    ctx.oblige("correspondence: change_int_types() model = binary, token for token (%d settings x %d lines, %d tokens)"
               % (len(sets), len(toks), len(flat_in)), bad == 0, "corr", "%d settings differ" % bad)


def remove_returns_correspondence(ctx, exe, sc, thorough):
    """model of remove_extra_returns() (RemoveReturns.lean, theorem RmRet_only_trailing_return) = the binary: with only
    mod_remove_empty_return on, the chunks of dump PS that are gone in dump PB are exactly the ones the model deletes (decided from the
    types, levels, parents and preprocessor flags of dump PS)"""
    from vlib import cgen
    rng = ctx.rng
    texts = []
    for i in range(40 if thorough else 10):
        lang = "CPP" if i % 2 else "C"
        texts.append((cgen.program(rng, lang, stats=ctx.hist, style="clean"), lang))
    # idioms around `return;`: last statement, not last, behind a label, in nested blocks, in class members, lambdas, macros, comments between
    fixed = """void a1(void) { g(); return; }
void a2(int x) { if (x) return; g(); }
void a3(int x) { if (x) goto out; g(); return;
out: h(); }
void a4(void) { return; g(); }
void a5(void) { g(); return /* c */ ; // d
}
void a6(int x) { if (x) { g(); return; } h(); return; }
void a7(int x) { while (x) { return; } }
void a8(void) { { return; } }
#define RET return;
void a9(void) { g(); RET }
void b1(void) { g();
  return;

}
"""
    texts.append((fixed, "C"))
    texts.append((fixed + """class K { public: void m() { g(); return; } K() { return; } void n(); };
void K::n() { g(); return; }
namespace N { void f() { g(); return; } }
void b2() { auto l = [] { g(); return; }; l(); return; }
struct S { void m() { if (x) return; g(); } };
""", "CPP"))
    jobs = []
    cfg = sc.cfg(None, {"mod_remove_empty_return": "true"})
    for txt, lang in texts:
        jobs.append(pipeline.Job("rmret", cfg, sc.write(txt, ".cpp" if lang == "CPP" else ".c"), lang, {"text": txt}))
    pipeline.run_jobs(exe, jobs)
    reqs, keep = [], []
    for j in jobs:
        if j.res["rc"] != 0:
            continue
        _, ps = unc.dump(j.res["trace"], "PS")
        _, pb = unc.dump(j.res["trace"], "PB")
        ps = [unc.parse_chunk(c) for c in ps]
        pb = [unc.parse_chunk(c) for c in pb]
        words = []
        for c in ps:
            t = {"RETURN": "r", "SEMICOLON": "s", "BRACE_CLOSE": "c", "NEWLINE": "n", "NL_CONT": "n"}.get(c["t"], "n" if c["t"].startswith("COMMENT") else "o")
            pa = {"FUNC_DEF": "f", "FUNC_CLASS_DEF": "k"}.get(c["pt"], "o")
            words.append("%s%s%d%d" % (t, pa, c["fl"] & 1, c["lv"]))
        reqs.append("rmret.run " + " ".join(words))
        keep.append((j, ps, pb))
    ans = common.run_driver(reqs) if reqs else []
    bad = nrem = 0
    for (j, ps, pb), a in zip(keep, ans):
        ctx.case("rmret:" + j.meta["text"][:4000], nontrivial=True)
        kept = {int(x) for x in a.split()} if a != "bad-op" else None
        if kept is None:
            bad += 1
            continue
        # chunks of PS that carry text and are gone in PB (identity = original position and text)
        have = collections.Counter((c["ol"], c["oc"], tuple(c["txt"])) for c in pb if c["txt"])
        gone_real = []
        for i, c in enumerate(ps):
            if not c["txt"]:
                continue
            k = (c["ol"], c["oc"], tuple(c["txt"]))
            if have[k] > 0:
                have[k] -= 1
            else:
                gone_real.append(i)
        gone_model = [i for i, c in enumerate(ps) if i not in kept and c["txt"]]
        nrem += len(gone_real)
        if gone_real != gone_model:
            bad += 1
            if bad <= 3:
                d = sorted(set(gone_real) ^ set(gone_model))[:4]
                ctx.violation("remove_extra_returns(): the binary deletes the chunks %s, the model (RemoveReturns.lean) %s; first difference at chunk %s (orig line %s)"
                              % (gone_real[:12], gone_model[:12], d, [ps[i]["ol"] for i in d]),
                              {"input_text": j.meta["text"], "lang": j.lang, "options": {"mod_remove_empty_return": "true"},
                               "how": "hook build; dumps PS and PB of the trace; `rmret.run` of uncdrv on the PS chunk list"}, key=None, found_input=True)
    ctx.oblige("correspondence: remove_extra_returns() model = binary on %d programs (%d chunks removed)" % (len(keep), nrem),
               bad == 0 and len(keep) > 0 and nrem > 0, "corr", "%d programs differ" % bad)


def enum_comma_correspondence(ctx, exe, sc, thorough):
    """model of enum_cleanup() (EnumComma.lean) = the binary on every enum body made of up to 4 (5 thorough) items out of
    {enumerator, comma, comment line, #define line, #if/#endif lines, disabled region}, under mod_enum_last_comma = add / remove / force"""
    import itertools
    ITEMS = ["A", ",", "CMT", "DEF", "IFBLK", "REGION"]
    bodies = []
    for n in range(0, 6 if thorough else 5):
        bodies += list(itertools.product(ITEMS, repeat=n))
    if not thorough:
        bodies = [b for i, b in enumerate(bodies) if len(b) < 4 or (i + ctx.seed) % 3 == 0]
    text_lines, model_toks, want_words = [], [], []
    k = 0
    per_enum = []
    for b in bodies:
        k += 1
        lines = ["enum E%d" % k, "{"]
        toks = ["x0", "x0", "s0", "o0", "s0"]            # `enum` `E` newline `{` newline
        words = ["enum", "E%d" % k, "{"]
        for j, it in enumerate(b):
            if it == "A":
                lines.append("  A%d_%d" % (k, j)); toks += ["x0", "s0"]; words.append("A%d_%d" % (k, j))
            elif it == ",":
                lines.append("  ,"); toks += ["c0", "s0"]; words.append(",")
            elif it == "CMT":
                lines.append("  /* c */"); toks += ["s0", "s0"]
            elif it == "DEF":
                lines.append("#define M%d_%d 1" % (k, j)); toks += ["x1", "x1", "x1", "x1", "s0"]; words += ["#", "define", "M%d_%d" % (k, j), "1"]
            elif it == "IFBLK":
                lines += ["#if X", "#endif"]; toks += ["x1", "x1", "x1", "s0", "x1", "x1", "s0"]; words += ["#", "if", "X", "#", "endif"]
            else:
                lines += ["/* *INDENT-OFF* */", "  rawtext%d" % k, "/* *INDENT-ON* */"]; toks += ["s0", "s0", "i0", "s0", "s0", "s0"]; words.append("rawtext%d" % k)
        lines.append("};")
        toks += ["E0", "x0", "s0"]
        words += ["}", ";"]
        text_lines += lines
        per_enum.append((b, toks, words))
    text = "\n".join(text_lines) + "\n"
    src = sc.write(text, ".c")
    bad = 0
    for act, code in (("add", 1), ("remove", 2), ("force", 3)):
        cfg = sc.cfg(None, {"mod_enum_last_comma": act})
        r = subprocess.run([exe, "-q", "-c", cfg, "-l", "C", "-f", src], stdout=subprocess.PIPE, stderr=subprocess.PIPE, timeout=120)
        out = r.stdout.decode("latin1")
        out = re.sub(r"/\*.*?\*/", " ", out)
        real = re.findall(r"[A-Za-z_0-9]+|\S", out)
        ans = common.run_driver(["enumc.run %d %s" % (code, " ".join(t)) for _, t, _ in per_enum])
        want = []
        for (b, toks, words), a in zip(per_enum, ans):
            # map the model's output back to words: its non-skip chunks, in order, are the input's non-skip chunks with commas added/removed
            wi = iter([w for w in words if w != ","])
            for t in a.split():
                if t[0] == "s":
                    continue
                want.append("," if t[0] == "c" else next(wi))
        ctx.case("enumc:%s:%d" % (act, len(per_enum)), nontrivial=True)
        if r.returncode != 0 or real != want:
            bad += 1
            i = next((x for x in range(min(len(real), len(want))) if real[x] != want[x]), min(len(real), len(want)))
            ctx.violation("enum_cleanup(): the binary and the model (EnumComma.lean) differ under mod_enum_last_comma=%s at output token %d: binary ...%s, model ...%s (exit %s)"
                          % (act, i, " ".join(real[max(0, i - 8):i + 4]), " ".join(want[max(0, i - 8):i + 4]), r.returncode),
                          {"options": {"mod_enum_last_comma": act}, "input_text": text[:3000], "lang": "C",
                           "how": "props/c04.py enum_comma_correspondence builds the text; uncrustify -q -c cfg -l C; tokens compared with `enumc.run` of uncdrv"},
                          key=None, found_input=True)
    ctx.oblige("correspondence: enum_cleanup() model = binary on %d enum bodies x add/remove/force" % len(per_enum), bad == 0, "corr", "%d" % bad)


def dup_include_correspondence(ctx, exe, sc, thorough):
    """model of remove_duplicate_include() (DupInclude.lean) = the binary: every sequence of up to 5 directive events over
    {#if, #else, #endif, #include "a.h", #include "b.h"} that starts with an #include or an #if (exhaustive), plus seeded longer
    sequences with #elif and nesting; compared: which #include lines survive mod_remove_duplicate_include=true, in order.
    Direct oracle besides (independent of the model): for EVERY assignment of the conditions, gcc -E style evaluation by hand --
    the set of headers reached in the output equals the set reached in the input."""
    import itertools
    import random
    EV = ["I", "L", "N", "ia", "ib"]
    seqs = []
    for n in range(1, 6):
        for t in itertools.product(EV, repeat=n):
            if t[0] in ("I", "ia"):
                seqs.append(list(t))
    r = random.Random("dupinc-%d" % (ctx.seed if thorough else ctx.seed % 4))
    for _ in range(1500 if thorough else 300):
        n, depth, t = r.randrange(6, 16), 0, []
        for _ in range(n):
            k = r.random()
            if k < 0.45:
                t.append(r.choice(["ia", "ia", "ib", "ic"]))
            elif k < 0.65:
                t.append("I"); depth += 1
            elif k < 0.8:
                t.append(r.choice(["L", "E"]) if (depth or r.random() < 0.1) else "ia")
            else:
                if depth or r.random() < 0.1:
                    t.append("N"); depth = max(0, depth - 1)
        t += ["N"] * depth
        seqs.append(t)

    def text_of(t):
        lines, cond = [], 0
        for j, e in enumerate(t):
            if e == "I":
                cond += 1; lines.append("#if C%d" % cond)
            elif e == "L":
                lines.append("#else")
            elif e == "E":
                cond += 1; lines.append("#elif C%d" % cond)
            elif e == "N":
                lines.append("#endif")
            else:
                lines.append('#include "%s.h"' % e[1:])
            if j % 3 == 2:
                lines.append("int v%d;" % j)
        return "\n".join(lines) + "\n"

    def reached(text):
        """{assignment of taken branches (by line-free branch counter) -> frozenset of headers}: every #if/#elif/#else opens a branch
        with a fresh number; a header is reached iff all enclosing branches are taken; all 2^k assignments when k <= 6"""
        path, bid, incs = [], 0, []
        for ln in text.split("\n"):
            w = ln.split()
            if not w or not w[0].startswith("#"):
                continue
            d = w[0][1:] or (w[1] if len(w) > 1 else "")
            if d == "if":
                bid += 1; path.append(bid)
            elif d in ("else", "elif"):
                if path:
                    bid += 1; path[-1] = bid
            elif d == "endif":
                if path:
                    path.pop()
            elif d == "include":
                incs.append((ln.split('"')[1], tuple(path)))
        return incs, bid

    cfg = sc.cfg(None, {"mod_remove_duplicate_include": "true"})

    def one(t):
        text = text_of(t)
        pth = sc.write(text, ".c")
        rr = subprocess.run([exe, "-q", "-c", cfg, "-l", "C", "-f", pth], stdout=subprocess.PIPE, stderr=subprocess.PIPE, timeout=60)
        return text, rr.returncode, rr.stdout.decode("latin1")
    res = common.pmap(one, seqs)
    name_no = {"a": 1, "b": 2, "c": 3}
    reqs = ["dupinc.run " + " ".join({"I": "I", "L": "L", "E": "L", "N": "N"}.get(e) or "i%d" % name_no[e[1:]] for e in t) for t in seqs]
    ans = common.run_driver(reqs)
    bad = sem_bad = refused = deleted = 0
    for t, (text, rc, out), a in zip(seqs, res, ans):
        ctx.case("dupinc:%s" % " ".join(t), nontrivial=(rc == 0))
        if rc != 0:
            refused += 1
            continue
        names = [e[1:] for e in t if e[0] == "i"]
        flags = "" if a == "-" else a
        want = [n for n, f in zip(names, flags) if f == "1"]
        deleted += flags.count("0")
        got = [ln.split('"')[1][:-2] for ln in out.split("\n") if ln.strip().startswith("#") and "include" in ln]
        # direct oracle: same headers reached under every branch assignment
        inc_in, k_in = reached(text)
        inc_out, k_out = reached(out)
        lost = None
        if k_in == k_out and k_in <= 8:
            for mask in range(1 << k_in):
                tk = lambda p: all(mask >> (b - 1) & 1 for b in p)
                a_in = {n for n, p in inc_in if tk(p)}
                a_out = {n for n, p in inc_out if tk(p)}
                if a_in != a_out:
                    lost = (sorted(a_in - a_out), [b for b in range(1, k_in + 1) if mask >> (b - 1) & 1])
                    break
        if lost is not None:
            sem_bad += 1
            if sem_bad <= 2:
                ctx.violation("mod_remove_duplicate_include: with the branches %s taken the input includes %s, the output does not "
                              "(the deleted #include was not covered by a kept one in an enclosing branch)" % (lost[1], lost[0]),
                              {"options": {"mod_remove_duplicate_include": "true"}, "input_text": text, "output_text": out, "lang": "C"},
                              key=None, found_input=True)
        if got != want:
            bad += 1
            if bad <= 2:
                ctx.violation("remove_duplicate_include(): the binary keeps the #include lines %s, the model (DupInclude.lean) %s, for the events %s"
                              % (got, want, " ".join(t)),
                              {"options": {"mod_remove_duplicate_include": "true"}, "input_text": text, "output_text": out, "lang": "C",
                               "theorem": "DupInc_same_headers_every_configuration is about the model; correspondence dupinc.run"},
                              key=None, found_input=lost is not None)
    ctx.oblige("correspondence: remove_duplicate_include() model = binary on %d directive sequences (%d refused by the binary, %d #include lines deleted)"
               % (len(seqs), refused, deleted), bad == 0 and refused * 2 < len(seqs) and deleted > 100, "corr", "%d mismatches" % bad)
    ctx.oblige("direct oracle: the same headers are reached under every assignment of the #if conditions before and after mod_remove_duplicate_include",
               sem_bad == 0, "oracle", "%d failures" % sem_bad)


def run(ctx):
    ctx.cov["rule"] = ("one case = one run of the hook build on (input, configuration): input = generated C/C++/Java program plus a fixed block of "
                       "constructs the mod_ options act on, or a corpus file; configuration = one mod_ option singly, a random combination of "
                       "mod_ options with whitespace options, or all mod_ options at default; distinct = distinct (input, configuration); "
                       "non-trivial = exit 0 and both streams lexed by the specification lexer")
    ctx.trusted += ["translator T-mods and the committed classification c04_classification.json", "specification lexer (Lex.lean) as token oracle",
                    "the decisions of braces.cpp / parens.cpp / sorting.cpp etc. are an oracle; their edits are judged on the real streams"]
    ctx.assumptions += ["the table `allowed` in props/c04.py states which token kinds each mod_ option is documented to add or remove",
                        "C family only for the independent re-lexing"]
    try:
        tab = t_mods.regenerate(common.REPO, common.ROOT, common.LEAN_DIR, common.write_if_changed)
        ctx.oblige("T-mods: %d mutation sites in %d functions, %d driver calls, %d mod_ options regenerated"
                   % (sum(tab["inventory"].values()), len(tab["inventory"]), len(tab["calls"]), len(tab["defaults"])), True, "translator")
    except (TranslateError, OSError, ValueError) as e:
        ctx.oblige("T-mods regenerated", False, "translator", str(e))
        ctx.violation("T-mods no longer parses the sources: %s" % e, {"translator": "t_mods", "error": str(e)}, found_input=False)
    try:
        from translators import t_gates
        tg = t_gates.regenerate(common.REPO, common.ROOT, common.LEAN_DIR, common.write_if_changed)
        ung = [(t, u) for t, o, u in tg["rows"] if u]
        ctx.oblige("T-gates: call paths of %d token-modifying functions analysed" % len(tg["rows"]), True, "translator")
        for t, u in ung[:3]:
            ctx.log("T-gates: %s is reachable without a test of a mod_ option: %s" % (t, " -> ".join(u)))
    except (TranslateError, OSError, ValueError, KeyError) as e:
        ctx.oblige("T-gates regenerated", False, "translator", str(e))
    ctx.lean_obligations()
    exe = common.build_repo(hooks=True)
    thorough = ctx.tier == "thorough"
    rng = ctx.rng
    reg = optreg.registry()
    mods = [k for k in reg if k.startswith("mod_")]
    sc = pipeline.Scratch("c04")
    common.lean_extra(ctx, "UncModel.Props.IntTypes", ["IntTypes_only_int_edited", "IntTypes_untouched_without_keywords",
                                                        "IntTypes_preproc_boundary_witness"], namespace="Unc.IntTy")
    common.lean_extra(ctx, "UncModel.Props.RemoveReturns", ["RmRet_only_trailing_return", "RmRet_old_removes_inner_return_witness"], namespace="Unc.RmRet")
    common.lean_extra(ctx, "UncModel.Props.EnumComma", ["EnumC_step_only_comma", "EnumC_step_keeps_preproc", "EnumC_step_insert_position", "EnumC_step_add_idem",
                                                         "EnumC_run_only_comma", "EnumC_old_edits_macro_body_witness"], namespace="Unc.EnumC")
    common.lean_extra(ctx, "UncModel.Props.DupInclude", ["DupInc_deleted_is_covered", "DupInc_same_headers_every_configuration", "DupInc_first_kept",
                                                          "DupInc_old_loses_header_witness"], namespace="Unc.DupInc")
    try:
        dup_include_correspondence(ctx, exe, sc, thorough)
    except Exception as e:
        import traceback
        ctx.oblige("remove_duplicate_include correspondence ran", False, "internal", traceback.format_exc()[-1500:])
    try:
        enum_comma_correspondence(ctx, exe, sc, thorough)
    except Exception as e:
        import traceback
        ctx.oblige("enum_cleanup correspondence ran", False, "internal", traceback.format_exc()[-1500:])
    try:
        remove_returns_correspondence(ctx, exe, sc, thorough)
    except Exception as e:
        import traceback
        ctx.oblige("remove_extra_returns correspondence ran", False, "internal", traceback.format_exc()[-1500:])
    try:
        int_types_correspondence(ctx, exe, sc, thorough)
    except Exception as e:
        import traceback
        ctx.oblige("change_int_types correspondence ran", False, "internal", traceback.format_exc()[-1500:])
    try:
        inputs = []
        for i in range(40 if thorough else 10):
            lang = rng.choice(["C", "CPP", "CPP", "JAVA"])
            lines, txt = gen.program(rng, lang, stats=ctx.hist, layout={"indent": "clean", "gaps": "one", "trailing": 0, "blanklines": 0.05})
            if lang != "JAVA":
                txt = EXTRA_C + (EXTRA_CPP if lang == "CPP" else "") + txt
            inputs.append((sc.write(txt, {"C": ".c", "CPP": ".cpp", "JAVA": ".java"}[lang]), lang, txt, "gen%d" % i))
        for i in range(3 if thorough else 2):
            txt = EXTRA_OC + "int oc_tail%d;\n" % i
            inputs.append((sc.write(txt, ".m"), "OC", txt, "genoc%d" % i))
        corp = [p for p in lexcheck.corpus_pairs(("c", "cpp", "objective-c")) if os.path.getsize(p[2]) < 20000]
        rng.shuffle(corp)
        for tid, cfg, inp, exp, lang in corp[:(150 if thorough else 25)]:
            inputs.append((inp, lang, None, "corpus:" + os.path.relpath(inp, common.REPO)))
        jobs = []
        # (a) every mod_ option singly
        for k in mods:
            r = reg[k]
            vals = {"iarf": ["add", "remove", "force"], "bool": ["true"], "unum": [1, 3], "num": [1]}.get(r["kind"], [])
            for v in vals:
                pool = [x for x in inputs if x[1] == "OC"] if k.startswith("mod_sort_oc") else inputs
                # always on the first generated C++ and C program (they carry the construct blocks EXTRA_C / EXTRA_CPP), plus random inputs
                must = [next((x for x in pool if x[1] == lg and x[3].startswith("gen")), None) for lg in ("CPP", "C")]
                picked = [x for x in must if x is not None]
                picked += [x for x in rng.sample(pool, min(len(pool), 6 if thorough else 2)) if x not in picked]
                for inp, lang, txt, name in picked:
                    o = {k: v}
                    jobs.append(pipeline.Job(name, sc.cfg(None, o), inp, lang, {"opts": o, "text": txt, "kind": "single"}))
        # (b) random combinations
        for _ in range(600 if thorough else 90):
            inp, lang, txt, name = rng.choice(inputs)
            o = draw_mods(rng, reg)
            o.update(draw_ws(rng))
            jobs.append(pipeline.Job(name, sc.cfg(None, o), inp, lang, {"opts": o, "text": txt, "kind": "combo"}))
        # (d) families of interacting options: every option of one family set with probability 1/2
        fams = [BRACE_IARF + ["mod_full_brace_if_chain", "mod_full_brace_if_chain_only", "mod_full_brace_nl", "mod_full_brace_nl_block_rem_mlcond"],
                ["mod_paren_on_return", "mod_paren_on_throw", "mod_full_paren_if_bool", "mod_full_paren_assign_bool", "mod_full_paren_return_bool"],
                INT_IARF + ["mod_int_prefer_int_on_left"],
                [k for k in mods if k.startswith("mod_sort_")] + ["mod_remove_duplicate_include"],
                ["mod_case_brace", "mod_move_case_break", "mod_move_case_return", "mod_remove_empty_return", "mod_remove_extra_semicolon",
                 "mod_enum_last_comma", "mod_infinite_loop"]]
        for fam in fams:
            for _ in range(60 if thorough else 14):
                inp, lang, txt, name = rng.choice([x for x in inputs if x[1] == "OC"] if (fam[0].startswith("mod_sort") and rng.random() < 0.4) else inputs)
                o = {}
                for k in fam:
                    if rng.random() < 0.5:
                        o.update(draw_mods(rng, reg, single=k))
                o.update(draw_ws(rng))
                jobs.append(pipeline.Job(name, sc.cfg(None, o), inp, lang, {"opts": o, "text": txt, "kind": "family"}))
        # (c) mods at default
        for inp, lang, txt, name in inputs:
            o = draw_ws(rng)
            jobs.append(pipeline.Job(name, sc.cfg(None, o), inp, lang, {"opts": o, "text": txt, "kind": "default"}))
        ctx.log("runs:", len(jobs))
        pipeline.run_jobs(exe, jobs)
        for j in jobs:
            ctx.count("rc:%s" % j.res["rc"])
            if j.res["rc"] not in (0, 70):
                ctx.log("note (C06 territory): exit %s for %s with %s" % (j.res["rc"], j.name, j.meta["opts"]))
        ok = [j for j in jobs if j.res["rc"] == 0]
        # ---- re-lex input and output
        texts_in = {}
        for inp, lang, txt, name in inputs:
            texts_in[inp] = open(inp, "rb").read()
        uniq = sorted({(j.inp, j.lang) for j in ok})
        lex_in = dict(zip(uniq, lexcheck.lex_tokens_multi([(lg, lexcheck.decode_text(texts_in[i])) for i, lg in uniq])
                          if hasattr(lexcheck, "lex_tokens_multi") else
                          [lexcheck.lex_tokens(lg, [lexcheck.decode_text(texts_in[i])])[0] for i, lg in uniq]))
        outs = []
        for j in ok:
            outs.append(lexcheck.decode_text(j.res["out"]))
        by_lang = collections.defaultdict(list)
        for idx, j in enumerate(ok):
            by_lang[j.lang or "C"].append(idx)
        lex_out = [None] * len(ok)
        for lg, idxs in by_lang.items():
            for idx, toks in zip(idxs, lexcheck.lex_tokens(lg, [outs[i] for i in idxs])):
                lex_out[idx] = toks
        nested_req, nested_owner = [], []
        bad = nbad = dbad = 0
        for idx, j in enumerate(ok):
            tin, tout = lex_in.get((j.inp, j.lang)), lex_out[idx]
            ctx.case("%s:%s" % (j.inp, sorted(j.meta["opts"].items())), nontrivial=tin is not None and tout is not None)
            if tin is None:
                ctx.count("input-not-lexed")
                continue
            if tout is None:
                bad += _viol(ctx, j, "the output is rejected by the specification lexer although the input is accepted")
                continue
            a, b = tok_texts(tin), tok_texts(tout)
            vals = j.vals
            if vals.get("mod_sort_oc_properties") == "true":
                # the attributes of an Objective-C @property(...) may be reordered as whole comma-separated items
                a, b = sort_property_attrs(a), sort_property_attrs(b)
            add, rem, sort, dup, moves = allowed(vals)
            if sort or dup:
                la, ra = directive_lines(a, tin)
                lb, rb = directive_lines(b, tout)
                ca, cb = collections.Counter(la), collections.Counter(lb)
                if sort:
                    wrong = (set(cb) - set(ca)) or any(cb[k] > ca[k] for k in cb) or (ca != cb if not dup else set(ca) != set(cb))
                else:
                    wrong = la != lb and (set(ca) != set(cb) or any(cb[k] > ca[k] for k in cb)
                                          or [x for x in dict.fromkeys(la)] != [x for x in dict.fromkeys(lb)])
                if wrong:
                    bad += _viol(ctx, j, "the include/import/using lines of the output are not %s of the input's (missing %s, new %s)"
                                 % ("a permutation" if sort else "the same lines minus duplicates", list((ca - cb).keys())[:2], list((cb - ca).keys())[:2]),
                                 key=_key(j, "lines"))
                    continue
                a, b = ra, rb
            if moves:
                # break; / return ...; may move across a closing brace: the other tokens as multisets
                if collections.Counter(x for x in a if x not in add | rem) != collections.Counter(x for x in b if x not in add | rem):
                    bad += _viol(ctx, j, "case-break move: token multiset changed", key=_key(j, "moves"))
                continue
            fa = [x for x in a if x not in rem and x not in add]
            fb = [x for x in b if x not in rem and x not in add]
            if fa != fb:
                k = next((i for i, (x, y) in enumerate(zip(fa, fb)) if x != y), min(len(fa), len(fb)))
                bad += _viol(ctx, j, "tokens other than those the enabled mod_ options may add/remove differ: input ...%s | output ...%s (allowed add %s, remove %s)"
                             % (" ".join(fa[max(0, k - 3):k + 3]), " ".join(fb[max(0, k - 3):k + 3]), sorted(add), sorted(rem)),
                             key=_key(j, "others"))
                continue
            ca, cb = collections.Counter(a), collections.Counter(b)
            dirbad = None
            for t in set(ca) | set(cb):
                if cb[t] > ca[t] and t not in add:
                    dirbad = "%d more %r in the output, which no enabled option adds" % (cb[t] - ca[t], t)
                if cb[t] < ca[t] and t not in rem:
                    dirbad = "%d fewer %r in the output, which no enabled option removes" % (ca[t] - cb[t], t)
            if dirbad:
                dbad += _viol(ctx, j, dirbad, key=_key(j, "direction"))
                continue
            nested_req.append("bracket.nested " + bracket_string(a))
            nested_req.append("bracket.nested " + bracket_string(b))
            # chunk list handed to output_text(), virtual braces as their own kind
            if j.chunks:
                s = []
                for ln in j.chunks:
                    c = unc.parse_chunk(ln)
                    if c["t"] == "VBRACE_OPEN":
                        s.append("g")
                    elif c["t"] == "VBRACE_CLOSE":
                        s.append("h")
                    elif c["t"] in ("BRACE_OPEN", "BRACE_CLOSE"):
                        s.append("e" if c["t"] == "BRACE_OPEN" else "f")
                    else:
                        s.append(".")
                nested_req.append("bracket.nested " + "".join(s))
            else:
                nested_req.append("bracket.nested")
            nested_owner.append(j)
        ans = common.run_driver(nested_req) if nested_req else []
        vb = 0
        for k, j in enumerate(nested_owner):
            nin, nout, nchunk = ans[3 * k], ans[3 * k + 1], ans[3 * k + 2]
            if nin == "1" and nout != "1":
                nbad += _viol(ctx, j, "bracket pairs no longer nest in the output (wellNested: input true, output false)", key=_key(j, "nesting"))
            if nin == "1" and nchunk != "1":
                vb += 1
                if vb <= 2:
                    _viol(ctx, j, "monitor: real and virtual braces of the chunk list handed to output_text() do not nest", found=False)
        ctx.oblige("oracle: all tokens outside the kinds the enabled options name are unchanged and in order (%d runs)" % len(ok), bad == 0, "oracle", "%d" % bad)
        ctx.oblige("oracle: tokens are added only by add/force values and removed only by remove values", dbad == 0, "oracle", "%d" % dbad)
        ctx.oblige("tie: wellNested (Lean definition) holds for the output's bracket stream whenever it holds for the input's (%d runs)"
                   % len(nested_owner), nbad == 0 and len(ans) == len(nested_req), "corr", "%d" % nbad)
        ctx.oblige("monitor: braces incl. virtual braces nest in the chunk list at P1", vb == 0, "monitor", "%d" % vb)
        ctx.cov["kinds_of_runs"] = dict(collections.Counter(j.meta["kind"] for j in jobs))
        if jobs:
            ctx.sample({"run": jobs[0].name, "opts": jobs[0].meta["opts"]})
    finally:
        sc.close()


def _key(j, kind):
    if j.name.startswith("corpus:"):
        return {"file": j.name[7:], "opts": {k: str(v) for k, v in sorted(j.meta["opts"].items())}, "kind": kind}
    return None


def _replay(j):
    r = {"lang": j.lang, "options": j.meta.get("opts"), "input": j.inp}
    if j.meta.get("text"):
        r["input_text"] = j.meta["text"]
    r["how"] = "write the options as name=value lines to a cfg; uncrustify -q -c cfg -l LANG -f input; compare the token streams"
    return r


def _viol(ctx, j, what, key=None, found=True):
    return 1 if ctx.violation("%s [run %s, %s]" % (what, j.name, j.meta["opts"]), _replay(j), key=key, found_input=found) else 0
