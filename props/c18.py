"""C18 -- indentation reflects block nesting.  DESIGN.md section 6/C18.

Proof:  Props/C18.lean: the stack machine (transliteration of the frame handling of indent_text() for plain block structure)
        places every first-on-line token at 1 + depth*indent_columns (closed form); the tabs/spaces realisation is
        to_column_* of Props/Render.lean.  These theorems are about the specification-shaped model.
Tie:    differential: columns of every code line of the real output vs the model's columns, on generated block-structured programs
        (the generator knows the lexical nesting depth of each line independently of uncrustify).
Oracle: metamorphic: the same token structure under several random original layouts must get identical line columns.
"""
import os

from vlib import common, gen, pipeline


def toks_of(lines):
    """generator lines -> ITok string for the Lean model + indices of the lines that carry a column"""
    out, idx = [], []
    cur = 0
    for k, (depth, toks, kind) in enumerate(lines):
        if kind in ("blank", "cmt", "pp"):
            continue
        if kind == "case":
            # inside the switch braces the model depth is depth+1
            while cur > depth + 1:
                out.append("w")
                cur -= 1
            out.append("k")
            idx.append(k)
            continue
        target = depth + 1 if kind == "close" else depth
        while cur < target:
            out.append("v")
            cur += 1
        while cur > target:
            out.append("w")
            cur -= 1
        if kind == "open":
            out.append({"stmt": "O", "switch": "W"}.get(open_kind(lines, k), "o"))
            cur += 1
        elif kind == "close":
            out.append("c")
            cur -= 1
        else:
            out.append("s")
        idx.append(k)
    return "".join(out), idx


CONTROL = {"if", "else", "while", "for", "do", "switch"}


def open_kind(lines, k):
    """what the `{` of line k belongs to: 'switch', 'stmt' (if/else/loops) or 'other' (function body, bare block)"""
    j = k - 1
    while j >= 0 and lines[j][2] in ("blank", "cmt", "pp"):
        j -= 1
    if j >= 0 and lines[j][2] == "head" and lines[j][1] and lines[j][1][0] in CONTROL:
        return "switch" if lines[j][1][0] == "switch" else "stmt"
    return "other"


def shifts(lines, idx):
    """for every column-carrying line: (number of enclosing braced statement bodies, counting the brace lines of a body as inside
    it; number of enclosing switch bodies, the switch's own braces not counted) -- what indent_brace / indent_switch_case add"""
    res = {}
    stack = []          # kinds of the open blocks: 'stmt', 'switch', 'other'
    last_head = None
    for k, (depth, toks, kind) in enumerate(lines):
        if kind in ("blank", "cmt", "pp"):
            continue
        if kind == "open":
            if last_head is not None and last_head[0] in CONTROL:
                b = "switch" if last_head[0] == "switch" else "stmt"
            else:
                b = "other"
            stack.append(b)
            nb = sum(1 for x in stack if x in ("stmt", "switch"))
            ns = sum(1 for x in stack[:-1] if x == "switch")
            res[k] = (nb, ns)
        elif kind == "close":
            nb = sum(1 for x in stack if x in ("stmt", "switch"))
            ns = sum(1 for x in stack[:-1] if x == "switch")
            res[k] = (nb, ns)
            if stack:
                stack.pop()
        else:
            res[k] = (sum(1 for x in stack if x in ("stmt", "switch")), sum(1 for x in stack if x == "switch"))
        last_head = toks if kind == "head" else None
    return [res[k] for k in idx]


def fix_close_depth(lines):
    """the generator emits '}' at the depth of its opener while the model depth before it is one deeper"""
    return lines


def add_pp_chains(lines, rng):
    """wrap some `head` + `{` pairs into an #if / #elif / #else chain whose branches each open the block with another statement head:
    the alternative heads and braces (kind 'pp' for the model, listed in the returned map: line index -> index of the line of the first
    branch it must line up with) sit in the same block as the first branch, so they must get the same columns"""
    out, ref = [], {}
    k = 0
    while k < len(lines):
        d, toks, kind = lines[k]
        if (kind == "head" and toks and toks[0] in ("if", "while", "for") and k + 1 < len(lines) and lines[k + 1][2] == "open"
                and d >= 1 and rng.random() < 0.35):
            nalt = rng.choice([1, 2, 2, 3])
            prev = next((x for x in reversed(out) if x[2] not in ("pp", "cmt", "blank")), None)
            after_else = prev is not None and prev[1] == ["else"]     # `else` + `if` is an else-if chain, not a nested statement
            out.append((d, ["#if " + rng.choice(["A", "defined(B)", "1"])], "pp"))
            h, o = len(out), len(out) + 1
            out.append(lines[k])
            out.append(lines[k + 1])
            for a in range(nalt):
                out.append((d, [("#else" if a == nalt - 1 and rng.random() < 0.6 else "#elif " + rng.choice(["C", "D > 1", "defined(E)"]))], "pp"))
                alt = rng.choice(([] if after_else else [["if", "(", "alt%d" % a, ")"]]) +
                                 [["while", "(", "alt%d" % a, ")"], ["for", "(", ";", "alt%d" % a, ";", ")"]])
                ref[len(out)] = h
                out.append((d, alt, "pp"))
                ref[len(out)] = o
                out.append((d, ["{"], "pp"))
            out.append((d, ["#endif"], "pp"))
            k += 2
            continue
        out.append(lines[k])
        k += 1
    return out, ref


def col_of(line, tab):
    c = 1
    for ch in line:
        if ch == " ":
            c += 1
        elif ch == "\t":
            c = 1 + ((c - 1) // tab + 1) * tab
        else:
            break
    return c


def run(ctx):
    ctx.cov["rule"] = ("one case = one generated block-structured program (C/C++/Java; if/else chains, loops, switch/case, do-while, bare blocks, "
                       "brace-less bodies) rendered under 4 random original layouts and formatted under one draw of indent_columns 1..16, "
                       "indent_with_tabs 0..2, output_tab_size; distinct = distinct (token structure, options); non-trivial = at least one nested block")
    ctx.trusted += ["specification-shaped model UncModel/Indent.lean (NOT a transliteration of indent_text())", "vlib/gen.py computes lexical depth"]
    ctx.assumptions += ["indent_text() itself is an oracle: what is checked about it is the differential run, for the program class of the generator",
                        "comment lines, preprocessor lines and continuation lines are excluded as the property says"]
    ctx.lean_obligations()
    common.lean_extra(ctx, "UncModel.Props.Render", ["to_column_spaces_only_flushed", "to_column_tabs_then_spaces_flushed", "first_on_line_prefix"])
    exe = common.build_repo(hooks=True)
    thorough = ctx.tier == "thorough"
    rng = ctx.rng
    sc = pipeline.Scratch("c18")
    try:
        progs = []
        jobs = []
        nprog = 1500 if thorough else 250
        for i in range(nprog):
            lang = rng.choice(["C", "C", "CPP", "JAVA"])
            g = gen.Gen(rng, lang=lang, depth=rng.choice([2, 3, 4]), comments=rng.random() < 0.5, preproc=False, stats=ctx.hist, nested_nobrace=rng.random() < 0.5)
            lines = g.program()
            altref = {}
            if lang != "JAVA" and rng.random() < 0.35:
                lines, altref = add_pp_chains(lines, rng)
            tk, idx = toks_of(lines)
            # expected column of every code line of the output, in order: model lines by their position, alternative branches by reference
            pos_of = {k: n for n, k in enumerate(idx)}
            seq = [pos_of[k] if k in pos_of else pos_of[altref[k]] for k in range(len(lines)) if k in pos_of or k in altref]
            opts = {"indent_columns": rng.choice([1, 2, 3, 4, 4, 8, 8, 16, rng.randrange(1, 17)]), "indent_with_tabs": rng.choice([0, 1, 2]),
                    "output_tab_size": rng.choice([2, 4, 8, 8, 3])}
            # brace-style offsets with a closed form: every braced statement body moves by indent_brace, everything inside a switch
            # body by indent_switch_case (the Lean model covers the default 0/0; the offsets are added here)
            if rng.random() < 0.35:
                opts["indent_brace"] = rng.choice([1, 2, 3])
            if rng.random() < 0.35:
                opts["indent_switch_case"] = rng.choice([1, 2, 3, opts["indent_columns"]])
            cfg = sc.cfg(None, opts)
            ext = {"C": ".c", "CPP": ".cpp", "JAVA": ".java"}[lang]
            lays = []
            for k in range(4):
                lay = {"indent": rng.choice(["random", "random", "clean", 0]), "gaps": rng.choice(["random", "one"]), "trailing": 0.1, "blanklines": 0}
                txt = gen.render(lines, rng, lay)
                p = sc.write(txt, ext)
                j = pipeline.Job("p%d-l%d" % (i, k), cfg, p, lang, {"prog": i, "opts": opts, "text": txt})
                jobs.append(j)
                lays.append(j)
            # metamorphic twin: own-line comments put into arbitrary gaps between the lines (also between a body and its `else`, between a
            # head and its brace-less body): comment lines are not statements, the columns of the code lines must not move
            clines = []
            for ln in lines:
                if ln[2] not in ("pp",) and not (clines and clines[-1][2] == "pp") and rng.random() < (0.7 if ln[1] and ln[1][0] in ("else", "while", "{", "}") else 0.15):
                    clines.append((ln[0], [rng.choice(["// own-line", "/* own-line */", "/* a\n * b */"])], "cmt"))
                clines.append(ln)
            lay = {"indent": rng.choice(["random", "clean"]), "gaps": "one", "trailing": 0, "blanklines": 0}
            txt = gen.render(clines, rng, lay)
            j = pipeline.Job("p%d-cmt" % i, cfg, sc.write(txt, ext), lang, {"prog": i, "opts": opts, "text": txt, "cmt_twin": True})
            jobs.append(j)
            lays.append(j)
            progs.append((lines, tk, idx, opts, lays, lang, seq))
        ctx.log("runs:", len(jobs))
        pipeline.run_jobs(exe, jobs, hooks=False)
        model = common.run_driver(["indent.run2 %d %d %d %s" % (p[3]["indent_columns"], p[3].get("indent_brace", 0), p[3].get("indent_switch_case", 0),
                                                                p[1] or "-") for p in progs])
        base_ans = common.run_driver(["indent.run2 %d 0 0 %s" % (p[3]["indent_columns"], p[1] or "-") for p in progs])
        common_base = {id(p[0]): [int(x) for x in a.split() if x != "-"] for p, a in zip(progs, base_ans)}
        bad_m = bad_c = skipped = bad_f = 0
        for (lines, tk, idx, opts, lays, lang, seq), mans in zip(progs, model):
            want = [int(x) for x in mans.split() if x != "-"]
            # cross-check of the Lean model's offsets against the counting formula (C18_column_closed_form_offsets), computed independently
            sh = shifts(lines, idx)
            base = common_base.get(id(lines))
            if base is not None and len(sh) == len(want) == len(base):
                formula = [w + nb * opts.get("indent_brace", 0) + ns * opts.get("indent_switch_case", 0) for w, (nb, ns) in zip(base, sh)]
                if formula != want:
                    bad_f += 1
            if len(seq) != len(want):
                ctx.count("pp-chains")
            want = [want[p] for p in seq] if all(p < len(want) for p in seq) else want
            ctx.case(tk + str(sorted(opts.items())) + str(len(seq)), nontrivial="o" in tk)
            cols_per_layout = []
            for j in lays:
                if j.res["rc"] != 0:
                    cols_per_layout.append(None)
                    continue
                out = j.res["out"].decode("utf-8", "replace").split("\n")
                code, incmt = [], False
                for l in out:
                    st = l.strip()
                    if incmt:
                        if "*/" in st:
                            incmt = False
                        continue
                    if not st or st.startswith("//") or st.startswith("#"):
                        continue
                    if st.startswith("/*"):
                        incmt = "*/" not in st
                        continue
                    code.append(l)
                cols_per_layout.append([col_of(l, opts["output_tab_size"]) for l in code])
            ok = [c for c in cols_per_layout if c is not None]
            if len(ok) < 2 or any(len(c) != len(want) for c in ok):
                skipped += 1
                ctx.count("skipped:line-structure")
                continue
            ctx.count("checked")
            # metamorphic: original layout has no influence
            for c, j in zip(cols_per_layout, lays):
                if c is not None and c != ok[0]:
                    k = next(i for i in range(len(c)) if c[i] != ok[0][i])
                    if ctx.violation(("own-line comments between the lines influence where a statement line is placed: code line %d gets column %d "
                                      "without them and %d with them" if j.meta.get("cmt_twin") else
                                      "the original layout influences where a statement line is placed: code line %d gets column %d or %d "
                                      "depending on the input's whitespace only") % (k, ok[0][k], c[k]),
                                     {"input_a": lays[0].meta["text"], "input_b": j.meta["text"], "options": opts, "lang": lang},
                                     key=None, found_input=True):
                        bad_m += 1
                    break
            # closed form via the Lean model
            if ok[0] != want:
                k = next(i for i in range(len(want)) if ok[0][i] != want[i])
                if ctx.violation("code line %d starts in column %d, the block-nesting model says %d (indent_columns=%d)"
                                 % (k, ok[0][k], want[k], opts["indent_columns"]),
                                 {"input": lays[0].meta["text"], "options": opts, "lang": lang, "model_columns": want, "real_columns": ok[0]},
                                 key=None, found_input=True):
                    bad_c += 1
        ctx.cov["programs_skipped_line_structure_changed"] = skipped
        ctx.oblige("metamorphic oracle: columns independent of the original layout (%d programs x 4 layouts)" % len(progs), bad_m == 0, "oracle")
        ctx.oblige("differential: real columns = columns of the Lean stack-machine model (%d programs)" % len(progs), bad_c == 0, "corr")
        ctx.oblige("Lean stack machine with offsets = counting formula computed from the generator's block kinds", bad_f == 0, "corr", "%d" % bad_f)
        ctx.oblige("enough programs kept their line structure to be compared", skipped * 2 < max(1, len(progs)), "internal",
                   "%d of %d skipped" % (skipped, len(progs)))
        ctx.sample({"tokens": progs[0][1], "options": progs[0][3], "model": model[0]})
    finally:
        sc.close()
