"""C08 -- line endings.  DESIGN.md section 6/C08.

Proof: Props/C08.lean (terminator choice, whitespace census) and Props/Render.lean (addchar_terminators, render_terminators, termok_*) (every CR/LF the output
machine emits is part of a whole copy of cpd.newline, for every op sequence / chunk list).
Tie:   hook-level: Render/AddChar model reproduces op sequence + bytes of every run; chooseNewline vs the
       real cpd.newline; monitored hypotheses (raw writes carry no CR/LF).
Oracle: byte scan of real output; format(convert(x)) = format(x); crlf output = lf output with terminators replaced.
"""
import os

from vlib import common, pipeline, unc

NLS = {"lf": b"\n", "crlf": b"\r\n", "cr": b"\r"}
NLHEX = {"a": "lf", "d.a": "crlf", "d": "cr"}


def term_ok(data, nl):
    """every CR / LF byte of data belongs to a whole copy of nl (greedy scan = TermOK of the Lean development)"""
    i, n = 0, len(data)
    while i < n:
        b = data[i]
        if b in (10, 13):
            if data[i:i + len(nl)] == nl:
                i += len(nl)
                continue
            return i
        i += 1
    return -1


def count_terms(data):
    crlf = data.count(b"\r\n")
    return {"lf": data.count(b"\n") - crlf, "crlf": crlf, "cr": data.count(b"\r") - crlf}


def pick_inputs(ctx, n):
    pairs = [p for p in unc.test_pairs() if os.path.getsize(p[2]) < 40000]
    ctx.rng.shuffle(pairs)
    # corpus of earlier failures first
    import json
    past = set(os.path.join(common.REPO, f) for f in json.load(open(os.path.join(common.ROOT, "corpus", "c08.json")))["inputs"])
    first = [p for p in pairs if p[2] in past]
    rest = [p for p in pairs if p[2] not in past]
    return first + rest[:n]


def run(ctx):
    ctx.cov["rule"] = ("one case = one run of the real binary (hook build) on a corpus input re-encoded with LF/CRLF/CR/mixed "
                       "terminators under newlines in {lf,crlf,cr,auto} on top of the input's own test config; distinct = distinct "
                       "(input, encoding, newlines setting); non-trivial = exit 0 and at least one line break")
    ctx.trusted += ["hand-written models UncModel/AddChar.lean, Render.lean, LineEnd.lean", "hooks H1/H3 (verif_hooks.cpp)",
                    "comment writers are an oracle: their recorded add_char ops are replayed through the model"]
    ctx.assumptions += ["raw (is_ignored) writes carry no CR/LF: monitored on every run",
                        "cpd.spaces UINT16 does not wrap (< 65536 pending spaces)"]
    ctx.lean_obligations()
    common.lean_extra(ctx, "UncModel.Props.Render",
                      ["addchar_terminators", "render_terminators", "termok_lf_no_cr", "termok_cr_no_lf", "termok_crlf_pairs"])

    exe = common.build_repo(hooks=True)
    thorough = ctx.tier == "thorough"
    pairs = pick_inputs(ctx, int(os.environ.get("VERIF_C08_N", "0")) or (400 if thorough else 40))
    sc = pipeline.Scratch("c08")
    try:
        jobs = []
        # generated programs (comments of every style at every position, literals, multi-line macros) under two fixed configs
        from vlib import gen
        gcfg = [sc.cfg(None, {"indent_columns": 4, "indent_with_tabs": 0}), sc.cfg(None, {"indent_columns": 3, "cmt_star_cont": "true"})]
        gpairs = []
        for i in range(60 if thorough else 14):
            lang = ctx.rng.choice(["C", "CPP", "JAVA"])
            lines, txt = gen.program(ctx.rng, lang, stats=ctx.hist, cmt_prob=0.45)
            p = sc.write(txt, {"C": ".c", "CPP": ".cpp", "JAVA": ".java"}[lang])
            gpairs.append(("gen%d" % i, gcfg[i % 2], p, lang))
        for name, cfg, inp, lang in gpairs + pairs:
            data = open(inp, "rb").read()
            if b"\x00" in data[:-1] or data[:2] in (b"\xff\xfe", b"\xfe\xff"):
                continue
            ext = os.path.splitext(inp)[1]
            encs = ["lf", "crlf", "cr", "mixed"]
            for e in encs:
                p = sc.write(pipeline.reencode_terminators(data, e, ctx.rng), ext)
                for nlopt in (["lf", "crlf", "cr", "auto"] if (thorough or e != "mixed") else ["lf", "auto"]):
                    c = sc.cfg(cfg, {"newlines": nlopt})
                    jobs.append(pipeline.Job("%s|%s|%s" % (name, e, nlopt), c, p, lang,
                                             {"src": inp, "cfg": cfg, "enc": e, "newlines": nlopt}))
        ctx.log("runs:", len(jobs))
        pipeline.run_jobs(exe, jobs)
        for j in jobs:
            ctx.count("rc:%s" % j.res["rc"])
            ctx.count("enc:" + j.meta["enc"])
        good = pipeline.render_check(ctx, jobs, "C08-render")

        # --- chooseNewline model vs the real cpd.newline
        lines = []
        for j in good:
            le = j.hdr["le"].split(",")
            lines.append("lineend.choose %s %s %s %s" % (j.meta["newlines"], le[0], le[1], le[2]))
        ans = common.run_driver(lines) if lines else []
        bad = 0
        for j, a in zip(good, ans):
            if a != j.hdr["newline"]:
                bad += 1
                if bad <= 2:
                    ctx.violation("cpd.newline differs from chooseNewline: run %s counts %s real %s model %s"
                                  % (j.name, j.hdr["le"], j.hdr["newline"], a),
                                  {"input": j.meta["src"], "encoding": j.meta["enc"], "newlines": j.meta["newlines"]},
                                  found_input=False)
        ctx.oblige("chooseNewline = cpd.newline on %d runs" % len(good), bad == 0, "corr")

        # --- monitor: hypothesis of C08_render_terminators (raw writes without CR/LF)
        mbad = 0
        for j in good:
            for ln in j.outs:
                if ln.startswith("OPS") and (" Ra" in ln + " " and (" Ra " in ln + " ") or " Rd " in ln + " "):
                    mbad += 1
                    if mbad <= 2:
                        ctx.violation("monitor: a raw (ignored-text) write carries CR/LF in run %s" % j.name,
                                      {"input": j.meta["src"], "encoding": j.meta["enc"]}, found_input=False)
        ctx.oblige("monitor OpsRawOK (no CR/LF in raw writes) on %d runs" % len(good), mbad == 0, "monitor")

        # --- direct oracles on the real bytes
        by_src = {}
        obad = 0
        for j in jobs:
            if j.res["rc"] != 0:
                continue
            out = j.res["out"]
            want = j.meta["newlines"]
            if want == "auto":
                nl = NLS[NLHEX[j.hdr["newline"]]] if j.hdr else None
                # pure inputs: the only terminator present must be chosen
                if j.meta["enc"] in NLS and nl is not None:
                    cnt = count_terms(open(j.inp, "rb").read())
                    if sum(1 for v in cnt.values() if v) == 1 and cnt[j.meta["enc"]] > 0 and nl != NLS[j.meta["enc"]]:
                        # only terminators inside literals / continuation lines are not counted by the census
                        if _has_counted_break(j):
                            obad += _viol(ctx, j, "newlines=auto chose %r for an input whose only terminator is %s" % (nl, j.meta["enc"]))
            else:
                nl = NLS[want]
            if nl is not None:
                pos = term_ok(out, nl)
                if pos >= 0:
                    obad += _viol(ctx, j, "stray CR/LF at output offset %d (expected only %r)" % (pos, nl),
                                  key={"file": _rel(j.meta["src"]), "enc": j.meta["enc"], "newlines": want,
                                       "kind": "stray"})
            by_src.setdefault((j.meta["src"], j.meta["cfg"], want), {})[j.meta["enc"]] = (j, out)
        for (src, cfg, want), d in by_src.items():
            if want == "auto":
                continue
            ref = d.get("lf")
            for e, (j, out) in d.items():
                ctx.case("commute:%s|%s|%s|%s" % (src, cfg, want, e))
                if ref is not None and out != ref[1]:
                    obad += _viol(ctx, j, "format(convert_%s(x)) differs from format(x) under newlines=%s" % (e, want),
                                  key={"file": _rel(src), "cfg": _rel(cfg),
                                       "terminators": "lone-CR" if e in ("cr", "mixed") else e, "kind": "commute"})
        for (src, cfg, want), d in by_src.items():
            if want != "crlf":
                continue
            for e, (j, out) in d.items():
                o = by_src.get((src, cfg, "lf"), {}).get(e)
                if o is not None and out != o[1].replace(b"\n", b"\r\n"):
                    obad += _viol(ctx, j, "output under newlines=crlf is not the lf output with terminators replaced (input encoding %s)" % e,
                                  key={"file": _rel(src), "cfg": _rel(cfg),
                                       "enc": e, "kind": "crlf-vs-lf"})
        # --- newlines=auto with an inserted comment file (cmt_insert_file_header/footer): the inserted text is tokenized too, but
        #     the terminator must still be the most frequent one of the INPUT
        ibad = 0
        icases = 0
        for src_nl, hdr_nl in ((b"\r\n", b"\n"), (b"\n", b"\r\n"), (b"\r", b"\n"), (b"\r\n", b"\r")):
            for opt in ("cmt_insert_file_header", "cmt_insert_file_footer"):
                hdr = sc.write(b"/* inserted" + hdr_nl + b" * text" + hdr_nl + b" */" + hdr_nl, ".txt")
                srcp = sc.write(src_nl.join([b"int a;", b"int b;", b"void f(void)", b"{", b"  a = b;", b"}", b"int c;", b""]), ".c")
                c = sc.cfg(None, {"newlines": "auto", opt: '"%s"' % hdr})
                r = unc.run(exe, c, srcp, "C")
                icases += 1
                ctx.case("insert:%s:%r:%r" % (opt, src_nl, hdr_nl))
                if r["rc"] != 0:
                    continue
                out = r["out"]
                cnt = count_terms(out)
                want = {b"\n": "lf", b"\r\n": "crlf", b"\r": "cr"}[src_nl]
                if b"inserted" not in out:
                    ctx.count("insert:not-inserted")
                    continue
                if any(v for k, v in cnt.items() if k != want):
                    ibad += 1
                    ctx.violation("newlines=auto with %s: the input uses %s throughout, the inserted file %s; the output has %s"
                                  % (opt, want, {b"\n": "lf", b"\r\n": "crlf", b"\r": "cr"}[hdr_nl], cnt),
                                  {"input_bytes_hex": open(srcp, "rb").read().hex(), "inserted_hex": open(hdr, "rb").read().hex(),
                                   "options": {"newlines": "auto", opt: "<path of the inserted file>"}}, key=None, found_input=True)
        ctx.oblige("oracle: newlines=auto follows the input, not an inserted comment file (%d cases)" % icases, ibad == 0, "oracle")
        # --- newlines=auto with several files in one invocation: every file gets ITS OWN most frequent terminator (the census is per file)
        import shutil
        import subprocess
        bbad = bcases = 0
        names = {b"\n": "lf", b"\r\n": "crlf", b"\r": "cr"}
        for first_nl in names:
            for second_nl in names:
                for mode in ("args", "list"):
                    d = os.path.join(sc.dir, "batch-%s-%s-%s" % (names[first_nl], names[second_nl], mode))
                    os.makedirs(d, exist_ok=True)
                    big = first_nl.join([b"int a%d;" % k for k in range(12)] + [b""])
                    small = second_nl.join([b"int x;", b"void g(void)", b"{", b"  x = 1;", b"}", b""])
                    mixed = second_nl.join([b"int m1;", b"int m2;", b"int m3;"]) + first_nl + b"int m4;" + second_nl
                    fl = []
                    for nm, data in (("f1.c", big), ("f2.c", small), ("f3.c", mixed), ("f4.c", small)):
                        open(os.path.join(d, nm), "wb").write(data)
                        fl.append(os.path.join(d, nm))
                    cmd = [exe, "-q", "-c", sc.cfg(None, {"newlines": "auto"})]
                    if mode == "list":
                        open(os.path.join(d, "files.txt"), "w").write("\n".join(fl) + "\n")
                        cmd += ["-F", os.path.join(d, "files.txt")]
                    else:
                        cmd += fl
                    subprocess.run(cmd, stdout=subprocess.PIPE, stderr=subprocess.PIPE, timeout=60)
                    bcases += 1
                    ctx.case("batch:%s:%s:%s" % (names[first_nl], names[second_nl], mode))
                    for q, want in zip(fl, (first_nl, second_nl, second_nl, second_nl)):
                        o = q + ".uncrustify"
                        if not os.path.exists(o):
                            continue
                        cnt = count_terms(open(o, "rb").read())
                        if any(v for k, v in cnt.items() if k != names[want]):
                            bbad += 1
                            ctx.violation("newlines=auto, several files in one invocation: %s (most frequent terminator %s) is written with %s; files before it use %s"
                                          % (os.path.basename(q), names[want], cnt, names[first_nl]),
                                          {"files_hex": {os.path.basename(x): open(x, "rb").read().hex() for x in fl}, "mode": mode,
                                           "how": "uncrustify -q -c cfg(newlines=auto) f1.c f2.c f3.c f4.c (or -F list); outputs are <file>.uncrustify"},
                                          key=None, found_input=True)
                            break
                    shutil.rmtree(d, ignore_errors=True)
        ctx.oblige("oracle: newlines=auto is decided per file when several files are formatted in one invocation (%d batches)" % bcases,
                   bbad == 0, "oracle")
        ctx.oblige("direct oracles (stray CR/LF scan, conversion commutes, crlf = lf with terminators replaced)", obad == 0, "oracle",
                   "%d failures" % obad)
        if jobs:
            ctx.sample({"run": jobs[0].name, "rc": jobs[0].res["rc"], "out_len": len(jobs[0].res["out"])})
    finally:
        sc.close()


def _rel(p):
    """path relative to the repository; generated inputs/configs (scratch files) are one class"""
    r = os.path.relpath(p, common.REPO)
    return "<generated>" if r.startswith("..") else r


def _has_counted_break(j):
    le = [int(x) for x in j.hdr["le"].split(",")]
    return sum(le) > 0


def _viol(ctx, j, what, key=None):
    return 1 if ctx.violation("%s [run %s]" % (what, j.name),
                  {"input_source": j.meta["src"], "terminators": j.meta["enc"], "base_config": j.meta["cfg"],
                   "newlines": j.meta["newlines"], "lang": j.lang,
                   "how": "re-encode the input's line terminators as stated, add 'newlines = <value>' to the config, run uncrustify -q -c cfg -f input"},
                  key=key, found_input=True) else 0
