"""C02LEX -- self-check of the lexical layer (L4 + guard part of L5) that C02 / C03 / C01 build on.

Not a property of its own: it exercises every piece that props/c02.py is expected to call
(vlib/lexcheck.py), so that the layer can be tested in isolation:
  1. Lean obligations of UncModel/Props/C02Lex.lean (build, forbidden constructs, axiom audit)
  2. T-punct, T-chars
  3. correspondence: findPunct vs find_punctuator (exhaustive), isKw1/isKw2 vs CharTable, forceSpace vs the
     PCF_FORCE_SPACE set by the real space_text()
  4. the specification lexer on the repository's C and C++ test corpus: acceptance, and quietness on the
     (input, expected) pairs of whitespace-only configurations
  5. every Lean witness `C02_fuse_guard_gap_*` that has a replay is replayed on the real binary
"""
import os

from vlib import common, lexcheck

LEVEL = "proof"

# differences on whitespace-only corpus pairs that were investigated and are NOT lexer defects
EXPECTED_WS_DIFFS = {
    # genuine token change by uncrustify: the input starts with a backslash-newline, the `{ }` that ends the
    # #define body is split over two lines without a continuation, so `}` leaves the directive
    "cpp:30249": "diff",
    # unterminated /* comment at the end of the input: the lexer rejects input and expected alike
    "cpp:30011": "fail",
}


def run(ctx):
    ctx.cov["rule"] = ("lexical layer: findPunct = find_punctuator on all strings of length <= 4 over 34 characters x 9 "
                       "languages x digraphs; forceSpace = PCF_FORCE_SPACE of space_text() on two-chunk lists; the "
                       "specification lexer is quiet on the whitespace-only pairs of tests/{c,cpp}.test")
    ctx.lean_obligations(module="UncModel.Props.C02Lex")
    if not lexcheck.regen_tables(ctx):
        return
    ok, out = common.lake_build(["UncModel.Props.C02Lex", "uncdrv"])
    ctx.oblige("lake build after table regeneration", ok, "build", None if ok else out[-2000:])
    if not ok:
        return
    lexcheck.punct_correspondence(ctx)
    lexcheck.force_correspondence(ctx, thorough=(ctx.tier == "thorough"))
    # corpus
    res = lexcheck.corpus_selftest(verbose=False)
    ctx.count("corpus files lexed", res["files"])
    ctx.oblige("specification lexer accepts the C/C++ corpus (%d of %d files; rejected: %s)"
               % (res["accepted"], res["files"], [os.path.basename(p) for p in res["rejected"]]),
               res["files"] - res["accepted"] <= 2, "oracle")
    ws = res["pairs"].get("ws", {})
    ctx.count("whitespace-only corpus pairs", ws.get("pairs", 0))
    unexpected = []
    for c, p, r in res["diffs"]:
        ctx.case("corpus " + p[0])
        if c != "ws":
            continue
        tid = p[0].rstrip("!~")
        if EXPECTED_WS_DIFFS.get(tid) != r[0]:
            unexpected.append((p[0], p[1], p[2], r))
    ctx.evals += sum(v["pairs"] for v in res["pairs"].values())
    for u in unexpected[:5]:
        ctx.violation("specification lexer differs on a whitespace-only corpus pair %s: %s" % (u[0], u[3],),
                      {"test": u[0], "cfg": u[1], "input": u[2]}, found_input=False)
    ctx.oblige("lexer quiet on %d whitespace-only (input, expected) pairs (same: %d)" % (ws.get("pairs", 0), ws.get("same", 0)),
               not unexpected, "oracle")
    # replays of the Lean witnesses
    for name, lang, text, cfg, outp, r in lexcheck.replay_guard_gaps():
        ctx.case("replay %s %s" % (name, lang))
        ctx.oblige("witness C02_fuse_guard_gap_%s replays on the real binary (-l %s, %s): %r -> %r"
                   % (name, lang, "; ".join(cfg) or "defaults", text, outp), r[0] in ("diff", "fail"), "oracle")
        ctx.sample({"gap": name, "lang": lang, "cfg": cfg, "input": text, "output": outp})
    ctx.trusted += ["harness/fnharness.cpp (calls find_punctuator, CharTable, space_text in-process)",
                    "translators/t_punct.py, t_chars.py (table extraction, cross-checked against the generated punctuator_table.h)"]
    ctx.assumptions.append("the specification lexer follows gcc/clang for backslash + blanks + newline (a splice) and for "
                           "string literals followed by an identifier that does not start with '_' (separate tokens)")
