"""C05 -- formatting is a fixed point.  DESIGN.md section 6/C05.  PARTIAL.

Proof:  Props/C05.lean: idempotence of the modelled appliers (space_text arithmetic re-reading its own gap, file-edge
        blank-line policy, indentation independent of original columns) under a stable decision oracle.
Tie:    the appliers' models are tied to the code by the C19 / C17 / C18 checks (hook correspondence, differential runs).
Oracle: the property itself on the real binary: format, format again, once more; --check on the first output.
        Fixed universe (every C/C++ corpus file x every profile under /verif/profiles) enumerated completely in every tier,
        with the individually listed known exceptions; generated programs x profiles; for non-profile configs only
        'the second pass accepts the first pass's output'.
"""
import os
import subprocess

from vlib import common, gen, pipeline, unc

PROFILE_DIR = os.path.join(common.ROOT, "profiles")


def profiles():
    return sorted(os.path.join(PROFILE_DIR, f) for f in os.listdir(PROFILE_DIR) if f.endswith(".cfg"))


def fmt(exe, cfg, lang, data, extra=()):
    cmd = [exe, "-q", "-c", cfg, "-l", lang] + list(extra)
    try:
        r = subprocess.run(cmd, input=data, stdout=subprocess.PIPE, stderr=subprocess.PIPE, timeout=60)
        return r.returncode, r.stdout
    except subprocess.TimeoutExpired:
        return "timeout", b""


def triple(exe, cfg, lang, data):
    """returns (rc1, out1, rc2, out2, rc3, out3, check_rc)"""
    rc1, o1 = fmt(exe, cfg, lang, data)
    if rc1 != 0:
        return (rc1, o1, None, None, None, None, None)
    rc2, o2 = fmt(exe, cfg, lang, o1)
    rc3, o3 = fmt(exe, cfg, lang, o2) if rc2 == 0 else (None, None)
    rcc, _ = fmt(exe, cfg, lang, o1, extra=["--check"])
    return (rc1, o1, rc2, o2, rc3, o3, rcc)


def classify_instability(lang, o1, o2):
    """why does pass 2 differ from pass 1?  (root-cause class used to key the known findings for generated programs)"""
    from vlib import lexcheck
    try:
        t1, t2 = lexcheck.lex_tokens(lang, [lexcheck.decode_text(o1), lexcheck.decode_text(o2)], comments=True)
    except Exception:
        return "unclassified"
    if t1 is None or t2 is None:
        return "unclassified"
    if t1 == t2:
        l1 = [l.strip() for l in o1.decode("latin1").split("\n") if l.strip()]
        l2 = [l.strip() for l in o2.decode("latin1").split("\n") if l.strip()]
        if ["".join(l.split()) for l in l1] == ["".join(l.split()) for l in l2]:
            d = [(a, b) for a, b in zip(l1, l2) if a != b]
            if not d:
                # same stripped lines: blank lines or leading whitespace differ -- of which kind of line?
                r1 = [l for l in o1.decode("latin1").split("\n")]
                r2 = [l for l in o2.decode("latin1").split("\n")]
                n1 = [l for l in r1 if l.strip()]
                n2 = [l for l in r2 if l.strip()]
                ind = [(a, b) for a, b in zip(n1, n2) if a != b]
                if not ind:
                    return "blank-lines"
                if all(a.strip().startswith(("/*", "//", "*")) for a, b in ind):
                    return "indentation-of-comment-lines"
                if all(a.strip().startswith("#") for a, b in ind):
                    return "indentation-of-preprocessor-lines"
                return "indentation-of-code-lines"
            if all(("/*" in a or "//" in a) for a, b in d):
                return "gap-before-comment"
            return "spacing-inside-line"
        # which lines moved? a one-line macro body with braces that is re-broken over continuation lines is its own class
        import difflib
        moved = [ln[2:] for ln in difflib.ndiff(l1, l2) if ln[:2] in ("- ", "+ ")]
        if moved and all(m.endswith("\\") or "#define" in m or "while (0)" in m or "while(0)" in m for m in moved):
            return "line-breaks-in-macro-body"
        nd = list(difflib.ndiff(l1, l2))
        strip = lambda pre: "".join(ln[2:] for ln in nd if ln[:2] == pre).replace("{", "").replace("}", "").replace(" ", "").replace("\t", "")
        if moved and strip("- ") == strip("+ ") and any(("{" in m or "}" in m) for m in moved):
            return "line-breaks-brace-placement"      # only the placement of braces relative to line breaks changes
        return "line-breaks"
    nb1 = [t for t in t1 if not (t[0] == "punct" and t[1] in ([123], [125]))]
    nb2 = [t for t in t2 if not (t[0] == "punct" and t[1] in ([123], [125]))]
    if nb1 == nb2 and len(t2) < len(t1):
        return "brace-removal-needs-another-pass"
    if nb1 == nb2:
        return "brace-change"
    return "tokens-changed"


def run(ctx):
    ctx.cov["rule"] = ("fixed universe: every file under tests/input/c and tests/input/cpp x every profile in /verif/profiles (defaults + 5 styles "
                       "from etc/), each formatted three times + --check on the first output, enumerated completely (exhaustive over the universe); "
                       "plus generated programs x profiles; plus corpus x own test config for the weaker claim; distinct = distinct (input, config); "
                       "non-trivial = first run exits 0")
    ctx.trusted += ["models SpaceApply / EatSE / Indent (tied by the C19, C17, C18 checks)"]
    ctx.assumptions += ["H-stable (the decision oracles answer the second run as the first) is observed through the byte comparison, not proved",
                        "the fixed point is claimed for the profile set only, as the property says"]
    ctx.lean_obligations()
    exe = common.build_repo(hooks=True)
    thorough = ctx.tier == "thorough"
    rng = ctx.rng
    profs = profiles()
    files = [(p, "C" if d == "c" else "CPP") for p, d in common.corpus_files(["c", "cpp"])]
    jobs = [(p, lg, cfg) for p, lg in files for cfg in profs]
    if os.environ.get("VERIF_C05_GENONLY"):      # development aid for sweeps of the generated part
        jobs = jobs[:6]
    ctx.log("fixed universe: %d files x %d profiles" % (len(files), len(profs)))

    def work(j):
        p, lg, cfg = j
        return j, triple(exe, cfg, lg, open(p, "rb").read())
    res = common.pmap(work, jobs)
    ubad = 0
    first_fail = 0
    for (p, lg, cfg), (rc1, o1, rc2, o2, rc3, o3, rcc) in res:
        rel, prof = os.path.relpath(p, common.REPO), os.path.basename(cfg)
        ctx.case("%s|%s" % (rel, prof), nontrivial=(rc1 == 0))
        if rc1 != 0:
            first_fail += 1
            ctx.count("first-run-refused")
            continue
        why = None
        if rc2 != 0:
            why = "the second pass refuses the first pass's output (exit %s)" % rc2
        elif o2 != o1:
            why = "re-formatting changes the output (pass 2 differs from pass 1)"
        elif rc3 != 0 or o3 != o2:
            why = "pass 3 differs from pass 2"
        elif rcc != 0:
            why = "--check on freshly formatted text exits %s" % rcc
        if why:
            if ctx.violation("%s: %s with profile %s" % (why, rel, prof),
                             {"input": p, "profile": cfg, "lang": lg, "how": "uncrustify -q -c profile -l LANG < input > o1; same < o1 > o2; cmp o1 o2"},
                             key={"file": rel, "profile": prof}, found_input=True):
                ubad += 1
    ctx.cov["exhaustive"] = True
    ctx.cov["universe_pairs"] = len(jobs)
    ctx.cov["first_run_refused"] = first_fail
    ctx.oblige("fixed universe (%d pairs): re-formatting reproduces the output byte for byte, --check passes" % len(jobs), ubad == 0, "oracle",
               "%d unlisted unstable pairs" % ubad)

    # generated programs x profiles (full claim)
    gbad = 0
    gjobs = []
    # quick: a fixed set of generated programs (seed-independent) plus a small seed-dependent part, so that the instabilities of the
    # unchanged tree it meets are the listed ones; thorough: fully seed-dependent
    import random
    fixed_rng = random.Random("C05-fixed-generated")
    ngen = int(os.environ.get("VERIF_C05_NGEN", "0")) or (1500 if thorough else 240)
    nfixed = 0 if (thorough or os.environ.get("VERIF_C05_NGEN")) else 200
    for i in range(ngen):
        rng = fixed_rng if i < nfixed else ctx.rng
        lang = rng.choice(["C", "CPP"])
        lines, txt = gen.program(rng, lang, stats=ctx.hist)
        gjobs.append((txt, lang, rng.choice(profs)))
    # fixed universe "comment columns": a trailing comment continued by a comment-only line, next to a second trailing comment, with the
    # comments starting in EVERY column 16..56 (spaces or tabs in front) -- the passes that place comments (indent_comment, the
    # right-comment aligner, cmt_ options) compare columns with thresholds, and a fixed point must hold on both sides of each threshold
    cjobs = []
    for col in range(16, 57):
        for style in range(4):
            def pad(used, col=col, style=style):
                if style % 2 == 0:
                    return " " * (col - 1 - used)
                # tabs up to the last tab stop at or before the column, then blanks
                nt = (col - 1) // 8 - used // 8
                return ("\t" * nt + " " * ((col - 1) % 8)) if nt > 0 else " " * (col - 1 - used)
            c1, c2, c3 = ("/* first */", "/* second line */", "/* other */") if style < 2 else ("// first", "// second line", "// other")
            txt = ("void f(void)\n{\n\tint a;" + pad(8 + 6) + c1 + "\n" + pad(0) + c2 + "\n\tint other_long_name = 12345;  " + c3 + "\n}\n")
            for cfg in profs:
                cjobs.append((txt, "C", cfg, col, style))
    unstable = {}
    example = {}
    for (txt, lg, cfg, col, style), t in common.pmap(lambda j: (j, triple(exe, j[2], j[1], j[0].encode())), cjobs):
        rc1, o1, rc2, o2, rc3, o3, rcc = t
        ctx.case("cmtcol|%d|%d|%s" % (col, style, cfg), nontrivial=(rc1 == 0))
        if rc1 == 0 and (rc2 != 0 or o2 != o1 or rc3 != 0 or o3 != o2 or rcc != 0):
            k = (os.path.basename(cfg), ["block-spaces", "block-tabs", "line-spaces", "line-tabs"][style])
            unstable.setdefault(k, []).append(col)
            example.setdefault(k, (txt, o1, o2))
    cbad = 0
    for (prof, sty), cols in sorted(unstable.items()):
        txt, o1, o2 = example[(prof, sty)]
        # the finding is the exact set of comment columns at which the fixed point fails: a change that moves one of the thresholds by a
        # single column gives another set
        if ctx.violation("comment-column universe, profile %s, %s: not a fixed point when the trailing comment and its continuation line start in "
                         "column %s (of 16..56)" % (prof, sty, ",".join(map(str, sorted(cols)))),
                         {"input_text": txt, "profile": prof, "first_pass": o1.decode("latin1"), "second_pass": o2.decode("latin1"),
                          "how": "props/c05.py builds the text for every column; uncrustify -c profile twice"},
                         key={"universe": "comment-columns", "profile": prof, "style": sty, "columns": sorted(cols)}, found_input=True):
            cbad += 1
    ctx.oblige("comment-column universe (trailing comment + continuation line in every column 16..56, 4 styles) x profiles: fixed points (%d programs)"
               % len(cjobs), cbad == 0, "oracle", "%d (profile, style) pairs with an unlisted set of unstable columns" % cbad)
    for (txt, lg, cfg), t in common.pmap(lambda j: (j, triple(exe, j[2], j[1], j[0].encode())), gjobs):
        rc1, o1, rc2, o2, rc3, o3, rcc = t
        ctx.case("gen|" + txt + cfg, nontrivial=(rc1 == 0))
        if rc1 != 0:
            continue
        if rc2 != 0 or o2 != o1 or rc3 != 0 or o3 != o2 or rcc != 0:
            kind = classify_instability(lg, o1, o2) if (rc2 == 0 and o2 != o1) else ("pass3" if rc2 == 0 and o2 == o1 else "second-pass-refuses")
            ctx.count("gen-unstable:%s:%s" % (os.path.basename(cfg), kind))
            if ctx.violation("a generated program is not a fixed point under profile %s: %s (pass2 rc %s, check rc %s)"
                             % (os.path.basename(cfg), kind, rc2, rcc),
                             {"input_text": txt, "profile": cfg, "lang": lg},
                             key=({"kind": kind} if kind == "gap-before-comment" else {"profile": os.path.basename(cfg), "kind": kind}),
                             found_input=True):
                gbad += 1
    ctx.oblige("generated programs x profiles are fixed points (%d)" % len(gjobs), gbad == 0, "oracle")

    # weaker claim for arbitrary configurations: second pass accepts the first pass's output
    rng = ctx.rng
    pairs = unc.test_pairs()
    rng.shuffle(pairs)
    pairs = pairs[:(2000 if thorough else 300)]
    wbad = 0

    def weak(pr):
        name, cfg, inp, lang = pr
        cmd = [exe, "-q", "-c", cfg, "-f", inp] + (["-l", lang] if lang else [])
        r1 = subprocess.run(cmd, stdout=subprocess.PIPE, stderr=subprocess.PIPE, timeout=60)
        if r1.returncode != 0:
            return pr, r1.returncode, None
        cmd2 = [exe, "-q", "-c", cfg, "--assume", inp] + (["-l", lang] if lang else [])
        r2 = subprocess.run(cmd2, input=r1.stdout, stdout=subprocess.PIPE, stderr=subprocess.PIPE, timeout=60)
        return pr, 0, r2.returncode
    for (name, cfg, inp, lang), rc1, rc2 in common.pmap(weak, pairs):
        ctx.case("weak|" + name, nontrivial=(rc1 == 0))
        if rc1 == 0 and rc2 != 0:
            if ctx.violation("the second pass refuses the first pass's output (exit %s) for test %s" % (rc2, name),
                             {"input": inp, "config": cfg, "lang": lang},
                             key={"file": os.path.relpath(inp, common.REPO), "cfg": os.path.relpath(cfg, common.REPO), "kind": "second-pass-refuses"},
                             found_input=True):
                wbad += 1
    ctx.oblige("weaker claim: second pass accepts the first pass's output (%d corpus test pairs)" % len(pairs), wbad == 0, "oracle")
    ctx.sample({"universe_example": os.path.relpath(jobs[0][0], common.REPO), "profile": os.path.basename(jobs[0][2])})
