"""C07 -- disabled regions are copied through untouched.  DESIGN.md section 6/C07.

Proof:  Props/C07.lean: a CT_IGNORED chunk is written raw (its text, whatever the machine state, which it leaves untouched);
        a region made of IGNORED and NEWLINE chunks is written as its lines separated by nl_count terminators;
        parse_ignored's line scan returns the whole line when no marker is on it.
Tie:    hook-trace replay through the Render model on every run; monitor H-region: between the markers the chunk list handed to
        output_text() consists of IGNORED/NEWLINE chunks whose texts are the input lines.
Oracle: region bytes of the output vs the input; replacing the region body leaves the output outside unchanged.
"""
import os
import re

from vlib import common, gen, pipeline, unc

OFF, ON = "/* *INDENT-OFF* */", "/* *INDENT-ON* */"


def body_lines(rng, n):
    words = ["int", "x", "=", "(", "{", "}}", ")", "[", "foo(", "\"str", "'c", "/* open", "// c", "\\", "#define", "#if", "a+++b", ";;", "\t", "  ",
             "é", "→", "λx", "<<<", "template<", "return", "@", "$", "`", "0x", "..", "->*"]
    out = []
    for _ in range(n):
        k = rng.random()
        if k < 0.12:
            out.append(rng.choice(["", " ", "\t", "   \t "]))
            continue
        if k < 0.2:
            # hand-aligned continuation lines and column-1 comments with trailing blanks
            out.append(rng.choice(["#define AL(x)      \\", "   foo(x);         \\", "// column one comment   ", "/* c */   \t", "#define Z 1  \\  "]))
            continue
        ln = rng.choice(["", " ", "    ", "\t", " \t"])
        for _ in range(rng.randrange(1, 7)):
            ln += rng.choice(words) + rng.choice(["", " ", "  ", "\t"])
        if rng.random() < 0.3:
            ln += rng.choice([" ", "\t", "  "])
        if "*INDENT" in ln or "endasm" in ln:
            continue
        out.append(ln)
    if not any(l.strip() for l in out):
        out.append("x x")
    return out


def make_input(rng, lang, stats, marker="comment"):
    """program text with one region; returns (text, body lines, marker pair)"""
    lines, _ = gen.program(rng, lang, stats=stats)
    rendered = gen.render(lines, rng, {"indent": "random", "gaps": "random", "trailing": 0.1, "blanklines": 0.05}).split("\n")
    if rendered and rendered[-1] == "":
        rendered.pop()
    # keep multi-line tokens intact: only split at lines that do not sit inside a comment / continuation
    safe = [i for i in range(len(rendered) + 1)
            if (i == 0 or not rendered[i - 1].rstrip().endswith("\\")) and not _inside_block_comment(rendered, i)
            and not _inside_raw_string(rendered, i)]
    pos = rng.choice(safe)
    body = body_lines(rng, rng.randrange(1, 8))
    if marker == "comment":
        off, on = OFF, ON
    elif marker == "asm":
        off, on = "#pragma asm", "#pragma endasm"
    else:
        off, on = "// OFF-HERE", "// ON-HERE"
    ind = rng.choice(["", "  ", "\t", "      "])
    unterminated = rng.random() < 0.12
    reg = [ind + off] + body + ([] if unterminated else [rng.choice(["", "  ", "\t"]) + on])
    text = "\n".join(rendered[:pos] + reg + (rendered[pos:] if not unterminated else [])) + "\n"
    return text, body, (off, on), pos, unterminated


def _inside_raw_string(lines, i):
    """the generator writes multi-line raw strings as R"( ... )": markers placed inside one are text of the literal, not a region"""
    txt = "\n".join(lines[:i])
    return txt.rfind('R"(') > txt.rfind(')"')


def _inside_block_comment(lines, i):
    txt = "\n".join(lines[:i])
    return txt.rfind("/*") > txt.rfind("*/")


def region_of(text, off, on):
    """lines strictly between the line holding `off` and the next line holding `on` (None if `off` is missing)"""
    ls = text.split("\n")
    # comment markers may be re-flowed by cmt_ options: look for the marker word, then for the comment delimiters
    offw = off.replace("/*", "").replace("*/", "").strip()
    onw = on.replace("/*", "").replace("*/", "").strip()
    a = next((i for i, l in enumerate(ls) if offw in l), None)
    if a is None:
        return None, None, None
    if off.startswith("/*") and "*/" not in ls[a].split(offw, 1)[1]:
        a = next((i for i in range(a, len(ls)) if "*/" in ls[i]), a)
    b = next((i for i in range(a + 1, len(ls)) if onw in ls[i]), None)
    if b is not None and on.startswith("/*") and "/*" not in ls[b].split(onw, 1)[0]:
        b = next((i for i in range(b, a, -1) if "/*" in ls[i]), b)
    end = b if b is not None else len(ls)
    body = ls[a + 1:end]
    if b is None and body and body[-1] == "":
        body = body[:-1]
    return body, ls[:a + 1], (ls[b:] if b is not None else [])


def compare_region(inp_body, out_body):
    """non-blank lines byte-identical and in order; whitespace-only lines may be emptied; returns None or a description"""
    if out_body is None:
        return "the disable marker is missing from the output"
    nb_in = [l for l in inp_body if l.strip(" \t")]
    nb_out = [l for l in out_body if l.strip(" \t")]
    if nb_in != nb_out:
        for k, (a, b) in enumerate(zip(nb_in, nb_out)):
            if a != b:
                if b.startswith(a) and b[len(a):].strip() in ("{", "}"):
                    return "a brace was appended to region line %d (%r -> %r): mod_full_brace_* placed it after the disabled text" % (k, a, b)
                return "non-blank region line %d changed: %r -> %r" % (k, a, b)
        return "non-blank region lines added or dropped (%d -> %d)" % (len(nb_in), len(nb_out))
    if len(inp_body) != len(out_body):
        def lead(b):
            n = 0
            while n < len(b) and not b[n].strip(" \t"):
                n += 1
            return n
        if len(inp_body) - lead(inp_body) == len(out_body) - lead(out_body):
            return ("blank lines directly after the disable marker added or removed (%d -> %d): the line break that ends the marker line is "
                    "still subject to the blank-line rules" % (lead(inp_body), lead(out_body)))
        def trail(b):
            n = 0
            while n < len(b) and not b[len(b) - 1 - n].strip(" \t"):
                n += 1
            return n
        if len(inp_body) - trail(inp_body) == len(out_body) - trail(out_body):
            return ("blank lines at the end of the region added or removed (%d -> %d)" % (trail(inp_body), trail(out_body)))
        return "blank lines inside the region added or removed (%d lines -> %d lines)" % (len(inp_body), len(out_body))
    for a, b in zip(inp_body, out_body):
        if not a.strip(" \t") and b not in ("", a):
            return "whitespace-only region line rewritten: %r -> %r" % (a, b)
    return None


ZOO = """int g1;
int f(int a, int b)
{
   int r = 0;
   switch (a)
   {
   case 1:
   {
      r = b;
   }
   break;
   case 2:
   {
      r = 2;
   }
   return r;
   case 3:
      r = 3;
      break;
   default:
      break;
   }
   if (a)
      r++;
   else
   {
      r--;
   }
   if (b)
   {
      r = 1;
   }
   else if (a)
   {
      r = 2;
   }
   for (;;)
   {
      break;
   }
   while (a)
      a--;
   do
   {
      b--;
   }
   while (b);
   return (r);
}
enum E
{
   E1,
   E2
};
struct S
{
   int m1;
   int m2;
};
#define M(x) \\
   do { x; } while (0)
void h(void)
{
   ;
}"""

OPTSETS = [
    {},
    {"indent_columns": 3, "indent_with_tabs": 0, "nl_max": 2, "sp_arith": "force", "sp_assign": "force"},
    {"mod_full_brace_if": "add", "mod_full_brace_for": "add", "mod_full_brace_while": "add", "mod_paren_on_return": "add",
     "mod_remove_extra_semicolon": "true", "nl_max": 1},
    {"align_assign_span": 3, "align_var_def_span": 3, "align_right_cmt_span": 3, "indent_with_tabs": 2, "eat_blanks_after_open_brace": "true",
     "eat_blanks_before_close_brace": "true"},
    {"nl_after_semicolon": "true", "nl_if_brace": "force", "nl_brace_else": "force", "code_width": 60, "nl_start_of_file": "remove",
     "nl_end_of_file": "force", "nl_end_of_file_min": 1},
    {"cmt_width": 40, "cmt_reflow_mode": 2, "cmt_star_cont": "true", "newlines": "crlf"},
    {"disable_processing_nl_cont": "true", "indent_columns": 4, "sp_before_nl_cont": "force"},
    # newline-removing and token-adding options next to a region
    {"nl_brace_else": "remove", "nl_else_brace": "remove", "nl_if_brace": "remove", "nl_remove_extra_newlines": 2},
    {"nl_remove_extra_newlines": 1, "nl_after_semicolon": "true", "nl_brace_else": "force"},
    {"mod_case_brace": "add", "mod_move_case_return": "true", "mod_move_case_break": "true", "mod_enum_last_comma": "add"},
    {"nl_squeeze_ifdef": "true", "nl_func_leave_one_liners": "true", "nl_collapse_empty_body": "true", "nl_fdef_brace": "remove"},
]


def run(ctx):
    ctx.cov["rule"] = ("one case = one generated program (C/C++/Java) with one disabled region (comment markers, custom markers, #pragma asm; "
                       "arbitrary body text incl. unbalanced brackets, tabs, trailing blanks, non-ASCII, unterminated regions) under one option set "
                       "incl. code-modifying ones; distinct = distinct (program, option set); non-trivial = exit 0 and region present")
    ctx.trusted += ["hand-written models Render.lean / IgnoredScan (Props/C07.lean)", "hooks H1/H3"]
    ctx.assumptions += ["regex markers (processing_cmt_as_regex) are not modelled", "body lines never contain the enable marker / endasm"]
    try:
        from translators import t_nldel
        tab = t_nldel.regenerate(common.REPO, common.ROOT, common.LEAN_DIR, common.write_if_changed)
        ctx.oblige("T-nldel: Chunk::SafeToDeleteNl() and %d Chunk::Delete sites of src/newlines regenerated (%s)"
                   % (len(tab["sites"]), ", ".join("%s %s" % t for t in tab["tests"])), True, "table")
    except Exception as e:
        ctx.oblige("T-nldel translator parses the current source", False, "table", str(e))
        ctx.violation("T-nldel no longer parses src/chunk.h / src/newlines: %s" % e, {"translator": "translators/t_nldel.py", "error": str(e)}, found_input=False)
    ctx.lean_obligations()
    common.lean_extra(ctx, "UncModel.Props.RenderMore", ["region_bytes", "region_bytes_embedded"])
    exe = common.build_repo(hooks=True)
    thorough = ctx.tier == "thorough"
    rng = ctx.rng
    sc = pipeline.Scratch("c07")
    try:
        jobs = []
        nprog = 500 if thorough else 90
        for i in range(nprog):
            lang = rng.choice(["C", "C", "CPP", "JAVA"])
            marker = rng.choice(["comment", "comment", "comment", "asm", "custom"]) if lang != "JAVA" else rng.choice(["comment", "custom"])
            text, body, (off, on), pos, unterm = make_input(rng, lang, ctx.hist, marker)
            alt_same = "\n".join(body_lines(rng, len(body)))
            ext = {"C": ".c", "CPP": ".cpp", "JAVA": ".java"}[lang]
            p = sc.write(text, ext)
            for o in ([OPTSETS[i % len(OPTSETS)], rng.choice(OPTSETS)] if not thorough else OPTSETS):
                opts = dict(o)
                if marker == "custom":
                    opts["disable_processing_cmt"] = '" OFF-HERE"'
                    opts["enable_processing_cmt"] = '" ON-HERE"'
                cfg = sc.cfg(None, opts)
                meta = {"text": text, "body": body, "off": off, "on": on, "opts": opts, "marker": marker, "unterminated": unterm}
                jobs.append(pipeline.Job("gen%d" % i, cfg, p, lang, meta))
                # metamorphic twin: other body, same number of lines
                t2 = text.replace("\n".join(body), alt_same, 1)
                if t2 != text and len(alt_same.split("\n")) == len(body):
                    q = sc.write(t2, ext)
                    jobs.append(pipeline.Job("gen%d-twin" % i, cfg, q, lang, dict(meta, twin_of=len(jobs) - 1, text=t2, body=alt_same.split("\n"))))
        # fixed universe: a small "zoo" of the statement forms the code-modifying options look for; the region is put into EVERY gap
        # between two lines of it, under EVERY option set (mod_ passes that look across a region for the token on its other side)
        zoo = ZOO.split("\n")
        zbody = ["  raw   text ( here", "\tsecond  line }  ", "   third ;line"]
        for pos in range(1, len(zoo)):
            if zoo[pos - 1].rstrip().endswith("\\"):
                continue
            for oi, o in enumerate(OPTSETS):
                if not thorough and (pos + oi) % 2:
                    continue
                text = "\n".join(zoo[:pos] + ["/* *INDENT-OFF* */"] + zbody + ["/* *INDENT-ON* */"] + zoo[pos:]) + "\n"
                p = sc.write(text, ".c")
                meta = {"text": text, "body": zbody, "off": OFF, "on": ON, "opts": dict(o), "marker": "comment", "unterminated": False}
                jobs.append(pipeline.Job("zoo%d-%d" % (pos, oi), sc.cfg(None, dict(o)), p, "C", meta))
        ctx.log("runs:", len(jobs))
        pipeline.run_jobs(exe, jobs)
        for j in jobs:
            ctx.count("rc:%s" % j.res["rc"])
            ctx.count("marker:" + j.meta["marker"])
        good = pipeline.render_check(ctx, jobs, "C07-render")

        # monitor H-region on the chunk list handed to output_text()
        mbad = 0
        for j in good:
            chunks = [unc.parse_chunk(c) for c in j.chunks]
            texts = ["".join(chr(x) for x in c["txt"]) for c in chunks]
            a = next((i for i, t in enumerate(texts) if j.meta["off"].strip() in t), None)
            if a is None:
                continue
            want = [l for l in j.meta["body"] if l.strip(" \t")]
            got = []
            for c, t in zip(chunks[a + 1:], texts[a + 1:]):
                if c["t"] == "IGNORED":
                    if t.strip(" \t"):
                        got.append(t)
                elif c["t"] == "NEWLINE":
                    continue
                else:
                    break
            if got[:len(want)] != want:
                mbad += 1
                if mbad <= 2:
                    ctx.violation("monitor H-region: chunk list between the markers is not the list of input lines (run %s)" % j.name,
                                  _replay(j), found_input=False)
        ctx.oblige("monitor H-region (region = IGNORED/NEWLINE chunks holding the input lines) on %d runs" % len(good), mbad == 0, "monitor")

        obad = 0
        for idx, j in enumerate(jobs):
            if j.res["rc"] != 0:
                continue
            out = j.res["out"].decode("utf-8", "replace").replace("\r\n", "\n")
            ob, before, after = region_of(out, j.meta["off"], j.meta["on"])
            why = compare_region(j.meta["body"], ob)
            if why:
                key = None
                if why.startswith("blank lines directly after the disable marker"):
                    key = {"kind": "blank-lines-after-disable-marker"}
                elif why.startswith("blank lines at the end of the region") and j.meta["unterminated"]:
                    key = {"kind": "eof-blank-lines-of-unterminated-region"}
                elif why.startswith("a brace was appended to region line"):
                    key = {"kind": "brace-appended-to-region-line"}
                elif "whitespace-only region line rewritten" in why:
                    key = {"kind": "region-blank-rewritten"}
                elif why.startswith("non-blank region lines added") and j.meta["opts"].get("mod_case_brace") in ("add", "force"):
                    m = re.search(r"\((\d+) -> (\d+)\)", why)
                    if m and int(m.group(2)) > int(m.group(1)):
                        key = {"kind": "case-brace-inserted-inside-region"}
                elif why.startswith("blank lines at the end of the region") and str(j.meta["opts"].get("nl_remove_extra_newlines", 0)) in ("1", "2"):
                    key = {"kind": "region-blank-lines-removed", "opt": "nl_remove_extra_newlines"}
                if ctx.violation("%s [run %s, marker %s]" % (why, j.name, j.meta["marker"]), _replay(j), key=key, found_input=True):
                    obad += 1
            tw = j.meta.get("twin_of")
            if tw is not None and jobs[tw].res["rc"] == 0 and ob is not None:
                o2 = jobs[tw].res["out"].decode("utf-8", "replace").replace("\r\n", "\n")
                ob2, before2, after2 = region_of(o2, j.meta["off"], j.meta["on"])
                if ob2 is not None and (before != before2 or after != after2):
                    k2 = {"kind": "region-not-opaque"}
                    if before == before2 and after[1:] == after2[1:] and after and after2 and after[0].strip() == after2[0].strip():
                        k2 = {"kind": "enable-marker-line-indent"}
                    if ctx.violation("replacing the region body (same number of lines) changes the output outside the region [run %s]" % j.name,
                                     dict(_replay(j), other_body=jobs[tw].meta["body"]), key=k2, found_input=True):
                        obad += 1
        ctx.oblige("direct oracle: region bytes preserved, region opaque, on %d runs" % len(jobs), obad == 0, "oracle", "%d failures" % obad)
        if jobs:
            ctx.sample({"input": jobs[0].meta["text"][:600], "options": jobs[0].meta["opts"]})
    finally:
        sc.close()


def _replay(j):
    return {"input_text": j.meta["text"], "options": j.meta["opts"], "lang": j.lang,
            "how": "write input_text to a file, options as name=value lines to a cfg; uncrustify -q -c cfg -l LANG -f file"}
