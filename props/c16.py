"""C16 -- bad configuration lines are diagnosed and have no other effect.  DESIGN.md section 6/C16.

Proof:  UncModel/Props/C16.lean over UncModel/Config.lean and the generated registry.
Tie:    CLI-level correspondence (as C15) on configurations dominated by bad lines, malformed texts,
        include cycles, nl_max conflicts.
Oracle: (real binary only) no crash / hang on any text; every line the binary complains about can be deleted
        without changing the dump (the line was inert); a bound violation for every bounded option of the registry
        is diagnosed with file, line and option; an nl_max conflict exits 78 before the source file is opened.
"""
import os
import re
import subprocess

from vlib import common, cfgcheck as cc


def run(ctx):
    ctx.cov["rule"] = ("one case = one configuration text (plus included files / --set arguments) processed by the real "
                       "binary (`--update-config`) and by the Lean model; equal = same exit status, same diagnostics in the "
                       "same order (class, file, line, option named, text echoed), same dump; oracle cases = one real run "
                       "(or one pair of runs: with and without the diagnosed lines)")
    ctx.trusted += ["hand-written model UncModel/Config.lean of option.cpp / keywords.cpp / language_names.cpp / main()",
                    "translators T-opt, T-enum, T-nlmax, T-lang, T-compat (fail loudly on unparsed sources)",
                    "python: stderr parser and generators in vlib/cfgcheck.py"]
    ctx.assumptions += ["char is signed (x86-64); \"C\" locale", "`using` components in 0..1023 (no int overflow in option_level)",
                        "include paths are ASCII and name files literally in compared cases",
                        "--find_deprecated not given",
                        "crash/hang freedom of the real loader is explored (timeouts), not proved: Lean totality is about the model"]
    exe = common.build_repo(hooks=True)
    tabs = cc.regenerate(ctx)
    if tabs is None:
        return
    ctx.lean_obligations()
    T = cc.Tables(tabs)
    R = cc.Runner(exe)
    M = cc.Model()
    try:
        _run(ctx, T, R, M)
    finally:
        R.close()


def _corr(ctx, R, M, cases, baseline, name, real=None, oblige=True):
    if real is None:
        real = R.run_many(cases)
    ans = M.run(cases)
    bad = 0
    for c, a, r in zip(cases, ans, real):
        ctx.case(c.request(), nontrivial=bool(c.files.get(c.main)))
        d = cc.compare(ctx, c, a, r, baseline, name)
        if d is not None:
            bad += 1
            if bad <= 3:
                crashed = r[0] is None or r[0] < 0
                ctx.violation("%s: %s" % (name, d), dict(c.replay(), model=str(a)[:2000], real_rc=r[0],
                                                         real_stderr=r[2].decode("latin1")[-1500:]),
                              key=None, found_input=crashed)
    if not oblige:
        return real, bad
    ctx.oblige("correspondence %s: model = real binary on %d configurations" % (name, len(cases)), bad == 0, "corr",
               "%d mismatches" % bad)
    return real


def _no_crash(ctx, cases, real, name, oblige=True):
    bad = 0
    for c, r in zip(cases, real):
        if r[0] is None or r[0] < 0:
            bad += 1
            if bad <= 3:
                ctx.violation("%s: the loader %s on a configuration text" % (name, "hangs (timeout)" if r[0] is None else "dies with signal %d" % -r[0]),
                              dict(c.replay(), stderr=r[2].decode("latin1")[-800:]), key=None, found_input=True)
    if not oblige:
        return bad
    ctx.oblige("oracle %s: no crash, no hang (%d texts)" % (name, len(cases)), bad == 0, "oracle", "%d failures" % bad)


def _inert(ctx, R, cases, real, name, oblige=True):
    """delete every line of main.cfg that the binary complained about: the dump must not change"""
    jobs = []
    for c, r in zip(cases, real):
        if r[0] != 0 or len(c.files) != 1:
            continue
        diags, bad = cc.parse_stderr(r[2])
        lines = sorted({d[2] for d in diags if d[1] == c.main and d[2] > 0 and d[0] != "deprecated"})
        if not lines:
            continue
        src = c.files[c.main].split(b"\n")
        keep = [ln if (i + 1) not in lines else b"" for i, ln in enumerate(src)]   # keep the line numbering
        jobs.append((c, r, lines, cc.Case({c.main: b"\n".join(keep)}, sets=c.sets, tag="without-bad-lines")))
    res = R.run_many([j[3] for j in jobs])
    badn = 0
    for (c, r, lines, c2), r2 in zip(jobs, res):
        ctx.case(b"inert:" + c.request().encode(), nontrivial=True)
        why = None
        if r2[0] != 0:
            why = "exit status %s without the diagnosed lines" % r2[0]
        elif cc.strip_version(r2[1]) != cc.strip_version(r[1]):
            a, b = r[1].split(b"\n"), r2[1].split(b"\n")
            k = next((i for i, (x, y) in enumerate(zip(a, b)) if x != y), min(len(a), len(b)))
            why = "dump differs at line %d: with the bad lines %r, without %r" % (k + 1, a[k:k + 1], b[k:k + 1])
        elif cc.parse_stderr(r2[2])[0] and any(d[0] != "deprecated" for d in cc.parse_stderr(r2[2])[0]):
            why = "still diagnostics after deleting the diagnosed lines: %r" % r2[2][:200]
        if why:
            badn += 1
            if badn <= 3:
                ctx.violation("%s: a diagnosed line is not inert: %s" % (name, why),
                              dict(c.replay(), diagnosed_lines=lines,
                                   how="run argv; blank the listed lines of main.cfg; run again; compare the two dumps"),
                              key=None, found_input=True)
    if not oblige:
        return len(jobs), badn
    ctx.oblige("oracle %s: deleting every diagnosed line leaves the dump unchanged (%d configurations)" % (name, len(jobs)),
               badn == 0, "oracle", "%d failures" % badn)


def _bounds_exhaustive(ctx, T, R, baseline_full):
    """for EVERY bounded option: min-1 and max+1 are diagnosed (file, line, option) and change nothing;
    min and max are accepted silently"""
    bounded = [o for o in T.opts if o["bounded"]]
    cfg_out, cfg_in = [], []
    for o in bounded:
        cfg_out.append(o["name"].encode() + b" = " + str(o["lo"] - 1).encode())
        cfg_out.append(o["name"].encode() + b" = " + str(o["hi"] + 1).encode())
    res = R.run(cc.Case({b"main.cfg": b"\n".join(cfg_out) + b"\n"}))
    diags, bad = cc.parse_stderr(res[2])
    problems = []
    if res[0] != 0 or bad:
        problems.append("rc=%s unparsed=%r" % (res[0], bad[:2]))
    by_line = {}
    for d in diags:
        by_line.setdefault(d[2], []).append(d)
    for k, o in enumerate(bounded):
        for off, kind, val in ((1, "less-than-min", o["lo"] - 1), (2, "greater-than-max", o["hi"] + 1)):
            ln = 2 * k + off
            ds = by_line.get(ln, [])
            ctx.case("bound:%s:%s" % (o["name"], kind))
            if not any(d[0] == kind and d[1] == b"main.cfg" and d[3] == o["name"].encode() and d[4] == str(val).encode() for d in ds):
                problems.append("%s=%d: no `%s` diagnostic naming main.cfg:%d and the option (got %r)" % (o["name"], val, kind, ln, ds))
    if res[0] == 0 and cc.strip_version(res[1]) != baseline_full:
        problems.append("the dump differs from the default dump although every line was out of range")
    for p in problems[:3]:
        ctx.violation("bounds: " + p, {"config": (b"\n".join(cfg_out)).decode()[:3000], "argv": "uncrustify -c main.cfg --update-config"},
                      key=None, found_input=True)
    ctx.oblige("oracle: min-1 and max+1 diagnosed with file/line/option and inert for all %d bounded options" % len(bounded),
               not problems, "oracle", problems[:5])
    # accepted at the bounds (nl_max kept at 0 so that the guard does not fire)
    probs2 = []
    for which in ("lo", "hi"):
        lines = [o["name"].encode() + b" = " + str(o[which]).encode() for o in bounded if o["name"] != "nl_max"]
        res = R.run(cc.Case({b"main.cfg": b"\n".join(lines) + b"\n"}))
        ctx.case("bound-accept:" + which)
        if res[0] not in (0, 78) or res[2].strip():
            probs2.append("%s: rc=%s stderr=%r" % (which, res[0], res[2][:300]))
        elif res[0] == 0:
            body = cc.strip_version(res[1]).split(b"\n")
            vals = {}
            for ln in body:
                m = re.match(rb"^(\w+)\s+= (-?\d+)$", ln)
                if m:
                    vals[m.group(1).decode()] = int(m.group(2))
            for o in bounded:
                if o["name"] != "nl_max" and vals.get(o["name"]) != o[which]:
                    probs2.append("%s = %d (its %s) was not stored: dump has %r" % (o["name"], o[which], which, vals.get(o["name"])))
    for p in probs2[:3]:
        ctx.violation("bounds: " + p, {"argv": "uncrustify -c main.cfg --update-config"}, key=None, found_input=True)
    ctx.oblige("oracle: min and max accepted silently for all bounded options", not probs2, "oracle", probs2[:5])


def _malformed(ctx, T, R, M, baseline, n):
    rng = ctx.rng
    cases = []
    compare = []
    for k in range(n):
        kind = rng.choice(["random-bytes", "random-ascii", "long-line", "non-ascii", "unterminated", "nul", "mutated", "mutated",
                           "backslash-end", "many-args", "cr-only", "quotes"])
        ctx.count("malformed:" + kind)
        cmp_ok = True
        if kind == "random-bytes":
            txt = bytes(rng.randrange(256) for _ in range(rng.choice([1, 5, 40, 300])))
        elif kind == "random-ascii":
            txt = bytes(rng.choice(b"abc_=, \t\"'`\\#\n\n019-~!.") for _ in range(rng.choice([5, 40, 300])))
        elif kind == "long-line":
            o = rng.choice(T.opts)
            big = rng.choice([5000, 70000, 300000])
            txt = rng.choice([o["name"].encode() + b" = " + b"9" * big,
                              b"a" * big + b" = 1",
                              o["name"].encode() + b" " * big + b"= 1",
                              b"type " + b" x" * (big // 2),
                              b"cmt_insert_file_header = \"" + b"q" * big + b"\"",
                              b"# " + b"c" * big]) + b"\n"
        elif kind == "non-ascii":
            o = rng.choice(T.opts)
            txt = rng.choice([b"caf\xc3\xa9 = 1\n", o["name"].encode() + b" = \xff\n", b"# \xe9 comment\nindent_columns=3\n",
                              b"type a#\xc3\xa9\n", b"cmt_insert_file_header = \"x#\xe9\"\n", b"indent_columns = 2 # \xe9\n",
                              b"\xef\xbb\xbfindent_columns = 2\n", b"cmt_insert_file_header = \"\xe9#\"\n"])
        elif kind == "unterminated":
            o = rng.choice(T.opts)
            txt = rng.choice([o["name"].encode() + b" = \"abc\n", o["name"].encode() + b" = 'abc\"\n", b"type \"a b\nindent_columns=3\n",
                              o["name"].encode() + b" = `x\\`\n", b"\"\n", b"'", b"type \"a\"b\n", o["name"].encode() + b"=\"1\"2\n"])
        elif kind == "nul":
            o = rng.choice(T.opts)
            txt = rng.choice([b"indent_columns\0 = 3\n", b"indent_columns = 3\0x\n", b"\0\n", b"type a\0b c\n", b"\0abc\0 = 1\n",
                              o["name"].encode() + b" = \0\n", b"type \0", b"sp_arith = add\0", b"\0\\"])
        elif kind == "mutated":
            lines = T.mixed_config(rng, rng.randrange(3, 30), 0.5)
            raw = bytearray(b"\n".join(lines) + b"\n")
            for _ in range(rng.randrange(1, 6)):
                if not raw:
                    break
                p = rng.randrange(len(raw))
                m = rng.randrange(4)
                if m == 0:
                    raw[p] = rng.choice(b"\"'`\\#=, \n\t\0") if rng.random() < 0.8 else rng.randrange(256)
                elif m == 1:
                    del raw[p]
                elif m == 2:
                    raw[p:p] = bytes([rng.choice(b"\"'`\\#=, \n")])
                else:
                    raw = raw[:p]
            txt = bytes(raw)
        elif kind == "backslash-end":
            txt = rng.choice([b"indent_columns = 3\\\n", b"type a\\", b"type \"a\\\n", b"\\\n", b"indent_columns\\ = 3\n", b"a\\=b c\n"])
        elif kind == "many-args":
            txt = b"type " + b" ".join(b"t%d" % i for i in range(rng.choice([10, 1000]))) + b"\nfile_ext CPP " + \
                  b" ".join(b".e%d" % i for i in range(rng.choice([10, 500]))) + b"\n"
        elif kind == "cr-only":
            txt = b"indent_columns=3\rindent_with_tabs=1\rtype a\r"
        else:
            txt = rng.choice([b"type \"\" '' ``\n", b"type \"a\\\"b\" 'c\\'d'\n", b"cmt_insert_file_header=\"\"\n", b"type 'a\"b'\n",
                              b"set BOOL \"#\"\n", b"type \"a\" \"b\"#c\n"])
        cases.append(cc.Case({b"main.cfg": txt}, tag="malformed:" + kind))
        compare.append(cmp_ok)
    real = R.run_many(cases)
    crashes = _no_crash(ctx, cases, real, "malformed texts", oblige=False)
    _, bad = _corr(ctx, R, M, cases, baseline, "malformed texts", real=real, oblige=False)
    return len(cases), crashes, bad


def _includes(ctx, T, R, M, baseline):
    rng = ctx.rng
    cases = [
        cc.Case({b"main.cfg": b"include main.cfg\n"}, tag="include-self"),
        cc.Case({b"main.cfg": b"indent_columns=3\ninclude main.cfg\nindent_columns=5\n"}, tag="include-self-2"),
        cc.Case({b"main.cfg": b"include a.cfg\n", b"a.cfg": b"include b.cfg\n", b"b.cfg": b"include main.cfg\nindent_columns=2\n"}, tag="include-cycle-3"),
        cc.Case({b"main.cfg": b"include sub/a.cfg\n", b"sub/a.cfg": b"include a.cfg\n"}, tag="include-cycle-subdir"),
        cc.Case({b"main.cfg": b"include main.cfg\ninclude main.cfg\ninclude main.cfg\n"}, tag="include-self-x3"),
        cc.Case({b"main.cfg": b"include nosuch.cfg\nindent_columns=3\n"}, tag="include-missing"),
        cc.Case({b"main.cfg": b"include \"\"\ninclude\nindent_columns=3\n"}, tag="include-empty"),
        cc.Case({b"main.cfg": b"include inc.cfg\nindent_columns=nosuch\n",
                 b"inc.cfg": b"\n\nindent_columns = 99\nsp_arith = bogus\nnosuch = 1\n"}, tag="include-diag-file"),
        cc.Case({b"main.cfg": b"using 0.80\ninclude inc.cfg\nsp_word_brace=add\n", b"inc.cfg": b"sp_word_brace=add\nusing 0.60\nsp_word_brace=add\n"},
                tag="include-compat-scope"),
    ]
    # a chain exactly as deep as allowed, and one deeper
    for depth in (15, 16, 17):
        files = {b"main.cfg": b"include f1.cfg\nindent_columns=7\n"}
        for i in range(1, depth + 1):
            files[b"f%d.cfg" % i] = (b"include f%d.cfg\n" % (i + 1) if i < depth else b"") + b"input_tab_size=%d\n" % (i + 1)
        cases.append(cc.Case(files, tag="include-chain-%d" % depth))
    # aliases of the same file: only crash/hang matter (the model names files literally)
    alias = [
        cc.Case({b"main.cfg": b"include ./main.cfg\n"}, tag="include-alias-dot"),
        cc.Case({b"main.cfg": b"include sub/../main.cfg\n", b"sub/x": b""}, tag="include-alias-dotdot"),
        cc.Case({b"main.cfg": b"include ./main.cfg\ninclude ./main.cfg\n"}, tag="include-alias-x2"),
    ]
    real = R.run_many(cases + alias)
    _no_crash(ctx, cases + alias, real, "include cycles / chains")
    _corr(ctx, R, M, cases, baseline, "include cycles / chains / diagnostics in included files", real=real[:len(cases)])
    # the diagnostic for a bad value inside an included file names that file
    r = real[7]
    diags, _ = cc.parse_stderr(r[2])
    want = {("greater-than-max", b"inc.cfg", 3), ("unexpected-value", b"inc.cfg", 4), ("unknown-option", b"inc.cfg", 5),
            ("unexpected-value", b"main.cfg", 2)}
    got = {(d[0], d[1], d[2]) for d in diags}
    ctx.case("include-diag-file")
    if not want <= got:
        ctx.violation("a bad line in an included file is not diagnosed with that file's name and line: missing %r (got %r)"
                      % (sorted(want - got), sorted(got)), cases[7].replay(), key=None, found_input=True)
    ctx.oblige("oracle: diagnostics for lines of an included file name that file and line", want <= got, "oracle")
    # the same with the included file named by an absolute path, by a relative path and through a sub-directory: after the
    # include the diagnostics of the including file must again carry ITS name and ITS line numbers
    inc = b"\n\n\nsp_arith = bogus\n\n"
    abs_cases = []
    for how, line in (("absolute", b"include @ABS@/inc.cfg"), ("absolute-quoted", b'include "@ABS@/sub/inc.cfg"'),
                      ("relative", b"include inc.cfg"), ("subdir", b"include sub/inc.cfg")):
        abs_cases.append(cc.Case({b"main.cfg": b"indent_columns=3\n" + line + b"\nindent_columns=nosuch\nnosuch_option=1\n\nsp_assign=12\n",
                                  b"inc.cfg": inc, b"sub/inc.cfg": inc}, tag="include-then-bad-lines:" + how))
    areal = R.run_many(abs_cases)
    abad = 0
    for c, r in zip(abs_cases, areal):
        diags, _ = cc.parse_stderr(r[2])
        got = {(d[0], os.path.basename(d[1]), d[2]) for d in diags}
        want = {("unexpected-value", b"inc.cfg", 4), ("unexpected-value", b"main.cfg", 3), ("unknown-option", b"main.cfg", 4),
                ("unexpected-value", b"main.cfg", 6)}
        ctx.case(c.tag)
        if not want <= got:
            abad += 1
            ctx.violation("%s: after the include the bad lines of the including file are not diagnosed with its name and line: missing %r (got %r)"
                          % (c.tag, sorted(want - got), sorted(got)), c.replay(), key=None, found_input=True)
    ctx.oblige("oracle: file name and line number are restored after an include (absolute, quoted, relative, sub-directory)", abad == 0, "oracle")


def _nlmax(ctx, T, R, M, baseline):
    rng = ctx.rng
    cases = []
    by = T.by_name
    for g in T.guarded:
        o = by[g]
        k = rng.randint(max(1, o["lo"]), max(1, min(o["hi"] - 1, 10)))
        if k + 1 > o["hi"]:
            continue
        line = b"%s = %d\n" % (g.encode(), k + 1)
        cases.append(cc.Case({b"main.cfg": b"nl_max = %d\n" % k + line}, tag="nlmax-cfg:" + g))
        cases.append(cc.Case({b"main.cfg": line + b"nl_max = %d\n" % k}, tag="nlmax-cfg-rev:" + g))
        cases.append(cc.Case({b"main.cfg": line}, sets=[b"nl_max=%d" % k], tag="nlmax-set:" + g))
        cases.append(cc.Case({b"main.cfg": b"nl_max = %d\n" % k}, sets=[b"%s=%d" % (g.encode(), k + 1)], tag="nlmax-set2:" + g))
        cases.append(cc.Case({b"main.cfg": b"nl_max = %d\n%s = %d\n" % (k + 1, g.encode(), k + 1)}, tag="nlmax-equal:" + g))
        cases.append(cc.Case({b"main.cfg": b"nl_max = 0\n" + line}, tag="nlmax-off:" + g))
    real = _corr(ctx, R, M, cases, baseline, "nl_max guard (every guarded option, via file and via --set)")
    # direct oracle: conflicting cases exit 78, and do so before the source file is opened
    bad = 0
    for c, r in zip(cases, real):
        conflict = not c.tag.startswith(("nlmax-equal", "nlmax-off"))
        ctx.case("nlmax:" + c.tag)
        if (r[0] == 78) != conflict:
            bad += 1
            if bad <= 3:
                ctx.violation("nl_max guard: %s exits with %s (expected %s)" % (c.tag, r[0], "78" if conflict else "0"),
                              c.replay(), key=None, found_input=True)
    ctx.oblige("oracle: every guarded option above nl_max>0 is refused with exit 78 (file and --set); equal / nl_max=0 accepted (%d runs)"
               % len(cases), bad == 0, "oracle", "%d failures" % bad)
    # before any source is read: the named source does not exist, still exit 78 and no message about the source
    probs = []
    for c in cases[:12]:
        if c.tag.startswith(("nlmax-equal", "nlmax-off")):
            continue
        r = R.run(c, extra=("-f", "does-not-exist.c"))
        ctx.case("nlmax-before-read:" + c.tag)
        if r[0] != 78 or b"does-not-exist" in r[2] + r[1]:
            probs.append((c.tag, r[0], r[2][:200]))
    for p in probs[:2]:
        ctx.violation("nl_max conflict is not refused before the source is read: %r" % (p,), {"tag": p[0]}, key=None, found_input=True)
    ctx.oblige("oracle: the nl_max refusal happens before the source file is opened", not probs, "oracle", probs[:3])


def _run(ctx, T, R, M):
    rng = ctx.rng
    thorough = ctx.tier == "thorough"
    base_out = R.run(cc.Case({b"main.cfg": b""}))
    ctx.oblige("real binary dumps the default configuration", base_out[0] == 0, "corr", base_out[2][-300:])
    baseline = cc.strip_version(base_out[1])

    # --- (1) every option x (mostly bad) value classes; in batches to bound memory
    nall = 800 if thorough else 100
    tot = [0, 0, 0, 0, 0]        # cases, corr mismatches, crashes, inert jobs, inert failures
    for b0 in range(0, nall, 100):
        cases = []
        for k in range(b0, min(nall, b0 + 100)):
            lines, hist = T.all_options_config(rng, 0.3, ctx.seed * 5 + k)
            for h, n in hist.items():
                ctx.count("class:" + h, n)
            # keep nl_max at its default so that the dump is produced
            lines = [ln for ln in lines if not re.match(rb"^\s*nl_max\b", ln, re.I)]
            cases.append(cc.Case({b"main.cfg": cc.join_lines(rng, lines)}, tag="all-options-bad"))
        if b0 == 0:
            ctx.sample({"all_options_bad_head": cases[0].files[b"main.cfg"][:400].decode("latin1")})
        real, bad = _corr(ctx, R, M, cases, baseline, "all options x bad value classes", oblige=False)
        cr = _no_crash(ctx, cases, real, "all options x bad value classes", oblige=False)
        nj, nb = _inert(ctx, R, cases, real, "all-options", oblige=False)
        tot = [tot[0] + len(cases), tot[1] + bad, tot[2] + cr, tot[3] + nj, tot[4] + nb]
    ctx.oblige("correspondence all options x bad value classes: model = real binary on %d configurations" % tot[0],
               tot[1] == 0, "corr", "%d mismatches" % tot[1])
    ctx.oblige("oracle all options x bad value classes: no crash, no hang (%d texts)" % tot[0], tot[2] == 0, "oracle",
               "%d failures" % tot[2])
    ctx.oblige("oracle all-options: deleting every diagnosed line leaves the dump unchanged (%d configurations)" % tot[3],
               tot[4] == 0, "oracle", "%d failures" % tot[4])

    # --- (2) bounds, exhaustive over the registry
    _bounds_exhaustive(ctx, T, R, baseline)

    # --- (3) random configurations dominated by bad lines and bad directives
    nmix = 12000 if thorough else 1500
    tot = [0, 0, 0, 0, 0]
    for b0 in range(0, nmix, 500):
        cases = []
        for k in range(b0, min(nmix, b0 + 500)):
            lines = T.mixed_config(rng, rng.choice([1, 3, 10, 40]), 0.35)
            lines = [ln for ln in lines if not re.match(rb"^\s*nl_max\b", ln, re.I)]
            cases.append(cc.Case({b"main.cfg": cc.join_lines(rng, lines)}, tag="mixed-bad"))
        real, bad = _corr(ctx, R, M, cases, baseline, "random configurations with bad lines", oblige=False)
        cr = _no_crash(ctx, cases, real, "random configurations with bad lines", oblige=False)
        nj, nb = _inert(ctx, R, cases, real, "mixed", oblige=False)
        tot = [tot[0] + len(cases), tot[1] + bad, tot[2] + cr, tot[3] + nj, tot[4] + nb]
    ctx.oblige("correspondence random configurations with bad lines: model = real binary on %d configurations" % tot[0],
               tot[1] == 0, "corr", "%d mismatches" % tot[1])
    ctx.oblige("oracle random configurations with bad lines: no crash, no hang (%d texts)" % tot[0], tot[2] == 0, "oracle",
               "%d failures" % tot[2])
    ctx.oblige("oracle mixed: deleting every diagnosed line leaves the dump unchanged (%d configurations)" % tot[3],
               tot[4] == 0, "oracle", "%d failures" % tot[4])

    # --- (4) malformed texts, include cycles, nl_max
    nmal = 12000 if thorough else 1500
    tot = [0, 0, 0]
    for b0 in range(0, nmal, 500):
        n, cr, bad = _malformed(ctx, T, R, M, baseline, min(500, nmal - b0))
        tot = [tot[0] + n, tot[1] + cr, tot[2] + bad]
    ctx.oblige("oracle malformed texts: no crash, no hang (%d texts)" % tot[0], tot[1] == 0, "oracle", "%d failures" % tot[1])
    ctx.oblige("correspondence malformed texts: model = real binary on %d configurations" % tot[0], tot[2] == 0, "corr",
               "%d mismatches" % tot[2])
    _includes(ctx, T, R, M, baseline)
    _nlmax(ctx, T, R, M, baseline)
