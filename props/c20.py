"""C20 -- blank-line limits.  DESIGN.md section 6/C20.

Proof:  Props/C20.lean over the write inventory of do_blank_lines() regenerated from the source (T-blank) and the
        guard list of too_big_for_nl_max() (T-nlmax): shape of the inventory, cap for every visited chunk and for the
        whole pass under every outcome of the unmodelled guards, coverage of the inventory's options by the
        configuration guard, eat_blanks (can_increase_nl model), cleanup_dup, start/end of file (EatSE), and the output
        stage (a NEWLINE chunk writes exactly nl_count terminators, Props/Render.lean).
Tie:    hook H6 records every visited newline chunk of do_blank_lines() and every SetNlCount() made while the pass
        runs; the Lean driver must explain each recorded write, in order, by an entry of the regenerated inventory and
        reproduce the final count (`blank.visit`); can_increase_nl model vs the recorded outcome; Render model
        reproduces the bytes of every run; eatEdge model vs the real count of line breaks at both file edges.
Monitor (hypothesis of the pipeline statement, delivered by passes that are not modelled): in the chunk list handed to
        output_text() every NEWLINE chunk outside disabled regions has nl_count <= nl_max and no two NEWLINE chunks are
        adjacent.
Oracle: runs of line breaks counted on the real op trace / real bytes of the output; blank lines next to braces.
"""
import os
import re

from translators import t_blank, t_nlmax
from translators.t_opt import TranslateError
from vlib import common, gen, optreg, pipeline, unc

IARF = {"ignore": 0, "add": 1, "remove": 2, "force": 3}
COMMENT_T = {"COMMENT", "COMMENT_MULTI", "COMMENT_CPP", "COMMENT_ENDIF", "COMMENT_CPP_ENDIF", "COMMENT_EMBED", "COMMENT_START",
             "COMMENT_END", "COMMENT_WHOLE"}
FUNC_P = {"FUNC_DEF", "FUNC_CLASS_DEF"}
NOT_COUNT = {"nl_max", "nl_oc_msg_args_min_params", "nl_oc_msg_args_max_code_width", "nl_remove_extra_newlines",
             "nl_start_of_file_min", "nl_end_of_file_min"}


def count_options():
    reg = optreg.registry()
    return sorted(k for k, v in reg.items() if v["kind"] == "unum" and k.startswith("nl_") and k not in NOT_COUNT)


def inject_blank_lines(rng, txt, prob):
    out = []
    for ln in txt.split("\n"):
        out.append(ln)
        if rng.random() < prob and not ln.rstrip().endswith("\\"):
            out += [rng.choice(["", "", "", "  ", "\t"])] * rng.randrange(1, 7)
    return "\n".join(out)


CLASSY = """
namespace ns%(k)d {
class K%(k)d : public Base {
public:
   K%(k)d();
   ~K%(k)d() {}
   int get() const { return v; }
   void set(int x);
private:
   int v;
   struct In { int a; int b; };
};
struct S%(k)d { int a; };
enum E%(k)d { A%(k)d, B%(k)d };
void proto%(k)d(int);
void proto%(k)db(int);
}
void K%(k)d::set(int x)
{
   try { v = x; } catch (...) { v = 0; }
   if (x) { v++; }
}
void empty%(k)d()
{
}
"""


NESTED = """
namespace outer%(k)d {
namespace inner%(k)d {
int a%(k)d;
}
namespace second%(k)d {
int b%(k)d;
}
}
"""

REGION = """
int before%(k)d;
/* *INDENT-OFF* */
int   kept%(k)d  =  1;


int   also%(k)d;
/* *INDENT-ON* */
int after%(k)d;
"""


def make_input(rng, lang, ctx):
    lines, txt = gen.program(rng, lang, stats=ctx.hist,
                             layout={"indent": "random", "gaps": "random", "trailing": 0.1, "blanklines": 0.25})
    if lang == "CPP" and rng.random() < 0.7:
        txt += CLASSY % {"k": rng.randrange(100)}
    if lang == "CPP" and rng.random() < 0.3:
        txt += NESTED % {"k": rng.randrange(100)}
    if rng.random() < 0.25:
        txt += REGION % {"k": rng.randrange(100)}
    if rng.random() < 0.3:
        txt = "#ifndef GUARD_H\n#define GUARD_H\n" + txt + "\n#endif\n"
    txt = inject_blank_lines(rng, txt, 0.25)
    k = rng.random()
    if k < 0.25:
        txt = txt.rstrip("\n")
    elif k < 0.6:
        txt = txt.rstrip("\n") + "\n" * rng.randrange(1, 7)
    if rng.random() < 0.35:
        txt = "\n" * rng.randrange(1, 6) + txt
    return txt


def draw_opts(rng, counts, thorough):
    n = rng.choice([1, 1, 2, 2, 3, 4, 0]) if rng.random() < 0.9 else rng.choice([5, 8, 16])
    o = {"nl_max": n}
    cap = n if n > 0 else 4
    for c in counts:
        if rng.random() < 0.22:
            o[c] = rng.randrange(0, cap + 1)
    o["eat_blanks_after_open_brace"] = rng.choice(["true", "false"])
    o["eat_blanks_before_close_brace"] = rng.choice(["true", "false"])
    o["nl_start_of_file"] = rng.choice(["ignore", "ignore", "add", "remove", "force"])
    o["nl_end_of_file"] = rng.choice(["ignore", "add", "remove", "force"])
    o["nl_start_of_file_min"] = rng.randrange(0, cap + 1)
    o["nl_end_of_file_min"] = rng.randrange(0, cap + 1)
    if rng.random() < 0.25:
        o["nl_squeeze_ifdef"] = "true"
    if rng.random() < 0.2:
        o["nl_remove_extra_newlines"] = rng.choice([0, 1, 2])
    if rng.random() < 0.3:
        for k in ("nl_before_if", "nl_after_if", "nl_before_for", "nl_after_for", "nl_before_while", "nl_after_while",
                  "nl_before_switch", "nl_after_switch", "nl_before_do", "nl_after_do", "nl_before_return", "nl_after_return"):
            if rng.random() < 0.4:
                o[k] = rng.choice(["ignore", "add", "remove", "force"]) if not k.endswith("return") else rng.choice(["true", "false"])
    if rng.random() < 0.2:
        o["code_width"] = rng.choice([40, 60, 80])
    if rng.random() < 0.2:
        o["nl_after_multiline_comment"] = "true"
    if rng.random() < 0.2:
        o["nl_func_var_def_blk"] = rng.randrange(0, cap + 1)
    return o


def blank_blocks(trace):
    """[[(BV fields, [BW fields])]] per do_blank_lines() call"""
    blocks, cur = [], None
    for ln in trace:
        if ln.startswith("BLBEGIN"):
            cur = []
        elif ln.startswith("BLEND"):
            if cur is not None:
                blocks.append(cur)
            cur = None
        elif cur is not None and ln.startswith("BV "):
            cur.append((unc.fields(ln), []))
        elif cur is not None and ln.startswith("BW ") and cur:
            cur[-1][1].append(unc.fields(ln))
    return blocks


def caninc_request(bv, vals):
    f = bv
    b = lambda x: "1" if x else "0"
    return ("blank.caninc nsn=%s nsef=%s nbn=%s eao=%s ebc=%s sof=%s eof=%s pbo=%s pbc=%s nbc=%s ppn=%s npn=%s ppf=%s npf=%s head=%s tail=%s"
            % (vals.get("nl_inside_namespace", "0"), vals.get("nl_inside_empty_func", "0"), vals.get("nl_before_namespace", "0"),
               b(vals.get("eat_blanks_after_open_brace") == "true"), b(vals.get("eat_blanks_before_close_brace") == "true"),
               IARF.get(vals.get("nl_start_of_file", "ignore"), 0), IARF.get(vals.get("nl_end_of_file", "ignore"), 0),
               b(f["pv"] == "BRACE_OPEN"), b(f["pv"] == "BRACE_CLOSE"), b(f["nx"] == "BRACE_CLOSE"),
               b(f["pvp"] == "NAMESPACE"), b(f["nxp"] == "NAMESPACE"), b(f["pvp"] in FUNC_P), b(f["nxp"] in FUNC_P),
               f["head"], f["tail"]))


def run(ctx):
    ctx.cov["rule"] = ("one case = one run of the hook build on a generated program (C, C++ with classes/namespaces/prototypes, Java; 1-6 blank "
                       "lines injected at random line boundaries, at the start and at the end of the file) or a corpus input, under a draw of "
                       "nl_max, blank-line count options <= nl_max, eat_blanks_*, nl_start/end_of_file(+_min); distinct = distinct (input, "
                       "option draw); non-trivial = exit 0 and at least one newline chunk visited by do_blank_lines()")
    ctx.trusted += ["translators T-blank (statement parser over do_blank_lines) and T-nlmax", "hand-written models Blank.lean / EatSE.lean / Render.lean",
                    "hooks H1/H3/H6", "the guards of do_blank_lines() and every other newline pass are an oracle"]
    ctx.assumptions += ["no pass after do_blank_lines() raises a newline count above nl_max or leaves two adjacent newline chunks (monitored at P1)",
                        "comments, literals, continued preprocessor lines and disabled regions are excluded as the property says"]
    # ---- translators
    tr_ok = True
    try:
        tab = t_blank.regenerate(common.REPO, common.LEAN_DIR, common.write_if_changed)
        ctx.oblige("T-blank: write inventory of do_blank_lines() regenerated (%d entries)" % len(tab["writes"]), True, "translator")
    except TranslateError as e:
        tr_ok = False
        ctx.oblige("T-blank: write inventory of do_blank_lines() regenerated", False, "translator", str(e))
        ctx.violation("T-blank no longer parses src/newlines/blank_line.cpp: %s" % e, {"translator": "t_blank", "error": str(e)}, found_input=False)
    try:
        guarded = t_nlmax.parse(common.REPO)
        ctx.oblige("T-nlmax: guard list of too_big_for_nl_max() parsed (%d options)" % len(guarded), True, "translator")
    except TranslateError as e:
        guarded = []
        ctx.oblige("T-nlmax: guard list of too_big_for_nl_max() parsed", False, "translator", str(e))
        ctx.violation("T-nlmax no longer parses src/too_big_for_nl_max.cpp: %s" % e, {"translator": "t_nlmax", "error": str(e)}, found_input=False)
    ctx.lean_obligations()
    common.lean_extra(ctx, "UncModel.Props.Render", ["newline_run", "newline_run_indented", "render_terminators"])
    common.lean_extra(ctx, "UncModel.Props.C17", ["C17_file_edge", "C17_eof_force", "C17_eof_remove", "C17_eof_add", "C17_eof_ignore"])
    exe = common.build_repo(hooks=True)
    thorough = ctx.tier == "thorough"
    rng = ctx.rng
    counts = count_options()
    sc = pipeline.Scratch("c20")
    try:
        inv = common.run_driver(["blank.inventory"])[0]
        ctx.oblige("driver: inventory shape and callees accepted by the model (%s)" % inv[:60],
                   inv.startswith("ok ") and "shape=1" in inv and "callees=1" in inv, "corr", inv[:300])
        jobs = []
        nprog = 260 if thorough else 50
        for i in range(nprog):
            lang = rng.choice(["C", "CPP", "CPP", "JAVA"])
            txt = make_input(rng, lang, ctx)
            p = sc.write(txt, {"C": ".c", "CPP": ".cpp", "JAVA": ".java"}[lang])
            for _ in range(5 if thorough else 3):
                opts = draw_opts(rng, counts, thorough)
                jobs.append(pipeline.Job("gen%d" % i, sc.cfg(None, opts), p, lang, {"opts": opts, "kind": "gen", "text": txt}))
        # the namespace / brace family of can_increase_nl(): nested namespaces whose closing braces follow each other
        for i in range(10 if thorough else 3):
            k = rng.randrange(100)
            txt = inject_blank_lines(rng, (NESTED % {"k": k}) + "namespace tail%d {\nnamespace in%d {\nvoid f%d() {\n}\n}\n}\n" % (k, k, k), 0.6)
            txt = txt.rstrip("\n") + "\n" * rng.randrange(1, 6)         # the file ends with the namespace brace and 0-4 blank lines
            p = sc.write(txt, ".cpp")
            for _ in range(6 if thorough else 4):
                n = rng.choice([2, 3, 4])
                opts = {"nl_max": n, "eat_blanks_before_close_brace": rng.choice(["true", "true", "false"]),
                        "eat_blanks_after_open_brace": rng.choice(["true", "false"]),
                        "nl_before_namespace": rng.randrange(0, n + 1), "nl_after_namespace": rng.randrange(0, n + 1),
                        "nl_inside_namespace": rng.choice([0, 0, 1]), "nl_inside_empty_func": rng.choice([0, 0, 1]),
                        "nl_start_of_file": "ignore", "nl_end_of_file": rng.choice(["ignore", "force"]),
                        "nl_start_of_file_min": 0, "nl_end_of_file_min": 1}
                jobs.append(pipeline.Job("ns%d" % i, sc.cfg(None, opts), p, "CPP", {"opts": opts, "kind": "gen", "text": txt}))
        pairs = [p for p in unc.test_pairs() if os.path.getsize(p[2]) < 30000]
        rng.shuffle(pairs)
        npairs = 0
        for name, cfg, inp, lang in pairs:
            if npairs >= (500 if thorough else 70):
                break
            vals = unc.cfg_values(exe, cfg)
            if vals.get("nl_max", "0") == "0" and rng.random() < 0.85:
                # most test configs leave nl_max off: run them with a cap added on top
                n = rng.choice([1, 2, 3])
                bad = [c for c in counts + ["nl_start_of_file_min", "nl_end_of_file_min"] if int(vals.get(c, "0") or 0) > n]
                extra = {"nl_max": n}
                for c in bad:
                    extra[c] = n
                jobs.append(pipeline.Job(name, sc.cfg(cfg, extra), inp, lang, {"kind": "corpus", "opts": extra, "cfg0": cfg}))
            else:
                jobs.append(pipeline.Job(name, cfg, inp, lang, {"kind": "corpus", "opts": None, "cfg0": cfg}))
            npairs += 1
        ctx.log("runs:", len(jobs))
        pipeline.run_jobs(exe, jobs)
        for j in jobs:
            ctx.count("rc:%s" % j.res["rc"])
        good = pipeline.render_check(ctx, jobs, "C20-render")

        # ---- tie: every write of do_blank_lines() explained by the regenerated inventory (hook H6 -> blank.visit)
        lines, owners = [], []
        ci_lines, ci_owner = [], []
        visits = 0
        skipped_bad = 0
        for j in jobs:
            if j.res["rc"] != 0 or not j.res.get("trace"):
                continue
            vals = j.vals
            sq = vals.get("nl_squeeze_ifdef", "false") != "false"
            optstr = ",".join("%s:%s" % (k, vals.get(k, "0")) for k in ["nl_max"] + counts)
            nvis = 0
            for blk in blank_blocks(j.res["trace"]):
                for bv, bws in blk:
                    nvis += 1
                    if bv["pv"] == "IGNORED" or bv["nx"] == "IGNORED":
                        if bws:
                            skipped_bad += 1
                        continue
                    me = bv["i"]
                    ws = []
                    final = int(bv["n"])
                    for w in bws:
                        if w["i"] == me:
                            ws.append("s:%s:%s" % (w["old"], w["new"]))
                            final = int(w["new"])
                        else:
                            ws.append("t:%s:%s" % (w["old"], w["new"]))
                            if w.get("t") not in ("NEWLINE",):
                                ctx.count("tmp-write-to:%s" % w.get("t"))
                    edge = "1" if (bv["head"] == "1" or bv["tail"] == "1") else "0"
                    ci_lines.append(caninc_request(bv, vals))
                    ci_owner.append((len(lines), sq))
                    lines.append("blank.visit opts=%s n=%s edge=%s caninc=? w=%s final=%d" % (optstr, bv["n"], edge, ",".join(ws) or "-", final))
                    owners.append((j, bv))
            if nvis:
                visits += 1
            ctx.case("run:%s:%s" % (j.inp, sorted((j.meta.get("opts") or {}).items())), nontrivial=nvis > 0)
        ci_ans = common.run_driver(ci_lines) if ci_lines else []
        for (k, sq), a in zip(ci_owner, ci_ans):
            if not sq:           # without nl_squeeze_ifdef the model of can_increase_nl() is complete
                lines[k] = lines[k].replace("caninc=?", "caninc=%s" % a)
        ans = common.run_driver(lines) if lines else []
        bad = 0
        fired = {}
        for (j, bv), a, ln in zip(owners, ans, lines):
            if a.startswith("ok "):
                for x in a.split("fired=")[1].split(","):
                    if x:
                        fired[x] = fired.get(x, 0) + 1
                continue
            bad += 1
            if bad <= 3:
                ctx.violation("do_blank_lines(): the writes recorded for newline chunk %s (prev %s/%s, next %s/%s) are not explained by the "
                              "inventory + can_increase_nl model: %s [run %s]" % (bv["i"], bv["pv"], bv["pvp"], bv["nx"], bv["nxp"], a, j.name),
                              dict(_replay(j), request=ln), found_input=False)
        ctx.cov["inventory_entries_fired"] = dict(sorted(fired.items(), key=lambda kv: int(kv[0])))
        ctx.oblige("tie H6: %d visits of do_blank_lines() in %d runs explained by the regenerated inventory, final counts reproduced"
                   % (len(lines), visits), bad == 0 and len(ans) == len(lines) and len(lines) > 0, "corr", "%d unexplained" % bad)
        ctx.oblige("tie H6: newline chunks after or directly in front of a CT_IGNORED chunk are skipped (no write)", skipped_bad == 0, "corr")

        # ---- monitor at P1 + oracle on the real output
        mbad = obad = ebad = 0
        for j in jobs:
            if j.res["rc"] != 0 or j.hdr is None:
                continue
            vals = j.vals
            N = int(vals.get("nl_max", "0") or 0)
            over = [c for c in counts if int(vals.get(c, "0") or 0) > N] if N > 0 else []
            # the include sorter's grouping mode asks for one blank line (two line breaks) between two groups: another option that asks
            # for more than N when N = 1 (the proviso of the property)
            if N == 1 and str(vals.get("mod_sort_incl_import_grouping_enabled", "false")).lower() == "true":
                over.append("mod_sort_incl_import_grouping_enabled")
            chunks = [unc.parse_chunk(ln) for ln in j.chunks]
            adj_seen = False
            # previous non-comment chunk of every chunk
            prevnc = []
            last = None
            for c in chunks:
                prevnc.append(last)
                if c["t"] not in COMMENT_T:
                    last = c
            for k, c in enumerate(chunks):
                if c["t"] != "NEWLINE":
                    continue
                pv = prevnc[k]
                nxt = chunks[k + 1] if k + 1 < len(chunks) else None
                after_marker = pv is not None and pv["t"] == "IGNORED" and k > 0 and chunks[k - 1]["t"] in COMMENT_T
                in_region = ((pv is not None and pv["t"] == "IGNORED") or (nxt is not None and nxt["t"] == "IGNORED")) and not after_marker
                if N > 0 and not over and not in_region and c["nl"] > N:
                    mbad += _viol(ctx, j, "monitor P1: newline chunk %s has nl_count %d > nl_max %d (prev %s, next %s)"
                                  % (c["i"], c["nl"], N, pv["t"] if pv else "-", nxt["t"] if nxt else "-"),
                                  key={"kind": "p1-over", "after": "enable-marker-comment"} if after_marker else _key(j, "p1-over", pv, nxt))
                    break
                # adjacent newline chunks (only zero-length chunks in between)
                q = k + 1
                while q < len(chunks) and chunks[q]["t"] != "NEWLINE" and not chunks[q]["txt"]:
                    q += 1
                if q < len(chunks) and q > k and chunks[q]["t"] == "NEWLINE" and N > 0 and not over and not in_region \
                        and c["nl"] + chunks[q]["nl"] > N:
                    between = sorted({x["t"] for x in chunks[k + 1:q]})
                    adj_seen = True
                    mbad += _viol(ctx, j, "monitor P1: adjacent newline chunks %s and %s (between them only %s) add up to %d line breaks > nl_max %d"
                                  % (c["i"], chunks[q]["i"], ",".join(between) or "nothing", c["nl"] + chunks[q]["nl"], N),
                                  key={"kind": "p1-adjacent", "between": between,
                                       "brace_removal": any(vals.get(o, "ignore") in ("remove", "force") for o in vals if o.startswith("mod_full_brace_"))
                                       or vals.get("mod_full_brace_if_chain", "0") not in ("0", "") or vals.get("mod_full_brace_if_chain_only") == "true",
                                       "code_width": int(vals.get("code_width", "0") or 0) > 0})
                    break
            # oracle on the real op trace: terminators written for NEWLINE chunks, uninterrupted by other output
            if N > 0 and not over:
                run_len, excl, worst = 0, False, 0
                ocs = list(_oc(j.outs))
                for q, (f, ops) in enumerate(ocs):
                    t = f["t"]
                    if t == "NEWLINE":
                        run_len += sum(1 for w in ops if w == "Aa")
                        # the blank lines in front of the first text of a disabled region are lines of the region
                        lead_region = q + 1 < len(ocs) and ocs[q + 1][0]["t"] == "IGNORED"
                        if not excl and not lead_region:
                            worst = max(worst, run_len)
                    elif t == "IGNORED":
                        excl, run_len = True, 0
                    else:
                        if any(w[0] in "ALR" and w[1:] not in ("20", "9") for w in ops):
                            run_len, excl = 0, (t in COMMENT_T and False)
                if worst > N and not adj_seen:       # (a run made of two adjacent newline chunks is reported by the monitor above)
                    obad += _viol(ctx, j, "output: %d consecutive line breaks written for newline chunks, nl_max=%d" % (worst, N),
                                  key=_key(j, "out-run", None, None))
            # eat_blanks: P1 chunk level through the can_increase_nl model is covered by the tie; byte level on generated programs
            if j.meta["kind"] == "gen":
                nlb = {"a": b"\n", "d.a": b"\r\n", "d": b"\r"}[j.hdr["newline"]]
                outl = j.res["out"].split(nlb)
                eao = vals.get("eat_blanks_after_open_brace") == "true"
                ebc = vals.get("eat_blanks_before_close_brace") == "true"
                # nl_inside_namespace > 0 / nl_inside_empty_func > 1 ask for blank lines next to those braces; 1 asks for none
                ns_off = vals.get("nl_inside_namespace", "0") == "0" and vals.get("nl_inside_empty_func", "0") in ("0", "1")
                in_cmt = False
                for a, b2 in zip(outl, outl[1:] + [b"x"]):
                    sa = a.strip()
                    if b"/*" in sa and b"*/" not in sa.split(b"/*")[-1]:
                        in_cmt = True
                        continue
                    if in_cmt:
                        if b"*/" in sa:
                            in_cmt = False
                        continue
                    if not ns_off or b'"' in sa or b"'" in sa or sa.startswith((b"//", b"*", b"#")):
                        continue
                    code = re.sub(rb"//.*$|/\*.*?\*/", b"", sa).strip()
                    if eao and code.endswith(b"{") and not b2.strip() and not code.startswith(b"namespace"):
                        ebad += _viol(ctx, j, "eat_blanks_after_open_brace=true but a blank line follows %r" % a[:60])
                        break
                for a, b2 in zip(outl, outl[1:]):
                    if in_cmt or not ns_off:
                        break
                    code = re.sub(rb"//.*$|/\*.*?\*/", b"", b2.strip()).strip()
                    if ebc and code.startswith(b"}") and not a.strip() and b'"' not in b2:
                        # the line before the blank one must be code (not inside a comment / region): approximate by a look-back
                        ebad += _viol(ctx, j, "eat_blanks_before_close_brace=true but a blank line precedes %r" % b2[:60])
                        break
        ctx.oblige("monitor P1: nl_count <= nl_max, no adjacent newline chunks, on %d runs" % len(jobs), mbad == 0, "monitor", "%d failures" % mbad)
        ctx.oblige("oracle: runs of line breaks in the real op trace <= nl_max", obad == 0, "oracle", "%d failures" % obad)
        ctx.oblige("oracle: no blank line next to a brace under eat_blanks_* (generated programs)", ebad == 0, "oracle", "%d failures" % ebad)

        # ---- start / end of file: eatEdge model vs real bytes (reference run with both options = ignore)
        eof_jobs = [j for j in jobs if j.meta["kind"] == "gen" and j.res["rc"] == 0 and j.hdr is not None]
        refs, ref_jobs = {}, []
        for j in eof_jobs:
            key = (j.inp, j.cfg)
            o = dict(j.meta["opts"])
            o["nl_end_of_file"] = "ignore"
            o["nl_start_of_file"] = "ignore"
            rj = pipeline.Job("ref", sc.cfg(None, o), j.inp, j.lang, {})
            refs[key] = rj
            ref_jobs.append(rj)
        pipeline.run_jobs(exe, ref_jobs, hooks=False)
        lines = []
        for j in eof_jobs:
            rj = refs[(j.inp, j.cfg)]
            nlb = {"a": b"\n", "d.a": b"\r\n", "d": b"\r"}[j.hdr["newline"]]
            n0, s0 = _trailing(rj.res["out"], nlb), _leading(rj.res["out"], nlb)
            o = j.meta["opts"]
            lines.append("eatse.edge 0 %d %s %s" % (IARF[o["nl_end_of_file"]], o["nl_end_of_file_min"], n0 if n0 else "-"))
            lines.append("eatse.edge 0 %d %s %s" % (IARF[o["nl_start_of_file"]], o["nl_start_of_file_min"], s0 if s0 else "-"))
        ans = common.run_driver(lines) if lines else []
        # the model `fileEdge` presumes that do_blank_lines() forces the edge chunk to 1 (can_increase_nl() false at a file edge
        # whose option is not ignore); can_increase_nl() answers true earlier for namespace braces etc.: those runs are compared
        # by the direct oracle only
        edge_lines, edge_owner = [], []
        tmp_edges = set()
        for k, j in enumerate(eof_jobs):
            blks = blank_blocks(j.res["trace"])
            last = blks[-1] if blks else []
            # an edge chunk that a later visit writes through `tmp` (nl_before_class/struct/namespace) is not left at 1 either
            tmp_written = {w["i"] for bv, bws in last for w in bws if w["i"] != bv["i"]}
            for bv, _ in last:
                if bv["head"] == "1" or bv["tail"] == "1":
                    edge_lines.append(caninc_request(bv, j.vals))
                    edge_owner.append((k, "start" if bv["head"] == "1" else "end"))
                    if bv["i"] in tmp_written:
                        tmp_edges.add((k, "start" if bv["head"] == "1" else "end"))
        edge_ans = common.run_driver(edge_lines) if edge_lines else []
        not_forced = {(k, w) for (k, w), a in zip(edge_owner, edge_ans) if a == "1"} | tmp_edges
        sbad = 0
        for k, j in enumerate(eof_jobs):
            nlb = {"a": b"\n", "d.a": b"\r\n", "d": b"\r"}[j.hdr["newline"]]
            o = j.meta["opts"]
            if not j.res["out"].strip() or refs[(j.inp, j.cfg)].res["rc"] != 0:
                continue
            got_e, got_s = _trailing(j.res["out"], nlb), _leading(j.res["out"], nlb)
            for which, got, model, opt, mn in (("end", got_e, ans[2 * k], o["nl_end_of_file"], o["nl_end_of_file_min"]),
                                               ("start", got_s, ans[2 * k + 1], o["nl_start_of_file"], o["nl_start_of_file_min"])):
                direct_bad = (opt == "force" and got != mn) or (opt == "remove" and got != 0) or (opt == "add" and got < mn)
                skip_model = (k, which) in not_forced or j.vals.get("nl_squeeze_ifdef", "false") != "false"
                if skip_model:
                    ctx.count("edge-not-forced-by-do_blank_lines")
                if (str(got) != model and not skip_model) or direct_bad:
                    sbad += 1
                    if sbad <= 3:
                        _viol(ctx, j, "nl_%s_of_file=%s min=%s: %d line breaks at the %s of the output, model says %s"
                              % (which, opt, mn, got, which, model), found=direct_bad)
        ctx.oblige("start/end of file: eatEdge model = real count of line breaks at both edges (%d runs)" % len(eof_jobs), sbad == 0, "corr")
        if jobs:
            ctx.sample({"run": jobs[0].name, "opts": jobs[0].meta["opts"], "input_head": jobs[0].meta.get("text", "")[:200]})
    finally:
        sc.close()


def _oc(outs):
    recs = []
    for ln in outs:
        if ln.startswith("OC "):
            recs.append((unc.fields(ln), []))
        elif ln.startswith("OPS") and recs:
            recs[-1][1].extend(ln.split()[1:])
    return recs


def _trailing(out, nl):
    n = 0
    while out.endswith(nl):
        out = out[:-len(nl)]
        n += 1
    return n


def _leading(out, nl):
    n = 0
    while out.startswith(nl):
        out = out[len(nl):]
        n += 1
    return n


def _key(j, kind, pv, nxt):
    if j.meta["kind"] != "corpus":
        return {"kind": kind, "prev": pv["t"] if pv else "-", "next": nxt["t"] if nxt else "-"} if pv is not None or nxt is not None else None
    return {"file": os.path.relpath(j.inp, common.REPO), "cfg": os.path.relpath(j.meta.get("cfg0") or j.cfg, common.REPO), "kind": kind}


def _replay(j):
    r = {"lang": j.lang, "options": j.meta.get("opts")}
    if j.meta.get("kind") == "gen":
        r["input_text"] = j.meta["text"]
    else:
        r["input"] = j.inp
        r["config"] = j.meta.get("cfg0") or j.cfg
    r["how"] = "write input_text to a file and the options as name=value lines to a cfg (on top of `config` if given); uncrustify -q -c cfg -l LANG -f file"
    return r


def _viol(ctx, j, what, key=None, found=True):
    return 1 if ctx.violation("%s [run %s]" % (what, j.name), _replay(j), key=key, found_input=found) else 0
