"""C10 -- output depends only on (bytes, language, configuration, file name).  DESIGN.md section 6/C10.

Proof: UncModel/Props/C10.lean over the hand-written models UncModel/Cli.lean (Args, main() routing)
       and UncModel/CheckMode.lean (what a run does with the formatter's result); the formatter is an
       abstract parameter F.
Tie:   T-lang (translators/t_lang.py -> Gen/Lang.lean, regenerated here);
       CLI-level correspondence: random argv in a sandbox directory, real binary vs `cli.run` of the Lean
       driver (exit status, files created/modified with contents, stdout, -L 5 argument dump, -L 0 job lines);
       every delivery mode x observer subsets on corpus inputs vs the model's plan.
Oracle (independent of the model): all delivery modes / observer subsets / environments give the same bytes.
Partial: environment, locale, cwd, ASLR, uninitialised memory can only be searched, not proved.
"""
import itertools
import os
import re
import shutil
import tempfile

from translators import t_clilang as t_lang
from vlib import clibox, common
from vlib.clibox import hx, unhx

OBS = ["-p", "-L", "-s", "-q", "--dump-steps", "--debug-csv-format"]


# ---------------------------------------------------------------------------
# shared setup (also used by c12)
# ---------------------------------------------------------------------------

def setup(ctx):
    """translator + Lean obligations + binary; returns (exe, table) or None"""
    try:
        table, path, changed = t_lang.generate(common.REPO, common.LEAN_DIR, common.write_if_changed)
        ctx.oblige("T-lang: language_names.cpp tables translated (%d names, %d extensions, digest %s)"
                   % (len(table["names"]), len(table["exts"]), table["digest"]), True, "table")
    except t_lang.TranslateError as e:
        ctx.oblige("T-lang: language_names.cpp tables translated", False, "table", str(e))
        table = None
    log_bad = []
    try:
        from translators import t_log
        lg = t_log.regenerate(common.REPO, common.LEAN_DIR, common.write_if_changed)
        log_bad = lg["bad"]
        ctx.oblige("T-log: %d LOG_FMT calls scanned for side effects in their arguments" % lg["calls"], True, "table")
    except Exception as e:          # TranslateError or an unreadable tree
        ctx.oblige("T-log: LOG_FMT calls scanned", False, "table", str(e))
    ctx.lean_obligations()
    exe = common.build_repo(hooks=True)
    if log_bad:
        log_side_effect_search(ctx, exe, log_bad)
    ctx.trusted += ["hand-written models UncModel/Cli.lean (Args, main() routing) and UncModel/CheckMode.lean",
                    "translators/t_lang.py (regex over language_names.{h,cpp}, keywords.h)",
                    "python sandbox harness vlib/clibox.py (directory snapshots, argument generator)"]
    return exe, table


def log_side_effect_search(ctx, exe, bad):
    """C10_log_args_pure no longer holds: search the corpus (every test pair) for an input whose output depends on -L"""
    from vlib import unc
    pairs = unc.test_pairs()
    words = {os.path.splitext(os.path.basename(f))[0] for f, _, _ in bad}

    def rank(p):          # configs/inputs whose names mention the file of the offending LOG_FMT first
        return 0 if any(w.split("_")[0] in p[1] or w.split("_")[0] in p[2] for w in words) else 1
    pairs.sort(key=rank)

    def one(p):
        name, cfg, inp, lang = p
        a = unc.run(exe, cfg, inp, lang, timeout=30)
        b = unc.run(exe, cfg, inp, lang, extra=("-L", "A"), timeout=30)
        return (p, a, b)
    found = None
    for k in range(0, min(len(pairs), 2400), 64):
        for p, a, b in common.pmap(one, pairs[k:k + 64]):
            if a["rc"] == 0 and b["rc"] == 0 and a["out"] != b["out"]:
                found = p
                break
        if found:
            break
    what = "LOG_FMT argument with a side effect at %s" % ", ".join("%s:%d" % (f, ln) for f, ln, _ in bad[:3])
    if found:
        ctx.violation("%s: the formatted bytes of %s with %s differ between a plain run and a run with -L A" % (what, found[2], found[1]),
                      {"input": found[2], "config": found[1], "lang": found[3], "cmd": "uncrustify -q -c <config> -f <input> [-L A]", "sites": bad[:5]},
                      key=None, found_input=True)
    else:
        ctx.violation("%s (theorem C10_log_args_pure fails); no corpus input found whose output depends on -L" % what,
                      {"theorem": "C10_log_args_pure", "sites": bad[:5]}, key=None, found_input=False)


def make_template(base):
    """the sandbox of the routing correspondence; every file is insensitive to the configs used"""
    t = os.path.join(base, "tmpl")
    os.makedirs(os.path.join(t, "sub"))
    os.makedirs(os.path.join(t, "home"))
    os.makedirs(os.path.join(t, "home2"))
    files = {"a.c": b"int   a ;\n", "b.cpp": b"int   b ;\nbool  c ;\n", "d.h": b"extern int   d ;\n",
             "sub/e.c": b"long   e ;\n", "-w.c": b"char   w ;\n", "same.c": b"int x;\n", "x.sql": b"int   q ;\n",
             "U.CPP": b"int   u ;\n", "m.mm": b"int   m ;\n",
             "c.cfg": b"indent_columns=4\n", "home/.uncrustify.cfg": b"indent_columns=3\n",
             "home2/uncrustify.cfg": b"indent_columns=5\n",
             "list.txt": b"a.c\nsub/e.c\n", "list2.txt": b"# comment\n  b.cpp  \n\nsame.c\nsub\\e.c\nmissing.c\nd.h\n",
             "list3.txt": b"same.c\n\n", "types.txt": b"mytype\n# c\n\nother_t\n", "badtypes.txt": b"two words\n",
             "stdin": b"int   s ;\n"}
    for k, v in files.items():
        with open(os.path.join(t, k), "wb") as f:
            f.write(v)
    return t, files


VOCAB_FLAGS = ["--check", "--if-changed", "-q", "--frag", "--replace", "--no-backup", "--mtime", "-s", "--show",
               "--debug-csv-format", "--detect", "--update-config", "--update-config-with-doc", "--find_deprecated",
               "--universalindent", "--decode", "--version", "-v", "-h", "--help", "--usage", "-?", "--count-options",
               "--show-config"]
RARE_FLAGS = set(VOCAB_FLAGS[10:])
VOCAB_PARAMS = {
    "-c": ["c.cfg", "c.cfg", "c.cfg", "missing.cfg", "-", ""], "--config": ["c.cfg", "missing.cfg"],
    "-f": ["a.c", "b.cpp", "same.c", "sub/e.c", "missing.c", "d.h", "./a.c", "x.sql", "U.CPP", "m.mm"],
    "--file": ["a.c", "same.c"],
    "-F": ["list.txt", "list2.txt", "list3.txt", "missing.txt", "-"], "--files": ["list.txt", "list3.txt"],
    "-o": ["out.c", "sub/out.c", "a.c", "nodir/out.c", "same.c"],
    "--prefix": ["out", "o/p"], "--suffix": [".new", ".c"],
    "--assume": ["x.cpp", "a.mm", "noext", "x.sql", "y.H", "dir.d/z"],
    "-l": ["C", "cpp", "OC+", "XX", "CS", "c-header", "PAWN"],
    "-L": ["0,5,8", "0,5,8", "A", "5"], "--log": ["0,5,8"],
    "-p": ["p.txt", "-", "p.csv", "P.CSV"], "--parsed": ["p.txt"],
    "--dump-steps": ["dmp", ""], "-ds": ["dmp2"],
    "-t": ["types.txt", "missing.txt", "badtypes.txt"], "--type": ["foo"],
    "--set": ["indent_columns=2", "bogus=1", "indent_columns", "a=b=c", "indent_columns=xyz", "=indent_columns==2="],
    "--tracking": ["space:t.html", "nl:tr/t.html", "bad:t.html", "space", "", ":start:t2.html"],
}
POSITIONAL = ["a.c", "b.cpp", "same.c", "sub/e.c", "missing.c", "d.h", "-w.c", "x.sql", "U.CPP"]
SKELETONS = [
    ["-c", "c.cfg", "-f", "a.c"], ["-c", "c.cfg", "-f", "a.c", "-o", "out.c"], ["-c", "c.cfg", "a.c"],
    ["-c", "c.cfg", "--replace", "a.c"], ["-c", "c.cfg", "--no-backup", "a.c", "same.c"], ["-c", "c.cfg", "-F", "list.txt"],
    ["-c", "c.cfg", "-F", "-"], ["-c", "c.cfg", "--assume", "x.cpp"], ["-c", "c.cfg", "-l", "C"],
    ["-c", "c.cfg", "--prefix", "out", "a.c", "sub/e.c"], ["-c", "c.cfg", "--suffix", ".new", "b.cpp"],
    ["-c", "c.cfg", "--check", "a.c", "same.c"], ["-c", "c.cfg", "--check", "-f", "same.c"],
    ["-c", "c.cfg", "--if-changed", "-f", "same.c", "-o", "o.c"], ["-c", "c.cfg", "--if-changed", "--replace", "a.c", "same.c"],
    ["-c", "c.cfg", "--if-changed", "-l", "C", "-o", "o.c"], ["-c", "c.cfg", "-f", "a.c", "-o", "a.c"],
    ["-c", "c.cfg", "-l", "CPP", "-f", "a.c", "-p", "p.txt"], ["-c", "c.cfg", "-F", "list2.txt", "--prefix", "out"],
    ["-f", "a.c"], ["-p", "p.txt", "-f", "a.c"], ["-c", "c.cfg", "--tracking", "space:t.html", "-f", "a.c"],
    ["-c", "c.cfg", "--files", "list.txt"], ["-c", "c.cfg", "--file", "a.c"], ["-c", "c.cfg", "--mtime", "--replace", "a.c"],
]


def gen_param(rng):
    k = rng.choice(list(VOCAB_PARAMS))
    v = rng.choice(VOCAB_PARAMS[k])
    style = rng.random()
    if style < 0.70:
        return [k, v]
    if style < 0.82:
        return [k + "=" + v]
    if style < 0.92:
        return [k + v]
    return [k]                       # dangling: swallows whatever follows


def gen_argv(rng):
    if rng.random() < 0.65:
        a = list(rng.choice(SKELETONS))
        for _ in range(rng.choice([0, 0, 1, 1, 2, 3])):
            m = rng.random()
            pos = rng.randrange(len(a) + 1)
            if m < 0.35:
                fl = rng.choice(VOCAB_FLAGS)
                if fl in RARE_FLAGS and rng.random() < 0.6:
                    fl = rng.choice(VOCAB_FLAGS[:10])
                a[pos:pos] = [fl]
            elif m < 0.7:
                a[pos:pos] = gen_param(rng)
            elif m < 0.8:
                a[pos:pos] = [rng.choice(POSITIONAL)]
            elif m < 0.9 and a:
                i = rng.randrange(len(a))
                a[pos:pos] = [a[i]]                     # duplicate a word
            elif a:
                del a[rng.randrange(len(a))]
    else:
        a = []
        for _ in range(rng.randrange(0, 6)):
            m = rng.random()
            if m < 0.3:
                fl = rng.choice(VOCAB_FLAGS)
                if fl in RARE_FLAGS and rng.random() < 0.7:
                    fl = rng.choice(VOCAB_FLAGS[:10])
                a.append(fl)
            elif m < 0.75:
                a += gen_param(rng)
            else:
                a.append(rng.choice(POSITIONAL))
    if rng.random() < 0.7 and not any(w.startswith("-L") for w in a):
        a[0:0] = ["-L", "0,5,8"]
    return a


def gen_env(rng):
    """(process env additions, envcfg for the model, homecfg for the model)"""
    e, envcfg, homecfg = {}, None, None
    r = rng.random()
    if r < 0.15:
        envcfg = rng.choice(["c.cfg", "missing.cfg", ""])
        e["UNCRUSTIFY_CONFIG"] = envcfg
    r = rng.random()
    if r < 0.25:
        e["HOME"] = "@BOX@/home"
        homecfg = "@BOX@/home/.uncrustify.cfg"
    elif r < 0.35:
        e["HOME"] = "@BOX@/home2"
        homecfg = "@BOX@/home2/uncrustify.cfg"
    elif r < 0.5:
        e["HOME"] = "@BOX@/sub"
    return e, envcfg, homecfg


def types_status(b, p):
    """exit status of load_keyword_file for an existing path (None = returns)"""
    try:
        data = open(p, "rb").read()
    except OSError:
        return 74                                  # directory: fopen works, fgets fails -> returns; keep simple
    for line in data.split(b"\n"):
        line = line.split(b"#")[0].split()
        if not line:
            continue
        ch = line[0][:1]
        if len(line) != 1 or not (ch.isalpha() or ch in b"_@$"):
            return 70
    return None


LDATA_KEYS = {"config_file": None, "output_file": "output", "source_file": "file", "source_list": "list",
              "prefix": "prefix", "suffix": "suffix", "assume": "assume"}
LDATA_BOOLS = {"replace": "replace", "no_backup": "nobackup", "detect": "detect", "check": "check", "if_changed": "ifchanged"}


def parse_log(text):
    """the -L 5 argument dump and the -L 0 'Parsing:' lines of a real run"""
    ld, jobs, listed = {}, [], []
    for ln in text.split(b"\n"):
        m = re.match(rb"^(config_file|output_file|source_file|source_list|prefix|suffix|assume|replace|no_backup|detect|check|if_changed)\s+= (.*)$", ln)
        if m:
            ld.setdefault(m.group(1).decode(), m.group(2))
            continue
        m = re.match(rb"^do_source_file: Parsing: (.*) as language (.*)$", ln)
        if m:
            jobs.append((m.group(1), m.group(2)))
            continue
        m = re.match(rb"^main\(\d+\): Parsing: \d+ bytes \(\d+ chars\) from stdin as language (.*)$", ln)
        if m:
            jobs.append((None, m.group(1)))
            continue
        m = re.match(rb"^\s*\d+ file to uncrustify: (.*)$", ln)
        if m:
            listed.append(m.group(1))
    return ld, jobs, listed


class RefCache:
    """F(raw, lang, name) obtained from the real binary through the reference mode
    `<config words> -l LANG -f name`, run in a copy of the sandbox `tmpl` where `name` holds `raw`"""

    def __init__(self, exe, table, base):
        self.exe, self.table, self.base, self.c = exe, table, base, {}
        self.byflags = {}
        for n, v in table["names"]:
            self.byflags.setdefault(v, n)

    def get(self, tmpl, raw, name, flags, cfg_args=("-c", "-")):
        key = (tmpl, raw, name, flags, tuple(cfg_args))
        if key in self.c:
            return self.c[key]
        res = None
        lname = self.byflags.get(flags)
        nm = os.fsdecode(name)
        if lname is not None and nm and not nm.startswith("/") and ".." not in nm.split("/") and not nm.endswith("/") \
                and "\x00" not in nm and not nm.startswith("-"):
            def pre(work):
                p = os.path.join(work, nm)
                if os.path.isdir(p):
                    return
                os.makedirs(os.path.dirname(p), exist_ok=True)
                with open(p, "wb") as f:
                    f.write(raw)
            try:
                r = clibox.run_real(self.exe, tmpl, ["-q"] + list(cfg_args) + ["-l", lname, "-f", nm], pre=pre)
                if r.rc == 0 and not r.timeout:
                    res = r.out
            except OSError:
                res = None
        self.c[key] = res
        return res


def config_words(opts, envcfg, homecfg_rel):
    """the argv words that fix the configuration of a run, from the model's Opts"""
    cfg = clibox.optstr(opts["cfg"])
    if cfg is None:
        cfg = envcfg.encode() if envcfg is not None else (homecfg_rel.encode() if homecfg_rel is not None else b"")
    w = ["-c", os.fsdecode(cfg) if cfg and not cfg.startswith(b"-") else "-"]
    for k, flag in (("sets", "--set"), ("tfiles", "-t"), ("types", "--type")):
        if opts[k]:
            for v in opts[k].split(","):
                w += [flag, os.fsdecode(unhx(v))]
    if opts["frag"] == "1":
        w.append("--frag")
    return tuple(w)


def routing_case(exe, tmpl, argv, stdin, penv):
    return clibox.run_real(exe, tmpl, argv, stdin=stdin, env=penv)


def part_routing(ctx, exe, table, base, n):
    """random argv: the real process vs `cli.run` of the model"""
    rng = ctx.rng
    tmpl, files = make_template(base)
    refs = RefCache(exe, table, base)
    # the sandbox files must not depend on which of the sandbox configurations is in force
    insens = True
    for fn in ("a.c", "b.cpp", "d.h", "sub/e.c", "same.c", "stdin"):
        outs = set()
        for cfg in (["-c", "-"], ["-c", "c.cfg"], ["-c", "home/.uncrustify.cfg"], ["-c", "c.cfg", "--set", "indent_columns=2"],
                    ["-c", "c.cfg", "--frag"], ["-c", "c.cfg", "-t", "types.txt", "--type", "foo"]):
            r = clibox.run_real(exe, tmpl, ["-q"] + cfg + ["-l", "C", "-f", fn])
            outs.add((r.rc, r.out))
        insens = insens and len(outs) == 1 and list(outs)[0][0] == 0
    ctx.oblige("routing sandbox: files format identically under every sandbox configuration", insens, "corr")
    cases = []
    for _ in range(n):
        argv = gen_argv(rng)
        penv, envcfg, homecfg = gen_env(rng)
        stdin = rng.choice([files["a.c"], files["same.c"], b"same.c\na.c\n", b"", files["list2.txt"]])
        cases.append((argv, penv, envcfg, homecfg, stdin))
    reals = common.pmap(lambda c: routing_case(exe, tmpl, c[0], c[4], c[1]), cases)
    # model, pass 1: plan + opts
    envw = []
    lines = []
    for (argv, penv, envcfg, homecfg, stdin) in cases:
        hc = None if homecfg is None else homecfg.replace("@BOX@", tmpl)
        w = clibox.model_env(tmpl, argv, stdin=stdin, envcfg=envcfg, homecfg=hc,
                             known_opts=["indent_columns", "nl_max"], bad_vals=["xyz"], tbad_status=types_status)
        envw.append(w)
        full = ["uncrustify"] + argv
        lines.append("cli.plan " + " ".join(w) + " -- " + " ".join(clibox.argv_words(full)))
        lines.append("cli.opts " + " ".join(clibox.argv_words(full)))
    ans = common.run_driver(lines)
    ok = len(ans) == len(lines)
    ctx.oblige("routing correspondence: driver answered %d requests" % len(lines), ok, "corr")
    if not ok:
        return
    # reference bytes for every job of every plan
    lines2, plans, unknowns = [], [], []
    for i, (argv, penv, envcfg, homecfg, stdin) in enumerate(cases):
        plan = clibox.parse_plan(ans[2 * i])
        plans.append(plan)
        opts = clibox.parse_opts(ans[2 * i + 1])
        cw = config_words(opts, envcfg, None if homecfg is None else homecfg.replace("@BOX@/", ""))
        fmt, raws, unk = [], [], False
        for j in plan.get("jobs", []):
            name = unhx(j["name"])
            flags = int(j["lang"])
            if j["src"] == "stdin":
                raw = stdin
            else:
                fn = unhx(j["src"].split(":", 1)[1])
                try:
                    raw = open(os.path.join(os.fsencode(tmpl), fn), "rb").read()
                except OSError:
                    raw = b""
                raws.append((fn, raw))
            ref = refs.get(tmpl, raw, name, flags, cfg_args=cw)
            if ref is not None:
                fmt.append((name, flags, ref))
            else:
                unk = True
        unknowns.append(unk)
        extra = ["raw=" + ",".join("%s:%s" % (hx(a), hx(b)) for a, b in dict(raws).items()),
                 "fmt=" + ",".join("%s:%d:%s" % (hx(a), l, hx(b)) for a, l, b in {(a, l): (a, l, b) for a, l, b in fmt}.values()),
                 "stdinraw=" + hx(stdin)]
        lines2.append("cli.run " + " ".join(envw[i] + extra) + " -- " + " ".join(clibox.argv_words(["uncrustify"] + argv)))
    ans2 = common.run_driver(lines2)
    bad = 0
    skipped = 0
    for i, (argv, penv, envcfg, homecfg, stdin) in enumerate(cases):
        real, plan = reals[i], plans[i]
        opts = clibox.parse_opts(ans[2 * i + 1])
        status, effs = clibox.parse_effects(ans2[i])
        ctx.count("routing:" + ("exit" if "exit" in plan else "run"))
        ctx.count("routing-status:%d" % status)
        ctx.case("routing:" + repr((argv, penv, stdin)), nontrivial=True)
        if i < 3:
            ctx.sample({"argv": argv, "model": ans[2 * i][:300], "real_rc": real.rc})
        unknown = unknowns[i]
        is_check = "run" in plan and plan["run"]["check"] == "1"
        log_to_stdout = is_check or opts.get("parsed") == hx("-")
        if unknown:
            # the formatter's result for some job is not known: language flags without a -l name (e.g. '.sql' -> 0), or
            # the formatter refuses the input (exit 70/74 inside uncrustify_file): only lookups and job lines are compared
            ctx.count("routing:formatter-result-unknown")
            problems = []
        else:
            problems = clibox.check_effects(real, status, effs, None, compare_stdout=("run" in plan) and not log_to_stdout)
        # stdout in check mode: the formatted echo must be a prefix-free part; compare report lines instead
        if is_check and "jobs" in plan and not real.timeout:
            want_lines = [f[1:] for f in effs if f[0] == "line"]
            got_pass = re.findall(rb"^PASS: (.*) \((\d+) bytes\)$", real.out, re.M)
            got_fail = re.findall(rb"^FAIL: (.*) \((File size changed from (\d+) to (\d+)|Difference at byte (\d+))\)$", real.err, re.M)
            wp = [(unhx(l[1]), l[2].encode()) for l in want_lines if l[0] == "PASS"]
            wf = [unhx(l[1]) for l in want_lines if l[0].startswith("FAIL")]
            if not unknown and (wp != [(a, b) for a, b in got_pass] or wf != [g[0] for g in got_fail]):
                problems.append("PASS/FAIL lines differ: model %s / %s, real %s / %s" % (wp, wf, got_pass, [g[0] for g in got_fail]))
        # the -L 5 dump of what every lookup returned
        ld, rjobs, listed = parse_log(real.err + b"\n" + real.out if log_to_stdout or is_check or opts.get("check") == "1" else real.err)
        if ld:
            for k, mk in LDATA_KEYS.items():
                if k not in ld or mk is None:
                    continue
                mv = clibox.optstr(opts[mk])
                mv = b"null" if mv is None else mv
                if ld[k] != mv:
                    problems.append("lookup %s: real '%s' model '%s'" % (k, ld[k].decode("latin1"), mv.decode("latin1")))
            for k, mk in LDATA_BOOLS.items():
                if k in ld and ld[k] != (b"true" if opts[mk] == "1" else b"false"):
                    problems.append("lookup %s: real %s model %s" % (k, ld[k], opts[mk]))
        if rjobs and "jobs" in plan:
            mj = [((None if j["src"] == "stdin" else unhx(j["name"])), clibox.lang_name_from_flags(table, int(j["lang"])).encode())
                  for j in plan["jobs"]]
            # the real list may be longer by the job that failed to load? no: "Parsing" is printed after loading
            if rjobs != mj[:len(rjobs)] or (not unknown and len(rjobs) != len(mj)):
                problems.append("jobs (name, language): real %s model %s" % (rjobs, mj))
        if problems and real.rc == 74 and (b"Unable to create" in real.err or b"Failed to create backup" in real.err
                                           or b"Unable to rename" in real.err or clibox.sink_uncreatable(tmpl, effs)):
            skipped += 1          # the sink could not be opened: file-system failures belong to C13's model
            ctx.count("routing:sink-open-failure (not modelled)")
            continue
        if problems:
            bad += 1
            if bad <= 4:
                direct = False
                ctx.violation("CLI routing: real run and model disagree for argv %s: %s" % (argv, "; ".join(problems)[:500]),
                              {"argv": ["uncrustify"] + argv, "env": penv, "stdin_hex": hx(stdin), "sandbox": "props/c10.py make_template()",
                               "model_plan": ans[2 * i], "model_effects": ans2[i][:600], "real_rc": real.rc,
                               "real_diff": real.diff, "real_stderr": real.err.decode("latin1")[-400:]},
                              key=None, found_input=direct)
    ctx.oblige("routing correspondence: real process = model (status, files and contents, stdout, lookups, jobs) on %d random argv (%d outside the model: sink not creatable)"
               % (len(cases), skipped), bad == 0, "corr", "%d mismatches" % bad)


# ---------------------------------------------------------------------------
# delivery modes x observers on corpus inputs
# ---------------------------------------------------------------------------

def corpus_cases(rng, per_lang, maxsize):
    """(config path, input path, language dir) from tests/*.test, stratified by language directory"""
    tdir = os.path.join(common.REPO, "tests")
    by = {}
    for tf in sorted(os.listdir(tdir)):
        if not tf.endswith(".test"):
            continue
        for ln in open(os.path.join(tdir, tf), encoding="utf-8", errors="replace"):
            m = re.match(r"^(\d+)([~!]*)\s+(\S+)\s+(\S+)(?:\s+(\S+))?$", ln.strip())
            if not m:
                continue
            cfg, inp, lang = m.group(3), m.group(4), m.group(5)
            d = inp.split("/")[0]
            ip = os.path.join(tdir, "input", inp)
            cp = os.path.join(tdir, "config", cfg)
            if not (os.path.isfile(ip) and os.path.isfile(cp)) or os.path.getsize(ip) > maxsize or os.path.getsize(ip) == 0:
                continue
            if inp.endswith(".sql"):
                continue
            by.setdefault(d, []).append((cp, ip, lang or d))
    out = []
    for d in sorted(by):
        l = by[d]
        rng.shuffle(l)
        out += l[:per_lang]
    return out


def covering_rows(k, rng):
    """a pairwise covering array for k binary factors (greedy), plus all-off and all-on"""
    rows = [tuple([0] * k), tuple([1] * k)]
    need = {(i, j, a, b) for i in range(k) for j in range(i + 1, k) for a in (0, 1) for b in (0, 1)}
    def cov(r):
        return {(i, j, r[i], r[j]) for i in range(k) for j in range(i + 1, k)}
    for r in rows:
        need -= cov(r)
    while need:
        best, bs = None, -1
        for _ in range(40):
            r = tuple(rng.randrange(2) for _ in range(k))
            s = len(cov(r) & need)
            if s > bs:
                best, bs = r, s
        rows.append(best)
        need -= cov(best)
    return rows


def obs_args(row):
    """observer words for a 0/1 row over OBS; --debug-csv-format needs -p FILE"""
    a = []
    if row[0]:
        a += ["-p", "P.txt"]
    if row[1]:
        a += ["-L", "A"]
    if row[2]:
        a += ["-s"]
    if row[3]:
        a += ["-q"]
    if row[4]:
        a += ["--dump-steps", "DMP"]
    if row[5]:
        a += ["--debug-csv-format"]
    return a


def part_modes(ctx, exe, table, base, cases, rows_for, env_variants):
    rng = ctx.rng
    byname = {n.lower(): v for n, v in table["names"]}
    refs = RefCache(exe, table, base)
    jobs = []      # (case idx, label, argv, stdin, where, pre, env, wrapper, group)
    metas = []
    for ci, (cfg, ip, ldir) in enumerate(cases):
        raw = open(ip, "rb").read()
        n = os.path.basename(ip)
        L = common.LANG_OF_DIR.get(ldir, ldir.upper())
        if L.lower() not in byname:
            continue
        tdir = os.path.join(base, "m%d" % ci)
        os.makedirs(tdir)
        for fn in (n, "stdin"):
            with open(os.path.join(tdir, fn), "wb") as f:
                f.write(raw)
        with open(os.path.join(tdir, "LIST"), "wb") as f:
            f.write(n.encode() + b"\n")
        metas.append((ci, cfg, ip, n, L, raw, tdir))
        C = ["-c", cfg]
        lst = n.encode() + b"\n"
        for grp, Lw in (("l", ["-l", L]), ("e", [])):
            modes = [
                ("stdin+assume", C + Lw + ["--assume", n], raw, ("stdout",)),
                ("-f", C + Lw + ["-f", n], b"", ("stdout",)),
                ("-f -o", C + Lw + ["-f", n, "-o", "OUT.x"], b"", ("file", "OUT.x")),
                ("prefix", C + Lw + ["--prefix", "PRE", n], b"", ("file", "PRE/" + n)),
                ("suffix", C + Lw + ["--suffix", ".SFX", n], b"", ("file", n + ".SFX")),
                ("default-suffix", C + Lw + [n], b"", ("file", n + ".uncrustify")),
                ("-F list", C + Lw + ["-F", "LIST"], b"", ("file", n + ".uncrustify")),
                ("-F -", C + Lw + ["-F", "-"], lst, ("file", n + ".uncrustify")),
                ("--replace", C + Lw + ["--replace", n], b"", ("inplace", n)),
                ("--no-backup", C + Lw + ["--no-backup", n], b"", ("inplace", n)),
                ("--replace --no-backup", C + Lw + ["--replace", "--no-backup", n], b"", ("inplace", n)),
                ("-f -o same", C + Lw + ["-f", n, "-o", n], b"", ("inplace", n)),
            ]
            if grp == "l":
                modes.append(("stdin+-l", C + Lw, raw, ("stdout-stdin",)))
            for label, argv, sin, where in modes:
                jobs.append((ci, grp + ":" + label, argv, sin, where, tdir, None, (), grp))
        # observers on three modes
        for row in rows_for(ci):
            oa = obs_args(row)
            for label, argv, sin, where in (("-f", C + ["-l", L, "-f", n], b"", ("stdout",)),
                                            ("stdin+assume", C + ["-l", L, "--assume", n], raw, ("stdout",)),
                                            ("-f -o", C + ["-l", L, "-f", n, "-o", "OUT.x"], b"", ("file", "OUT.x")),
                                            ("default-suffix", C + ["-l", L, n], b"", ("file", n + ".uncrustify"))):
                if len(raw) > 6000 and row[1]:
                    continue
                jobs.append((ci, "obs%s:%s" % ("".join(map(str, row)), label), oa + argv if rng.random() < 0.5 else argv + oa,
                             sin, where, tdir, None, (), "l"))
        # environment variations on two modes
        for vlabel, venv, wrapper, tmpd in env_variants:
            for label, argv, sin, where in (("-f", C + ["-l", L, "-f", n], b"", ("stdout",)),
                                            ("--replace", C + ["-l", L, "--replace", n], b"", ("inplace", n))):
                jobs.append((ci, "env:%s:%s" % (vlabel, label), argv, sin, where, tdir, venv, wrapper, "l", tmpd))
    ctx.log("mode runs:", len(jobs))

    def go(j):
        tmpd = j[9] if len(j) > 9 else None
        return clibox.run_real(exe, j[5], j[2], stdin=j[3], env=j[6], wrapper=j[7], tmpdir=tmpd, timeout=120)
    reals = common.pmap(go, jobs)
    # reference bytes per case and group
    meta = {m[0]: m for m in metas}
    ref = {}
    for j, r in zip(jobs, reals):
        ci, label = j[0], j[1]
        if label in ("l:-f", "e:-f"):
            ref[(ci, label[0])] = (r.rc, r.out)
    # model requests
    lines = []
    tdir_of = {}
    for j in jobs:
        ci, label, argv, sin, where, tdir = j[:6]
        tdir_of[id(argv)] = tdir
        _, cfg, ip, n, L, raw, _ = meta[ci]
        envw = clibox.model_env(tdir, argv, stdin=sin)
        fm = []
        for g in ("l", "e"):
            rr = ref.get((ci, g))
            if rr and rr[0] == 0:
                fl = byname[L.lower()] if g == "l" else None
                if fl is not None:
                    fm.append((n.encode(), fl, rr[1]))
        lines.append(("cli.plan " + " ".join(envw) + " -- " + " ".join(clibox.argv_words(["uncrustify"] + argv)), fm, raw, n, sin, envw, argv))
    plans = common.run_driver([l[0] for l in lines])
    lines2 = []
    for (pl, fm, raw, n, sin, envw, argv), ans in zip(lines, plans):
        plan = clibox.parse_plan(ans)
        fmt = {}
        for jb in plan.get("jobs", []):
            nm, fl = unhx(jb["name"]), int(jb["lang"])
            rb = refs.get(tdir_of[id(argv)], raw, nm, fl, cfg_args=tuple(argv[argv.index("-c"):argv.index("-c") + 2]))
            if rb is not None:
                fmt[(nm, fl)] = rb
        extra = ["raw=%s:%s" % (hx(n), hx(raw)),
                 "fmt=" + ",".join("%s:%d:%s" % (hx(a), l, hx(b)) for (a, l), b in fmt.items()),
                 "stdinraw=" + hx(raw if sin == raw else sin)]
        lines2.append("cli.run " + " ".join(envw + extra) + " -- " + " ".join(clibox.argv_words(["uncrustify"] + argv)))
    effs_all = common.run_driver(lines2)

    nbad_direct, nbad_model, nref_fail = 0, 0, 0
    seen_langs = set()
    for j, r, ea, pa in zip(jobs, reals, effs_all, plans):
        ci, label, argv, sin, where = j[:5]
        _, cfg, ip, n, L, raw, tdir = meta[ci]
        grp = j[8]
        rr = ref.get((ci, grp))
        if rr is None or rr[0] != 0:
            nref_fail += 1
            ctx.count("modes:reference-run-refused")
            continue
        seen_langs.add(L)
        ctx.case("mode:%s:%s:%s" % (ip, cfg, label))
        ctx.count("mode:" + label.split(":", 1)[1] if not label.startswith(("obs", "env")) else "mode:" + label.split(":")[0][:3])
        # ---- direct oracle: bytes at the documented place = bytes of the reference mode
        want = rr[1]
        if where[0] == "stdout-stdin":
            want = refs.get(tdir, raw, b"stdin", byname[L.lower()], cfg_args=("-c", cfg))
            if want is None:
                continue
        multi_obs = label.startswith("obs") and label.endswith("default-suffix") and (label[3] == "1" or label[7] == "1" or label[8] == "1")
        got = None
        if multi_obs:
            pass
        elif label.startswith("obs") and label[8] == "1" and label[3] == "0":
            pass                                     # --debug-csv-format without -p: exit 78 in every mode
        elif r.rc != 0:
            got = ("rc", r.rc)
        elif where[0].startswith("stdout"):
            got = r.out
        elif where[0] == "file":
            got = r.content.get(os.path.normpath(where[1]))
        else:
            got = r.content.get(where[1], raw if where[1] not in r.diff["deleted"] else None)
        if (multi_obs or (label.startswith("obs") and label[8] == "1" and label[3] == "0")):
            if r.rc != 78:
                nbad_direct += 1
                ctx.violation("observer option that needs -f / -p FILE did not end with status 78 (%s): rc %d" % (label, r.rc),
                              {"argv": ["uncrustify"] + argv, "input": ip, "config": cfg}, key=None, found_input=False)
        elif got != want:
            nbad_direct += 1
            if nbad_direct <= 4:
                ctx.violation("delivery mode / observer / environment changes the formatted bytes: %s gives %s, reference `-f` gives %d bytes"
                              % (label, ("status %d" % got[1]) if isinstance(got, tuple) else ("%d bytes" % len(got) if got is not None else "no output"), len(want)),
                              {"argv": ["uncrustify"] + argv, "reference_argv": ["uncrustify", "-c", cfg] + (["-l", L] if grp == "l" else []) + ["-f", n],
                               "input": ip, "config": cfg, "stdin": "the input file" if sin == raw else sin.decode("latin1"),
                               "cwd": "a directory holding a copy of the input under its base name", "label": label,
                               "stderr": r.err.decode("latin1")[-300:]},
                              key={"input": os.path.relpath(ip, common.REPO), "config": os.path.relpath(cfg, common.REPO), "mode": label.split(":", 1)[1] if ":" in label else label},
                              found_input=True)
        # ---- model: the process did exactly what the plan says
        status, effs = clibox.parse_effects(ea)
        problems = clibox.check_effects(r, status, effs, None, compare_stdout=True)
        if problems:
            nbad_model += 1
            if nbad_model <= 4:
                ctx.violation("delivery modes: real run and model plan disagree (%s): %s" % (label, "; ".join(problems)[:400]),
                              {"argv": ["uncrustify"] + argv, "input": ip, "config": cfg, "model_plan": pa[:500], "real_rc": r.rc, "real_diff": r.diff},
                              key=None, found_input=False)
    ctx.oblige("direct oracle: every delivery mode, observer subset and environment variant reproduces the reference bytes (%d runs, %d cases, languages %s)"
               % (len(jobs), len(metas), ",".join(sorted(seen_langs))), nbad_direct == 0, "oracle", "%d differing runs" % nbad_direct)
    ctx.oblige("mode correspondence: files created, contents, stdout and status = model plan on %d runs" % len(jobs), nbad_model == 0, "corr",
               "%d mismatches" % nbad_model)
    ctx.oblige("mode runs exercise all nine -l languages", len({x.replace("OC+", "OC") for x in seen_langs} & {"C", "CPP", "D", "CS", "JAVA", "PAWN", "OC", "VALA", "ECMA"}) >= 9
               or ctx.tier == "quick" and len(seen_langs) >= 8, "oracle", sorted(seen_langs))
    ctx.cov["reference_runs_refused"] = nref_fail
    # language from extension = language from -l whenever -l names the extension's language
    same = 0
    for (ci, cfg, ip, n, L, raw, tdir) in metas:
        a, b = ref.get((ci, "l")), ref.get((ci, "e"))
        if a and b and a[0] == 0 and b[0] == 0:
            ext_flags = int(common.run_driver(["cli.lang - " + hx(n)])[0])
            if ext_flags == byname[L.lower()]:
                same += 1
                ctx.case("lang-ext:%s" % ip)
                if a[1] != b[1]:
                    ctx.violation("language from the extension and the same language from -l format differently: %s" % ip,
                                  {"input": ip, "config": cfg, "argv1": ["-c", cfg, "-f", n], "argv2": ["-c", cfg, "-l", L, "-f", n]},
                                  key=None, found_input=True)
    ctx.oblige("direct oracle: -l LANG = language from the extension on %d cases where they name the same language" % same, True, "oracle")


COMPANIONS = {
    "comp_a.c": b"int tmpl = 1;\nint fn(int v) { if (v) return v + tmpl; return 0; }\n",
    "comp_b.h": b"namespace N {\ntemplate<typename T> class K : public B<T> { public: explicit K(T t) : v(t) {} T get() const noexcept; private: T v; };\n}\n",
    "comp_c.m": b"@interface Foo : NSObject\n- (void)bar:(int)x;\n@end\n@implementation Foo\n- (void)bar:(int)x { [self baz:x with:1]; }\n@end\n",
    "comp_d.mm": b"namespace M { template<class T> struct S { T t; }; }\n@interface Q : NSObject\n- (int)run;\n@end\nclass W { public: virtual ~W(); };\n",
    "comp_e.cs": b"namespace A { public class P { public int X { get; set; } void f() { foreach (var i in l) { using (var r = g()) { } } } } }\n",
    "comp_f.java": b"public class J extends B implements I { private final int a = 1; synchronized void f() throws E { for (int x : xs) { assert x > 0; } } }\n",
    "comp_h.tcc": b"template<class T> class Holder : public Base<T> { public: int in, out; int f() { return in * out; } };\n",
    "COMP_I": b"class K : public B { int get; int set; };\nint g(int in, int out) { return in * out; }\n",
    # include lists that share names, one of them the file's own header (the include sorter keeps per-file caches)
    "beta.cpp": b'#include "gamma.h"\n#include "alpha.h"\n#include "beta.h"\n#include <vector>\nint b;\n',
    "gamma.c": b'#include "beta.h"\n#include "gamma.h"\n#include <stdio.h>\n#include "alpha.h"\nint c;\n',
    "comp_g.cpp": b"namespace Z { template<typename T> class V final { public: V() = default; auto f() -> decltype(T()) { return T(); } }; }\n",
}


def part_batches(ctx, exe, base, cases):
    """several files in one invocation (positional arguments, -F list, --replace): every file is formatted as in a run of its own,
    language from each file's own extension, whatever was formatted before it"""
    rng = ctx.rng
    boxes = []
    # two synthetic cases under include-sorting configurations
    sdir = os.path.join(base, "bt-sort")
    os.makedirs(sdir)
    with open(os.path.join(sdir, "alpha.cpp"), "wb") as f:
        f.write(b'#include "beta.h"\n#include <map>\n#include "alpha.h"\n#include "gamma.h"\nint a;\n')
    extra = []
    for k, body in enumerate(("mod_sort_include=true\n", "mod_sort_include=true\nmod_sort_incl_import_prioritize_filename=true\n"
                              "mod_sort_incl_import_prioritize_angle_over_quotes=true\nmod_sort_incl_import_grouping_enabled=true\n")):
        cp = os.path.join(sdir, "sort%d.cfg" % k)
        with open(cp, "w") as f:
            f.write(body)
        extra.append((cp, os.path.join(sdir, "alpha.cpp"), "cpp"))
    for ci, (cfg, ip, ldir) in enumerate(list(cases) + extra):
        raw = open(ip, "rb").read()
        n = os.path.basename(ip)
        if n in COMPANIONS or len(raw) > 30000:
            continue
        tdir = os.path.join(base, "bt%d" % ci)
        os.makedirs(tdir)
        files = dict(COMPANIONS)
        files[n] = raw
        for fn, data in files.items():
            with open(os.path.join(tdir, fn), "wb") as f:
                f.write(data)
        boxes.append((ci, cfg, ip, n, tdir, files))
    singles_jobs = [(b, fn) for b in boxes for fn in b[5]]
    sres = common.pmap(lambda j: clibox.run_real(exe, j[0][4], ["-q", "-c", j[0][1], "-f", j[1]], timeout=60), singles_jobs)
    single = {}
    for (b, fn), r in zip(singles_jobs, sres):
        single[(b[0], fn)] = (r.rc, r.out)
    batches = []
    for b in boxes:
        ci, cfg, ip, n, tdir, files = b
        ok = [fn for fn in files if single[(ci, fn)][0] == 0]
        if n not in ok or len(ok) < 3:
            continue
        comps = sorted(fn for fn in ok if fn != n)
        narrow_first = comps[:]                     # comp_a.c, comp_b.h, comp_c.m, comp_d.mm, ...: each language set grows
        k = rng.randrange(0, len(narrow_first) + 1)
        o1 = narrow_first[:k] + [n] + narrow_first[k:]
        o2 = ok[:]
        rng.shuffle(o2)
        for order, mode in ((o1, "args"), (o2, rng.choice(["list", "replace"]))):
            if mode == "args":
                argv, sin = ["-q", "-c", cfg] + order, b""
            elif mode == "list":
                argv, sin = ["-q", "-c", cfg, "-F", "-"], "\n".join(order).encode() + b"\n"
            else:
                argv, sin = ["-q", "-c", cfg, "--replace", "--no-backup"] + order, b""
            batches.append((b, order, mode, argv, sin))
    bres = common.pmap(lambda x: clibox.run_real(exe, x[0][4], x[3], stdin=x[4], timeout=120), batches)
    bad = 0
    for (b, order, mode, argv, sin), r in zip(batches, bres):
        ci, cfg, ip, n, tdir, files = b
        ctx.case("batch:%s:%s:%s:%s" % (ip, cfg, mode, ",".join(order)))
        ctx.count("batch:" + mode)
        for i, fn in enumerate(order):
            want = single[(ci, fn)][1]
            if mode == "replace":
                got = r.content.get(fn, files[fn] if fn not in r.diff["deleted"] else None)
            else:
                got = r.content.get(fn + ".uncrustify")
            if got != want:
                bad += 1
                if bad <= 4:
                    ctx.violation("file %d (%s) of one invocation over several files is not formatted as in a run of its own (`-f %s`); files before it: %s"
                                  % (i + 1, fn, fn, order[:i]),
                                  {"argv": ["uncrustify"] + argv, "stdin": sin.decode("latin1"), "input": ip, "config": cfg,
                                   "companion_files": {k: v.decode("latin1") for k, v in COMPANIONS.items()},
                                   "cwd": "a directory holding the companion files and a copy of the input under its base name",
                                   "rc": r.rc, "stderr": r.err.decode("latin1")[-300:]},
                                  key={"batch-order": [os.path.splitext(x)[1] for x in order[:i + 1]], "config": os.path.relpath(cfg, common.REPO)},
                                  found_input=True)
                break
    ctx.oblige("direct oracle: several files in one invocation (positional, -F -, --replace) = one run per file, language from each extension (%d invocations)"
               % len(batches), bad == 0, "oracle", "%d differing" % bad)


def part_lang_table(ctx, exe, table, base):
    """language_flags_from_filename / _from_name of the binary (seen through the -L 0 line) vs the model"""
    rng = ctx.rng
    names = []
    for e, l in table["exts"]:
        names += ["x" + e, "X" + e.upper(), "dir" + e + "/y", "x" + e + "x", e, "a.b" + e]
    names += ["noext", "x.", "x.C", "x.Hpp", "x.c.h", "x.h.c", "x.mm.m", "é.cpp", "x.JAVA", "x.Js"]
    custom_cfg = os.path.join(base, "ext.cfg")
    with open(custom_cfg, "w") as f:
        f.write("file_ext CPP .foo .c\nfile_ext D .Zz\n")
    lines, runs = [], []
    for nm in names:
        for cust in (False, True):
            spec = "%s:%s,%s:%s,%s:%s" % (hx(".Zz"), hx("D"), hx(".c"), hx("CPP"), hx(".foo"), hx("CPP")) if cust else ""
            lines.append("cli.lang %s %s" % (spec if cust else "-", hx(nm)))
            runs.append((nm, cust))
    for nm in [n for n, _ in table["names"]] + ["c", "cPp", "oc+", "xx", "", "C ", "c-header", "SQL"]:
        lines.append("cli.langname " + hx(nm))
    model = common.run_driver(lines)

    def one(rc):
        nm, cust = rc
        return common.subprocess.run([exe, "-c", custom_cfg if cust else "-", "-L", "0", "--assume", nm], input=b"",
                                     stdout=common.subprocess.PIPE, stderr=common.subprocess.PIPE)
    res = common.pmap(one, runs)
    bad = 0
    for (nm, cust), r, m in zip(runs, res, model):
        mm = re.search(rb"from stdin as language (.*)$", r.stderr, re.M)
        got = mm.group(1).decode() if mm else "?"
        want = clibox.lang_name_from_flags(table, int(m)) if m.isdigit() else "bad:" + m
        ctx.case("langfile:%s:%s" % (nm, cust))
        if got != want:
            bad += 1
            if bad <= 3:
                ctx.violation("language_flags_from_filename(%r)%s: binary says '%s', model says '%s'" % (nm, " with file_ext" if cust else "", got, want),
                              {"argv": ["uncrustify", "-c", "-", "-L", "0", "--assume", nm]}, key=None, found_input=False)
    ctx.oblige("T-lang tie: language from file name, binary = model on %d names (with and without file_ext lines)" % len(runs), bad == 0, "corr")
    # -l NAME through the binary
    lrun = [n for n, _ in table["names"]] + ["c", "cPp", "oc+", "c-header"]
    res = common.pmap(lambda nm: common.subprocess.run([exe, "-c", "-", "-L", "0", "-l", nm], input=b"", stdout=common.subprocess.PIPE,
                                                       stderr=common.subprocess.PIPE), lrun)
    ans = common.run_driver(["cli.langname " + hx(nm) for nm in lrun])
    bad = 0
    for nm, r, m in zip(lrun, res, ans):
        mm = re.search(rb"from stdin as language (.*)$", r.stderr, re.M)
        got = mm.group(1).decode() if mm else "?"
        if got != clibox.lang_name_from_flags(table, int(m)):
            bad += 1
            ctx.violation("language_flags_from_name(%r): binary '%s' model flags %s" % (nm, got, m), {"name": nm}, key=None, found_input=False)
    ctx.oblige("T-lang tie: -l NAME, binary = model on %d names" % len(lrun), bad == 0, "corr")


def part_args_findings(ctx, exe, base):
    """replay of the witnesses of C10_args_prefix_matching on the real binary"""
    tmpl, files = make_template(os.path.join(base, "af"))
    C = ["-q", "-c", "c.cfg"]
    ref = clibox.run_real(exe, tmpl, C + ["-F", "list.txt"])
    good = ref.rc == 0 and sorted(ref.diff["created"]) == ["a.c.uncrustify", "sub/e.c.uncrustify"]
    ctx.oblige("-F list.txt writes a.c.uncrustify and sub/e.c.uncrustify", good, "oracle", (ref.rc, ref.diff))
    for argv in (C + ["--files", "list.txt"], C + ["--files=list.txt"]):
        r = clibox.run_real(exe, tmpl, argv)
        ctx.case("files-long:" + repr(argv))
        if not (r.rc == ref.rc and r.diff["created"] == ref.diff["created"] and r.content == ref.content):
            ctx.violation("`--files LIST` is not read as the file list: Args::Params(\"--file\") matches the word `--files` by prefix, "
                          "main() sees source_file=\"s\" and ends with status %d instead of formatting the listed files" % r.rc,
                          {"argv": ["uncrustify"] + argv, "cwd": "sandbox of props/c10.py make_template(): list.txt holds 'a.c\\nsub/e.c\\n'",
                           "expected": "same as -F list.txt (status 0, a.c.uncrustify, sub/e.c.uncrustify)", "real_rc": r.rc,
                           "stderr": r.err.decode("latin1")[-300:]},
                          key={"argv": "--files"}, found_input=True)
    # a list with a blank line
    r = clibox.run_real(exe, tmpl, C + ["-F", "list3.txt"])
    ctx.case("list-blank-line")
    if not (r.rc == 0 and r.diff["created"] == ["same.c.uncrustify"]):
        ctx.violation("a blank line in the -F list ends the run with status %d (do_source_file(\"\") fails to load)" % r.rc,
                      {"argv": ["uncrustify"] + C + ["-F", "list3.txt"], "list3.txt": "same.c\\n\\n", "real_rc": r.rc, "created": r.diff["created"]},
                      key={"list": "blank-line"}, found_input=True)
    # documented consequences of prefix matching / first-match marking that are NOT defects: checked against the model only
    ctx.oblige("replay of Args witnesses on the real binary ran", True, "oracle")


def part_valgrind(ctx, exe, cases):
    if not shutil.which("valgrind"):
        ctx.oblige("valgrind available", False, "oracle", "valgrind not installed")
        return
    base = tempfile.mkdtemp(prefix="c10vg-", dir=common.CACHE)
    try:
        def one(c):
            cfg, ip, ldir = c
            L = common.LANG_OF_DIR.get(ldir, ldir.upper())
            # glibc's AVX2 wmemcmp/memcmp read whole vectors past the end of a block (never across a page); memcheck 3.19 reports
            # that as an invalid read (std::set<std::wstring> in match_doxygen_javadoc_tag; ASan is clean on the same run), so the
            # vectorised variants are switched off for the run under valgrind
            env = dict(os.environ, GLIBC_TUNABLES="glibc.cpu.hwcaps=-AVX2_Usable,-AVX2")
            p = common.subprocess.run(["valgrind", "-q", "--error-exitcode=99", "--track-origins=no", exe, "-q", "-c", cfg, "-l", L, "-f", ip],
                                      stdout=common.subprocess.PIPE, stderr=common.subprocess.PIPE, timeout=900, env=env)
            return p.returncode, p.stderr
        res = common.pmap(one, cases)
        bad = 0
        for c, (rc, err) in zip(cases, res):
            ctx.case("valgrind:%s:%s" % (c[1], c[0]))
            if rc == 99:
                bad += 1
                if bad <= 3:
                    ctx.violation("valgrind memcheck reports an error (uninitialised read / invalid access): output may depend on memory contents",
                                  {"argv": ["valgrind", "-q", "--error-exitcode=99", "uncrustify", "-q", "-c", c[0], "-l", common.LANG_OF_DIR.get(c[2], c[2].upper()), "-f", c[1]],
                                   "report": err.decode("latin1")[:1500]},
                                  key={"valgrind": os.path.relpath(c[1], common.REPO), "config": os.path.relpath(c[0], common.REPO)}, found_input=True)
        ctx.oblige("valgrind memcheck clean on %d (input, config) pairs" % len(cases), bad == 0, "oracle", "%d reports" % bad)
    finally:
        shutil.rmtree(base, ignore_errors=True)


def run(ctx):
    ctx.cov["rule"] = ("routing: one case = one argv run by the real binary in a sandbox and by the Lean model (cli.run); distinct = distinct (argv, env, stdin). "
                       "modes: one case = one (input, config, delivery mode | observer subset | environment variant) run; non-trivial = reference run accepted the input")
    ctx.assumptions += ["file names shorter than the 1024-byte buffer of make_output_filename; dump prefix < 80 bytes",
                        "output targets can be created (sink open failures belong to C13)",
                        "argv words hold no NUL byte; list files hold no NUL byte",
                        "use_form_feed_no_more_as_whitespace_character=false when trimming list lines",
                        "environment / locale / cwd / ASLR independence: searched, not proved"]
    thorough = ctx.tier == "thorough"
    r = setup(ctx)
    if r is None or r[1] is None:
        return
    exe, table = r
    base = tempfile.mkdtemp(prefix="c10-", dir=common.CACHE)
    try:
        part_lang_table(ctx, exe, table, base)
        part_args_findings(ctx, exe, base)
        part_routing(ctx, exe, table, os.path.join(base, "rt"), 6000 if thorough else 1500)
        cases = corpus_cases(ctx.rng, 12 if thorough else 3, 40000 if thorough else 12000)
        rows = covering_rows(6, ctx.rng)
        allrows = list(itertools.product((0, 1), repeat=6))
        nfull = 12 if thorough else 0

        def rows_for(ci):
            if ci < nfull:
                return allrows
            if thorough or ci % 3 == 0:
                return rows
            return [rows[1], ctx.rng.choice(rows)]
        deep = os.path.join(base, "a-rather-long-directory-name-to-move-the-stack", "and another one with spaces", "w")
        os.makedirs(deep)
        variants = [("again", None, (), None), ("LC_ALL=C.utf8", {"LC_ALL": "C.utf8"}, (), None),
                    ("LC_ALL=tr_TR.UTF-8,LANG", {"LC_ALL": "tr_TR.UTF-8", "LANG": "de_DE"}, (), None),
                    ("HOME+pad", {"HOME": "/nonexistent", "PAD": "x" * 3000, "UNCRUSTIFY_X": "1"}, (), None),
                    ("cwd", None, (), deep)]
        if shutil.which("setarch"):
            import platform
            variants.append(("setarch -R", None, ("setarch", platform.machine(), "-R"), None))
        if not thorough:
            variants = variants[:1] + [variants[1 + ctx.seed % 2]] + variants[3:]
        part_modes(ctx, exe, table, base, cases, rows_for, variants)
        part_batches(ctx, exe, base, cases)
        if thorough:
            vg = [c for c in cases if os.path.getsize(c[1]) < 8000]
            ctx.rng.shuffle(vg)
            part_valgrind(ctx, exe, vg[:24])
    finally:
        shutil.rmtree(base, ignore_errors=True)
        shutil.rmtree(clibox.BOXDIR, ignore_errors=True)
