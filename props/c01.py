"""C01 -- formatting preserves program meaning (compile equivalence).  DESIGN.md section 6/C01.   PARTIAL.

What an executable model can carry (Props/C01.lean): under a whitespace-only configuration the token stream is preserved
(the C02 theorems: whitespace insertion never changes the token list of the specification lexer, fusion guard complete
outside the listed gaps, output machine emits every chunk once and in order) - object code is then equal under the
recorded assumption A-cc (a compiler's output is a function of the preprocessing-token sequence incl. directive lines;
__LINE__/__FILE__/assert/debug info excluded); for the code-modifying options: bracket-structure preservation (C04
theorems) and meaning preservation of brace removal/addition on a statement-level model with the dangling-else guard
(MiniC.lean: parse (unparse ..) round trip).  A compiler is not modelled: object-code equality itself is SEARCHED, with
gcc / g++ / javac on generated compilable programs: input and output are compiled with the same flags and the object
files compared byte for byte.
"""
import collections
import os
import re
import shutil
import subprocess
import tempfile

from vlib import cgen, common, lexcheck, optreg, pipeline, unc

EXCLUDED = {"tok_split_gte", "enable_digraphs", "string_escape_char", "string_escape_char2", "string_replace_tab_chars",
            "disable_processing_cmt", "enable_processing_cmt", "processing_cmt_as_regex", "cmt_reflow_fold_regex_file",
            "disable_processing_nl_cont", "pp_ignore_define_body", "include_category_0", "include_category_1", "include_category_2"}
TOKENPOS = ["ignore", "lead", "lead_break", "lead_force", "trail", "trail_break", "trail_force", "join", "break", "force"]


def option_values(name, r):
    if name.startswith(("debug_", "cmt_insert_")) or name in EXCLUDED:
        return []
    k = r["kind"]
    if k == "iarf":
        return ["add", "remove", "force"]
    if k == "bool":
        return ["true", "false"]
    if k == "lineend":
        return ["lf", "crlf"] if name == "newlines" else []
    if k == "tokenpos":
        return TOKENPOS[1:]
    if k in ("unum", "num"):
        lo, hi = r["min"], r["max"]
        vals = {0, 1, 2, 3, 8}
        if lo is not None:
            vals |= {lo, lo + 1}
        if hi is not None:
            vals |= {hi, max(hi - 1, 0)} if hi <= 10000 else {200}
            vals = {v for v in vals if (lo is None or v >= lo) and v <= hi}
        if k == "num" and (lo is None or lo < 0):
            vals |= {-1, -4}
        if name in ("code_width", "cmt_width"):
            vals = {0, 20, 40, 80}
        if name in ("input_tab_size", "output_tab_size"):
            vals = {1, 2, 4, 8}
        if name == "indent_columns":
            vals = {1, 2, 4, 8, 16}
        return sorted(vals)
    return []


CC = {"C": (["gcc", "-c", "-O1", "-g0", "-w", "-std=gnu11"], "t.c", "t.o"),
      "CPP": (["g++", "-c", "-O1", "-g0", "-w", "-std=gnu++17", "-frandom-seed=1"], "t.cpp", "t.o"),
      "JAVA": (["javac", "-g:none", "-nowarn"], "T.java", "T.class"),
      # Objective-C: the C programs of the generator, read by uncrustify as OC and compiled by clang as Objective-C (gcc has no cc1obj here)
      "OC": (["clang-14", "-x", "objective-c", "-c", "-O1", "-g0", "-w", "-std=gnu11"], "t.m", "t.o")}


def compile_obj(lang, data, base):
    d = tempfile.mkdtemp(dir=base)
    try:
        cmd, src, obj = CC[lang]
        with open(os.path.join(d, src), "wb") as f:
            f.write(data)
        r = subprocess.run(cmd + [src] + ([] if lang == "JAVA" else ["-o", obj]), cwd=d, stdout=subprocess.PIPE, stderr=subprocess.PIPE, timeout=120)
        if r.returncode != 0:
            return None, r.stderr.decode("latin1")[:400]
        return open(os.path.join(d, obj), "rb").read(), ""
    finally:
        shutil.rmtree(d, ignore_errors=True)


# ---------------------------------------------------------------------------------------------------------------
# statement skeletons judged by the Lean parser (MiniC.lean): brace removal / addition must keep the statement tree
# up to redundant single-statement blocks
# ---------------------------------------------------------------------------------------------------------------

def shapes(n):
    """all statement shapes of size n (ids are filled in later): nested tuples"""
    if n <= 0:
        return []
    out = []
    if n == 1:
        return [("x",), ("B",)]
    for s in shapes(n - 1):
        out += [("blk", s), ("if", s), ("loop", s)]
    for a in range(1, n - 1):
        for t in shapes(a):
            for e in shapes(n - 1 - a):
                out.append(("ife", t, e))
    return out


def random_shape(rng, d):
    k = rng.random()
    if d <= 0 or k < 0.2:
        return ("x",) if rng.random() < 0.8 else ("B",)
    if k < 0.4:
        return ("blk", random_shape(rng, d - 1))
    if k < 0.6:
        return ("if", random_shape(rng, d - 1))
    if k < 0.8:
        return ("ife", random_shape(rng, d - 1), random_shape(rng, d - 1))
    return ("loop", random_shape(rng, d - 1))


def wf_shape(sh):
    def open_end(s):
        return s[0] == "if" or (s[0] == "ife" and open_end(s[2])) or (s[0] == "loop" and open_end(s[1]))
    if sh[0] in ("x", "B"):
        return True
    if sh[0] == "ife":
        return wf_shape(sh[1]) and wf_shape(sh[2]) and not open_end(sh[1])
    return wf_shape(sh[1])


def render_shape(sh, ctr, rng, toks, loops):
    """C text and MiniC token list of a shape; ctr = id counter (list of one int)"""
    k = sh[0]
    ctr[0] += 1
    i = ctr[0]
    if k == "x":
        toks.append("x%d" % i)
        return "x%d();" % i
    if k == "B":
        toks.append("B%d" % i)
        if rng.random() < 0.4:
            return "{ { y%d(); } z%d(); }" % (i, i)      # a block whose first statement is itself a block
        return "{ y%d(); z%d(); }" % (i, i)
    if k == "blk":
        toks.append("{")
        b = render_shape(sh[1], ctr, rng, toks, loops)
        toks.append("}")
        return "{ %s }" % b
    if k == "if":
        toks.append("i%d" % i)
        return "if (c%d) %s" % (i, render_shape(sh[1], ctr, rng, toks, loops))
    if k == "ife":
        toks.append("i%d" % i)
        t = render_shape(sh[1], ctr, rng, toks, loops)
        toks.append("e")
        e = render_shape(sh[2], ctr, rng, toks, loops)
        return "if (c%d) %s else %s" % (i, t, e)
    toks.append("w%d" % i)
    body = render_shape(sh[1], ctr, rng, toks, loops)
    return (rng.choice(loops) % i) + " " + body


TOK_RE = re.compile(r"if\s*\(\s*c(\d+)\s*\)|while\s*\(\s*c(\d+)\s*\)|for\s*\(\s*;\s*c(\d+)\s*;\s*\)|(else)\b|(\{)|(\})|x(\d+)\s*\(\s*\)\s*;|y(\d+)\s*\(\s*\)\s*;|z(\d+)\s*\(\s*\)\s*;|(\S)")


def skeleton_tokens(text):
    """MiniC tokens of the body of `void f(void) { ... }` in formatted output, or None"""
    a = text.find("{")
    b = text.rfind("}")
    if a < 0 or b <= a:
        return None
    toks = []
    for m in TOK_RE.finditer(text[a + 1:b]):
        if m.group(1):
            toks.append("i" + m.group(1))
        elif m.group(2):
            toks.append("w" + m.group(2))
        elif m.group(3):
            toks.append("w" + m.group(3))
        elif m.group(4):
            toks.append("e")
        elif m.group(5):
            toks.append("{")
        elif m.group(6):
            toks.append("}")
        elif m.group(7):
            toks.append("x" + m.group(7))
        elif m.group(8):
            toks.append("y" + m.group(8))
        elif m.group(9):
            toks.append("z" + m.group(9))
        else:
            return None
    out, i = [], 0
    while i < len(toks):
        if toks[i] == "{" and i + 3 < len(toks) and toks[i + 1][0] == "y" and toks[i + 2] == "z" + toks[i + 1][1:] and toks[i + 3] == "}":
            out.append("B" + toks[i + 1][1:])
            i += 4
        elif (toks[i] == "{" and i + 5 < len(toks) and toks[i + 1] == "{" and toks[i + 2][0] == "y" and toks[i + 3] == "}"
              and toks[i + 4] == "z" + toks[i + 2][1:] and toks[i + 5] == "}"):
            out.append("B" + toks[i + 2][1:])
            i += 6
        else:
            if toks[i][0] in "yz":
                # `{ { y(); } z(); }` that lost its OUTER braces shows as `{ y } z` without an enclosing `{`
                if (toks[i][0] == "y" and i >= 1 and toks[i - 1] == "{" and i + 2 < len(toks) and toks[i + 1] == "}"
                        and toks[i + 2] == "z" + toks[i][1:] and (i < 2 or toks[i - 2] != "{")):
                    return "outer-braces-of-block-with-leading-block-removed"
                return None
            out.append(toks[i])
            i += 1
    return out


BRACE_CFGS = [
    {"mod_full_brace_if": "remove", "mod_full_brace_while": "remove", "mod_full_brace_for": "remove"},
    {"mod_full_brace_if": "remove"},
    {"mod_full_brace_while": "remove", "mod_full_brace_for": "remove"},
    {"mod_full_brace_if": "add", "mod_full_brace_while": "add", "mod_full_brace_for": "add"},
    {"mod_full_brace_if": "remove", "mod_full_brace_while": "add", "mod_full_brace_for": "add"},
    {"mod_full_brace_if_chain": 1},
    {"mod_full_brace_if_chain": 2},
    {"mod_full_brace_if_chain": 3},
    {"mod_full_brace_if": "remove", "mod_full_brace_while": "remove", "mod_full_brace_for": "remove", "mod_full_brace_nl": 2, "nl_after_semicolon": "true"},
    {"mod_full_brace_if": "remove", "mod_full_brace_if_chain_only": "true"},
    {"mod_full_brace_if": "force", "mod_full_brace_while": "force", "mod_full_brace_for": "force", "nl_if_brace": "add"},
]


def skeleton_check(ctx, exe, sc, thorough):
    rng = ctx.rng
    shp = []
    for n in range(1, 6 if thorough else 5):
        shp += shapes(n)
    for _ in range(600 if thorough else 120):
        shp.append(random_shape(rng, rng.choice([3, 4, 5, 6])))
    # the dangling-else family: a braced body that ends in an open `if`, under k brace-less loops, in the then-branch of if/else
    opens = [("if", ("x",)), ("loop", ("if", ("x",))), ("ife", ("x",), ("if", ("x",))), ("if", ("ife", ("x",), ("x",))), ("if", ("blk", ("if", ("x",))))]
    for k in range(0, 4):
        for w in opens:
            body = ("blk", w)
            for _ in range(k):
                body = ("loop", body)
            shp.append(("ife", body, ("x",)))
            shp.append(("ife", ("x",), ("ife", body, ("blk", ("x",)))))
    shp = [s for s in shp if wf_shape(s)]
    files = []
    group = 6
    for g in range(0, len(shp), group):
        toks, parts, ctr = [], [], [0]
        for sh in shp[g:g + group]:
            parts.append("   " + render_shape(sh, ctr, rng, toks, ["while (c%d)", "while (c%d)", "for (; c%d;)"]))
        txt = "void f(void)\n{\n" + "\n".join(parts) + "\n}\n"
        files.append((sc.write(txt, ".c"), txt, toks))
    jobs = []
    for p, txt, toks in files:
        for o in (BRACE_CFGS if thorough else rng.sample(BRACE_CFGS, 5)):
            jobs.append(pipeline.Job("skel", sc.cfg(None, o), p, "C", {"opts": o, "text": txt, "toks": toks}))
    pipeline.run_jobs(exe, jobs, hooks=False, timeout=10)
    reqs, owners = [], []
    bad = 0
    for j in jobs:
        ctx.case("skel:%s:%s" % (j.inp, sorted(j.meta["opts"].items())))
        if j.res["rc"] != 0:
            key = None
            if j.res["rc"] == "timeout" and j.meta["opts"].get("nl_after_semicolon") == "true" and any(v == "remove" for v in j.meta["opts"].values()):
                key = {"kind": "skeleton-hang", "needs": ["nl_after_semicolon", "brace-removal"]}
            if ctx.violation("uncrustify exits %s on a statement skeleton with %s" % (j.res["rc"], j.meta["opts"]),
                             {"options": j.meta["opts"], "input_text": j.meta["text"]}, key=key):
                bad += 1
            continue
        ot = skeleton_tokens(j.res["out"].decode("latin1"))
        if ot is None or isinstance(ot, str):
            key = None
            if isinstance(ot, str):
                key = {"skeleton": ot, "brace_removal": any(v == "remove" for v in j.meta["opts"].values())}
            if ctx.violation("the output of a statement skeleton is no longer a skeleton (%s) with %s"
                             % (ot or "tokens lost or a multi-statement block unbraced", j.meta["opts"]),
                             {"options": j.meta["opts"], "input_text": j.meta["text"], "output": j.res["out"].decode("latin1")}, key=key):
                bad += 1
            continue
        reqs.append("minic.norm " + " ".join(j.meta["toks"]))
        reqs.append("minic.norm " + " ".join(ot))
        owners.append((j, ot))
    ans = common.run_driver(reqs) if reqs else []
    changed = 0
    for k, (j, ot) in enumerate(owners):
        a, b = ans[2 * k], ans[2 * k + 1]
        if ot != j.meta["toks"]:
            changed += 1
        if not a.startswith("ok "):
            ctx.count("skeleton-input-not-parsed")
            continue
        if a != b:
            bad += 1
            first = next((x for x, y in zip(a.split(";"), b.split(";") + [""] * 99) if x != y), a)
            second = next((y for x, y in zip(a.split(";"), b.split(";") + [""] * 99) if x != y), b)
            key = {"kind": "statement-structure-changed", "opts": {k2: str(v) for k2, v in sorted(j.meta["opts"].items())}}
            if not ctx.violation("brace editing changes the statement structure (Lean parser MiniC.parse): %s becomes %s with %s"
                                 % (first, second, j.meta["opts"]),
                                 {"options": j.meta["opts"], "input_text": j.meta["text"], "output": j.res["out"].decode("latin1"),
                                  "tokens_in": j.meta["toks"], "tokens_out": ot}, key=key):
                bad -= 1
    ctx.cov["skeleton_runs"] = len(jobs)
    ctx.cov["skeleton_runs_with_brace_edits"] = changed
    ctx.oblige("tie/oracle: %d statement skeletons x brace configurations: the Lean parser gives input and output the same tree up to redundant blocks "
               "(%d runs edited braces)" % (len(files) * 6, changed), bad == 0 and changed > 0, "corr", "%d failures" % bad)


def _optclass(x, hang=False):
    """option value as it appears in a known-findings key: negative numbers are one class (for hangs also positive ones)"""
    try:
        return "<0" if int(x) < 0 else (">0" if hang and int(x) > 0 else str(x))
    except (TypeError, ValueError):
        return str(x)


def paren_check(ctx, exe, sc):
    """tie of ParenBool.lean: every operator pattern of up to 5 operators over {comparison, &&/||, assignment} as an `if` condition,
    formatted with mod_full_paren_if_bool=true; the parentheses uncrustify adds must be those of the model `addParens true`"""
    import itertools
    ops = {"c": ["==", "<", "!="], "b": ["&&", "||"], "e": ["=", "+="]}
    cases = []
    for n in range(0, 6):
        for pat in itertools.product("cbe", repeat=n):
            cases.append("a" + "".join(o + "a" for o in pat))
    cfg = sc.cfg(None, {"mod_full_paren_if_bool": "true"})
    rng = ctx.rng
    jobs = []
    for pat in cases:
        k = 0
        parts = []
        for ch in pat:
            if ch == "a":
                k += 1
                parts.append("v%d" % k)
            else:
                parts.append(rng.choice(ops[ch]))
        txt = "void f(void)\n{\n   if (%s)\n   {\n      g();\n   }\n}\n" % " ".join(parts)
        jobs.append(pipeline.Job("paren:" + pat, cfg, sc.write(txt, ".c"), "C", {"pat": pat, "text": txt}))
    pipeline.run_jobs(exe, jobs, hooks=False)
    ans = common.run_driver(["parenbool.run 1 " + j.meta["pat"] for j in jobs])
    bad = 0
    for j, a in zip(jobs, ans):
        ctx.case(j.name)
        if j.res["rc"] != 0:
            continue
        out = j.res["out"].decode("latin1")
        m = re.search(r"if\s*\((.*)\)\s*\{", out, re.S)
        if not m:
            continue
        got = ""
        for t in re.findall(r"v\d+|==|!=|\+=|&&|\|\||<|=|\(|\)", m.group(1)):
            got += ("a" if t[0] == "v" else "c" if t in ("==", "<", "!=") else "b" if t in ("&&", "||") else "e" if t in ("=", "+=") else t)
        if got != a:
            bad += 1
            if bad <= 3:
                ctx.violation("check_bool_parens(): condition pattern %s comes out as %s, the model addParens gives %s" % (j.meta["pat"], got, a),
                              {"input_text": j.meta["text"], "options": {"mod_full_paren_if_bool": "true"}, "output": out}, key=None,
                              found_input="e" in got[got.find("("):got.find(")") + 1] if "(" in got else False)
    ctx.oblige("tie: parentheses added by check_bool_parens() = model addParens (ParenBool.lean) on all %d operator patterns of length <= 5" % len(cases),
               bad == 0, "corr", "%d mismatches" % bad)


def int_types_check(ctx, exe, sc, thorough):
    """mod_int_* / mod_*_int: every declaration of the universe of vlib/inttycheck.py that gcc accepts must still be accepted after
    formatting and declare the same type (`__builtin_types_compatible_p`), under every listed setting of the nine options"""
    from vlib import inttycheck as itc
    lines, _pp = itc.universe(ctx.rng)
    decls = [ln for ln in lines if len(ln) >= 3 and ln[-2][0].startswith("v") and ln[-1][0] == ";" and all(w in itc.ALPHA for w, _ in ln[:-2])]
    src = "".join(" ".join(w for w, _ in ln) + "\n" for ln in decls)
    p = sc.write(src, ".c")
    r = subprocess.run(["gcc", "-fsyntax-only", "-w", "-std=gnu11", "-fmax-errors=0", p], stdout=subprocess.PIPE, stderr=subprocess.PIPE)
    badl = {int(m.group(1)) for m in re.finditer(r":(\d+):\d+: error", r.stderr.decode("latin1"))}
    valid = [ln for i, ln in enumerate(decls) if (i + 1) not in badl]
    ctx.count("intty:valid-declarations", len(valid))
    text = "".join(" ".join(w for w, _ in ln) + "\n" for ln in valid)
    sets = itc.settings(ctx.rng, 80 if thorough else 16)

    def one(k):
        rc, out = itc.run_real(exe, text, sets[k], sc.dir, "c01k%d" % k)
        if rc != 0:
            return rc, None, None
        ol = [l for l in out.split("\n") if l.strip()]
        if len(ol) != len(valid):
            return "lines", None, None
        chk = []
        for ln, o in zip(valid, ol):
            name = ln[-2][0]
            a = " ".join(w for w, _ in ln).replace(name, "a_" + name)
            b = re.sub(r"\b%s\b" % name, "b_" + name, o)
            chk.append("%s %s _Static_assert(__builtin_types_compatible_p(__typeof__(a_%s), __typeof__(b_%s)), \"t\");" % (a, b, name, name))
        q = os.path.join(sc.dir, "intty_chk%d.c" % k)
        with open(q, "w") as f:
            f.write("\n".join(chk) + "\n")
        g = subprocess.run(["gcc", "-fsyntax-only", "-w", "-std=gnu11", "-fmax-errors=0", q], stdout=subprocess.PIPE, stderr=subprocess.PIPE)
        errs = sorted({int(m.group(1)) for m in re.finditer(r":(\d+):\d+: error", g.stderr.decode("latin1"))})
        return 0, errs, ol
    res = common.pmap(one, list(range(len(sets))))
    bad = 0
    for st, (rc, errs, ol) in zip(sets, res):
        ctx.case("intty-types:%s" % sorted(st.items()), nontrivial=True)
        if rc != 0:
            bad += 1
            ctx.violation("mod_int options %s: uncrustify fails on the declaration universe (%s)" % (st, rc), {"options": st}, key=None, found_input=False)
            continue
        if errs:
            bad += 1
            if bad <= 3:
                i = errs[0] - 1
                ctx.violation("with %s the declaration `%s` is written `%s`: it no longer compiles or declares another type (%d of %d declarations)"
                              % ({k: v for k, v in st.items() if v != "ignore"}, " ".join(w for w, _ in valid[i]), ol[i].strip(), len(errs), len(valid)),
                              {"options": st, "input_text": " ".join(w for w, _ in valid[i]) + "\n", "lang": "C",
                               "how": "uncrustify -q -c cfg -l C; gcc -fsyntax-only with _Static_assert(__builtin_types_compatible_p(...))"},
                              key={"kind": "int-keyword-changes-type", "decl": [w for w, _ in valid[i][:-2]]}, found_input=True)
    ctx.oblige("search: mod_int_* / mod_*_int keep every valid declaration of the universe valid and of the same type (%d settings x %d declarations)"
               % (len(sets), len(valid)), bad == 0, "oracle", "%d settings" % bad)


def run(ctx):
    ctx.cov["rule"] = ("one case = (generated compilable program, configuration): uncrustify must exit 0 and the output must compile (gcc/g++/javac, "
                       "same flags) to the same object bytes as the input; configuration = defaults, one option singly at an enumerated/boundary "
                       "value (rotating through the registry by seed in the quick tier, every option x value in the thorough tier), or a random "
                       "multi-option draw incl. code-modifying options; distinct = distinct (program, configuration); non-trivial = input compiles")
    ctx.trusted += ["gcc/g++/javac as oracle of 'same object code'", "assumption A-cc (object code is a function of the token stream and directive lines)",
                    "generator vlib/cgen.py avoids __LINE__/__FILE__/assert"]
    ctx.assumptions += ["object-code equality itself is searched, not proved: no compiler model (DESIGN.md 6/C01, 10)",
                        "debug_*, lexer-redefining and file-inserting options excluded as the property says; configurations refused with status 78 are skipped"]
    ctx.lean_obligations()
    common.lean_extra(ctx, "UncModel.Props.ParenBool", ["addParens_erase", "addParens_groups", "addParens_fixed_no_assign_in_group",
                                                         "old_changes_meaning_witness", "fixed_same_meaning_upto5"], namespace="Unc.PB")
    exe = common.build_repo(hooks=True)
    thorough = ctx.tier == "thorough"
    rng = ctx.rng
    reg = optreg.registry()
    singles = [(k, v) for k in sorted(reg) for v in option_values(k, reg[k])]
    multi_pool = [k for k in sorted(reg) if option_values(k, reg[k])]
    sc = pipeline.Scratch("c01")
    try:
        skeleton_check(ctx, exe, sc, thorough)
        int_types_check(ctx, exe, sc, thorough)
        paren_check(ctx, exe, sc)
        progs = []
        for i in range(36 if thorough else 14):
            lang = "C" if i % 3 == 0 else ("CPP" if i % 3 == 1 else "C")
            if i % 7 == 6:
                lang = "JAVA"
            txt = cgen.program(rng, lang, stats=ctx.hist, style=rng.choice(["random", "random", "clean"]), div_deref=(i % 2 == 0))
            if lang == "C" and i % 3 == 2 and shutil.which("clang-14"):
                lang = "OC"
            ext = {"C": ".c", "CPP": ".cpp", "JAVA": ".java", "OC": ".m"}[lang]
            progs.append((sc.write(txt, ext), lang, txt))
        base_obj = {}
        for (p, lang, txt), (obj, err) in zip(progs, common.pmap(lambda pr: compile_obj(pr[1], pr[2].encode(), sc.dir), progs)):
            if obj is None:
                ctx.count("generator-output-does-not-compile")
                ctx.log("generator defect: %s does not compile: %s" % (p, err[:200]))
            else:
                base_obj[p] = obj
        progs = [pr for pr in progs if pr[0] in base_obj]
        jobs = []
        rng.shuffle(singles)
        per_prog = len(singles) // max(1, len(progs)) + 1 if thorough else 40
        si = 0
        for p, lang, txt in progs:
            jobs.append(pipeline.Job("default", sc.cfg(None, {}), p, lang, {"opts": {}, "text": txt, "kind": "default"}))
            njava = 6 if lang == "JAVA" and not thorough else per_prog
            for _ in range(njava):
                k, v = singles[si % len(singles)]
                si += 1
                jobs.append(pipeline.Job("single", sc.cfg(None, {k: v}), p, lang, {"opts": {k: v}, "text": txt, "kind": "single"}))
            for _ in range((30 if thorough else 10) if lang != "JAVA" else 3):
                o = {}
                for k in rng.sample(multi_pool, rng.randrange(2, 14)):
                    o[k] = rng.choice(option_values(k, reg[k]))
                if rng.random() < 0.5:
                    for k in rng.sample([m for m in multi_pool if m.startswith("mod_")], rng.randrange(1, 5)):
                        o[k] = rng.choice(option_values(k, reg[k]))
                jobs.append(pipeline.Job("multi", sc.cfg(None, o), p, lang, {"opts": o, "text": txt, "kind": "multi"}))
            # every spacing option = remove (only the fusion guard of space_text() keeps tokens apart), with a few bool options flipped
            for _ in range(4 if thorough else 2):
                o = {k: "remove" for k in multi_pool if k.startswith("sp_") and reg[k]["kind"] == "iarf" and not k.startswith("sp_cmt_cpp")}
                for k in rng.sample([b for b in multi_pool if reg[b]["kind"] == "bool" and b.startswith(("sp_", "nl_", "indent_"))], 6):
                    o[k] = "true"
                if rng.random() < 0.7:
                    o["sp_permit_cpp11_shift"] = "true"
                jobs.append(pipeline.Job("remove-all", sc.cfg(None, o), p, lang, {"opts": o, "text": txt, "kind": "remove-all"}))
            # every spacing option = force / add: a token that is torn apart (`0x1p -2`, `- >`, `u8 "x"`) shows up here
            for val in ("force", "add"):
                o = {k: val for k in multi_pool if k.startswith("sp_") and reg[k]["kind"] == "iarf" and not k.startswith("sp_cmt_cpp")}
                jobs.append(pipeline.Job("force-all", sc.cfg(None, o), p, lang, {"opts": o, "text": txt, "kind": "force-all"}))
        # the code-modifying options are few: every mod_ option at every enumerated/boundary value on every C++ program and some C/OC programs of every run
        if True:
            cpp = [pr for pr in progs if pr[1] == "CPP"]
            cs = [pr for pr in progs if pr[1] in ("C", "OC")]
            for n, (k, v) in enumerate(sorted(x for x in singles if x[0].startswith("mod_"))):
                for pool, off in [(cpp, x) for x in range(len(cpp))] + [(cs, x) for x in range(6 if thorough else 2)]:
                    if len(pool) > off:
                        p, lang, txt = pool[(n + off) % len(pool)]
                        jobs.append(pipeline.Job("single", sc.cfg(None, {k: v}), p, lang, {"opts": {k: v}, "text": txt, "kind": "mod-single"}))
        ctx.log("programs: %d, runs: %d" % (len(progs), len(jobs)))
        pipeline.run_jobs(exe, jobs, hooks=False, timeout=5)

        def judge(j):
            rc = j.res["rc"]
            if rc == 78:
                return ("refused", None)
            if rc != 0:
                return ("exit", "uncrustify exits with status %s: %s" % (rc, j.res["err"][:200].decode("latin1") if isinstance(j.res["err"], bytes) else str(j.res["err"])[:200]))
            if j.res["out"] == j.meta["text"].encode():
                return ("same-bytes", None)
            obj, err = compile_obj(j.lang, j.res["out"], sc.dir)
            if obj is None:
                return ("compile-error", "the formatted program no longer compiles: %s" % err.replace("\n", " | ")[:300])
            if obj != base_obj[j.inp]:
                return ("object-differs", "the formatted program compiles to different object code (%d vs %d bytes)" % (len(obj), len(base_obj[j.inp])))
            return ("equal", None)
        verdicts = common.pmap(judge, jobs)
        bad = []
        for j, (v, msg) in zip(jobs, verdicts):
            ctx.count("verdict:" + v)
            ctx.count("verdict:%s:%s" % (j.meta.get("kind", j.name), v))
            ctx.case("%s:%s" % (j.inp, sorted(j.meta["opts"].items())), nontrivial=v not in ("refused",))
            if msg:
                bad.append((j, v, msg))
        # ---- classify: minimise the option set, then name the mechanism (token fusion / brace edit / ...)
        nviol = 0
        cap = 400 if thorough else 40
        seen_cfg = set()
        todo = []
        for j, v, msg in bad:
            sig = (v, tuple(sorted((k, str(x)) for k, x in j.meta["opts"].items())))
            if sig in seen_cfg:
                continue              # the same configuration failing on another program: one replay is enough
            seen_cfg.add(sig)
            todo.append((j, v, msg))
        for j, v, msg in todo[:cap]:
            opts = dict(j.meta["opts"])

            def fails(o):
                jj = pipeline.Job("min", sc.cfg(None, o), j.inp, j.lang, {"opts": o, "text": j.meta["text"]})
                pipeline.run_jobs(exe, [jj], hooks=False, timeout=5)
                v2, m2 = judge(jj)
                # the same kind of failure as the run being minimised (a hang must stay a hang)
                return v2 == v and (v != "exit" or ("timeout" in (m2 or "")) == ("timeout" in msg))
            keys = list(opts)
            n = 2
            while len(keys) >= 2:            # delta debugging over the option set
                chunk = (len(keys) + n - 1) // n
                reduced = False
                for i in range(0, len(keys), chunk):
                    cand = keys[:i] + keys[i + chunk:]
                    if cand and fails({a: opts[a] for a in cand}):
                        keys, n, reduced = cand, max(n - 1, 2), True
                        break
                if not reduced:
                    if n >= len(keys):
                        break
                    n = min(len(keys), n * 2)
            opts = {a: opts[a] for a in keys}
            hang = v == "exit" and "timeout" in msg
            key = {"symptom": "hang" if hang else v, "opts": {k: (">0" if k == "mod_infinite_loop" else _optclass(x, hang)) for k, x in sorted(opts.items())}}
            # token-level cause under whitespace-only options: which two tokens were fused
            if not any(k.startswith("mod_") for k in opts):
                jj = pipeline.Job("min", sc.cfg(None, opts), j.inp, j.lang, {})
                pipeline.run_jobs(exe, [jj], hooks=False)
                if jj.res["rc"] == 0:
                    from props import c02
                    tin, tout = lexcheck.lex_tokens(j.lang, [lexcheck.decode_text(j.meta["text"].encode()), lexcheck.decode_text(jj.res["out"])])
                    if tin and tout is None:
                        otxt = jj.res["out"].decode("latin1")
                        for a, b in zip(tin, tin[1:]):
                            ta, tb = "".join(chr(c) for c in a[1]), "".join(chr(c) for c in b[1])
                            if ta == "/" and tb[:1] in ("*", "/") and (ta + tb[:1]) in otxt:
                                key = {"fused": ["/", tb[:1]], "kind": "comment-opener"}
                                break
                    elif tin and tout:
                        i = next((x for x in range(min(len(tin), len(tout))) if tin[x] != tout[x]), min(len(tin), len(tout)))
                        fk = c02.fusion_key(tin, tout, i)
                        if fk:
                            key = fk
            if ctx.violation("%s [%s, minimal options %s]" % (msg, os.path.basename(j.inp), opts),
                             {"lang": j.lang, "options": opts, "all_options": j.meta["opts"], "input_text": j.meta["text"],
                              "how": "write input_text to t.c/t.cpp/T.java and the options to a cfg; uncrustify -q -c cfg -f file > out; compile both with %s and compare the objects" % " ".join(CC[j.lang][0])},
                             key=key):
                nviol += 1
        ctx.oblige("search: uncrustify exits 0 and the output compiles to the same object code as the input (%d runs, %d programs)"
                   % (len(jobs), len(progs)), nviol == 0 and len(todo) <= cap, "oracle", "%d failing runs, %d not covered by known findings" % (len(bad), nviol))
        ctx.cov["verdicts"] = dict(collections.Counter(v for v, _ in verdicts))
        ctx.cov["options_tried_singly"] = len({j.meta["opts"] and list(j.meta["opts"])[0] for j in jobs if j.meta["kind"] == "single"})
        if jobs:
            ctx.sample({"program_head": progs[0][2][:300]})
    finally:
        sc.close()
