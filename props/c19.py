"""C19 -- spacing options mean what they say where they are reported.  DESIGN.md section 6/C19.

Proof: Props/C19.lean over (a) the rule table Gen/SpaceRules.lean, REGENERATED here from $VERIF_REPO/src/space.cpp by
       translators/t_space.py (every log_rule site of do_space(): logged name, option guards, returned expression,
       min_sp) and (b) the hand-written applier model UncModel/SpaceApply.lean of space_text()'s switch (av).
Tie:   hook records `SP a= b= rule= av= min= forced= c0= c1=` of real runs (corpus inputs x their test configs x
       randomised valuations of the sp_ options, alignment and width splitting off):
         - av (before the forced OR) must be a value the TABLE says the sites logging `rule` return under the configured
           valuation (driver `space.allowed`), min must come from the option the table names,
         - c0/c1 must equal SpaceApply on the geometry read from the PB/PA dumps (driver `space.apply`).
Oracle (independent of the model): for SP pairs whose rule is the name of an IARF option (read from options.h) and whose
       two chunks are on one output line, the whitespace really emitted before the second chunk (add_char ops recorded
       by the output hook) obeys the configured value of THAT option as the property text says.
Search: when the table theorem no longer builds, the offending site is named by `uncdrv space.table`; the logged and
       the returned option are set to different values on corpus files that reach the rule (reachability cache in
       .cache/c19_reach.json) and the direct oracle looks for the pair whose gap disobeys the logged option.
"""
import hashlib
import json
import os
import re

from translators import t_iarf, t_space
from vlib import common, pipeline, unc

IARF = {"ignore": 0, "add": 1, "remove": 2, "force": 3}
IARF_NAMES = ["ignore", "add", "remove", "force"]
PCF_IN_QT_MACRO = 1 << 41
GEN = os.path.join(common.LEAN_DIR, "UncModel", "Gen", "SpaceRules.lean")
# option -> configured value -> other values the option is documented to behave like at some of its sites
# (property text: Remove cannot fuse 'return'/'case' and an operand, a macro name and its body; options.h:
#  "The value REMOVE will be overridden with FORCE"; space.cpp: sp_inside_angle must not create the '<:' digraph,
#  sp_bool gains ADD when pos_bool moves the operator to another line)
DOCUMENTED_ALTERNATIVES = {
    "sp_return": {"remove": ["force"]},
    "sp_case_label": {"ignore": ["add"], "remove": ["force"], "add": ["add"]},
    "sp_macro": {"remove": ["force"]},
    "sp_macro_func": {"remove": ["force"]},
    "sp_before_ellipsis": {"remove": ["force"]},
    "sp_inside_angle": {"remove": ["ignore"]},
    "sp_bool": {"ignore": ["add"], "remove": ["force"]},
}
CMT_TYPES = ("COMMENT", "COMMENT_MULTI", "COMMENT_CPP")
NL_TYPES = ("NEWLINE", "NL_CONT")


# ---------------------------------------------------------------------------
# configurations
# ---------------------------------------------------------------------------

def quiet_overrides(allopts):
    """alignment and width splitting off"""
    # indent_ignore_asm_block restores the input columns inside asm blocks after the spacing pass (an indentation feature)
    # and the two "align the first expression with the following ones" indentation features, which pad after '('
    ov = {"code_width": "0", "indent_ignore_asm_block": "false", "indent_first_bool_expr": "false",
          "indent_first_for_expr": "false"}
    for name, kind in allopts:
        if name.startswith("align_"):
            if kind == "bool":
                ov[name] = "false"
            elif kind in ("unsigned", "signed"):
                ov[name] = "0"
            elif kind == "iarf":
                ov[name] = "ignore"
    return ov


def sp_iarf_options(allopts):
    return [n for n, k in allopts if k == "iarf" and n.startswith("sp_")]


def valuation(rng, names, mode, k, perm):
    """mode rot: option j gets value (perm[j] + k) mod 4 -> any 4 consecutive k give every option every value;
       mode rnd: independent uniform values"""
    if mode == "rot":
        return {n: IARF_NAMES[(perm[n] + k) % 4] for n in names}
    return {n: rng.choice(IARF_NAMES) for n in names}


# ---------------------------------------------------------------------------
# reading one run
# ---------------------------------------------------------------------------

class RunView:
    """the hook records of one run, parsed once"""

    def __init__(self, job):
        tr = job.res["trace"]
        self.sp = []
        self.oc = {}
        cur = None
        dumps = {}
        point = None
        for ln in tr:
            if ln.startswith("C "):
                if point is not None:
                    dumps[point].append(ln)
            elif ln.startswith("SP "):
                self.sp.append(unc.fields(ln))
            elif ln.startswith("DUMP point="):
                point = ln.split()[1].split("=", 1)[1]
                if point in dumps:        # only the first dump of each point
                    point = None
                else:
                    dumps[point] = []
            elif ln.startswith("ENDDUMP"):
                point = None
            elif ln.startswith("OC "):
                f = unc.fields(ln)
                cur = {"dn": f.get("dn") == "1", "ops": []}
                self.oc[int(f["i"])] = cur
            elif ln.startswith("OPS") and cur is not None:
                cur["ops"] += ln.split()[1:]
        self.ps = [unc.parse_chunk(x) for x in dumps.get("PS", [])]
        self.pb = [unc.parse_chunk(x) for x in dumps.get("PB", [])]
        self.pa = [unc.parse_chunk(x) for x in dumps.get("PA", [])]
        self.p1 = [unc.parse_chunk(x) for x in dumps.get("P1", [])]


def leading_ws(ops):
    """the whitespace add_char() wrote before the chunk's first visible character: (string, complete?)"""
    out = []
    for op in ops:
        if op[0] in "TS":
            continue
        if op[0] in "AL":
            ch = int(op[1:], 16)
            if ch in (0x20, 0x09):
                out.append(chr(ch))
                continue
        return "".join(out), True
    return "".join(out), False


def from_input(c):
    """the chunk stood in the input with these columns: orig_col_end - orig_col is the length of its text"""
    return c["oe"] != 0 and c["nl"] == 0 and c["oe"] - c["oc"] == len(c["txt"])


def is_kw_char(c):
    return c == 0x5f or c == 0x24 or c == 0x40 or 0x30 <= c <= 0x39 or 0x41 <= c <= 0x5a or 0x61 <= c <= 0x7a or c >= 0x80


def txt(c, n=24):
    return bytes(x if x < 256 else 63 for x in c["txt"][:n]).decode("latin1")


# ---------------------------------------------------------------------------
# the check
# ---------------------------------------------------------------------------

def regenerate(ctx):
    """T-space: regenerate Gen/SpaceRules.lean; returns the translator result or None"""
    try:
        r = t_space.build(common.REPO)
    except t_iarf.TranslateError as e:
        ctx.oblige("T-space: src/space.cpp do_space() translated", False, "table", str(e))
        ctx.violation("T-space cannot translate do_space(): %s" % e, {"translator": "translators/t_space.py", "error": str(e)},
                      found_input=False)
        return None
    changed = common.write_if_changed(GEN, r["text"])
    ctx.log("T-space: %d sites, %d options%s" % (len(r["sites"]), len(r["opts"]), " (table changed)" if changed else ""))
    ctx.oblige("T-space: do_space() translated (%d log_rule sites, %d options)" % (len(r["sites"]), len(r["opts"])), True, "table")
    ctx.oblige("T-space: every site parses into a known shape", not r["problems"], "table", r["problems"][:20])
    for p in r["problems"][:5]:
        ctx.violation("T-space: " + p, {"translator": "translators/t_space.py", "problem": p}, found_input=False)
    return r


def run(ctx):
    ctx.cov["rule"] = ("table: one obligation per generated-table theorem (the kernel evaluates the checker over all sites x all "
                       "valuations of the options each site mentions). correspondence: one case = one SP hook record (token pair "
                       "handled by space_text) of a real run, compared with the table (value) and with SpaceApply (columns); "
                       "oracle: one case = one pair on one output line whose rule names an IARF option; distinct = distinct "
                       "(rule, configured value, forced, measured gap class); non-trivial = rule names an option")
    ctx.trusted += ["translators/t_space.py, t_iarf.py (syntactic transcription of do_space()/options.h; cross-checked at run time: "
                    "every SP record's value must be one the table predicts under the configured valuation)",
                    "hand-written model UncModel/SpaceApply.lean of space_text() (validated per SP record)",
                    "hooks verif_space / dumps PB PA P1 / output op trace (verif_hooks.cpp)",
                    "`uncrustify --update-config` as the reader of the effective option values"]
    ctx.assumptions += ["alignment and width splitting off (align_* = 0/false/ignore, code_width = 0)",
                        "inside Qt SIGNAL/SLOT macros the 11 options of options_for_QT.cpp are REMOVE by design "
                        "(use_options_overriding_for_qt_macros); pairs handled there are compared with that valuation",
                        "columns < 2^64 (size_t)"]
    # known findings of this property may live in a separate file until merged
    extra = os.path.join(common.ROOT, "known_findings_space.json")
    if os.path.exists(extra):
        ctx.known += [k for k in json.load(open(extra)) if k.get("property") == ctx.prop]

    tr = regenerate(ctx)
    if tr is None:
        return
    okd, outd = common.lake_build(["uncdrv"])
    ctx.oblige("lake build uncdrv", okd, "build", None if okd else outd[-3000:])
    lean_ok = ctx.lean_obligations()
    table = None
    if okd:
        table = common.run_driver(["space.table"])[0]
        ctx.oblige("driver space.table: the compiled checker accepts every site (%s)" % table[:200], table.startswith("ok "), "table", table)
        ctx.cov["table"] = table
        ctx.sample({"space.table": table})
    exe = common.build_repo(hooks=True)
    allopts = tr["allopts"]
    kinds = dict(allopts)

    if okd and table is not None and not table.startswith("ok "):
        search_table_failure(ctx, exe, tr, table)
        return
    if not okd:
        return

    dynamic(ctx, exe, tr)


# ---------------------------------------------------------------------------
# dynamic part
# ---------------------------------------------------------------------------

def pick_pairs(ctx, n):
    pairs = [p for p in unc.test_pairs() if os.path.getsize(p[2]) < (400000 if ctx.tier == "thorough" else 30000)]
    # one entry per (config, input)
    seen, out = set(), []
    for p in pairs:
        if (p[1], p[2], p[3]) not in seen:
            seen.add((p[1], p[2], p[3]))
            out.append(p)
    ctx.rng.shuffle(out)
    return out if n is None else out[:n]


def make_jobs(ctx, sc, pairs, allopts, modes):
    names = sp_iarf_options(allopts)
    quiet = quiet_overrides(allopts)
    perm = {n: ctx.rng.randrange(4) for n in names}
    jobs = []
    for pi, (name, cfg, inp, lang) in enumerate(pairs):
        for mode, k in modes(pi):
            ov = dict(quiet)
            if mode != "own":
                ov.update(valuation(ctx.rng, names, mode, k, perm))
            c = sc.cfg(cfg, ov)
            jobs.append(pipeline.Job("%s|%s%d" % (name, mode, k), c, inp, lang,
                                     {"src": inp, "cfg": cfg, "mode": mode, "k": k,
                                      "sp": {n: ov[n] for n in names if n in ov}}))
    return jobs


def dynamic(ctx, exe, tr):
    thorough = ctx.tier == "thorough"
    allopts = tr["allopts"]
    n = int(os.environ.get("VERIF_C19_N", "0")) or (None if thorough else 1000)
    pairs = pick_pairs(ctx, n)
    seed = ctx.seed

    def modes(pi):
        if thorough:
            return [("rot", 0), ("rot", 1), ("rot", 2), ("rot", 3), ("rnd", 0), ("own", 0)]
        # quick: one rotation step chosen by seed and position (rotates with the seed), every third also random / own
        out = [("rot", (seed + pi) % 4)]
        if pi % 3 == 0:
            out.append(("rnd", 0))
        if pi % 3 == 1:
            out.append(("own", 0))
        return out

    sc = pipeline.Scratch("c19")
    try:
        # synthetic inputs for option-table / override paths the corpus rarely reaches: a Qt SIGNAL/SLOT macro followed by
        # by-reference declarations (the Qt override must restore every option it touched), C++/CLI `for each`
        extra_src = [("qt-then-byref.cpp", "void q()\n{\n    connect(a, SIGNAL(x(int &)), b, SLOT(y(int &)));\n}\nvoid r(int  &  z, const T   & w, int  &);\n"
                                           "int  &  h(int   & u);\nvoid q2()\n{\n    emit s(SLOT(y(T  &)));\n}\nvoid r2(T   &   v, T &);\n"),
                     ("for-each.cpp", "void fe(array<int> ^ arr)\n{\n    for    each (int x in arr)\n    {\n        use(x);\n    }\n    for  each(int y in arr) { use(y); }\n}\n")]
        ecfg = sc.cfg(None, {})
        pairs = [("synthetic:" + n, ecfg, sc.write(t, name=n), "CPP") for n, t in extra_src] + pairs
        jobs = make_jobs(ctx, sc, pairs, allopts, modes)
        ctx.log("runs:", len(jobs), "on", len(pairs), "(config, input) pairs")
        st = Stats()
        B = 400
        for i in range(0, len(jobs), B):
            batch = jobs[i:i + B]
            pipeline.run_jobs(exe, batch)
            check_batch(ctx, exe, tr, batch, st)
            for j in batch:
                j.res = None
                j.chunks = j.outs = None
        finish_dynamic(ctx, tr, st, len(jobs))
    finally:
        sc.close()


class Stats:
    def __init__(self):
        self.runs_ok = 0
        self.rec = 0
        self.val_bad = 0
        self.name_unknown = 0
        self.min_bad = 0
        self.col_bad = 0
        self.or_cases = 0
        self.or_bad = 0
        self.or_known = 0
        self.dir_cases = 0
        self.dir_bad = 0
        self.mono_pairs = 0
        self.orig_chunks = 0
        self.orig_bad = 0
        self.mono_bad = 0
        self.wrap_bad = 0
        self.reach = {}
        self.cover = set()       # (option, configured value) seen in SP records
        self.cover_line = set()  # same, pair on one output line (oracle evaluated)
        self.qt_pairs = 0
        self.skipped_map = 0


def digits_for(optnames, vals, override=None):
    out = []
    for n in optnames:
        v = vals.get(n, "ignore")
        if override and n in override:
            v = override[n]
        out.append(str(IARF.get(v, 0)))
    return "".join(out)


def apply_forced(v, forced):
    return (v | 1) if forced else v


def check_batch(ctx, exe, tr, jobs, st):
    kinds = dict(tr["allopts"])
    optnames = [n for n, k in tr["opts"]]
    qt = {n: v for n, v in tr["qt"]}
    views = []
    req, req_idx = [], {}

    def ask(line):
        if line not in req_idx:
            req_idx[line] = len(req)
            req.append(line)
        return req_idx[line]

    for j in jobs:
        ctx.count("rc:%s" % j.res["rc"])
        if j.res["rc"] != 0 or j.hdr is None:
            continue
        v = RunView(j)
        if not v.pa or not v.pb or len(v.pa) != len(v.pb):
            continue
        st.runs_ok += 1
        vals = j.vals
        # monitor for C19_line_monotone / C19_reindent_shift_exact: after space_text() the columns along a line never go to the left
        # (pair (a, b) on one line, a carrying no line break), and after indent_text() no column has wrapped below zero (size_t)
        if not unc.bool01(vals.get("indent_relative_single_line_comments", "false")):
            for ca, cb in zip(v.pa, v.pa[1:]):
                st.mono_pairs += 1
                if ca["t"] not in NL_TYPES and ca["nl"] == 0 and cb["t"] not in NL_TYPES and cb["col"] < ca["col"] + len(ca["txt"]):
                    st.mono_bad += 1
                    if st.mono_bad <= 2:
                        ctx.violation("after space_text() the chunk '%s' (orig line %d) stands at column %d, left of the end of the chunk before it "
                                      "('%s' at column %d): the columns of a line are not monotonic (theorem C19_line_monotone does not describe "
                                      "this run) [%s]" % (txt(cb), cb["ol"], cb["col"], txt(ca), ca["col"], j.name),
                                      {"input": j.meta.get("src"), "config": j.meta.get("cfg"), "options": j.meta.get("sp"), "lang": j.lang},
                                      key=None, found_input=True)
        for c in v.p1:
            # (chunks without text -- newline chunks, virtual braces -- are never positioned by output_text(): a comment in column 1
            # that reindent_line() moves left takes the column of the newline chunk behind it below zero, without any effect)
            if c["col"] >= 1 << 31 and c["txt"]:
                st.wrap_bad += 1
                if st.wrap_bad <= 2:
                    ctx.violation("after indent_text() the chunk '%s' (orig line %d) has column %d: a column wrapped below zero [%s]"
                                  % (txt(c), c["ol"], c["col"], j.name),
                                  {"input": j.meta.get("src"), "config": j.meta.get("cfg"), "options": j.meta.get("sp"), "lang": j.lang},
                                  key=None, found_input=True)
                break
        dg = digits_for(optnames, vals)
        dg_qt = digits_for(optnames, vals, qt) if str(vals.get("use_options_overriding_for_qt_macros", "true")).lower() == "true" else dg
        rel = unc.bool01(vals.get("indent_relative_single_line_comments", "false"))
        tr_ign = vals.get("sp_before_tr_cmt", "ignore") == "ignore"
        endif_ign = vals.get("sp_endif_cmt", "ignore") == "ignore"
        recs = []
        n = len(v.pa)
        for r in v.sp:
            a, b = int(r["a"]), int(r["b"])
            if a >= n or b >= n:
                continue
            ca, cb = v.pa[a], v.pa[b]
            in_qt = bool(ca["fl"] & PCF_IN_QT_MACRO) and dg_qt != dg
            q1 = ask("space.allowed rule=%s v=%s" % (r["rule"], dg_qt if in_qt else dg))
            nxt = v.pa[b + 1] if b + 1 < n else None
            cmt = cb["t"] in CMT_TYPES and nxt is not None and nxt["t"] in NL_TYPES
            allow = ((tr_ign or cb["pt"] != "COMMENT_END") and (endif_ign or ca["t"] not in ("PP_ELSE", "PP_ENDIF")))
            prev_oc = v.pa[a - 1]["oc"] if a > 0 else 0
            q2 = ask("space.apply av=%d forced=0 min=%s col=%d len=%d nl=%d oe=%d noc=%d vb=%d poc=%d cmt=%d allow=%d rel=%s nps=%d"
                     % (int(r["av"]), r["min"], ca["col"], len(ca["txt"]), ca["nl"], ca["oe"], cb["oc"],
                        1 if ca["t"] == "VBRACE_OPEN" else 0, prev_oc, 1 if cmt else 0, 1 if allow else 0, rel, cb["ps"]))
            recs.append((r, a, b, q1, q2, in_qt))
        views.append((j, v, recs))
    ans = common.run_driver(req) if req else []
    if len(ans) != len(req):
        ctx.oblige("driver answered every request", False, "corr", (len(ans), len(req)))
        return
    for j, v, recs in views:
        vals = j.vals
        for (r, a, b, q1, q2, in_qt) in recs:
            st.rec += 1
            rule = r["rule"]
            av, forced = int(r["av"]), r["forced"] == "1"
            st.reach.setdefault(rule.split("~@~")[0], set()).add(j.meta["src"] + "\t" + j.meta["cfg"])
            fa = unc.fields(ans[q1])
            ret = [int(c) for c in fa.get("ret", "")]
            is_opt = kinds.get(rule) == "iarf"
            ctx.case("sp:%s:%s:%d:%d" % (rule, vals.get(rule, "-"), av, forced), nontrivial=is_opt)
            if in_qt:
                st.qt_pairs += 1
            if is_opt:
                st.cover.add((rule, vals.get(rule)))
            # (ii-a) value: av must be (value predicted by the table) | forced
            if not fa.get("sites"):
                st.name_unknown += 1
                if st.name_unknown <= 3:
                    ctx.violation("SP record with rule name `%s` that no non-shadowed site of the table logs (or whose guards exclude "
                                  "the configured values): %s" % (rule, j.name), replay(j, v, a, b, r), found_input=False)
            elif av not in [apply_forced(x, forced) for x in ret]:
                st.val_bad += 1
                if st.val_bad <= 3:
                    ctx.violation("value applied for rule `%s` is %s (forced=%d) but the table predicts %s under the configured valuation "
                                  "(%s = %s): %s, pair '%s' '%s'"
                                  % (rule, IARF_NAMES[av], forced, [IARF_NAMES[x] for x in ret], rule, vals.get(rule),
                                     j.name, txt(v.pa[a]), txt(v.pa[b])),
                                  replay(j, v, a, b, r), found_input=False)
            # direct reading of "the value applied is the value configured for the very option named" (no table, no model)
            if is_opt and vals.get(rule) in IARF:
                conf = vals[rule]
                if in_qt and rule in qt:
                    conf = qt[rule]
                okv = [conf] + DOCUMENTED_ALTERNATIVES.get(rule, {}).get(conf, [])
                st.dir_cases += 1
                if av not in [apply_forced(IARF[x], forced) for x in okv]:
                    if ctx.violation("pair '%s' '%s' (input line %d col %d): the space record names %s, configured %s, but the value applied "
                                     "is %s (forced=%d)  [%s]" % (txt(v.pa[a]), txt(v.pa[b]), v.pa[a]["ol"], v.pa[a]["oc"], rule, conf,
                                                                 IARF_NAMES[av], forced, j.name),
                                     replay(j, v, a, b, r), found_input=True,
                                     key={"kind": "value", "rule": rule, "value": conf, "first": txt(v.pa[a]), "second": txt(v.pa[b])}):
                        st.dir_bad += 1
            # min_sp
            mins = fa.get("min", "-").split(",")
            want_min = set()
            for m in mins:
                mm = re.match(r"^([a-z0-9_]+)-(\d+)$", m)
                if m == "-":
                    want_min.add(1)
                elif mm:
                    want_min.add(max(1, int(vals.get(mm.group(1), "1") or 1) - int(mm.group(2))))
                else:
                    want_min.add(max(1, int(vals.get(m, "1") or 1)))
            if fa.get("sites") and int(r["min"]) not in want_min:
                st.min_bad += 1
                if st.min_bad <= 3:
                    ctx.violation("min_sp of rule `%s` is %s, table says it comes from %s (= %s): %s"
                                  % (rule, r["min"], mins, sorted(want_min), j.name), replay(j, v, a, b, r), found_input=False)
            # (ii-b) columns
            fc = unc.fields(ans[q2])
            if fc.get("c0") != r["c0"] or fc.get("c1") != r["c1"]:
                st.col_bad += 1
                if st.col_bad <= 3:
                    ctx.violation("space_text() columns differ from SpaceApply for rule `%s`: real c0=%s c1=%s model %s (%s): %s"
                                  % (rule, r["c0"], r["c1"], ans[q2], req[q2], j.name), replay(j, v, a, b, r), found_input=False)
            # (iii) direct oracle on the real output
            if is_opt:
                oracle_pair(ctx, st, j, v, r, a, b, in_qt)


def replay(j, v, a, b, r):
    return {"input": j.meta["src"], "base_config": j.meta["cfg"], "lang": j.lang, "mode": "%s%d" % (j.meta["mode"], j.meta["k"]),
            "config_overrides": "align_* off, code_width=0, sp_ options as in `sp` (only those differing from ignore listed)",
            "sp": {k: x for k, x in j.meta["sp"].items() if x != "ignore"} if len(j.meta["sp"]) else {},
            "record": r, "first": txt(v.pa[a], 60), "second": txt(v.pa[b], 60),
            "orig_line": v.pa[a]["ol"], "orig_col": v.pa[a]["oc"],
            "cmd": "UNC_VERIF_OUT=trace <hook build>/uncrustify -q -c <base_config + overrides> -f <input>" + (" -l " + j.lang if j.lang else "")}


_LINES = {}


def true_gap(j, cb, vals):
    """number of blank columns directly in front of chunk cb in its input line (tab-expanded), None if not measurable"""
    key = j.inp
    if key not in _LINES:
        try:
            raw = open(j.inp, "rb").read()
        except OSError:
            raw = b"\xff"
        _LINES.clear()
        _LINES[key] = raw.decode("ascii").split("\n") if all(b < 0x80 for b in raw) and b"\r" not in raw else None
    lines = _LINES[key]
    ol = cb["ol"] - 1
    if lines is None or not (0 <= ol < len(lines)) or "\\" in lines[ol]:
        return None
    ts = int(vals.get("input_tab_size", 8) or 8)
    e, col = [], 1
    for ch in lines[ol]:
        if ch == "\t":
            n = ts - (col - 1) % ts
            e.append(" " * n)
            col += n
        else:
            e.append(ch)
            col += 1
    x = "".join(e)
    k = cb["oc"] - 1
    if k > len(x) or k <= 0:
        return None
    n = 0
    while k - 1 - n >= 0 and x[k - 1 - n] == " ":
        n += 1
    return n


def input_neighbours(v, ca, cb):
    """in the chunk list after tokenize_cleanup() (dump PS) the non-empty chunk in front of cb on its input line is ca"""
    idx = getattr(v, "_ps_by_line", None)
    if idx is None:
        idx = {}
        for c in v.ps:
            if c["txt"]:
                idx.setdefault(c["ol"], []).append(c)
        v._ps_by_line = idx
    best = None
    for c in idx.get(cb["ol"], []):
        if c["oc"] < cb["oc"] and (best is None or c["oc"] > best["oc"]):
            best = c
    return best is not None and best["oc"] == ca["oc"] and best["txt"] == ca["txt"] and best["nl"] == 0


def oracle_pair(ctx, st, j, v, r, a, b, in_qt):
    """the property's own observable: whitespace really written between the two tokens vs the configured value of the
    option the space record names.  Independent of the Lean model and of the table."""
    rule = r["rule"]
    vals = j.vals
    conf = vals.get(rule)
    if conf not in IARF:
        return
    if in_qt:
        return
    if v.pa[a]["t"] == "PP_IGNORE" or v.pa[b]["t"] == "PP_IGNORE":
        # text of a #define body the user asked not to format (pp_ignore_define_body): left alone by design
        ctx.count("oracle:skipped-PP_IGNORE")
        return
    # same chunk list at output time?
    if len(v.p1) != len(v.pa):
        st.skipped_map += 1
        return
    pa_a, pa_b, c1a, c1b = v.pa[a], v.pa[b], v.p1[a], v.p1[b]
    if c1a["txt"] != pa_a["txt"] or c1b["txt"] != pa_b["txt"] or not pa_b["txt"] or not pa_a["txt"]:
        st.skipped_map += 1
        return
    ocb = v.oc.get(b)
    if ocb is None or ocb["dn"] or pa_a["nl"] != 0:
        return      # second chunk starts an output line / first spans lines: not "on one output line"
    for k in range(a + 1, b):
        if v.p1[k]["txt"] or v.p1[k]["t"] in NL_TYPES:
            return
    ws, complete = leading_ws(ocb["ops"])
    if not complete and not ws:
        return
    forced = r["forced"] == "1"
    gapcols = c1b["col"] - (c1a["col"] + len(c1a["txt"]))
    minsp = int(r["min"])
    # presence "as in the input" is defined only when both chunks come from the input (a chunk uncrustify inserted
    # has orig_col_end = 0) and stood on one input line
    # (inserted chunks have orig_col_end = 0, or columns copied from a neighbour that do not fit their own text)
    same_in = (pa_a["ol"] == pa_b["ol"] and from_input(pa_a) and from_input(pa_b) and pa_b["oc"] >= pa_a["oe"])
    in_gap = pa_b["oc"] - pa_a["oe"] if same_in else None
    st.or_cases += 1
    st.cover_line.add((rule, conf))
    ctx.case("or:%s:%s:%d:%s" % (rule, conf, forced, "0" if not ws else ("1" if len(ws) == 1 else "n")), nontrivial=True)
    ctx.count("oracle:" + conf + (":forced" if forced else ""))
    def judge(val):
        if val == "remove":
            if ws and not forced:
                return "Remove but %d whitespace character(s) written and the pair is not one the fusion guard protects" % len(ws)
        elif val == "force":
            if "\t" in ws:
                if gapcols < 1:
                    return "Force but no column between the tokens"
            elif len(ws) != max(1, minsp):
                return "Force but %d space(s) written (min_sp=%d)" % (len(ws), minsp)
        elif val == "add":
            if not ws:
                return "Add but no whitespace written"
        elif val == "ignore":
            if forced:
                return None
            if in_gap is None:
                ctx.count("oracle:ignore:not-comparable")
            elif (len(ws) > 0) != (in_gap > 0):
                return "Ignore but whitespace %s although the input had %s (input gap %d)" % (
                    "written" if ws else "not written", "none" if in_gap == 0 else "some", in_gap)
            else:
                # the exact width, measured on the input text itself (not on orig_col_end): the blank columns directly in front of the
                # second token in the tab-expanded input line
                tg = true_gap(j, pa_b, vals)
                mods_on = any(k.startswith("mod_") and str(x).lower() not in ("false", "ignore", "0", "") for k, x in vals.items())
                if tg is not None and not mods_on and "\t" not in ws and pa_a["oe"] - pa_a["oc"] == len(pa_a["txt"]) and input_neighbours(v, pa_a, pa_b):
                    ctx.count("oracle:ignore:width-compared")
                    if len(ws) != tg and not (in_gap == 0 and tg > 0):
                        return "Ignore but %d space(s) written where the input has %d blank column(s) in front of the token" % (len(ws), tg)
        return None

    if conf == "remove" and forced:
        kw = is_kw_char(pa_a["txt"][-1]) and is_kw_char(pa_b["txt"][0])
        ctx.count("oracle:remove-forced:" + ("words" if kw else "punctuators"))
    bad = judge(conf)
    if forced and not ws:
        bad = "the fusion guard marked the pair (PCF_FORCE_SPACE) but no whitespace is written"
    elif bad:
        # the deviations the property text / options.h document for a few options
        for alt in DOCUMENTED_ALTERNATIVES.get(rule, {}).get(conf, []):
            if judge(alt) is None:
                ctx.count("oracle:documented-deviation:" + rule)
                bad = None
                break
    if bad:
        key = {"kind": "gap", "rule": rule, "value": conf, "first": txt(pa_a), "second": txt(pa_b)}
        if bad.startswith("Ignore but") and "blank column(s) in front of the token" in bad:
            # the first token was merged from several input tokens: its end column is computed as column + length of the merged text
            ft = txt(pa_a)
            key = {"kind": "ignore-width-after-merged-token", "first": '""<suffix>' if ft.startswith('""') else ft}
        if ctx.violation("pair '%s' '%s' (input line %d col %d) attributed to %s = %s: %s  [%s]"
                         % (txt(pa_a), txt(pa_b), pa_a["ol"], pa_a["oc"], rule, conf, bad, j.name),
                         dict(replay(j, v, a, b, r), measured_ws=repr(ws), column_gap=gapcols), key=key, found_input=True):
            st.or_bad += 1
        else:
            st.or_known += 1


def finish_dynamic(ctx, tr, st, njobs):
    names = sp_iarf_options(tr["allopts"])
    ctx.oblige("runs usable (%d of %d)" % (st.runs_ok, njobs), st.runs_ok > 0.5 * njobs, "corr")
    ctx.oblige("H2 correspondence: every SP record's rule name is a (non-shadowed) site of the table (%d records)" % st.rec,
               st.name_unknown == 0, "corr", "%d unknown" % st.name_unknown)
    ctx.oblige("H2 correspondence: value applied = value the table predicts for the NAMED rule under the configured valuation "
               "(%d records, %d inside Qt macros)" % (st.rec, st.qt_pairs), st.val_bad == 0, "corr", "%d mismatches" % st.val_bad)
    ctx.oblige("H2 correspondence: min_sp comes from the option the table names", st.min_bad == 0, "corr", "%d mismatches" % st.min_bad)
    ctx.oblige("H2 correspondence: columns c0/c1 = SpaceApply (%d records)" % st.rec, st.col_bad == 0, "corr",
               "%d mismatches" % st.col_bad)
    ctx.oblige("direct oracle: value applied = configured value of the option the space record names (%d records naming an option)"
               % st.dir_cases, st.dir_bad == 0, "oracle", "%d violations" % st.dir_bad)
    ctx.oblige("direct oracle: emitted whitespace obeys the named option on %d pairs on one output line (%d known findings)"
               % (st.or_cases, st.or_known), st.or_bad == 0, "oracle", "%d violations" % st.or_bad)
    ctx.oblige("monitor: columns after space_text() are monotonic along every line (%d adjacent pairs), no column wrapped after indent_text()"
               % st.mono_pairs, st.mono_bad == 0 and st.wrap_bad == 0, "monitor", "%d / %d" % (st.mono_bad, st.wrap_bad))
    reached = {o for o, _ in st.cover}
    full = [o for o in reached if all((o, x) in st.cover for x in IARF_NAMES)]
    ctx.cov["options_reached"] = len(reached)
    ctx.cov["options_reached_at_all_4_values"] = len(full)
    ctx.cov["option_value_pairs_reached"] = len(st.cover)
    ctx.cov["option_value_pairs_measured_on_one_line"] = len(st.cover_line)
    ctx.cov["sp_iarf_options"] = len(names)
    ctx.cov["rules_seen"] = len(st.reach)
    ctx.cov["pairs_skipped_chunk_list_changed"] = st.skipped_map
    ctx.log("records %d, oracle pairs %d, options reached %d (all four values: %d), rules seen %d"
            % (st.rec, st.or_cases, len(reached), len(full), len(st.reach)))
    save_reach(st.reach)


# ---------------------------------------------------------------------------
# reachability cache and the targeted search
# ---------------------------------------------------------------------------

def reach_path():
    return os.path.join(common.CACHE, "c19_reach.json")


def save_reach(reach):
    old = load_reach()
    for k, s in reach.items():
        cur = set(old.get(k, []))
        cur |= set(s)
        old[k] = sorted(cur)[:60]
    with open(reach_path(), "w") as f:
        json.dump(old, f)


def load_reach():
    try:
        return json.load(open(reach_path()))
    except Exception:
        return {}


def search_table_failure(ctx, exe, tr, table):
    """the table theorem fails: for each offending site set the logged option and the options its return expression reads
    to different values on corpus files that reach the rule, and let the direct oracle look for a disobeying pair"""
    kinds = dict(tr["allopts"])
    allopts = tr["allopts"]
    quiet = quiet_overrides(allopts)
    names = sp_iarf_options(allopts)
    bad = []
    for w in table.split()[1:]:
        idx, line, logged, why = w.split(":", 3)
        bad.append((int(idx), int(line), logged.replace("~", " "), why))
    sites = {s["idx"]: s for s in tr["sites"]}
    reach = load_reach()
    found_any = False
    sc = pipeline.Scratch("c19s")
    try:
        for idx, line, logged, why in bad[:6]:
            s = sites[idx]
            acc = []
            t_space.opts_in_expr(s["ret"], acc)
            others = [o for o in acc if o != logged]
            what = ("site %d (space.cpp:%d) logs `%s` but returns %s: table check `%s` fails"
                    % (idx, line, logged, sorted(set(acc)) or s["ret"], why))
            ctx.log("searching a failing input for " + what)
            if kinds.get(logged) != "iarf":
                ctx.violation(what, {"site": idx, "line": line, "logged": logged, "ret": repr(s["ret"]), "why": why},
                              found_input=False)
                continue
            files = reach.get(logged.replace(" ", "~"), [])
            if not files:
                # no cache: sweep the corpus once with the tests' own configs to learn which inputs reach the rule
                ctx.log("no reachability cache for `%s`: sweeping the corpus" % logged)
                st0 = Stats()
                pairs = pick_pairs(ctx, None)
                jobs0 = make_jobs(ctx, sc, pairs, allopts, lambda pi: [("own", 0)])
                for i in range(0, len(jobs0), 400):
                    batch = jobs0[i:i + 400]
                    pipeline.run_jobs(exe, batch)
                    for j in batch:
                        if j.res["rc"] == 0:
                            for ln in j.res["trace"]:
                                if ln.startswith("SP "):
                                    rname = unc.fields(ln)["rule"].split("~@~")[0]
                                    st0.reach.setdefault(rname, set()).add(j.meta["src"] + "\t" + j.meta["cfg"])
                        j.res = None
                save_reach(st0.reach)
                reach = load_reach()
                files = reach.get(logged.replace(" ", "~"), [])
            jobs = []
            for fc in files[:40]:
                src, cfg = fc.split("\t")
                lang = None
                for p in unc.test_pairs():
                    if p[1] == cfg and p[2] == src:
                        lang = p[3]
                        break
                # the logged option at each value, the options really read at another one
                for va, vb in (("remove", "force"), ("force", "remove"), ("add", "remove"), ("ignore", "force")):
                    ov = dict(quiet)
                    ov[logged] = va
                    for o in others:
                        ov[o] = vb
                    c = sc.cfg(cfg, ov)
                    jobs.append(pipeline.Job("%s|%s=%s,%s=%s" % (os.path.basename(src), logged, va, ",".join(others), vb), c, src, lang,
                                             {"src": src, "cfg": cfg, "mode": "search", "k": 0,
                                              "sp": dict([(logged, va)] + [(o, vb) for o in others])}))
            ctx.log("search: %d runs on %d files reaching `%s`" % (len(jobs), len(files[:40]), logged))
            pipeline.run_jobs(exe, jobs)
            st = Stats()
            before = len(ctx.violations)
            for j in jobs:
                if j.res["rc"] != 0 or j.hdr is None:
                    continue
                v = RunView(j)
                if len(v.pa) != len(v.pb):
                    continue
                for r in v.sp:
                    if r["rule"] == logged.replace(" ", "~"):
                        a, b = int(r["a"]), int(r["b"])
                        if a < len(v.pa) and b < len(v.pa):
                            oracle_pair(ctx, st, j, v, r, a, b, False)
                if len(ctx.violations) > before:
                    break
            if len(ctx.violations) > before:
                found_any = True
                ctx.violations[-1]["what"] = what + " -- failing input: " + ctx.violations[-1]["what"]
            else:
                ctx.violation(what + " (searched %d runs on files reaching the rule, %d pairs measured: no disobeying pair)"
                              % (len(jobs), st.or_cases),
                              {"site": idx, "line": line, "logged": logged, "ret": repr(s["ret"])}, found_input=False)
    finally:
        sc.close()
    return found_any
