"""C02 -- token stream preserved exactly under whitespace-only configurations.  DESIGN.md section 6/C02.

Proof:  Props/C02Lex.lean (findPunct = longest enabled prefix; whitespace insertion never changes the token list; the fusion
        guard of space_text() is complete for word/number/punctuator pairs outside an explicit list of gaps, each gap a proved
        witness), Props/Render.lean (output = chunk texts in order, nothing dropped/duplicated/reordered), Props/C02.lean
        (character-level pipeline under the monitored hypotheses H-loss, H-text).
Tie:    T-punct/T-chars regenerated; findPunct vs find_punctuator; forceSpace vs PCF_FORCE_SPACE; hook-trace replay through Render.
Monitors: H-loss (P0 chunk texts = input without whitespace), H-text (P1 texts = P0 texts up to inserted backslash-newlines).
Oracle: input and output re-lexed by the independent specification lexer (C family) / by uncrustify's own tokenizer
        (other languages) must give the same non-comment token sequence incl. directive-line structure.
"""
import os

from vlib import common, gen, lexcheck, optreg, pipeline, unc

CFAMILY = {"C", "CPP", "OC", "JAVA"}
EXT = {"C": ".c", "CPP": ".cpp", "JAVA": ".java", "OC": ".m"}
WS = (32, 9, 10, 13, 11, 12)

# pairs the fusion guard is proved NOT to protect (Props/C02Lex.lean C02_fuse_guard_gap_*): violations whose first
# differing token shows exactly such a fusion are genuine defects of the unchanged tree, listed as known findings
def fusion_key(tin, tout, i):
    """classify the first difference of two token lists as the fusion of two input tokens"""
    def txt(t):
        return "".join(chr(c) for c in t[1])
    if i < len(tin) and i < len(tout):
        # an encoding prefix split off its literal (`u8"x"` -> `u8 "x"`): the tokenizer knows the prefix for C/C++ only
        a0, o0 = txt(tin[i]), txt(tout[i])
        for pre in ("u8", "u", "U", "L"):
            if a0.startswith(pre + '"') or a0.startswith(pre + "'") or a0.startswith(pre + 'R"'):
                if o0 == pre:
                    return {"kind": "string-prefix-split", "prefix": pre}
    if i + 1 < len(tin):
        a, b = txt(tin[i]), txt(tin[i + 1])
        if a == "/" and b[:1] in ("*", "/"):
            return {"fused": ["/", b[:1]], "kind": "comment-opener"}
        if i < len(tout) and txt(tout[i]).startswith(a + b[:1]) and txt(tout[i]) != a:
            if a[:2].lower() == "0x" and a[-1:] in "eE" and b in ("+", "-"):
                return {"fused": ["0x..e", b], "kind": "hex-exponent-sign"}
            if a[:1].isdigit() and b.startswith("."):
                return {"fused": ["<number>", "."], "kind": "number-dot"}
            if a == "<" and b in ("::", ":"):
                return {"fused": ["<", b], "kind": "digraph"}
    return None


def lang_of(lang, inp):
    if lang:
        return lang.upper().replace("+", "")
    d = os.path.basename(os.path.dirname(inp))
    return {"c": "C", "cpp": "CPP", "java": "JAVA", "oc": "OC", "cs": "CS", "d": "D", "vala": "VALA", "pawn": "PAWN", "ecma": "ECMA"}.get(d, "C")


CMT_T = ("COMMENT", "COMMENT_CPP", "COMMENT_MULTI", "COMMENT_ENDIF", "COMMENT_CPP_ENDIF")


def vis_of_chunks(lines, skip_nlcont=True, which="all"):
    """visible code points of the chunk texts; which = all | code (non-comment chunks) | cmt (comment chunks only)"""
    out = []
    for ln in lines:
        c = unc.parse_chunk(ln)
        if skip_nlcont and c["t"] == "NL_CONT":
            continue
        is_cmt = c["t"] in CMT_T
        if (which == "code" and is_cmt) or (which == "cmt" and not is_cmt):
            continue
        out += [x for x in c["txt"] if x not in WS]
    return out


def build_jobs(ctx, sc, exe, thorough, want_class=("ws",)):
    """(jobs) generated programs x random draws of the whitespace options + corpus pairs of the wanted config classes"""
    rng = ctx.rng
    jobs = []
    iarf = optreg.names("iarf")
    sp = [n for n in iarf if n.startswith("sp_") and not n.startswith("sp_cmt_cpp")]
    nlo = [n for n in iarf if n.startswith("nl_")]
    ws_bools = [n for n in optreg.names("bool") if lexcheck.is_ws_option(n) and not n.startswith(("use_", "donot_"))]
    tpos = optreg.names("tokenpos")
    nprog = 400 if thorough else 70
    for i in range(nprog):
        lang = rng.choice(["C", "C", "CPP", "CPP", "JAVA", "OC"])
        lines, txt = gen.program(rng, "C" if lang == "OC" else lang, stats=ctx.hist)       # plain C text read as Objective-C
        p = sc.write(txt, EXT[lang])
        for k in range(4 if thorough else 2):
            opts = {}
            mode = rng.choice(["remove-heavy", "random", "force-heavy", "few"])
            for n in rng.sample(sp, rng.choice([5, 30, 120, len(sp)])):
                opts[n] = {"remove-heavy": rng.choice(["remove", "remove", "remove", "ignore"]),
                           "force-heavy": rng.choice(["force", "add", "force"]),
                           "random": rng.choice(["ignore", "add", "remove", "force"]),
                           "few": rng.choice(["remove", "force"])}[mode]
            for n in rng.sample(nlo, rng.choice([0, 5, 40])):
                opts[n] = rng.choice(["ignore", "add", "remove", "force"])
            for n in rng.sample(ws_bools, rng.choice([0, 3, 12, 40])):
                opts[n] = rng.choice(["true", "false"])
            for n in rng.sample(tpos, rng.choice([0, 0, 1, 3])):
                opts[n] = rng.choice(["lead", "lead_break", "lead_force", "trail", "trail_break", "trail_force", "join", "break", "force"])
            if rng.random() < 0.25:
                # newline-heavy: every newline-adding option on (macro bodies must then gain backslash-newlines, not bare ones)
                for n in nlo:
                    opts[n] = rng.choice(["add", "force", "force"])
                for n in ws_bools:
                    if n.startswith("nl_"):
                        opts[n] = "true"
            if lang == "CPP" and "class K" in txt and rng.random() < 0.5:
                # a class head / constructor with comments before the colons: move the colons
                opts["pos_class_colon"] = rng.choice(["lead", "lead_break", "lead_force", "trail", "trail_break", "trail_force"])
                opts["pos_constr_colon"] = rng.choice(["lead", "lead_break", "lead_force", "trail", "trail_break", "trail_force"])
            opts.update({"indent_columns": rng.choice([2, 4, 8]), "indent_with_tabs": rng.choice([0, 1, 2]),
                         "code_width": rng.choice([0, 0, 40, 80]), "align_assign_span": rng.choice([0, 2]),
                         "align_var_def_span": rng.choice([0, 2]), "align_nl_cont": rng.choice(["false", "true"]) if False else rng.choice([0, 1]),
                         "nl_max": rng.choice([0, 2])})
            jobs.append(pipeline.Job("gen%d.%d" % (i, k), sc.cfg(None, opts), p, lang, {"kind": "gen", "text": txt, "opts": opts}))
    # every spacing option singly at `remove` (only the fusion guard keeps the tokens apart then), rotating over the generated programs:
    # a run with one option isolates that option's rule, so a known fusion elsewhere cannot mask it
    gen_jobs = [j for j in jobs if j.name.endswith(".0")]
    # the second program of an option starts with a fixed set of directives (rules about macros, includes, conditionals)
    prelude = ("#include <stdio.h>\n#define N 10\n#define S \"s\"\n#define CH 'c'\n#define NEG -1\n#define PAREN (1)\n#define EMPTY\n"
               "#define MAX(a, b) ((a) > (b) ? (a) : (b))\n#define u \"x\"\n#define L 'y'\n#if defined(N) && N > 1\n# define DEEP 0x1F\n#else\n"
               "#define DEEP .5\n#endif /* N */\n#pragma once\n")
    with_pp = {}
    for n, o in enumerate(sp):
        for r in range(3 if thorough else 2):
            j0 = gen_jobs[(n * 7 + r * 13) % len(gen_jobs)]
            inp, txt = j0.inp, j0.meta["text"]
            if r == 1 and j0.lang != "JAVA":
                if j0.inp not in with_pp:
                    with_pp[j0.inp] = sc.write(prelude + txt, EXT[j0.lang])
                inp, txt = with_pp[j0.inp], prelude + txt
            opts = {o: "remove"}
            jobs.append(pipeline.Job("single-remove.%s.%d" % (o, r), sc.cfg(None, opts), inp, j0.lang, {"kind": "gen", "text": txt, "opts": opts}))
    pairs = [p for p in unc.test_pairs() if os.path.getsize(p[2]) < 40000]
    rng.shuffle(pairs)
    n = 0
    for name, cfg, inp, lang in pairs:
        cls, why = lexcheck.config_class(exe, cfg)
        if cls not in want_class:
            continue
        jobs.append(pipeline.Job(name, cfg, inp, lang, {"kind": "corpus", "opts": None, "class": cls}))
        n += 1
        if n >= (1500 if thorough else 150):
            break
    return jobs


def relex_oracle(ctx, jobs, prop, comments=False):
    """input vs output token streams; returns list of (job, description, key)"""
    fam = [j for j in jobs if j.res["rc"] == 0 and lang_of(j.lang, j.inp) in CFAMILY]
    pairs, langs = [], []
    for j in fam:
        pairs.append((lexcheck.decode_text(open(j.inp, "rb").read()), lexcheck.decode_text(j.res["out"])))
        langs.append(lang_of(j.lang, j.inp))
    res = lexcheck.lex_cmp(langs, pairs, comments=comments) if pairs else []
    bad = []
    for j, r, pr, lg in zip(fam, res, pairs, langs):
        ctx.case("relex:" + j.name + j.cfg)
        ctx.count("relex:" + r[0])
        if r[0] == "same":
            continue
        if r[0] == "fail":
            if r[1].strip().endswith("1") or r[1].strip() == "fail 1":
                ctx.count("relex:input-rejected-by-spec-lexer")
                continue        # the specification lexer does not accept the input itself: no verdict
            tin = lexcheck.lex_tokens(lg, [pr[0]], comments=comments)[0] or []
            key = None
            otxt = "".join(chr(c) for c in pr[1])
            for a, b in zip(tin, tin[1:]):
                ta, tb = "".join(chr(c) for c in a[1]), "".join(chr(c) for c in b[1])
                if ta == "/" and tb[:1] in ("*", "/") and (ta + tb[:1]) in otxt:
                    key = {"fused": ["/", tb[:1]], "kind": "comment-opener"}
                    break
            bad.append((j, "the output is not lexically well formed while the input is (%s)" % r[1], key))
            continue
        tin, tout = lexcheck.lex_tokens(lg, [pr[0], pr[1]], comments=comments)
        key = None
        if tin and tout:
            def split(ts):
                o = []
                for k, t in ts:
                    if k == "punct" and t in ([62, 62], [62, 62, 62]):
                        o += [(k, [62])] * len(t)
                    else:
                        o.append((k, t))
                return o
            tin, tout = split(tin), split(tout)
            i = next((x for x in range(min(len(tin), len(tout))) if tin[x] != tout[x]), min(len(tin), len(tout)))
            key = fusion_key(tin, tout, i)
        if key is None and j.meta.get("kind") == "corpus":
            key = {"file": os.path.relpath(j.inp, common.REPO), "cfg": os.path.relpath(j.cfg, common.REPO),
                   "kind": "directive-structure" if "eod" in (r[2].split(":")[0], r[3].split(":")[0]) else "token-diff"}
        bad.append((j, "token %d differs: input %s, output %s" % (r[1], lexcheck.show_tok(r[2]), lexcheck.show_tok(r[3])), key))
    return bad, len(fam)


def run(ctx):
    ctx.cov["rule"] = ("one case = one run of the hook build on a generated C/C++/Java program (comments and literals at random positions, random "
                       "original whitespace) under a random draw over the ~250 sp_ and nl_ add/remove/force options plus indent/align/width "
                       "options, or a corpus input with a whitespace-only test config; distinct = distinct (input, config); non-trivial = exit 0")
    ctx.trusted += ["specification lexer UncModel/Lex.lean (independent of uncrustify's tokenizer; quiet on the C/C++ corpus)",
                    "models Render.lean/AddChar.lean/FuseGuard.lean/Punct.lean", "translators T-punct, T-chars", "hooks H1/H3"]
    ctx.assumptions += ["H-loss and H-text are monitored per run, not proved for the unmodelled passes",
                        "languages outside the C family are compared with uncrustify's own tokenizer (as the property allows)",
                        "string/char/comment token isolation enters the whitespace-insertion theorem as a hypothesis (PlainTok)"]
    ctx.lean_obligations()
    common.lean_extra(ctx, "UncModel.Props.C02Lex")
    common.lean_extra(ctx, "UncModel.Props.Render", ["render_vis", "render_vis_no_comments", "render_terminators", "nlcont_emits", "render_gap",
                                                      "execops_vis", "addchar_vis"])
    exe = common.build_repo(hooks=True)
    if not lexcheck.regen_tables(ctx):
        return
    ok, out = common.lake_build(["UncModel.Props.C02Lex", "uncdrv"])
    ctx.oblige("lake build after table regeneration", ok, "build", None if ok else out[-2000:])
    if not ok:
        return
    thorough = ctx.tier == "thorough"
    if thorough:
        lexcheck.punct_correspondence(ctx)
    lexcheck.force_correspondence(ctx, thorough=thorough)

    sc = pipeline.Scratch("c02")
    try:
        jobs = build_jobs(ctx, sc, exe, thorough)
        ctx.log("runs:", len(jobs))
        pipeline.run_jobs(exe, jobs)
        for j in jobs:
            ctx.count("rc:%s" % j.res["rc"])
        good = pipeline.render_check(ctx, jobs, "C02-render")

        # ---- monitors on the dumps
        lbad = tbad = 0
        for j in good:
            inp = [c for c in lexcheck.decode_text(open(j.inp, "rb").read()) if c not in WS]
            h0, c0 = unc.dump(j.res["trace"], "P0")
            v0 = vis_of_chunks(c0, skip_nlcont=False)
            if v0 != inp:
                lbad += 1
                if lbad <= 2:
                    k = next((i for i in range(min(len(v0), len(inp))) if v0[i] != inp[i]), min(len(v0), len(inp)))
                    ctx.violation("monitor H-loss: the tokenizer's chunk texts are not the input's non-whitespace characters (first difference at "
                                  "visible character %d) [run %s]" % (k, j.name), _replay(j), found_input=False)
            # strict form (hypothesis of C02_vis_pipeline); a newline option may move a comment across a brace, which
            # reorders comment text relative to code text: then code and comment sequences are compared separately
            if vis_of_chunks(c0) != vis_of_chunks(j.chunks):
                ctx.count("H-text:comment-moved-across-code")
            if (vis_of_chunks(c0, which="code") != vis_of_chunks(j.chunks, which="code")
                    or vis_of_chunks(c0, which="cmt") != vis_of_chunks(j.chunks, which="cmt")):
                tbad += 1
                if tbad <= 2:
                    ctx.violation("monitor H-text: chunk texts were edited between tokenizer and output under a whitespace-only config [run %s]"
                                  % j.name, _replay(j), found_input=False)
        ctx.oblige("monitor H-loss (tokenizer lossless) on %d runs" % len(good), lbad == 0, "monitor")
        ctx.oblige("monitor H-text (no text edited by any pass) on %d runs" % len(good), tbad == 0, "monitor")

        # ---- direct oracle: re-lex
        bad, nfam = relex_oracle(ctx, jobs, "C02")
        obad = 0
        for j, why, key in bad:
            if ctx.violation("%s [run %s]" % (why, j.name), _replay(j), key=key, found_input=True):
                obad += 1
        # other languages: uncrustify's own tokenizer on input vs on output
        others = [j for j in jobs if j.res["rc"] == 0 and lang_of(j.lang, j.inp) not in CFAMILY]
        rj = []
        for j in others:
            p = sc.write(j.res["out"], os.path.splitext(j.inp)[1])
            rj.append(pipeline.Job(j.name + ":re", j.cfg, p, j.lang, {}))
        pipeline.run_jobs(exe, rj)
        for j, r in zip(others, rj):
            ctx.case("retok:" + j.name)
            if r.res["rc"] != 0:
                if ctx.violation("the formatted output of %s is refused by uncrustify itself (rc %s)" % (j.name, r.res["rc"]), _replay(j),
                                 key={"file": os.path.relpath(j.inp, common.REPO), "cfg": os.path.relpath(j.cfg, common.REPO), "kind": "reformat-refused"},
                                 found_input=True):
                    obad += 1
                continue
            a = _own_tokens(unc.dump(j.res["trace"], "P0")[1])
            b = _own_tokens(unc.dump(r.res["trace"], "P0")[1])
            if a != b:
                k = next((i for i in range(min(len(a), len(b))) if a[i] != b[i]), min(len(a), len(b)))
                if ctx.violation("uncrustify's own tokenizer reads the output differently from the input at token %d (%s vs %s) [run %s]"
                                 % (k, a[k:k + 1], b[k:k + 1], j.name), _replay(j),
                                 key={"file": os.path.relpath(j.inp, common.REPO), "cfg": os.path.relpath(j.cfg, common.REPO), "kind": "retokenize"},
                                 found_input=True):
                    obad += 1
        ctx.oblige("direct oracle: token streams of input and output are equal (%d C-family runs re-lexed independently, %d others re-tokenised)"
                   % (nfam, len(others)), obad == 0, "oracle", "%d failures" % obad)
        if jobs:
            ctx.sample({"run": jobs[0].name, "options": jobs[0].meta.get("opts"), "input_head": jobs[0].meta.get("text", "")[:300]})
    finally:
        sc.close()


def _own_tokens(chunk_lines):
    out = []
    for ln in chunk_lines:
        c = unc.parse_chunk(ln)
        if c["t"] in ("NEWLINE", "NL_CONT", "COMMENT", "COMMENT_CPP", "COMMENT_MULTI", "WHITESPACE") or not c["txt"]:
            continue
        t = "".join(chr(x) for x in c["txt"])
        if t in (">>", ">>>"):
            out += [">"] * len(t)      # nested template/generic closers may legitimately be written '>>'
        else:
            out.append(t)
    return out


def _replay(j):
    r = {"lang": j.lang, "options": j.meta.get("opts")}
    if j.meta.get("kind") == "gen":
        r["input_text"] = j.meta["text"]
    else:
        r["input"] = j.inp
        r["config"] = j.cfg
    r["how"] = "uncrustify -q -c cfg -l LANG -f file; re-lex input and output (lean driver: lex.cmp)"
    return r
