"""C11 -- files in one invocation are formatted independently.  DESIGN.md section 6/C11.

Proof:  Props/C11.lean: non-interference for every file sequence from the classification of all process-global state
        (K constant / R reset / W written-before-read / D diagnostics), totality of that classification over the regenerated
        inventories (members of cp_data_t, writable globals of the binary from nm), every R member assigned in uncrustify_end().
Tie:    translator T-reset regenerates the inventories on every run; the digest hook (H4) shows, at the head of every file of
        a batch, the K and R locations with their fresh-process values (the `restore` hypothesis of the theorem).
Oracle: outputs of batches (pairs, triples, -F lists, with and without -l) vs outputs of single invocations.
"""
import os
import shutil
import subprocess

from vlib import common, pipeline, unc
from translators import t_reset

# digest fields that must have their fresh-process value at the head of every file (K and R locations)
STABLE = ["do_check", "if_changed", "lang_forced", "unc_off", "ifdef_over_whole_file", "frag", "frag_cols", "le_counts",
          "in_preproc", "preproc_ncnl_count", "changes", "al_cnt", "warned_tab", "pp_level", "bout_size", "qt_found", "qt_restore",
          "list_empty", "opt_hash", "opt_nondefault", "output_trailspace", "spaces", "sort_cache"]

SPECIAL = {
    "empty.c": b"",
    "objc_token.c": b"int x = @ 5;\n",
    "off_unterminated.c": b"int a;\n/* *INDENT-OFF* */\n   int    b ;\n",
    "pragma_asm.c": b"void f(void)\n{\n#pragma asm\n  mov a, b\n#pragma endasm\n}\n",
    "crlf.c": b"int a;\r\nint   b;\r\n",
    "cr_end.c": b"int a;\rint b;\r",
    "bom.c": b"\xef\xbb\xbfint a; /* \xc3\xa9 */\n",
    "utf16.c": "int a; /* € */\n".encode("utf-16"),
    "no_eol.c": b"int a;",
    "qt.cpp": b"void f()\n{\n    connect(a, SIGNAL(x(int &)), b, SLOT(y(int &)));\n}\n",
    "pp_open.c": b"#if A\nint a;\n",
    "cmt_open_line.c": b"int a; // trailing \\\n",
    "tab_first.c": b"\tint a;\n",
    # include names shared between files, one of them the file's own header (mod_sort_incl_import_prioritize_filename)
    "alpha.cpp": b'#include "beta.h"\n#include "alpha.h"\n#include "gamma.h"\nint a;\n',
    "beta.cpp": b'#include "gamma.h"\n#include "alpha.h"\n#include "beta.h"\nint b;\n',
    "gamma.c": b'#include "beta.h"\n#include "gamma.h"\n#include "alpha.h"\nint c;\n',
    # extensions the language table does not know (read as C when alone), with text that reads differently in C++ / C# / Java
    "holder.tcc": b"template<class T> class Holder : public Base<T> { public: int in, out; int f() { return in * out; } };\n",
    "NOEXT": b"class K : public B { int get; int set; };\nint g(int in, int out) { return in * out; }\n#define Q 1\n",
    "prog.cs": b"namespace A { class P { int X { get; set; } void f(out int a, in int b) { a = b; } } }\n",
    "Main.java": b"public class Main extends B { synchronized void f() throws E { for (int x : xs) { assert x > 0; } } }\n",
    "widget.cpp": b"namespace W { template<typename T> class V final : public B<T> { public: V() = default; }; }\n",
    "iface.m": b"@interface Foo : NSObject\n- (void)bar:(int)x;\n@end\n",
}


def fields_digest(ln):
    return unc.fields(ln)


def last_class(v):
    return {"13": "cr", "32": "blank", "9": "blank"}.get(v, "other")


def run(ctx):
    ctx.cov["rule"] = ("one case = one batch invocation of the real binary on an ordered sequence of files (pairs, triples, -F lists; mixed "
                       "languages, encodings, terminators, disabled regions, empty files, ObjC tokens; with and without -l) whose per-file outputs "
                       "are compared with single invocations; distinct = distinct (sequence, config, -l); non-trivial = every file of the sequence "
                       "is accepted on its own")
    ctx.trusted += ["T-reset translator (regex over uncrustify_types.h / uncrustify.cpp, nm on the hook build)", "c11_classification.json (committed)",
                    "digest hook H4"]
    ctx.assumptions += ["W-class locations are written before they are read in every file (checked only through the batch-vs-single oracle)",
                        "sequences contain only files that are accepted on their own: a refused file ends the whole process (exit) and later files are not processed"]
    exe = common.build_repo(hooks=True)
    try:
        f, r, g, c = t_reset.generate(exe)
        ctx.oblige("T-reset: %d cp_data_t members, %d reset, %d globals regenerated" % (len(f), len(r), len(g)), True, "table")
    except Exception as e:
        ctx.oblige("T-reset translator parses the current source", False, "table", str(e))
    ctx.lean_obligations()

    thorough = ctx.tier == "thorough"
    rng = ctx.rng
    sc = pipeline.Scratch("c11")
    try:
        pool = []      # (path, kind)
        for name, data in SPECIAL.items():
            pool.append((sc.write(data, name=name), "special:" + name))
        corp = [p for p, d in common.corpus_files(["c", "cpp", "java", "oc", "cs", "d", "vala", "pawn"]) if 0 < os.path.getsize(p) < 12000]
        rng.shuffle(corp)
        for p in corp[:(160 if thorough else 40)]:
            q = sc.write(open(p, "rb").read(), name="c%d_%s" % (len(pool), os.path.basename(p)))
            pool.append((q, "corpus:" + os.path.relpath(p, common.REPO)))
        cfgs = {"defaults": sc.cfg(None, {}),
                "sort_qt": sc.cfg(None, {"mod_sort_include": "true", "use_options_overriding_for_qt_macros": "true", "indent_with_tabs": "0",
                                         "sp_inside_fparen": "force", "align_assign_span": "1"}),
                "sort_prio": sc.cfg(None, {"mod_sort_include": "true", "mod_sort_incl_import_prioritize_filename": "true",
                                           "mod_sort_incl_import_prioritize_angle_over_quotes": "true", "newlines": "auto"})}
        # --- single runs
        singles = {}
        jobs = []
        for cn, cfg in cfgs.items():
            for lflag in (None, "C", "CPP"):
                for p, kind in pool:
                    jobs.append((cn, cfg, lflag, p))
        def single(j):
            cn, cfg, lflag, p = j
            cmd = [exe, "-q", "-c", cfg, "-f", p] + (["-l", lflag] if lflag else [])
            r = subprocess.run(cmd, stdout=subprocess.PIPE, stderr=subprocess.PIPE, timeout=60)
            return (cn, lflag, p), (r.returncode, r.stdout)
        for k, v in common.pmap(single, jobs):
            singles[k] = v
        # --- batches
        kinds = dict(pool)
        batches = []
        nb = 1500 if thorough else 220
        for b in range(nb):
            cn = rng.choice(list(cfgs))
            lflag = rng.choice([None, None, "C", "CPP"])
            okp = [p for p, _ in pool if singles[(cn, lflag, p)][0] == 0]
            if len(okp) < 3:
                continue
            n = rng.choice([2, 2, 2, 3, 3, 5])
            # make sure the special files are used often, in first position too
            seq = [rng.choice(okp) for _ in range(n)]
            if rng.random() < 0.6:
                sp = [p for p in okp if kinds[p].startswith("special")]
                if sp:
                    seq[rng.randrange(0, n - 1)] = rng.choice(sp)
            if len(set(seq)) < len(seq):
                continue
            batches.append((cn, lflag, seq, rng.choice(["args", "args", "list"])))
        # systematic: every special file first, followed by a few others, for every -l choice
        for cn in cfgs:
            for lflag in (None, "C", "CPP"):
                okp = [p for p, _ in pool if singles[(cn, lflag, p)][0] == 0]
                for sp in [p for p in okp if kinds[p].startswith("special")]:
                    for _ in range(3 if thorough else 2):
                        x = rng.choice(okp)
                        if x != sp:
                            batches.append((cn, lflag, [sp, x], "args"))
        def do_batch(b):
            cn, lflag, seq, mode = b
            d = os.path.join(sc.dir, "b%d" % id(b))
            os.makedirs(d, exist_ok=True)
            local = []
            for i, p in enumerate(seq):
                # same base name as in the single run (the include sorter compares include names with the file name)
                os.makedirs(os.path.join(d, str(i)), exist_ok=True)
                q = os.path.join(d, str(i), os.path.basename(p))
                shutil.copyfile(p, q)
                local.append(q)
            env = dict(os.environ)
            tr = os.path.join(d, "trace")
            env["UNC_VERIF_OUT"] = tr
            cmd = [exe, "-q", "-c", cfgs[cn]] + (["-l", lflag] if lflag else [])
            if mode == "list":
                lf = os.path.join(d, "files.txt")
                open(lf, "w").write("\n".join(local) + "\n")
                cmd += ["-F", lf]
            else:
                cmd += local
            r = subprocess.run(cmd, stdout=subprocess.PIPE, stderr=subprocess.PIPE, env=env, timeout=120)
            outs = []
            for q in local:
                o = q + ".uncrustify"
                outs.append(open(o, "rb").read() if os.path.exists(o) else None)
            dig = [ln for ln in open(tr, errors="replace").read().split("\n") if ln.startswith("DIGEST")] if os.path.exists(tr) else []
            shutil.rmtree(d, ignore_errors=True)
            return b, r.returncode, outs, dig, r.stderr[-300:]
        res = common.pmap(do_batch, batches)
        obad = dbad = 0
        for (cn, lflag, seq, mode), rc, outs, dig, err in res:
            key = "%s|%s|%s|%s" % (cn, lflag, mode, ",".join(kinds[p] for p in seq))
            ctx.case(key)
            ctx.count("len:%d" % len(seq))
            ctx.count("mode:" + mode + ("" if lflag is None else "+l"))
            for i, p in enumerate(seq):
                want = singles[(cn, lflag, p)][1]
                if outs[i] != want:
                    obad += 1 if ctx.violation(
                        "file %d (%s) of a batch is formatted differently from a single invocation; preceding files: %s"
                        % (i + 1, kinds[p], [kinds[q] for q in seq[:i]]),
                        {"sequence": [kinds[q] for q in seq], "special_files": {k: v.decode("latin1") for k, v in SPECIAL.items()},
                         "config": cn, "l_flag": lflag, "mode": mode, "rc": rc, "stderr": err.decode("latin1"),
                         "how": "uncrustify -q -c cfg [-l L] f1 f2 ... (outputs f.uncrustify) vs uncrustify -q -c cfg [-l L] -f fi"},
                        key={"sequence": [kinds[q] for q in seq[:i + 1]], "config": cn, "l": lflag}, found_input=True) else 0
                    break
            # digest monitor
            if len(dig) == len(seq) and len(dig) > 1:
                d0 = fields_digest(dig[0])
                for k in range(1, len(dig)):
                    dk = fields_digest(dig[k])
                    diffs = [f for f in STABLE if dk.get(f) != d0.get(f)]
                    if d0.get("lang_forced") == "1" and dk.get("lang_flags") != d0.get("lang_flags"):
                        diffs.append("lang_flags=%s (forced %s)" % (dk.get("lang_flags"), d0.get("lang_flags")))
                    if last_class(dk.get("last_char")) != "other":
                        diffs.append("last_char=" + dk.get("last_char", "?"))
                    if diffs:
                        dbad += 1
                        if dbad <= 3:
                            # steered search: does any file formatted after this prefix come out differently?
                            found = None
                            cands = [p for p, _ in pool if singles[(cn, lflag, p)][0] == 0 and p not in seq[:k]]
                            rng.shuffle(cands)
                            trial = [(cn, lflag, seq[:k] + [p], "args") for p in cands[:80]]
                            for (b2, rc2, outs2, dig2, err2) in common.pmap(do_batch, trial):
                                if outs2[-1] != singles[(cn, lflag, b2[2][-1])][1]:
                                    found = b2[2]
                                    break
                            if found:
                                ctx.violation("after the files %s the file %s is formatted differently from a single invocation (state leak: %s)"
                                              % ([kinds[q] for q in found[:-1]], kinds[found[-1]], diffs),
                                              {"sequence": [kinds[q] for q in found], "special_files": {a: b.decode("latin1") for a, b in SPECIAL.items()},
                                               "config": cn, "l_flag": lflag,
                                               "how": "uncrustify -q -c cfg [-l L] f1 f2 ... (outputs f.uncrustify) vs uncrustify -q -c cfg [-l L] -f fi"},
                                              key={"sequence": [kinds[q] for q in found], "config": cn, "l": lflag}, found_input=True)
                                continue
                            ctx.violation("digest monitor: at the head of file %d (%s) the locations %s do not have their fresh-process values (after %s)"
                                          % (k + 1, kinds[seq[k]], diffs, [kinds[q] for q in seq[:k]]),
                                          {"sequence": [kinds[q] for q in seq], "config": cn, "l_flag": lflag, "fresh": dig[0][:400], "seen": dig[k][:400]},
                                          found_input=False)
                        break
        ctx.oblige("digest monitor: K and R locations restored at the head of every file (%d batches)" % len(res), dbad == 0, "monitor", "%d" % dbad)
        ctx.oblige("direct oracle: batch outputs = single outputs (%d batches)" % len(res), obad == 0, "oracle", "%d" % obad)
        if res:
            ctx.sample({"batch": [kinds[p] for p in res[0][0][2]], "config": res[0][0][0], "l": res[0][0][1], "mode": res[0][0][3]})
    finally:
        sc.close()
