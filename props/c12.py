"""C12 -- --check and --if-changed tell the truth and write nothing they should not.  DESIGN.md section 6/C12.

Proof: UncModel/Props/C12.lean over UncModel/CheckMode.lean (bout_content_matches, the do_check / if_changed
       guards of do_source_file and of the stdin branch, check_fail_cnt, the final status) and the plan of
       UncModel/Cli.lean; formatter abstract.
Tie:   CLI level: for every test file t the normal run gives N(t); `--check` / `--if-changed` runs of the real
       binary are compared with `check.run` / `cli.run` of the Lean driver fed with (t, N(t)).
Oracle (independent of the model): exit 0 <=> N(t) == t for every file given; one PASS/FAIL line per file agreeing
       with that; directory snapshot (names, sizes, mtimes, hashes) unchanged by --check; strace shows no file
       opened for writing, renamed, removed, created or touched; --if-changed leaves the directory unchanged when
       N(t) == t and otherwise produces exactly what the run without --if-changed produces.
"""
import os
import re
import shutil
import tempfile

from props import c10
from vlib import clibox, common
from vlib.clibox import hx, unhx

WRITE_CALLS = ("rename", "renameat", "renameat2", "unlink", "unlinkat", "mkdir", "mkdirat", "rmdir", "utime", "utimes",
               "utimensat", "futimesat", "chmod", "fchmodat", "chown", "truncate", "link", "linkat", "symlink", "symlinkat", "creat", "mknod")


def perturbations(rng, y):
    """(label, bytes): the formatted text and one-byte changes at every position class"""
    out = [("formatted", y)]
    if not y:
        return out
    out.append(("first-byte", bytes([y[0] ^ 0x20 if chr(y[0]).isalpha() else 0x20]) + y[1:] if chr(y[0]).isalpha() else b" " + y[1:]))
    out.append(("prepend-space", b" " + y))
    if y.endswith(b"\n"):
        out.append(("drop-last-newline", y[:-1]))
        out.append(("extra-last-newline", y + b"\n"))
        out.append(("last-lf-to-cr", y[:-1] + b"\r"))
    else:
        out.append(("append-newline", y + b"\n"))
    nl = [i for i, b in enumerate(y) if b == 10]
    if nl:
        i = rng.choice(nl)
        out.append(("one-crlf", y[:i] + b"\r" + y[i:]))
        out.append(("all-crlf", y.replace(b"\r\n", b"\n").replace(b"\n", b"\r\n")))
    sp = [i for i, b in enumerate(y) if b == 32]
    if sp:
        i = rng.choice(sp)
        out.append(("insert-space", y[:i] + b" " + y[i:]))
        out.append(("space-to-tab", y[:i] + b"\t" + y[i + 1:]))
        j = rng.choice(sp)
        out.append(("delete-space", y[:j] + y[j + 1:]))
    k = rng.randrange(len(y))
    out.append(("trailing-blank", y[:-1] + b" \n" if y.endswith(b"\n") else y + b" "))
    return out


def fs_unchanged(r):
    d = r.diff
    return not (d["created"] or d["deleted"] or d["modified"] or d["touched"])


def parse_reports(out, err, echoed=b""):
    # in check mode on stdin the formatted text is echoed to stdout right before the PASS line
    if echoed and echoed in out:
        i = out.index(echoed)
        out = out[:i] + b"\n" + out[i + len(echoed):]
    p = [(m.group(1), int(m.group(2))) for m in re.finditer(rb"^PASS: (.*) \((\d+) bytes\)$", out, re.M)]
    f = []
    for m in re.finditer(rb"^FAIL: (.*) \((?:File size changed from (\d+) to (\d+)|Difference at byte (\d+))\)$", err, re.M):
        if m.group(4) is not None:
            f.append((m.group(1), "byte", int(m.group(4))))
        else:
            f.append((m.group(1), "size", int(m.group(2)), int(m.group(3))))
    return p, f


def model_reports(line):
    """'status n failcnt k fswrites m lines …' -> (status, failcnt, fswrites, pass list, fail list)"""
    w = line.split()
    status, failcnt, fsw = int(w[1]), int(w[3]), int(w[5])
    p, f = [], []
    for x in w[7:]:
        a = x.split(":")
        if a[0] == "PASS":
            p.append((unhx(a[1]), int(a[2])))
        elif a[0] == "FAILSIZE":
            f.append((unhx(a[1]), "size", int(a[2]), int(a[3])))
        elif a[0] == "FAILBYTE":
            f.append((unhx(a[1]), "byte", int(a[2])))
    return status, failcnt, fsw, p, f


def build_cases(ctx, exe, base, corpus, nper):
    """test files: corpus inputs, their formatted versions and perturbations; returns list of dict(dir, cfg, L, files{name: bytes}, normal{name: bytes})"""
    rng = ctx.rng
    boxes = []
    for ci, (cfg, ip, ldir) in enumerate(corpus):
        L = common.LANG_OF_DIR.get(ldir, ldir.upper())
        raw = open(ip, "rb").read()
        ext = os.path.splitext(ip)[1] or ".c"
        d = os.path.join(base, "k%d" % ci)
        os.makedirs(d)
        with open(os.path.join(d, "orig" + ext), "wb") as f:
            f.write(raw)
        r = clibox.run_real(exe, d, ["-q", "-c", cfg, "-l", L, "-f", "orig" + ext])
        if r.rc != 0:
            ctx.count("inputs:formatter-refused")
            shutil.rmtree(d)
            continue
        files = {"orig" + ext: raw}
        pert = perturbations(rng, r.out)
        rng.shuffle(pert)
        keep = [p for p in pert if p[0] == "formatted"] + [p for p in pert if p[0] != "formatted"][:nper]
        for k, (label, data) in enumerate(keep):
            files["t%d-%s%s" % (k, label, ext)] = data
        files["empty" + ext] = b""
        for n, data in files.items():
            with open(os.path.join(d, n), "wb") as f:
                f.write(data)
        boxes.append({"dir": d, "cfg": cfg, "L": L, "files": files, "ext": ext, "src": ip})
    # synthetic directories: with `newlines=cr|lf` a file whose k-th line break alone uses the other terminator is
    # rewritten with exactly one byte changed, at a position we choose (byte 0, middle, last byte) and the size kept
    for want, other, tag in ((b"\r", b"\n", "cr"), (b"\n", b"\r", "lf")):
        d = os.path.join(base, "syn-" + tag)
        os.makedirs(d)
        cfgp = os.path.join(d, "nl.cfg")
        with open(cfgp, "w") as f:
            f.write("newlines=%s\n" % tag)
        files = {}
        for nlines in (1, 2, 3, 5):
            body = [b"int v%d;" % i for i in range(nlines)]
            for lead in (False, True):
                nbreaks = nlines + (1 if lead else 0)
                for pos in sorted(set([0, nbreaks // 2, nbreaks - 1])):
                    seps = [want] * nbreaks
                    seps[pos] = other
                    txt = (seps[0] if lead else b"") + b"".join(l + sp for l, sp in zip(body, seps[1:] if lead else seps))
                    files["s%d%s-p%d.c" % (nlines, "L" if lead else "", pos)] = txt
                txt = (want if lead else b"") + b"".join(l + want for l in body)
                files["s%d%s-same.c" % (nlines, "L" if lead else "")] = txt
        for n, data in files.items():
            with open(os.path.join(d, n), "wb") as f:
                f.write(data)
        boxes.append({"dir": d, "cfg": cfgp, "L": "C", "files": files, "ext": ".c", "src": "synthetic-newlines-" + tag})
    # synthetic directory: encodings whose formatted bytes contain NUL / high bytes / a BOM (UTF-16 LE/BE, UTF-8 with BOM, Latin-1),
    # each as a text that needs re-formatting and as its own formatted version
    d = os.path.join(base, "syn-enc")
    os.makedirs(d)
    cfgp = os.path.join(d, "enc.cfg")
    with open(cfgp, "w") as f:
        f.write("indent_columns=3\nindent_with_tabs=0\n")
    txt = "int   a ;  /* caf\u00e9 */\nvoid f(void){a=1;\n if(a){a=2;}}\n"
    files = {"u16le.c": b"\xff\xfe" + txt.encode("utf-16-le"), "u16be.c": b"\xfe\xff" + txt.encode("utf-16-be"),
             "u16le-nobom.c": txt.encode("utf-16-le"), "u8bom.c": b"\xef\xbb\xbf" + txt.encode("utf-8"), "u8.c": txt.encode("utf-8"),
             "latin1.c": txt.encode("latin-1")}
    for n, data in list(files.items()):
        with open(os.path.join(d, n), "wb") as f:
            f.write(data)
        r = clibox.run_real(exe, d, ["-q", "-c", cfgp, "-l", "C", "-f", n])
        if r.rc == 0:
            files[n.replace(".c", "-fmt.c")] = r.out
    for n, data in files.items():
        with open(os.path.join(d, n), "wb") as f:
            f.write(data)
    boxes.append({"dir": d, "cfg": cfgp, "L": "C", "files": files, "ext": ".c", "src": "synthetic-encodings"})
    # normal run of every file
    jobs = [(b, n) for b in boxes for n in b["files"]]
    res = common.pmap(lambda j: clibox.run_real(exe, j[0]["dir"], ["-q", "-c", j[0]["cfg"], "-l", j[0]["L"], "-f", j[1]]), jobs)
    for (b, n), r in zip(jobs, res):
        b.setdefault("normal", {})[n] = r.out if r.rc == 0 else None
        ctx.count("file:" + (re.sub(r"^t\d+-", "", os.path.splitext(n)[0]) if not b["src"].startswith("synthetic") else "synthetic-one-terminator"))
        if r.rc == 0 and len(r.out) == len(b["files"][n]) and r.out != b["files"][n]:
            d0 = [i for i in range(len(r.out)) if r.out[i] != b["files"][n][i]]
            ctx.count("same-size-diff-at:" + ("first-byte" if d0[0] == 0 else "last-byte" if d0[0] == len(r.out) - 1 else "middle"))
    return boxes


def part_check(ctx, exe, boxes, with_strace):
    rng = ctx.rng
    runs = []     # (box, names, argv, stdin, quiet, label)
    for b in boxes:
        ok = [n for n in b["files"] if b["normal"].get(n) is not None]
        C = ["-c", b["cfg"], "-l", b["L"]]
        for n in ok:
            q = rng.random() < 0.4
            Q = ["-q"] if q else []
            runs.append((b, [n], Q + C + ["--check", n], b"", q, "positional"))
            if rng.random() < 0.5:
                runs.append((b, [n], C + Q + ["--check", "-f", n], b"", q, "-f"))
            if rng.random() < 0.3:
                runs.append((b, [n], C + Q + ["--check", "--assume", n], b["files"][n], q, "stdin"))
        for _ in range(3):
            k = rng.randrange(2, min(6, len(ok)) + 1) if len(ok) >= 2 else 0
            if k:
                names = rng.sample(ok, k)
                q = rng.random() < 0.4
                runs.append((b, names, (["-q"] if q else []) + C + ["--check"] + names, b"", q, "multi"))
        if len(ok) >= 2:
            names = rng.sample(ok, 2)
            with open(os.path.join(b["dir"], "LIST"), "wb") as f:
                f.write(("\n".join(names) + "\n").encode())
            runs.append((b, names, C + ["--check", "-F", "LIST"], b"", False, "list"))
    ctx.log("check runs:", len(runs))
    reals = common.pmap(lambda r: clibox.run_real(exe, r[0]["dir"], r[2], stdin=r[3]), runs)
    lines = []
    for b, names, argv, sin, q, label in runs:
        trip = []
        for n in names:
            nm = n if label != "stdin" else n
            trip.append("%s:%s:%s" % (hx(nm), hx(b["files"][n]), hx(b["normal"][n])))
        lines.append("check.run %d %s" % (1 if q else 0, " ".join(trip)))
    model = common.run_driver(lines)
    bad_direct = bad_model = 0
    for (b, names, argv, sin, q, label), r, m in zip(runs, reals, model):
        ctx.case("check:%s:%s:%s" % (b["src"], label, ",".join(names)) + ":" + str(q))
        ctx.count("check:" + label)
        same = [b["normal"][n] == b["files"][n] for n in names]
        ctx.count("check:all-pass" if all(same) else "check:some-fail")
        rp, rf = parse_reports(r.out, r.err, echoed=b["normal"][names[0]] if label == "stdin" else b"")
        # ---- direct reading of the property
        problems = []
        if (r.rc == 0) != all(same) or r.rc not in (0, 1):
            problems.append("exit status %d but %d of %d files are reproduced by formatting" % (r.rc, sum(same), len(same)))
        want_pass = [n.encode() for n, s in zip(names, same) if s and not q]
        want_fail = [n.encode() for n, s in zip(names, same) if not s]
        if [x[0] for x in rp] != want_pass or [x[0] for x in rf] != want_fail:
            problems.append("PASS lines %s / FAIL lines %s, expected %s / %s" % ([x[0] for x in rp], [x[0] for x in rf], want_pass, want_fail))
        if not fs_unchanged(r):
            problems.append("--check changed the directory: %s" % r.diff)
        if problems:
            bad_direct += 1
            if bad_direct <= 4:
                ctx.violation("--check does not tell the truth: " + "; ".join(problems)[:500],
                              {"argv": ["uncrustify"] + argv, "cwd": "directory with these files", "config": b["cfg"],
                               "files_hex": {n: hx(b["files"][n])[:4000] for n in names}, "normal_output_equal_input": dict(zip(names, same)),
                               "real_rc": r.rc, "stdout": r.out.decode("latin1")[-300:], "stderr": r.err.decode("latin1")[-300:], "diff": r.diff},
                              key=None, found_input=True)
        # ---- model
        ms, mcnt, mfs, mp, mf = model_reports(m)
        mproblems = []
        if ms != r.rc:
            mproblems.append("status real %d model %d" % (r.rc, ms))
        if rp != mp or rf != mf:
            mproblems.append("report lines real %s %s model %s %s" % (rp, rf, mp, mf))
        if mfs != 0:
            mproblems.append("model names %d file-system effects in check mode" % mfs)
        if mproblems and not problems:
            bad_model += 1
            if bad_model <= 4:
                ctx.violation("check mode: real run and model disagree: " + "; ".join(mproblems)[:400],
                              {"argv": ["uncrustify"] + argv, "request": lines[runs.index((b, names, argv, sin, q, label))][:600], "model": m[:400],
                               "stdout": r.out.decode("latin1")[-300:], "stderr": r.err.decode("latin1")[-300:]}, key=None, found_input=False)
    ctx.oblige("direct oracle: --check status, PASS/FAIL lines and untouched directory on %d runs" % len(runs), bad_direct == 0, "oracle",
               "%d failures" % bad_direct)
    ctx.oblige("check-mode correspondence: status and report lines (names, sizes, byte index) = model on %d runs" % len(runs), bad_model == 0, "corr",
               "%d mismatches" % bad_model)
    ctx.sample({"check_request": lines[0][:200], "model": model[0][:200]})

    # ---- strace: nothing is opened for writing, nothing renamed/removed/created/touched
    if with_strace and shutil.which("strace"):
        sample = [r for r in runs if r[5] in ("positional", "multi", "-f", "list")]
        rng.shuffle(sample)
        sample = sample[:with_strace]

        def traced(r):
            b, names, argv = r[0], r[1], r[2]
            tf = tempfile.NamedTemporaryFile(prefix="st-", dir=common.CACHE, delete=False)
            tf.close()
            p = common.subprocess.run(["strace", "-f", "-o", tf.name, "-e", "trace=file,open,openat,creat,ftruncate,utimensat,fchmod", exe] + argv,
                                      cwd=b["dir"], stdout=common.subprocess.PIPE, stderr=common.subprocess.PIPE)
            txt = open(tf.name, errors="replace").read()
            os.unlink(tf.name)
            return p.returncode, txt
        res = common.pmap(traced, sample)
        sbad = 0
        for r, (rc, txt) in zip(sample, res):
            ctx.case("strace:%s:%s" % (r[0]["src"], r[2]))
            hits = []
            for ln in txt.split("\n"):
                m = re.match(r"^\d+\s+(\w+)\((.*)$", ln)
                if not m:
                    continue
                call, rest = m.group(1), m.group(2)
                if call in WRITE_CALLS:
                    hits.append(ln[:200])
                elif call in ("open", "openat") and re.search(r"O_WRONLY|O_RDWR|O_CREAT|O_TRUNC|O_APPEND", rest):
                    if '"/dev/' in rest:
                        continue
                    hits.append(ln[:200])
            if hits:
                sbad += 1
                if sbad <= 3:
                    ctx.violation("--check performs a writing file-system call: %s" % hits[:3],
                                  {"argv": ["strace", "-f", "-e", "trace=file", "uncrustify"] + r[2], "cwd": r[0]["dir"], "calls": hits[:10]},
                                  key=None, found_input=True)
        ctx.oblige("direct oracle (strace): no open-for-write / rename / unlink / mkdir / utime in %d --check runs" % len(sample), sbad == 0, "oracle")
    elif with_strace:
        ctx.oblige("strace available", False, "oracle", "strace not installed")


def part_check_table(ctx, exe, boxes):
    """'Cannot use --check with output options': every output option with --check ends with 67 and writes nothing"""
    b = boxes[0]
    n = [x for x in b["files"] if b["normal"].get(x) is not None][0]
    C = ["-q", "-c", b["cfg"], "-l", b["L"], "--check"]
    opts = [["-o", "OUT"], ["--replace"], ["--no-backup"], ["--mtime"], ["--update-config"], ["--update-config-with-doc"], ["--detect"],
            ["--prefix", "P"], ["--suffix", ".S"], ["--if-changed"]]
    runs = []
    for o in opts:
        runs.append(C + o + ["-f", n])
        runs.append(C + o + [n])
    reals = common.pmap(lambda a: clibox.run_real(exe, b["dir"], a), runs)
    lines = ["cli.plan " + " ".join(clibox.model_env(b["dir"], a)) + " -- " + " ".join(clibox.argv_words(["uncrustify"] + a)) for a in runs]
    model = common.run_driver(lines)
    bad = 0
    for a, r, m in zip(runs, reals, model):
        ctx.case("check-table:" + repr(a[5:]))
        if r.rc != 67 or not fs_unchanged(r) or m != "exit 67":
            bad += 1
            ctx.violation("--check with an output option: real status %d (expected 67), directory diff %s, model '%s'" % (r.rc, r.diff, m[:80]),
                          {"argv": ["uncrustify"] + a}, key=None, found_input=(r.rc != 67 and not fs_unchanged(r)))
    ctx.oblige("'Cannot use --check with output options': status 67, nothing written, model agrees (%d argv)" % len(runs), bad == 0, "corr")
    # the debug side files are the one thing a check run writes (theorem C12_check_side_file_witness)
    r = clibox.run_real(exe, b["dir"], C + ["-p", "PARSED.txt", "-f", n])
    ctx.case("check-side-file")
    okw = r.diff["created"] == ["PARSED.txt"] and not r.diff["modified"] and not r.diff["deleted"] and not r.diff["touched"]
    ctx.oblige("--check -p FILE writes exactly FILE (the witness of C12_check_side_file_witness, replayed)", okw, "corr", r.diff)


def part_if_changed(ctx, exe, table, boxes, base):
    rng = ctx.rng
    thorough = ctx.tier == "thorough"
    byname = {n.lower(): v for n, v in table["names"]}
    runs = []
    for b in boxes:
        ok = [n for n in b["files"] if b["normal"].get(n) is not None]
        C = ["-q", "-c", b["cfg"], "-l", b["L"]]
        for n in ok:
            modes = [
                ("-f -o", ["-f", n, "-o", "OUT.x"], b""), ("-f -o same", ["-f", n, "-o", n], b""), ("-f stdout", ["-f", n], b""),
                ("--replace", ["--replace", n], b""), ("--no-backup", ["--no-backup", n], b""),
                ("--replace --mtime", ["--replace", "--mtime", n], b""),
                ("--suffix", ["--suffix", ".S", n], b""), ("--prefix", ["--prefix", "P/Q", n], b""), ("default-suffix", [n], b""),
                ("stdin -o", ["--assume", n, "-o", "OUT.x"], b["files"][n]), ("stdin stdout", ["--assume", n], b["files"][n]),
            ]
            same = b["normal"][n] == b["files"][n]
            pick = modes if (thorough or rng.random() < 0.15) else rng.sample(modes, 4 if same else 2)
            for label, words, sin in pick:
                runs.append((b, n, label, C + ["--if-changed"] + words, C + words, sin))
    ctx.log("if-changed runs:", len(runs), "x2")
    reals = common.pmap(lambda r: clibox.run_real(exe, r[0]["dir"], r[3], stdin=r[5]), runs)
    plains = common.pmap(lambda r: clibox.run_real(exe, r[0]["dir"], r[4], stdin=r[5]), runs)
    lines = []
    for b, n, label, argv, argv0, sin in runs:
        envw = clibox.model_env(b["dir"], argv, stdin=sin)
        fl = byname[b["L"].lower()]
        extra = ["raw=%s:%s" % (hx(n), hx(b["files"][n])), "fmt=%s:%d:%s" % (hx(n), fl, hx(b["normal"][n])), "stdinraw=" + hx(sin)]
        lines.append("cli.run " + " ".join(envw + extra) + " -- " + " ".join(clibox.argv_words(["uncrustify"] + argv)))
    model = common.run_driver(lines)
    bad_direct = bad_model = 0
    for (b, n, label, argv, argv0, sin), r, p, m in zip(runs, reals, plains, model):
        same = b["normal"][n] == b["files"][n]
        ctx.case("ifc:%s:%s:%s" % (b["src"], n, label))
        ctx.count("if-changed:" + label)
        ctx.count("if-changed:unchanged-input" if same else "if-changed:changed-input")
        problems = []
        if r.rc != 0 or p.rc != 0:
            problems.append("status %d (plain run %d)" % (r.rc, p.rc))
        elif same:
            if not fs_unchanged(r):
                problems.append("input is already formatted but the directory changed: %s" % r.diff)
            if r.out:
                problems.append("input is already formatted but %d bytes were written to stdout" % len(r.out))
        else:
            # must behave exactly like the run without --if-changed
            if r.out != p.out:
                problems.append("stdout differs from the run without --if-changed (%d vs %d bytes)" % (len(r.out), len(p.out)))
            if r.diff["created"] != p.diff["created"] or r.diff["modified"] != p.diff["modified"] or r.diff["deleted"] != p.diff["deleted"]:
                problems.append("files written differ from the run without --if-changed: %s vs %s" % (r.diff, p.diff))
            else:
                for k in r.content:
                    if k.endswith(".unc-backup.md5~"):
                        continue
                    if r.content[k] != p.content.get(k):
                        problems.append("content of %s differs from the run without --if-changed" % k)
            tgt = {"-f -o": "OUT.x", "-f -o same": n, "--replace": n, "--no-backup": n, "--replace --mtime": n, "--suffix": n + ".S",
                   "--prefix": "P/Q/" + n, "default-suffix": n + ".uncrustify", "stdin -o": "OUT.x"}.get(label)
            got = r.out if tgt is None else r.content.get(tgt)
            if got != b["normal"][n]:
                problems.append("the target does not hold the normal run's bytes")
        if problems:
            bad_direct += 1
            if bad_direct <= 4:
                ctx.violation("--if-changed (%s): %s" % (label, "; ".join(problems)[:400]),
                              {"argv": ["uncrustify"] + argv, "without": ["uncrustify"] + argv0, "config": b["cfg"], "file": n,
                               "file_hex": hx(b["files"][n])[:4000], "stdin": "the file" if sin else "", "input_already_formatted": same,
                               "real_diff": r.diff, "real_stdout_bytes": len(r.out)},
                              key={"if-changed": label, "already_formatted": same} if label.startswith("stdin") and same else None,
                              found_input=True)
        status, effs = clibox.parse_effects(m)
        mp = clibox.check_effects(r, status, effs, None, compare_stdout=True)
        if mp and not problems:
            bad_model += 1
            if bad_model <= 4:
                ctx.violation("--if-changed: real run and model disagree (%s): %s" % (label, "; ".join(mp)[:400]),
                              {"argv": ["uncrustify"] + argv, "model": m[:500], "real_diff": r.diff}, key=None, found_input=False)
    ctx.oblige("direct oracle: --if-changed writes the target iff the bytes differ, then exactly what the plain run writes (%d run pairs)" % len(runs),
               bad_direct == 0, "oracle", "%d failures" % bad_direct)
    ctx.oblige("--if-changed correspondence: files, contents, stdout, status = model on %d runs" % len(runs), bad_model == 0, "corr",
               "%d mismatches" % bad_model)


def part_cmp_function(ctx):
    """boutCompare of the model vs an independent reading of bout_content_matches (sizes first, then first differing index)"""
    rng = ctx.rng
    lines, want = [], []
    for _ in range(400):
        n = rng.choice([0, 1, 2, 3, 7, 40])
        a = [rng.randrange(256) for _ in range(n)]
        b = list(a)
        k = rng.random()
        if k < 0.3 and b:
            i = rng.randrange(len(b))
            b[i] = (b[i] + 1 + rng.randrange(255)) % 256
        elif k < 0.5:
            b = b + [rng.randrange(256)]
        elif k < 0.6 and b:
            b = b[:-1]
        lines.append("check.cmp %s %s" % (hx(bytes(a)), hx(bytes(b))))
        if len(a) != len(b):
            want.append("size %d %d" % (len(a), len(b)))
        else:
            d = [i for i in range(len(a)) if a[i] != b[i]]
            want.append("byte %d" % d[0] if d else "same")
    got = common.run_driver(lines)
    bad = sum(1 for g, w in zip(got, want) if g != w)
    for ln in lines[:50]:
        ctx.case(ln)
    ctx.oblige("boutCompare (driver) = sizes-then-first-difference on %d random pairs" % len(lines), bad == 0, "corr", "%d mismatches" % bad)


def run(ctx):
    ctx.cov["rule"] = ("one case = one run of the real binary on a directory of test files (corpus input, its formatted text, one-byte "
                       "perturbations, empty file) in --check or --if-changed mode, compared with the property read directly and with the model; "
                       "distinct = distinct (input, file set, mode, -q)")
    ctx.assumptions += ["files below 2^31 bytes (int idx in bout_content_matches)", "the formatter's result N(t) is taken from a normal run `-f t`",
                        "debug side files requested with -p / --dump-steps / --tracking are written in check mode too (C12_check_side_file_witness)"]
    thorough = ctx.tier == "thorough"
    r = c10.setup(ctx)
    if r is None or r[1] is None:
        return
    exe, table = r
    base = tempfile.mkdtemp(prefix="c12-", dir=common.CACHE)
    try:
        part_cmp_function(ctx)
        corpus = c10.corpus_cases(ctx.rng, 10 if thorough else 3, 30000 if thorough else 8000)
        boxes = build_cases(ctx, exe, base, corpus, 12 if thorough else 5)
        ctx.oblige("test directories built (%d inputs accepted by the formatter)" % len(boxes), len(boxes) >= 5, "oracle")
        if not boxes:
            return
        part_check(ctx, exe, boxes, with_strace=(400 if thorough else 60))
        part_check_table(ctx, exe, boxes)
        part_if_changed(ctx, exe, table, boxes, base)
    finally:
        shutil.rmtree(base, ignore_errors=True)
        shutil.rmtree(clibox.BOXDIR, ignore_errors=True)
