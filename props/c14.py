"""C14 -- the backup always holds the last text uncrustify did not write itself.  DESIGN.md section 6/C14.

Proof:  UncModel/Props/C14.lean over UncModel/Backup.lean (histories over the FsProto model of do_source_file).
Tie:    exhaustive enumeration of all histories up to a bounded length over
          {user writes unformatted / already formatted / the identical content, --replace with cfg A, with cfg B,
           with a cfg under which nothing changes}
        on the REAL binary in a scratch directory; the triple (file, .unc-backup~, .unc-backup.md5~) after every step is
        compared with the Lean model (driver `backup.history`) and with the reference model of the protocol (python,
        independent of the Lean model).  Histories with one run killed on entering each of its file-related system calls
        (strace SIGKILL injection) are enumerated too; the two crash windows of the protocol are known findings.
        md5.cpp is compared with `md5sum` through the md5 files the binary writes and accepts.
"""
import hashlib
import os
import shutil
import subprocess

from vlib import common, inject
from props import c13

LEVEL = "proof"

CFGS = {"a": "indent_with_tabs=0\nindent_columns=4\n",
        "b": "indent_with_tabs=0\nindent_columns=2\n",
        "n": "indent_with_tabs=0\nindent_columns=4\ndisable_processing_cmt=\" NOFMT\"\n"}
CFG_ID = {"a": 0, "b": 1, "n": 2}
WINDOW_MD5 = "rename..md5-write"
WINDOW_BAK = "backup-truncate..backup-write"


def mk_layout(root, tag):
    sdir = os.path.join(root, tag)
    os.makedirs(sdir, exist_ok=True)
    for k, v in CFGS.items():
        with open(os.path.join(sdir, k + ".cfg"), "w") as f:
            f.write(v)
    return inject.Layout(sdir)


def run_argv(cfg):
    return ["-q", "-c", cfg + ".cfg", "-l", "C", "--replace", "d/t.c"]


def formatter(exe, scratch, cfg, content):
    p = os.path.join(scratch, "fmt_in.c")
    with open(p, "wb") as f:
        f.write(content)
    r = subprocess.run([exe, "-q", "-c", cfg + ".cfg", "-l", "C", "-f", "fmt_in.c"], cwd=scratch,
                       stdin=subprocess.DEVNULL, stdout=subprocess.PIPE, stderr=subprocess.PIPE)
    return r.returncode, r.stdout


# ---------------------------------------------------------------------------
# the reference model of the protocol (python; independent of the Lean model)
# ---------------------------------------------------------------------------

class Spec:
    __slots__ = ("file", "g", "last")

    def __init__(self, file, g=None, last=None):
        self.file, self.g, self.last = file, g, last

    def write(self, c):
        return Spec(c, self.g, self.last)

    def backup_only(self):
        return Spec(self.file, self.g if self.file == self.last else self.file, self.last)

    def run(self, F, cfg):
        out = F[(cfg, self.file)]
        return Spec(out, self.g if self.file == self.last else self.file, out)

    def triple(self):
        return (self.file, self.g, None if self.last is None else inject.md5_line(self.last, "t.c"))

    def key(self):
        return (self.file, self.g, self.last)


def triple_of(state):
    return (state["target"], state["bak"], state["md5"])


def show_triple(t):
    return {"file": c13.show(t[0]), "backup": c13.show(t[1]),
            "md5": "absent" if t[2] is None else t[2][:32].decode("ascii", "replace")}


# ---------------------------------------------------------------------------

def op_text(op):
    if op[0] == "w":
        return "w:" + inject.hexl(op[1])
    if op[0] == "r":
        return "r:%d" % CFG_ID[op[1]]
    return "k:%d:%s" % (CFG_ID[op[1]], "/".join(op[3]))


def op_name(op, names):
    if op[0] == "w":
        return "UserWrite(%s)" % names.get(op[1], "?")
    if op[0] == "r":
        return "Run(%s)" % op[1]
    return "RunKilled(%s, on entering %s#%d%s)" % (op[1], op[2][0], op[2][1], op[4])


def run(ctx):
    thorough = ctx.tier == "thorough"
    ctx.cov["rule"] = ("one case = one step of one history executed on the real binary in a scratch directory (a user write, a "
                       "--replace run, or a --replace run killed on entering one file-related syscall), the resulting triple "
                       "(file, backup, md5 file) compared with the Lean model and with the protocol's reference model; distinct = "
                       "distinct histories; non-trivial = histories containing at least one run")
    ctx.trusted += ["hand-written models UncModel/FsProto.lean + UncModel/Backup.lean (validated by this check)",
                    "strace (SIGKILL injection on syscall entry), python reference model of the protocol in props/c14.py",
                    "md5sum / hashlib.md5 as the MD5 reference"]
    ctx.assumptions += ["no MD5 collisions among the contents of a history (InjOn h (occurring ..))",
                        "the stored md5 'matches' iff the md5 file is the line written for the same bytes (the code compares the "
                        "first 32 hex digits only)",
                        "a user write of the identical content is not an edit; an edit is detected by content, the only way the "
                        "protocol can (file != what uncrustify last left)",
                        "one file, one run at a time; --replace without --mtime / --if-changed"]
    c13.load_extra_known(ctx)
    ctx.lean_obligations()
    exe = common.build_repo(hooks=True)
    root = os.path.join(common.CACHE, "scratch-c14-%d" % os.getpid())
    shutil.rmtree(root, ignore_errors=True)
    os.makedirs(root)
    try:
        _run(ctx, exe, root, thorough)
    finally:
        shutil.rmtree(root, ignore_errors=True)

    def prio(v):
        return (not v["found_input"], len(v["what"]))
    ctx.violations.sort(key=prio)


def check_md5(ctx, exe, root):
    """md5.cpp against md5sum: (1) the md5 file written for a file of n bytes (MD5::Update in 4096-byte pieces +
    Final), (2) a md5 file made with md5sum is accepted as matching (MD5::Calc): the backup is not rewritten."""
    lay = mk_layout(root, "md5")
    sizes = [12, 55, 56, 57, 63, 64, 65, 119, 120, 121, 128, 1000, 4095, 4096, 4097, 8191, 8192, 8193, 10000]
    bad = []
    for n in sizes:
        # exactly n bytes that cfg n leaves alone: the marker comment, then comment lines
        content = b"// NOFMT\n"
        while len(content) < n:
            r = n - len(content)
            ln = r if r <= 80 else (77 if r - 77 >= 3 else 70)
            content += b"//" + bytes(97 + (len(content) + k) % 26 for k in range(ln - 3)) + b"\n"
        old = b"old backup\n"
        # (2) md5 file made by md5sum
        lay.reset({"target": content})
        r = subprocess.run(["md5sum", lay.path("target")], stdout=subprocess.PIPE)
        dig = r.stdout.split()[0].decode()
        if dig != hashlib.md5(content).hexdigest():
            bad.append(("md5sum != hashlib", n))
        lay.reset({"target": content, "bak": old, "md5": (dig + "  t.c\n").encode()})
        r = subprocess.run([exe] + run_argv("n"), cwd=lay.scratch, stdin=subprocess.DEVNULL, stdout=subprocess.PIPE,
                           stderr=subprocess.PIPE)
        snap = lay.snapshot()
        ctx.case("md5|%d" % n)
        ctx.count("md5-size:%d" % len(content))
        if r.returncode != 0 or snap["target"] != content:
            bad.append(("no-op run failed or changed the file", n, r.returncode))
            continue
        if snap["bak"] != old:
            bad.append(("MD5::Calc disagrees with md5sum: md5sum digest not accepted as a match", len(content)))
        # (1) md5 file written by the binary
        if snap["md5"] != (dig + "  t.c\n").encode():
            bad.append(("MD5::Update/Final disagrees with md5sum", len(content), snap["md5"][:40]))
    # a stored digest that differs in ONE hex digit (each of the 32 positions) is not a match: the backup is rewritten
    content = b"// NOFMT\nint one_digit;\n"
    dig = hashlib.md5(content).hexdigest()
    nflip = 0
    for pos in range(32):
        d2 = dig[:pos] + ("0" if dig[pos] != "0" else "1") + dig[pos + 1:]
        lay.reset({"target": content, "bak": b"old backup\n", "md5": (d2 + "  t.c\n").encode()})
        r = subprocess.run([exe] + run_argv("n"), cwd=lay.scratch, stdin=subprocess.DEVNULL, stdout=subprocess.PIPE,
                           stderr=subprocess.PIPE)
        snap = lay.snapshot()
        ctx.case("md5-flip|%d" % pos)
        nflip += 1
        if snap["bak"] != content or snap["md5"] != (dig + "  t.c\n").encode():
            bad.append(("stored digest differing in hex digit %d was accepted as a match" % pos, show_triple(triple_of(snap))))
    ctx.oblige("md5.cpp == md5sum on %d inputs (sizes around the 64-byte block and 4096-byte read boundaries), both through "
               "MD5::Calc (stored digest accepted) and MD5::Update/Final (digest written)" % len(sizes), not bad, "correspondence", bad[:5])
    if bad:
        ctx.violation("C14: md5.cpp disagrees with md5sum: %r" % (bad[:3],), {"cases": [repr(b) for b in bad[:10]]}, found_input=True)


def multi_file_check(ctx, exe, root, F, U, FA):
    """several files in ONE --replace invocation: each file's (file, backup, md5) triple must be what the protocol's
    reference model gives for that file alone (the backup decision of one file must not depend on another file)"""
    FB = F[("b", U)]
    # per-file start states: (content, backup, recorded-last-output) ; None = absent
    states = {"user-text": (U, None, None),
              "formatted-by-a, recorded": (FA, U, FA),
              "copy of a formatted file, nothing recorded": (FA, None, None),
              "formatted-by-b, recorded": (FB, U, FB),
              "user edit after a run": (U, FB, FA)}
    names = ["a.c", "b.c", "c.c"]
    cases = []
    keys = list(states)
    for cfg in ("a", "b"):
        for s1 in keys:
            for s2 in keys:
                cases.append((cfg, [s1, s2]))
        cases.append((cfg, [keys[1], keys[2], keys[0]]))
        cases.append((cfg, [keys[3], keys[2], keys[2]]))
    bad = 0
    d = os.path.join(root, "multi")
    for ci, (cfg, sts) in enumerate(cases):
        shutil.rmtree(d, ignore_errors=True)
        os.makedirs(os.path.join(d, "d"))
        for k, v in CFGS.items():
            with open(os.path.join(d, k + ".cfg"), "w") as f:
                f.write(v)
        expect = []
        for nm, st in zip(names, sts):
            content, bak, last = states[st]
            base = os.path.join(d, "d", nm)
            open(base, "wb").write(content)
            if bak is not None:
                open(base + ".unc-backup~", "wb").write(bak)
            if last is not None:
                open(base + ".unc-backup.md5~", "wb").write(inject.md5_line(last, nm))
            sp = Spec(content, bak, last).run(F, cfg)
            expect.append((sp.file, sp.g, inject.md5_line(sp.last, nm)))
        r = subprocess.run([exe, "-q", "-c", cfg + ".cfg", "-l", "C", "--replace"] + ["d/" + nm for nm in names[:len(sts)]],
                           cwd=d, stdin=subprocess.DEVNULL, stdout=subprocess.PIPE, stderr=subprocess.PIPE)
        ctx.case("multi:%s:%s" % (cfg, sts))
        for nm, st, ex in zip(names, sts, expect):
            base = os.path.join(d, "d", nm)
            rd = lambda p: open(p, "rb").read() if os.path.exists(p) else None
            got = (rd(base), rd(base + ".unc-backup~"), rd(base + ".unc-backup.md5~"))
            if r.returncode != 0 or got != ex:
                bad += 1
                which = [w for w, a, b in zip(("file", "backup", "md5"), got, ex) if a != b]
                ctx.violation("several files in one --replace run (cfg %s, files in states %s): %s of %s (state '%s') is not what a run on that "
                              "file alone leaves (exit %d)" % (cfg, sts, "/".join(which) or "exit status", nm, st, r.returncode),
                              {"cfg": CFGS[cfg], "states": {n: {"file": c13.show(states[s][0]), "backup": c13.show(states[s][1]),
                                                                "md5_of": c13.show(states[s][2])} for n, s in zip(names, sts)},
                               "cmd": "uncrustify -q -c cfg -l C --replace d/a.c d/b.c [d/c.c]",
                               "got": show_triple(got), "expected": show_triple(ex)}, key=None, found_input=True)
                break
    shutil.rmtree(d, ignore_errors=True)
    ctx.oblige("several files in one --replace run: every file's triple equals the reference model's for that file alone (%d invocations)"
               % len(cases), bad == 0, "oracle", "%d" % bad)


def spelling_check(ctx, exe, root, F, U, FA):
    """the protocol is about the FILE, not about how its path is spelled: histories of --replace runs that name the same file as
    d/t.c, ./d/t.c, d//t.c, d/./t.c, d/../d/t.c, an absolute path, or through a -F list must leave the triples of the reference model"""
    d = os.path.join(root, "spell")
    spellings = ["d/t.c", "./d/t.c", "d//t.c", "d/./t.c", "d/../d/t.c", "@ABS@/d/t.c", "LIST:d/t.c", "LIST:./d/t.c"]
    hists = []
    for s1 in spellings:
        for s2 in spellings:
            if s1 != s2:
                hists.append([("r", "a", s1), ("w", U), ("r", "b", s2), ("r", "b", s1)])
    for s1 in spellings:
        hists.append([("r", "a", s1), ("r", "b", s1), ("r", "b", "d/t.c")])
        hists.append([("r", "a", "d/t.c"), ("w", U), ("r", "a", s1), ("r", "a", s1)])
    bad = 0
    for h in hists:
        shutil.rmtree(d, ignore_errors=True)
        os.makedirs(os.path.join(d, "d"))
        for k, v in CFGS.items():
            with open(os.path.join(d, k + ".cfg"), "w") as f:
                f.write(v)
        base = os.path.join(d, "d", "t.c")
        open(base, "wb").write(U)
        sp = Spec(U)
        rd = lambda p: open(p, "rb").read() if os.path.exists(p) else None
        ctx.case("spell:%s" % (h,))
        for step, op in enumerate(h):
            if op[0] == "w":
                open(base, "wb").write(op[1])
                sp = sp.write(op[1])
                continue
            _, cfg, spell = op
            spell = spell.replace("@ABS@", d)
            if spell.startswith("LIST:"):
                open(os.path.join(d, "list.txt"), "w").write(spell[5:] + "\n")
                argv = ["-q", "-c", cfg + ".cfg", "-l", "C", "--replace", "-F", "list.txt"]
            else:
                argv = ["-q", "-c", cfg + ".cfg", "-l", "C", "--replace", spell]
            r = subprocess.run([exe] + argv, cwd=d, stdin=subprocess.DEVNULL, stdout=subprocess.PIPE, stderr=subprocess.PIPE)
            sp = sp.run(F, cfg)
            md5 = rd(base + ".unc-backup.md5~")
            got = (rd(base), rd(base + ".unc-backup~"), None if md5 is None else md5[:32])
            want = (sp.file, sp.g, None if sp.last is None else inject.md5_line(sp.last, "t.c")[:32])
            extra = sorted(x for x in os.listdir(os.path.join(d, "d")) if x not in ("t.c", "t.c.unc-backup~", "t.c.unc-backup.md5~"))
            if r.returncode != 0 or got != want or extra:
                bad += 1
                which = [w for w, a, b in zip(("file", "backup", "md5"), got, want) if a != b] + (["extra files %s" % extra] if extra else [])
                ctx.violation("history %s: after step %d the %s of d/t.c is not what the backup protocol prescribes (exit %d): the same file named "
                              "with another spelling of its path" % ([o[:1] + o[2:] if o[0] == "r" else ("w", "unformatted text") for o in h], step + 1,
                                                                   "/".join(which) or "exit status", r.returncode),
                              {"history": [{"run": "uncrustify " + " ".join(["-q", "-c", o[1] + ".cfg", "-l", "C", "--replace", o[2]])} if o[0] == "r"
                                           else {"write": c13.show(o[1])} for o in h],
                               "cfgs": CFGS, "start": c13.show(U), "got": show_triple((got[0], got[1], md5)),
                               "expected": show_triple((want[0], want[1], want[2]))}, key=None, found_input=True)
                break
    shutil.rmtree(d, ignore_errors=True)
    ctx.oblige("path spellings: histories naming one file as d/t.c, ./d/t.c, d//t.c, d/./t.c, d/../d/t.c, absolute, -F list follow the protocol (%d histories)"
               % len(hists), bad == 0, "oracle", "%d" % bad)


def _run(ctx, exe, root, thorough):
    check_md5(ctx, exe, root)
    seedv = ctx.rng.randrange(1000)
    U = ("// NOFMT\nint  main%d( ){\nif(x){\nreturn   %d;}\n}\n" % (seedv, seedv)).encode()
    lay0 = mk_layout(root, "fmt")
    st, FA = formatter(exe, lay0.scratch, "a", U)
    ctx.oblige("contents: cfg a reformats the unformatted text", st == 0 and FA != U, "setup")
    # closure of the contents under the three configurations
    F = {}
    todo = [U, FA]
    seen = []
    while todo:
        c = todo.pop()
        if c in seen:
            continue
        seen.append(c)
        for cfg in CFGS:
            st, out = formatter(exe, lay0.scratch, cfg, c)
            if st != 0:
                ctx.oblige("formatter succeeds on every content of the universe", False, "setup", (cfg, c[:80]))
                return
            F[(cfg, c)] = out
            if out not in seen:
                todo.append(out)
    names = {U: "unformatted", FA: "formatted-by-a"}
    for c in seen:
        names.setdefault(c, "content#%d" % len(names))
    ctx.oblige("contents: cfg n changes nothing, cfg a and cfg b differ, a is idempotent",
               all(F[("n", c)] == c for c in seen) and F[("a", U)] != F[("b", U)] and F[("a", FA)] == FA, "setup")
    ctx.count("universe-contents", len(seen))
    multi_file_check(ctx, exe, root, F, U, FA)
    spelling_check(ctx, exe, root, F, U, FA)
    ftable = ";".join("%d:%s>%s" % (CFG_ID[cfg], inject.hexl(c), inject.hexl(out)) for (cfg, c), out in F.items() if out != c) or "-"

    maxlen = 6 if thorough else 4
    kill_maxlen = 4 if thorough else 3

    def ops_from(state):
        return [("w", U), ("w", FA), ("w", state["target"]), ("r", "a"), ("r", "b"), ("r", "n")]

    init_state = {"target": U, "tmp": None, "bak": None, "md5": None}

    # ---- worker: explores the subtree below a given prefix, depth first --------------------------------
    def explore(task):
        tag, prefix, state, depth_left, kills_left, kill_tail = task
        lay = mk_layout(root, tag)
        nodes = []        # (history ops, real state, info)

        def apply_run(st0, cfg, trace):
            lay.reset(st0)
            if trace:
                status, evs, _, err = inject.run_traced(exe, run_argv(cfg), lay)
            else:
                r = subprocess.run([exe] + run_argv(cfg), cwd=lay.scratch, stdin=subprocess.DEVNULL,
                                   stdout=subprocess.PIPE, stderr=subprocess.PIPE)
                status, evs = r.returncode, None
            snap = lay.snapshot()
            return status, evs, snap

        def rec(hist, st0, left, kills, tail_left):
            if left == 0:
                return
            for op in ops_from(st0):
                if op[0] == "w":
                    st1 = dict(st0)
                    st1["target"] = op[1]
                    nodes.append((hist + [op], st1, {"status": 0}))
                    rec(hist + [op], st1, left - 1, kills, tail_left)
                    continue
                status, evs, snap = apply_run(st0, op[1], trace=kills > 0)
                extra = snap.pop("extra")
                nodes.append((hist + [op], snap, {"status": status, "extra": extra}))
                rec(hist + [op], snap, left - 1, kills, tail_left)
                if kills > 0 and evs:
                    for j, ev in enumerate(evs):
                        lay.reset(st0)
                        kstatus, _, _, _ = inject.run_traced(exe, run_argv(op[1]), lay,
                                                             injects=["%s:signal=SIGKILL:when=%d" % (ev.name, ev.nth)])
                        ksnap = lay.snapshot()
                        kextra = ksnap.pop("extra")
                        kop = ("k", op[1], (ev.name, ev.nth), None, "", j, evs, st0)
                        nodes.append((hist + [kop], ksnap, {"status": kstatus, "extra": kextra}))
                        rec(hist + [kop], ksnap, min(left - 1, tail_left), 0, 0)

        rec(prefix, state, depth_left, kills_left, kill_tail)
        shutil.rmtree(lay.scratch, ignore_errors=True)
        return nodes

    # the first two levels are run here, the subtrees below them are handed to the workers
    all_nodes = []
    lay1 = mk_layout(root, "top")

    def top_children(hist, st0):
        out = []
        for op in ops_from(st0):
            if op[0] == "w":
                st1 = dict(st0)
                st1["target"] = op[1]
                out.append((hist + [op], st1, {"status": 0}))
            else:
                lay1.reset(st0)
                r = subprocess.run([exe] + run_argv(op[1]), cwd=lay1.scratch, stdin=subprocess.DEVNULL,
                                   stdout=subprocess.PIPE, stderr=subprocess.PIPE)
                snap = lay1.snapshot()
                extra = snap.pop("extra")
                out.append((hist + [op], snap, {"status": r.returncode, "extra": extra}))
        return out

    level1 = top_children([], init_state)
    level2 = []
    for h, s, _ in level1:
        level2 += top_children(h, s)
    all_nodes += level1 + level2
    work = []
    for n, (h, s, _) in enumerate(level2):
        work.append(("plain%d" % n, h, s, maxlen - 2, 0, 0))
    # histories with one killed run: the kill is the 1st, 2nd, … op
    work.append(("kill-0", [], init_state, 1, 1, kill_maxlen - 1))
    for n, (h, s, _) in enumerate(level1):
        work.append(("kill-1-%d" % n, h, s, 1, 1, kill_maxlen - 2))
    if kill_maxlen >= 3:
        for n, (h, s, _) in enumerate(level2):
            work.append(("kill-2-%d" % n, h, s, 1, 1, kill_maxlen - 3))
    if kill_maxlen >= 4:
        level3 = []
        for h, s, _ in level2:
            level3 += top_children(h, s)
        for n, (h, s, _) in enumerate(level3):
            work.append(("kill-3-%d" % n, h, s, 1, 1, 0))
    # the two Lean witnesses, replayed (quick and thorough): handled by the kill enumeration when long enough, else explicitly
    witness_work = []
    s_w = apply_plain(exe, lay1, init_state, [("r", "a")])
    witness_work.append(("wit-md5", [("r", "a")], s_w, 1, 1, 1))
    s_w2 = dict(s_w)
    s_w2["target"] = U
    witness_work.append(("wit-bak", [("r", "a"), ("w", U)], s_w2, 1, 1, 2))
    results = common.pmap(explore, work + witness_work)
    for tw, nodes in zip(work + witness_work, results):
        for h, s, info in nodes:
            # in kill tasks the un-killed first-level nodes duplicate plain nodes: keep kill histories only
            if tw[0].startswith(("kill", "wit")) and not any(o[0] == "k" for o in h):
                continue
            all_nodes.append((h, s, info))
    shutil.rmtree(lay1.scratch, ignore_errors=True)

    evaluate(ctx, exe, root, all_nodes, F, ftable, U, names, init_state)


def apply_plain(exe, lay, state, ops):
    st = dict(state)
    for op in ops:
        if op[0] == "w":
            st["target"] = op[1]
        else:
            lay.reset(st)
            subprocess.run([exe] + run_argv(op[1]), cwd=lay.scratch, stdin=subprocess.DEVNULL,
                           stdout=subprocess.PIPE, stderr=subprocess.PIPE)
            st = lay.snapshot()
            st.pop("extra")
    return st


def evaluate(ctx, exe, root, all_nodes, F, ftable, U, names, init_state):
    # ---- classify kill points with the model's trace of the un-killed run (one driver round) -------------
    kill_nodes = [(h, s, i) for h, s, i in all_nodes if any(o[0] == "k" for o in h)]
    treq = {}
    for h, s, info in kill_nodes:
        kop = [o for o in h if o[0] == "k"][0]
        st0 = kop[7]
        out = F[(kop[1], st0["target"])]
        cands = [st0["target"], out, st0["bak"], b""] + [c for (_, c) in F.keys()]
        md5d = inject.md5_described(st0["md5"], cands, "t.c")

        def cc(x):
            return "~" if x is None else inject.hexl(x)
        req = "fs.run replace 1 1 ok:%s %s %s %s %s -" % (inject.hexl(out), cc(st0["target"]), cc(st0["tmp"]), cc(st0["bak"]),
                                                           "~" if md5d is None else inject.hexl_ints(md5d) if not (md5d and md5d[0] == "?") else "0")
        treq[id(kop)] = req
    uniq = sorted(set(treq.values()))
    tans = dict(zip(uniq, common.run_driver(uniq))) if uniq else {}
    kinfo = {}
    n_kill_unmapped = 0
    for h, s, info in kill_nodes:
        kop = [o for o in h if o[0] == "k"][0]
        if id(kop) in kinfo:
            continue
        ans = tans[treq[id(kop)]]
        evs, j = kop[6], kop[5]
        sched = window = None
        if ans != "bad-op":
            mevs = c13.parse_model_answer(ans)[0]
            assign, aerr = inject.align(mevs, evs)
            if aerr is None:
                sched = inject.kill_schedule(evs, mevs, assign, j)
                done = inject.completed_calls(evs, mevs, assign, j)
                md5w = ("rename:tmp:target" in done or "creat:md5" in done) and not any(d.startswith("write:md5") for d in done)
                bakw = "creat:bak" in done and not any(d.startswith("write:bak") for d in done)
                window = WINDOW_MD5 if md5w else WINDOW_BAK if bakw else "safe"
        if sched is None:
            n_kill_unmapped += 1
        kinfo[id(kop)] = (sched, window)
    ctx.oblige("every kill point of every killed run maps onto a call of the model's trace of that run", n_kill_unmapped == 0,
               "correspondence", n_kill_unmapped)

    # ---- the Lean model: one request per history ---------------------------------------------------------
    reqs = []
    usable = []
    for h, s, info in all_nodes:
        ops = []
        ok = True
        for o in h:
            if o[0] == "k":
                sched, window = kinfo[id(o)]
                if sched is None:
                    ok = False
                    break
                ops.append("k:%d:%s" % (CFG_ID[o[1]], "/".join(sched)))
            else:
                ops.append(op_text(o))
        if not ok:
            continue
        usable.append((h, s, info))
        reqs.append("backup.history 1 %s %s %s" % (ftable, inject.hexl(U), ",".join(ops)))
    answers = common.run_driver(reqs)
    all_contents = sorted(set([c for (_, c) in F.keys()] + list(F.values())))
    n_model_bad = 0
    n_spec_bad = 0
    n_hist = 0
    windows_hit = {}
    for (h, s, info), ans in zip(usable, answers):
        n_hist += 1
        has_run = any(o[0] != "w" for o in h)
        hname = [op_name((o[0], o[1], o[2], None, " [%s]" % kinfo[id(o)][1]) if o[0] == "k" else o, names) for o in h]
        ctx.case("|".join(hname), nontrivial=has_run)
        ctx.count("len:%d" % len(h))
        if any(o[0] == "k" for o in h):
            ctx.count("kill:" + str(kinfo[id([o for o in h if o[0] == "k"][0])][1]))
        real = dict(s)
        real["md5"] = inject.md5_described(s["md5"], all_contents + [s["target"], s["bak"], b""], "t.c")
        # --- Lean model
        if ans == "bad-op":
            n_model_bad += 1
            ctx.violation("C14: driver answered bad-op", {"request": reqs[n_hist - 1][:500]}, found_input=False)
        else:
            last = ans.split(";")[-1].split()
            m = {"target": inject.unhexl(last[0]), "tmp": inject.unhexl(last[1]), "bak": inject.unhexl(last[2]),
                 "md5": inject.unhexl_ints(last[3])}
            same = all(real[r] == m[r] for r in ("target", "bak", "md5")) and (real["tmp"] is None) == (m["tmp"] is None)
            if not same or info.get("extra"):
                n_model_bad += 1
                ctx.violation("C14 history %s: binary and Lean model disagree: real %s, model %s" % (
                    " ; ".join(hname), {r: c13.show(real[r]) for r in inject.ROLES}, {r: c13.show(m[r]) for r in inject.ROLES}),
                    replay_history(h, names, kinfo), found_input=False)
        # --- the property, directly: reference model of the protocol over the whole history
        specs = [Spec(U)]
        window = None
        for o in h:
            if o[0] == "w":
                specs = [sp.write(o[1]) for sp in specs]
            elif o[0] == "r":
                specs = [sp.run(F, o[1]) for sp in specs]
            else:
                window = kinfo[id(o)][1]
                # a killed run: it did not happen, or only its backup happened, or it happened completely
                specs = [x for sp in specs for x in (sp, sp.backup_only(), sp.run(F, o[1]))]
        got = triple_of(s)
        if not any(sp.triple() == got for sp in specs):
            key = {"crash_window": window} if window in (WINDOW_MD5, WINDOW_BAK) else None
            what = ("C14 history [%s]: the backup/md5 do not hold what the protocol promises: got %s; admissible: %s" % (
                " ; ".join(hname), show_triple(got), [show_triple(sp.triple()) for sp in specs[:3]]))
            if key is not None:
                windows_hit[window] = windows_hit.get(window, 0) + 1
            if ctx.violation(what, replay_history(h, names, kinfo), key=key, found_input=True):
                n_spec_bad += 1
    ctx.sample({"histories": n_hist})
    for w, n in windows_hit.items():
        ctx.count("known-window-violations:" + w, n)
    ctx.log("%d histories (%d with a killed run), %d disagree with the Lean model, %d violate the property (outside the known windows), "
            "known-window violations: %r" % (n_hist, len(kill_nodes), n_model_bad, n_spec_bad, windows_hit))
    ctx.cov["histories"] = n_hist
    ctx.cov["histories_with_kill"] = len(kill_nodes)
    ctx.oblige("binary == Lean model (triple after the last step) for every history (%d)" % n_hist, n_model_bad == 0, "correspondence")
    ctx.oblige("protocol invariant holds directly on the binary for every history without a kill inside a known crash window",
               n_spec_bad == 0, "oracle")
    ctx.oblige("the two crash-window witnesses of Props/C14.lean replay on the binary", set(windows_hit) == {WINDOW_MD5, WINDOW_BAK},
               "oracle", windows_hit)


def replay_history(h, names, kinfo):
    steps = []

    for o in h:
        if o[0] == "w":
            steps.append({"op": "write d/t.c", "content": names.get(o[1], "?"), "hex": inject.hexl(o[1])})
        elif o[0] == "r":
            steps.append({"op": "uncrustify -q -c %s.cfg -l C --replace d/t.c" % o[1], "cfg": CFGS[o[1]]})
        else:
            steps.append({"op": "strace -f -o /dev/null -e inject=%s:signal=SIGKILL:when=%d uncrustify -q -c %s.cfg -l C --replace d/t.c"
                                % (o[2][0], o[2][1], o[1]), "cfg": CFGS[o[1]], "crash_window": kinfo[id(o)][1]})
    cont = {v: inject.hexl(k) for k, v in names.items()}
    return {"start": "d/t.c holds the 'unformatted' content, no side files; cwd holds a.cfg/b.cfg/n.cfg", "contents_hex": cont,
            "steps": steps}
