// Function-level harness: speaks the same line protocol as the Lean driver
// (lean/UncModel/Driver) but answers by calling the repository's own functions.
// Linked against the object files of the hook build (main renamed by objcopy).
#include "uncrustify_types.h"
#include "unicode.h"
#include "punctuators.h"
#include "language_names.h"
#include "keywords.h"
#include "option.h"
#include "chunk.h"
#include "args.h"
#include "char_table.h"

#include <cstdio>
#include <cstring>
#include <deque>
#include <iostream>
#include <sstream>
#include <string>
#include <vector>

using namespace std;
using namespace uncrustify;

static bool parse_hex_list(const string &s, vector<long> &out)
{
   out.clear();
   if (s == "-" || s.empty()) { return(true); }
   size_t pos = 0;
   while (pos <= s.size())
   {
      size_t dot = s.find('.', pos);
      if (dot == string::npos) { dot = s.size(); }
      if (dot == pos) { return(false); }
      char *end = nullptr;
      string w = s.substr(pos, dot - pos);
      long v = strtol(w.c_str(), &end, 16);
      if (*end != 0) { return(false); }
      out.push_back(v);
      pos = dot + 1;
   }
   return(true);
}

template<typename C> static string hex_list(const C &c)
{
   if (c.empty()) { return("-"); }
   string s;
   char buf[32];
   bool first = true;
   for (auto v : c)
   {
      snprintf(buf, sizeof(buf), "%s%x", first ? "" : ".", static_cast<unsigned int>(v));
      s += buf;
      first = false;
   }
   return(s);
}

static const char *enc_name(char_encoding_e e)
{
   switch (e)
   {
   case char_encoding_e::e_ASCII: return("ascii");
   case char_encoding_e::e_BYTE: return("byte");
   case char_encoding_e::e_UTF8: return("utf8");
   case char_encoding_e::e_UTF16_LE: return("utf16le");
   case char_encoding_e::e_UTF16_BE: return("utf16be");
   }
   return("?");
}

static bool enc_of(long n, char_encoding_e &e)
{
   switch (n)
   {
   case 0: e = char_encoding_e::e_ASCII; return(true);
   case 1: e = char_encoding_e::e_BYTE; return(true);
   case 2: e = char_encoding_e::e_UTF8; return(true);
   case 3: e = char_encoding_e::e_UTF16_LE; return(true);
   case 4: e = char_encoding_e::e_UTF16_BE; return(true);
   }
   return(false);
}

static string handle(const vector<string> &w)
{
   if (w.empty()) { return("bad-op"); }

   if (w[0] == "unicode.decode" && w.size() == 3)
   {
      vector<long> v;
      if (!parse_hex_list(w[2], v)) { return("bad-op"); }
      vector<UINT8> in(v.begin(), v.end());
      deque<int> out;
      char_encoding_e enc = char_encoding_e::e_ASCII;
      bool bom = false;
      if (!decode_unicode(in, out, enc, bom)) { return("fail"); }
      return(string(enc_name(enc)) + " " + (bom ? "1" : "0") + " " + hex_list(out));
   }

   if (w[0] == "unicode.emit" && w.size() == 4)
   {
      vector<long> v;
      char_encoding_e enc;
      if (!parse_hex_list(w[3], v) || !enc_of(atol(w[1].c_str()), enc)) { return("bad-op"); }
      cpd.enc = enc;
      cpd.bom = (w[2] == "1");
      cpd.fout = nullptr;
      if (cpd.bout == nullptr) { cpd.bout = new deque<UINT8>(); }
      cpd.bout->clear();
      if (cpd.bom) { write_bom(); }
      for (long ch : v) { write_char(static_cast<int>(ch)); }
      return(hex_list(*cpd.bout));
   }

   if (w[0] == "punct.find" && w.size() == 3)
   {
      // punct.find <langflags hex> <hex text>
      vector<long> v;
      if (!parse_hex_list(w[2], v)) { return("bad-op"); }
      string s;
      for (long c : v) { s.push_back(static_cast<char>(c)); }
      size_t lang = strtoul(w[1].c_str(), nullptr, 16);
      const chunk_tag_t *ct = find_punctuator(s.c_str(), lang);
      if (ct == nullptr) { return("none"); }
      return(to_string(strlen(ct->tag)));
   }

   if (w[0] == "chartable" && w.size() == 2)
   {
      int ch = static_cast<int>(strtol(w[1].c_str(), nullptr, 16));
      return(string(CharTable::IsKw1(ch) ? "1" : "0") + (CharTable::IsKw2(ch) ? "1" : "0"));
   }
   return("bad-op");
}

int main()
{
   register_options();
   string line;
   while (getline(cin, line))
   {
      vector<string> w;
      istringstream is(line);
      string t;
      while (is >> t) { w.push_back(t); }
      puts(handle(w).c_str());
   }
   return(0);
}
