// Function-level harness: speaks the same line protocol as the Lean driver
// (lean/UncModel/Driver) but answers by calling the repository's own functions.
// Linked against the object files of the hook build (main renamed by objcopy).
#include "uncrustify_types.h"
#include "unicode.h"
#include "punctuators.h"
#include "language_names.h"
#include "keywords.h"
#include "option.h"
#include "options.h"
#include "chunk.h"
#include "args.h"
#include "char_table.h"
#include "space.h"

#include <cstdio>
#include <cstring>
#include <deque>
#include <iostream>
#include <sstream>
#include <string>
#include <vector>

using namespace std;
using namespace uncrustify;

static bool parse_hex_list(const string &s, vector<long> &out)
{
   out.clear();
   if (s == "-" || s.empty()) { return(true); }
   size_t pos = 0;
   while (pos <= s.size())
   {
      size_t dot = s.find('.', pos);
      if (dot == string::npos) { dot = s.size(); }
      if (dot == pos) { return(false); }
      char *end = nullptr;
      string w = s.substr(pos, dot - pos);
      long v = strtol(w.c_str(), &end, 16);
      if (*end != 0) { return(false); }
      out.push_back(v);
      pos = dot + 1;
   }
   return(true);
}

template<typename C> static string hex_list(const C &c)
{
   if (c.empty()) { return("-"); }
   string s;
   char buf[32];
   bool first = true;
   for (auto v : c)
   {
      snprintf(buf, sizeof(buf), "%s%x", first ? "" : ".", static_cast<unsigned int>(v));
      s += buf;
      first = false;
   }
   return(s);
}

static const char *enc_name(char_encoding_e e)
{
   switch (e)
   {
   case char_encoding_e::e_ASCII: return("ascii");
   case char_encoding_e::e_BYTE: return("byte");
   case char_encoding_e::e_UTF8: return("utf8");
   case char_encoding_e::e_UTF16_LE: return("utf16le");
   case char_encoding_e::e_UTF16_BE: return("utf16be");
   }
   return("?");
}

static bool enc_of(long n, char_encoding_e &e)
{
   switch (n)
   {
   case 0: e = char_encoding_e::e_ASCII; return(true);
   case 1: e = char_encoding_e::e_BYTE; return(true);
   case 2: e = char_encoding_e::e_UTF8; return(true);
   case 3: e = char_encoding_e::e_UTF16_LE; return(true);
   case 4: e = char_encoding_e::e_UTF16_BE; return(true);
   }
   return(false);
}

static string handle(const vector<string> &w)
{
   if (w.empty()) { return("bad-op"); }

   if (w[0] == "unicode.decode" && w.size() == 3)
   {
      vector<long> v;
      if (!parse_hex_list(w[2], v)) { return("bad-op"); }
      vector<UINT8> in(v.begin(), v.end());
      deque<int> out;
      char_encoding_e enc = char_encoding_e::e_ASCII;
      bool bom = false;
      if (!decode_unicode(in, out, enc, bom)) { return("fail"); }
      return(string(enc_name(enc)) + " " + (bom ? "1" : "0") + " " + hex_list(out));
   }

   if (w[0] == "unicode.emit" && w.size() == 4)
   {
      vector<long> v;
      char_encoding_e enc;
      if (!parse_hex_list(w[3], v) || !enc_of(atol(w[1].c_str()), enc)) { return("bad-op"); }
      cpd.enc = enc;
      cpd.bom = (w[2] == "1");
      cpd.fout = nullptr;
      if (cpd.bout == nullptr) { cpd.bout = new deque<UINT8>(); }
      cpd.bout->clear();
      if (cpd.bom) { write_bom(); }
      for (long ch : v) { write_char(static_cast<int>(ch)); }
      return(hex_list(*cpd.bout));
   }

   if (w[0] == "punct.find" && w.size() == 3)
   {
      // punct.find <langflags hex> <hex text>
      vector<long> v;
      if (!parse_hex_list(w[2], v)) { return("bad-op"); }
      string s;
      for (long c : v) { s.push_back(static_cast<char>(c)); }
      size_t lang = strtoul(w[1].c_str(), nullptr, 16);
      const chunk_tag_t *ct = find_punctuator(s.c_str(), lang);
      if (ct == nullptr) { return("none"); }
      return(to_string(strlen(ct->tag)));
   }

   if (w[0] == "punct.find" && w.size() == 4)
   {
      // punct.find <langflags hex> <enable_digraphs 0|1> <hex text>
      vector<long> v;
      if (!parse_hex_list(w[3], v) || (w[2] != "0" && w[2] != "1")) { return("bad-op"); }
      string s;
      for (long c : v) { s.push_back(static_cast<char>(c)); }
      size_t lang = strtoul(w[1].c_str(), nullptr, 16);
      options::enable_digraphs = (w[2] == "1");
      const chunk_tag_t *ct = find_punctuator(s.c_str(), lang);
      options::enable_digraphs = false;
      if (ct == nullptr) { return("none"); }
      return(to_string(strlen(ct->tag)));
   }

   if (w[0] == "punct.sweep" && (w.size() == 5 || w.size() == 6))
   {
      // optional 6th word: prefixes (hex lists joined by ',') whose extensions are skipped (answer 'x')
      vector<string> skip;
      if (w.size() == 6)
      {
         istringstream ss(w[5]);
         string part;
         while (getline(ss, part, ','))
         {
            vector<long> pv;
            if (!parse_hex_list(part, pv)) { return("bad-op"); }
            string ps;
            for (long c : pv) { ps.push_back(static_cast<char>(c)); }
            skip.push_back(ps);
         }
      }
      // punct.sweep <langflags hex> <dig 0|1> <alphabet hex list> <len>: one result char per string of
      // exactly <len> alphabet characters, in odometer order (last position fastest): '0' = nullptr, else strlen(tag)
      vector<long> al;
      if (!parse_hex_list(w[3], al) || al.empty() || (w[2] != "0" && w[2] != "1")) { return("bad-op"); }
      size_t len  = strtoul(w[4].c_str(), nullptr, 10);
      size_t lang = strtoul(w[1].c_str(), nullptr, 16);
      if (len < 1 || len > 6) { return("bad-op"); }
      options::enable_digraphs = (w[2] == "1");
      vector<size_t> idx(len, 0);
      string out;
      string s(len, ' ');
      while (true)
      {
         for (size_t i = 0; i < len; i++) { s[i] = static_cast<char>(al[idx[i]]); }
         bool skipped = false;
         for (const string &ps : skip) { if (s.compare(0, ps.size(), ps) == 0) { skipped = true; } }
         if (skipped)
         {
            out.push_back('x');
         }
         else
         {
            const chunk_tag_t *ct = find_punctuator(s.c_str(), lang);
            out.push_back(ct == nullptr ? '0' : static_cast<char>('0' + strlen(ct->tag)));
         }
         size_t p = len;
         while (p > 0 && ++idx[p - 1] == al.size()) { idx[p - 1] = 0; p--; }
         if (p == 0) { break; }
      }
      options::enable_digraphs = false;
      return(out);
   }

   if (w[0] == "space.force" && w.size() == 8)
   {
      // space.force <langflags hex> <enable_digraphs> <sp_permit_cpp11_shift> <pc text> <pc ANGLE_CLOSE?> <next text> <next ANGLE_CLOSE?>
      // builds the two-chunk list [pc, next], runs the real space_text() and reports PCF_FORCE_SPACE of pc
      vector<long> a, b;
      if (!parse_hex_list(w[4], a) || !parse_hex_list(w[6], b) || a.empty()) { return("bad-op"); }
      cpd.lang_flags = strtoul(w[1].c_str(), nullptr, 16);
      options::enable_digraphs       = (w[2] == "1");
      options::sp_permit_cpp11_shift = (w[3] == "1");
      for (Chunk *h = Chunk::GetHead(); h->IsNotNullChunk(); h = Chunk::GetHead()) { Chunk::Delete(h); }
      auto mk = [](const vector<long> &t, bool angle, size_t col) {
                   Chunk c;
                   string s;
                   for (long ch : t) { c.Str().append(static_cast<int>(ch)); if (ch < 128) { s.push_back(static_cast<char>(ch)); } }
                   E_Token ty = CT_WORD;
                   if (angle) { ty = CT_ANGLE_CLOSE; }
                   else if (!t.empty() && t[0] >= '0' && t[0] <= '9') { ty = CT_NUMBER; }
                   else if (!t.empty() && !CharTable::IsKw1(t[0]))
                   {
                      const chunk_tag_t *ct = find_punctuator(s.c_str(), cpd.lang_flags);
                      ty = (ct != nullptr && strlen(ct->tag) == s.size()) ? ct->type : CT_UNKNOWN;
                      if (ty == CT_ANGLE_CLOSE) { ty = CT_COMPARE; }   // a '>' that is not a template close
                   }
                   c.SetType(ty);
                   c.SetOrigLine(1);
                   c.SetOrigCol(col);
                   c.SetOrigColEnd(col + t.size());
                   c.SetColumn(col);
                   return(c);
                };
      Chunk ca  = mk(a, w[5] == "1", 1);
      Chunk cb  = mk(b, w[7] == "1", 1 + a.size() + 1);
      Chunk *pa = ca.CopyAndAddBefore(Chunk::NullChunkPtr);
      if (b.empty() && w[7] != "1") { cb.SetType(CT_VBRACE_OPEN); }
      Chunk *pb = cb.CopyAndAddBefore(Chunk::NullChunkPtr);
      (void)pb;
      if (b.empty())
      {
         // an empty `next` (virtual brace) followed by a word on the same line: the `tmp` of the safety check
         Chunk cx = mk(vector<long>{ 'x' }, false, 1 + a.size() + 1);
         cx.CopyAndAddBefore(Chunk::NullChunkPtr);
      }
      space_text();
      string r = pa->TestFlags(PCF_FORCE_SPACE) ? "1" : "0";
      for (Chunk *h = Chunk::GetHead(); h->IsNotNullChunk(); h = Chunk::GetHead()) { Chunk::Delete(h); }
      options::enable_digraphs       = false;
      options::sp_permit_cpp11_shift = false;
      return(r);
   }

   if (w[0] == "chartable" && w.size() == 2)
   {
      int ch = static_cast<int>(strtol(w[1].c_str(), nullptr, 16));
      return(string(CharTable::IsKw1(ch) ? "1" : "0") + (CharTable::IsKw2(ch) ? "1" : "0"));
   }
   return("bad-op");
}

int main()
{
   register_options();
   string line;
   while (getline(cin, line))
   {
      vector<string> w;
      istringstream is(line);
      string t;
      while (is >> t) { w.push_back(t); }
      puts(handle(w).c_str());
   }
   return(0);
}
