import UncModel.Basic
import UncModel.Unicode
import UncModel.AddChar
import UncModel.Render
import UncModel.Lemmas.UnicodeLemmas
import UncModel.Props.C09
