import UncModel.Basic
import UncModel.Unicode
