import UncModel.Lex
import UncModel.FuseGuard
namespace Unc

/-- fast parser for `a.b.c` hex lists (no intermediate `splitOn`); `-`/empty = [] -/
def parseHexListFast (s : String) : Option (List Nat) :=
  if s = "-" ∨ s = "" then some [] else
  let step := fun (st : Option (Array Nat × Nat × Bool)) (c : Char) =>
    match st with
    | none => none
    | some (acc, cur, have_) =>
      if c = '.' then (if have_ then some (acc.push cur, 0, false) else none)
      else match hexVal c with
        | some v => some (acc, cur * 16 + v, true)
        | none => none
  match s.foldl step (some (#[], 0, false)) with
  | some (acc, cur, true) => some (acc.push cur).toList
  | _ => none

/-- all strings of exactly `len` alphabet characters in odometer order, mapped through `f`, as result digits -/
def sweep (al : List Nat) (f : List Nat → Char) : Nat → List Nat → Array Char → Array Char
  | 0, pre, acc => acc.push (f pre.reverse)
  | n+1, pre, acc => al.foldl (fun a c => sweep al f n (c :: pre) a) acc

def kindName : Kind → String
  | .ident => "id" | .number => "num" | .str => "str" | .chr => "chr" | .punct => "punct" | .other => "other"
  | .eod => "eod" | .hdr => "hdr" | .cmtLine => "cmtl" | .cmtBlock => "cmtb" | .bsnl => "bsnl"

def showTok (t : Tok) : String := kindName t.kind ++ ":" ++ hexList t.text

def showToks (ts : List Tok) : String :=
  if ts.isEmpty then "-" else " ".intercalate (ts.map showTok)

/-- index of the first position where the two lists differ -/
def firstDiff : Nat → List Tok → List Tok → Option (Nat × Option Tok × Option Tok)
  | _, [], [] => none
  | i, a :: as, b :: bs => if a == b then firstDiff (i + 1) as bs else some (i, some a, some b)
  | i, a :: _, [] => some (i, some a, none)
  | i, [], b :: _ => some (i, none, some b)

def showOTok : Option Tok → String
  | some t => showTok t
  | none => "end"

def lexCmp (f : List CP → Option (List Tok)) (a b : String) : String :=
  match parseHexListFast a, parseHexListFast b with
  | some x, some y =>
    match f x, f y with
    | none, _ => "fail 1"
    | _, none => "fail 2"
    | some p, some q =>
      match firstDiff 0 p q with
      | none => s!"same {p.length}"
      | some (i, u, v) => s!"diff {i} {showOTok u} {showOTok v}"
  | _, _ => "bad-op"

def handleLex (ws : List String) (_blk : Array String) : Option String :=
  match ws with
  | ["punct.find", lang, dig, hex] =>
    match parseHex lang, parseHexListFast hex with
    | some l, some s =>
      if dig ≠ "0" ∧ dig ≠ "1" then some "bad-op" else
      match findPunct l (dig = "1") s with
      | some n => some (toString n)
      | none => some "none"
    | _, _ => some "bad-op"
  | ["punct.find", lang, hex] =>
    match parseHex lang, parseHexListFast hex with
    | some l, some s =>
      match findPunct l false s with
      | some n => some (toString n)
      | none => some "none"
    | _, _ => some "bad-op"
  | "punct.sweep" :: lang :: dig :: alpha :: len :: rest =>
    let skip : Option (List (List Nat)) := match rest with
      | [] => some []
      | [sk] => (sk.splitOn ",").mapM parseHexListFast
      | _ => none
    match parseHex lang, parseHexListFast alpha, len.toNat?, skip with
    | some l, some al, some n, some sk =>
      if (dig ≠ "0" ∧ dig ≠ "1") ∨ al.isEmpty ∨ n < 1 ∨ n > 6 then some "bad-op" else
      let f := fun s =>
        if sk.any (fun p => p.isPrefixOf s) then 'x' else
        match findPunct l (dig = "1") s with
        | some k => Char.ofNat (48 + k)
        | none => '0'
      some (String.ofList (sweep al f n [] #[]).toList)
    | _, _, _, _ => some "bad-op"
  | ["lex.all", lang, hex] =>
    match parseHex lang, parseHexListFast hex with
    | some l, some t => some (match lexAll l t with | some ts => showToks ts | none => "fail")
    | _, _ => some "bad-op"
  | ["lex.allc", lang, hex] =>
    match parseHex lang, parseHexListFast hex with
    | some l, some t => some (match lexAllWithComments l t with | some ts => showToks ts | none => "fail")
    | _, _ => some "bad-op"
  | ["lex.count", lang, hex] =>
    match parseHex lang, parseHexListFast hex with
    | some l, some t => some (match lexAll l t with | some ts => toString ts.length | none => "fail")
    | _, _ => some "bad-op"
  | ["lex.cmp", lang] =>
    match parseHex lang, _blk.toList with
    | some l, [a, b] => some (lexCmp (fun t => (lexAll l t).map splitShift) a b)
    | _, _ => some "bad-op"
  | ["lex.cmpc", lang] =>
    match parseHex lang, _blk.toList with
    | some l, [a, b] => some (lexCmp (fun t => (lexAllWithComments l t).map splitShift) a b)
    | _, _ => some "bad-op"
  | ["space.force", lang, dig, permit, a, aac, b, bac] =>
    -- space.force <langflags hex> <enable_digraphs 0|1> <sp_permit_cpp11_shift 0|1> <pc text> <pc is ANGLE_CLOSE 0|1> <next text> <next is ANGLE_CLOSE 0|1>
    match parseHex lang, parseHexListFast a, parseHexListFast b with
    | some l, some x, some y =>
      if [dig, permit, aac, bac].all (fun w => w = "0" ∨ w = "1") then
        -- the harness types `pc` as CT_NUMBER when it is not an angle close and its text starts with a digit
        let aNum := aac != "1" && (match x.head? with | some c => decide (48 ≤ c ∧ c ≤ 57) | none => false)
        some (if forceSpace2 l (dig = "1") (permit = "1") x (aac = "1") y (bac = "1") aNum then "1" else "0")
      else some "bad-op"
    | _, _, _ => some "bad-op"
  | ["lex.munch", lang, hex] =>
    match parseHex lang, parseHexListFast hex with
    | some l, some t => some (match munchTok l t with | some (n, k) => s!"{n} {kindName k}" | none => "none")
    | _, _ => some "bad-op"
  | ["chartable", hex] =>
    match parseHex hex with
    | some c => some ((if isKw1 c then "1" else "0") ++ (if isKw2 c then "1" else "0"))
    | none => some "bad-op"
  | _ => none

end Unc
