import UncModel.SpaceExc
import Driver.Parse
/-! driver requests for C19 (L5 SpaceApply + the generated rule table)

* `space.table`                      → `ok n=… regular=… orAdd=… constant=… numeric=… exception=… shadowed=…`
                                       or `bad <idx>:<line>:<logged with ~>:<name|min|ret> …` naming the failing sites
* `space.opts`                       → the option names of `spOpts`, in id order (blank separated)
* `space.sites`                      → per site `idx:line:class:shadowed:logged~with~tildes`
* `space.allowed rule=<name, blanks as ~> v=<one digit 0..3 per option of spOpts, in id order>`
                                     → `ret=<digits> allowed=<digits> min=<option name|-> sites=<idx,…>`:
                                       over the non-shadowed sites logging that name whose option guards can hold under v,
                                       the values the table says are returned, the values the name permits, the min_sp source
* `space.apply av=<0..3, do_space value> forced= min= col= len= nl= oe= noc= vb= poc= cmt= allow= rel= nps=`
                                     → `c0=<column after pc> c1=<column of next>`
-/
namespace Unc

def tilde (s : String) : String := s.map (fun c => if c = ' ' then '~' else c)

def classStr : SiteClass → String
  | .regular => "regular" | .orAdd => "orAdd" | .constant => "constant" | .numeric => "numeric"
  | .exception => "exception" | .unknown => "unknown"

def digits (l : List IARF) : String :=
  String.ofList ((IARF.all.filter (fun v => l.contains v)).map (fun v => Char.ofNat (48 + v.code)))

def valOfDigits (s : String) : SpVal :=
  let a := s.toList.toArray
  fun i => match a[i]? with
    | some c => (IARF.ofCode (c.toNat - 48)).getD .ignore
    | none => .ignore

/-- does the recorded rule name (blanks as ~) come from this site? dynamic names match by the text before the first % -/
def siteMatches (s : SpSite) (rule : String) : Bool :=
  if s.dyn then
    let pre := tilde ((s.logged.splitOn "%").headD "")
    rule.startsWith pre && pre.length > 0
  else tilde s.logged == rule

def minName : Option MinE → String
  | none => "-"
  | some (.optNum j) => optName j
  | some (.optNumMinus j k) => s!"{optName j}-{k}"
  | some (.lit n) => s!"lit{n}"
  | some (.other _) => "other"

def handleSpace : List String → Option String
  | ["space.table"] =>
    match badSites with
    | [] =>
      let cnt (c : SiteClass) := (spaceRules.filter (fun s => classOf s == c)).length
      some s!"ok n={spaceRules.length} regular={cnt .regular} orAdd={cnt .orAdd} constant={cnt .constant} numeric={cnt .numeric} exception={cnt .exception} unknown={cnt .unknown} shadowed={(spaceRules.filter (·.shadowed)).length} options={spOpts.length} exceptionsUsed={exceptionsUsed}"
    | l => some ("bad " ++ " ".intercalate (l.map fun s =>
        s!"{s.idx}:{s.line}:{tilde s.logged}:{if !lnameOk s then "name" else if !minOk s then "min" else "ret"}"))
  | ["space.opts"] => some (" ".intercalate (spOpts.map (·.1)))
  | ["space.qt"] => some (" ".intercalate (spQtOverride.map fun p => s!"{optName p.1}={p.2.code}"))
  | ["space.sites"] =>
    some (" ".intercalate (spaceRules.map fun s =>
      s!"{s.idx}:{s.line}:{classStr (classOf s)}:{if s.shadowed then 1 else 0}:{tilde s.logged}"))
  | "space.allowed" :: args =>
    let fs := fieldsOf (" ".intercalate args)
    let rule := getF fs "rule"
    let σ := valOfDigits (getF fs "v")
    let sites := spaceRules.filter fun s => !s.shadowed && siteMatches s rule && condMayT σ s.guards
    if rule = "" then some "bad-op" else
    let ret := sites.flatMap fun s => evalSet σ s.ret
    let alw := sites.flatMap fun s => Allowed s σ
    let mins := (sites.map fun s => minName s.min).eraseDups
    some s!"ret={digits ret} allowed={digits alw} min={",".intercalate mins} sites={",".intercalate (sites.map fun s => toString s.idx)}"
  | "space.apply" :: args =>
    let fs := fieldsOf (" ".intercalate args)
    match IARF.ofCode (getN fs "av") with
    | none => some "bad-op"
    | some av =>
      let g : SpGeom := { column := getN fs "col", len := getN fs "len", nlCount := getN fs "nl", origColEnd := getN fs "oe",
                          nextOrigCol := getN fs "noc", isVbraceOpen := getF fs "vb" = "1", prevOrigCol := getN fs "poc" }
      let t : TrCmt := { applies := getF fs "cmt" = "1", optsAllow := getF fs "allow" = "1", relative := getF fs "rel" = "1",
                         nextOrigPrevSp := getN fs "nps" }
      some s!"c0={g.colAfter} c1={spaceApply av (getF fs "forced" = "1") (getN fs "min") g t}"
  | _ => none

end Unc
