import UncModel.RemoveReturns
/-! driver request for the model of remove_extra_returns():
    `rmret.run <tok> ...` with tok = `<t><p><pp><level>`: t in r (return) s (semicolon) c (brace close) n (comment/newline) o (other);
    p in f (FUNC_DEF) k (FUNC_CLASS_DEF) o; pp in 0 1; level a decimal number  →  the positions of the chunks that stay, blank-separated -/
namespace Unc
open RmRet

def rmretTok (i : Nat) (w : String) : Option Ck :=
  match w.toList with
  | t :: p :: q :: lv =>
    let ty := match t with | 'r' => some T.ret | 's' => some T.semi | 'c' => some T.braceClose | 'n' => some T.cmtNl | 'o' => some T.other | _ => none
    let pa := match p with | 'f' => some P.funcDef | 'k' => some P.funcClassDef | 'o' => some P.other | _ => none
    match ty, pa, (String.ofList lv).toNat? with
    | some ty, some pa, some l => some { t := ty, level := l, parent := pa, pp := q == '1', id := i }
    | _, _, _ => none
  | _ => none

def rmretParse : Nat → List String → Option (List Ck)
  | _, [] => some []
  | i, w :: ws => match rmretTok i w, rmretParse (i + 1) ws with
    | some c, some r => some (c :: r)
    | _, _ => none

def handleRmRet : List String → Option String
  | "rmret.run" :: toks =>
    match rmretParse 0 toks with
    | some l => some (" ".intercalate ((removeExtraReturns l).map fun c => toString c.id))
    | none => some "bad-op"
  | _ => none

end Unc
