import UncModel.FsProto
import UncModel.Backup
/-!
Line protocol for `FsProto` / `Backup`.  Digest function of the driver: `hD c = 0x100 :: c` — the md5
file is rendered as the marker 0x100 (not a byte) followed by the content it describes, so that an
empty (just truncated) md5 file differs from the md5 file of the empty content; the python side
canonicalises the real md5 file the same way.

* `fs.run <mode> <md5AfterRename> <checkIO> <fmt> <target> <tmp> <bak> <md5> <schedule>`
    mode = replace | nobackup | oeqf;  fmt = ok:<hex> | fail:<status>:<hex>;
    contents = `~` (absent) or a hex list (`-` = empty);  schedule = `-` or `o,e<k>,k<k>,…`
  answer: `<event>,<event>,… | <status|killed> <faults> <hard> | <target> <tmp> <bak> <md5>`
* `fs.trace <mode> <fmt> <target> <tmp> <bak> <md5>` = `fs.run` of the fixed code without faults
* `backup.history <md5AfterRename> <F-table> <file> <ops>`
    F-table = `-` or `cfg:<in>><out>;…` (identity where not listed);
    ops = `w:<hex>` | `r:<cfg>` | `k:<cfg>:<schedule with / for ,>`, comma separated
  answer: `<target> <tmp> <bak> <md5>;…` after every step
-/
namespace Unc

/-- the driver's digest: injective, never empty -/
def hD (c : FBytes) : FBytes := 256 :: c

def pName : P → String
  | .target => "target" | .tmp => "tmp" | .bak => "bak" | .md5 => "md5"

def outcomeSuffix : Outcome → String
  | .ok => ""
  | .err k => s!"!e{k}"
  | .kill k => s!"!k{k}"

def evName : Ev → String
  | .load p => s!"R:{pName p}"
  | .cmp => "cmp"
  | .mkdirs => "mkdir"
  | .sys (.creat p) => s!"creat:{pName p}"
  | .sys (.write p bs) => s!"write:{pName p}:{hexList bs}"
  | .sys (.rename a b) => s!"rename:{pName a}:{pName b}"
  | .sys (.unlink p) => s!"unlink:{pName p}"

def parseMode : String → Option FsMode
  | "replace" => some .replace | "nobackup" => some .noBackup | "oeqf" => some .oEqualsF | _ => none

def parseContent (s : String) : Option (Option FBytes) :=
  if s = "~" then some none else (parseHexList s).map some

def showContent : Option FBytes → String
  | none => "~"
  | some bs => hexList bs

def showFS (f : FS) : String :=
  s!"{showContent f.target} {showContent f.tmp} {showContent f.bak} {showContent f.md5}"

def parseFmt (s : String) : Option FmtRes :=
  match s.splitOn ":" with
  | ["ok", hx] => (parseHexList hx).map .ok
  | ["fail", st, hx] => do
    let n ← st.toNat?
    let bs ← parseHexList hx
    pure (.fail n bs)
  | _ => none

def parseOutcome (s : String) : Option Outcome :=
  if s = "o" then some .ok
  else if s.startsWith "e" then (s.drop 1).toNat?.map .err
  else if s.startsWith "k" then (s.drop 1).toNat?.map .kill
  else none

def parseSchedule (sep : String) (s : String) : Option (List Outcome) :=
  if s = "-" then some [] else (s.splitOn sep).mapM parseOutcome

def parseB (s : String) : Option Bool :=
  if s = "1" then some true else if s = "0" then some false else none

def showResult (r : Result) : String :=
  let evs := ",".intercalate (r.trace.map fun (e, o) => evName e ++ outcomeSuffix o)
  let st := match r.obs.status with | some s => toString s | none => "killed"
  s!"{if evs.isEmpty then "-" else evs} | {st} {r.obs.faults} {if r.obs.hard then 1 else 0} | {showFS r.obs.fs}"

def fsRun (mode md5ar ck fmt t tmp bak md5 sch : String) : Option String := do
  let m ← parseMode mode
  let a ← parseB md5ar
  let c ← parseB ck
  let r ← parseFmt fmt
  let f : FS := ⟨← parseContent t, ← parseContent tmp, ← parseContent bak, ← parseContent md5⟩
  let s ← parseSchedule "," sch
  pure (showResult (exec (doSourceFile ⟨a, c⟩ m (fun _ => r) hD) f s))

/-- `cfg:<in>><out>` entries; identity where nothing is listed -/
def parseFTable (s : String) : Option (List (Nat × FBytes × FBytes)) :=
  if s = "-" then some [] else
  (s.splitOn ";").mapM fun e =>
    match e.splitOn ":" with
    | [cfg, io] =>
      match io.splitOn ">" with
      | [i, o] => do
        let c ← cfg.toNat?
        let ib ← parseHexList i
        let ob ← parseHexList o
        pure (c, ib, ob)
      | _ => none
    | _ => none

def tableF (tab : List (Nat × FBytes × FBytes)) (cfg : Nat) (c : FBytes) : FBytes :=
  match tab.find? (fun e => e.1 = cfg ∧ e.2.1 = c) with
  | some e => e.2.2
  | none => c

inductive HOp
  | w (c : FBytes) | r (cfg : Nat) | k (cfg : Nat) (sch : List Outcome)

def parseHOp (s : String) : Option HOp :=
  match s.splitOn ":" with
  | ["w", hx] => (parseHexList hx).map .w
  | ["r", cfg] => cfg.toNat?.map .r
  | ["k", cfg, sch] => do
    let c ← cfg.toNat?
    let sc ← parseSchedule "/" sch
    pure (.k c sc)
  | _ => none

def histStep (fx : Fix) (F : Nat → FBytes → FBytes) (s : FS) : HOp → FS
  | .w c => applyOp fx F hD s (.userWrite c)
  | .r cfg => applyOp fx F hD s (.run cfg)
  | .k cfg sch => (exec (runProg fx F hD cfg) s sch).fs

def backupHistory (md5ar tab file ops : String) : Option String := do
  let a ← parseB md5ar
  let t ← parseFTable tab
  let c ← parseHexList file
  let os ← (ops.splitOn ",").mapM parseHOp
  let F := tableF t
  let (_, outs) := os.foldl (fun (acc : FS × List String) op =>
    let s' := histStep ⟨a, true⟩ F acc.1 op
    (s', showFS s' :: acc.2)) (FS.fresh c, [])
  pure (";".intercalate outs.reverse)

def handleFs : List String → Option String
  | ["fs.run", mode, a, c, fmt, t, tmp, bak, md5, sch] =>
    some ((fsRun mode a c fmt t tmp bak md5 sch).getD "bad-op")
  | ["fs.trace", mode, fmt, t, tmp, bak, md5] =>
    some ((fsRun mode "1" "1" fmt t tmp bak md5 "-").getD "bad-op")
  | ["backup.history", a, tab, file, ops] =>
    some ((backupHistory a tab file ops).getD "bad-op")
  | "fs.run" :: _ => some "bad-op"
  | "fs.trace" :: _ => some "bad-op"
  | "backup.history" :: _ => some "bad-op"
  | _ => none

end Unc
