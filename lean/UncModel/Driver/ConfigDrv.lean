import UncModel.Config
namespace Unc
open Gen

/-- contiguous two-digit hex; `-` is the empty string -/
def bytesOfHex (s : String) : Option Bytes :=
  if s = "-" then some [] else
  let rec go : List Char → Option Bytes
    | [] => some []
    | [_] => none
    | a :: b :: r => match hexVal a, hexVal b, go r with
      | some x, some y, some l => some ((x * 16 + y) :: l)
      | _, _, _ => none
  go s.toList

def hexOfBytes (bs : Bytes) : String :=
  if bs.isEmpty then "-" else
  String.ofList (bs.foldr (fun b acc => hexDigit (b / 16 % 16) :: hexDigit (b % 16) :: acc) [])

def diagKindName : DiagKind → String
  | .unterminated => "unterminated" | .unexpectedText => "unexpected-text" | .tooFewArgs => "too-few-args"
  | .unknownOption => "unknown-option" | .setUnknownType => "set-unknown-type"
  | .fileExtUnknownLang => "file-ext-unknown-lang" | .includeEmpty => "include-empty"
  | .includeTooDeep => "include-too-deep" | .cannotOpen => "cannot-open" | .usingBadVersion => "using-bad-version"
  | .deprecated => "deprecated" | .notPrintable => "not-printable" | .unexpectedValue => "unexpected-value"
  | .incompatibleRef => "incompatible-ref" | .lessThanMin => "less-than-min" | .greaterThanMax => "greater-than-max"
  | .setTooLong => "set-too-long" | .setParse => "set-parse" | .setUnknown => "set-unknown"

def diagStr (d : Diag) : String :=
  s!"{diagKindName d.kind}:{hexOfBytes d.file}:{d.line}:{hexOfBytes d.name}:{hexOfBytes d.arg}"

def takePairs : Nat → List String → Option (List (Bytes × Bytes) × List String)
  | 0, r => some ([], r)
  | n + 1, a :: b :: r => match bytesOfHex a, bytesOfHex b, takePairs n r with
    | some x, some y, some (l, r') => some ((x, y) :: l, r')
    | _, _, _ => none
  | _, _ => none

def takeN : Nat → List String → Option (List Bytes × List String)
  | 0, r => some ([], r)
  | n + 1, a :: r => match bytesOfHex a, takeN n r with
    | some x, some (l, r') => some (x :: l, r')
    | _, _ => none
  | _, _ => none

/-- `<cfg> <nfiles> (<name> <content>)* <nsets> <arg>*` -/
def parseRun (ws : List String) : Option (Bytes × List (Bytes × Bytes) × List Bytes) :=
  match ws with
  | cfg :: nf :: r =>
    match bytesOfHex cfg, nf.toNat? with
    | some c, some n =>
      match takePairs n r with
      | some (files, ns :: r') =>
        match ns.toNat? with
        | some k => match takeN k r' with
          | some (sets, []) => some (c, files, sets)
          | _ => none
        | none => none
      | _ => none
    | _, _ => none
  | _ => none

def answerRun (st : St) (minimal : Bool) : String :=
  let ex := match st.exit with | some n => toString n | none => "-"
  let ds := if st.diags.isEmpty then "-" else ";".intercalate (st.diags.reverse.map diagStr)
  let tb := if st.tooBig.isEmpty then "-" else ",".intercalate (st.tooBig.map hexOfBytes)
  let sv := if st.exit.isSome then "-" else hexOfBytes (saveText st minimal)
  s!"exit={ex} diags={ds} toobig={tb} save={sv}"

def handleConfig : List String → Option String
  | "config.run" :: ws =>
    match parseRun ws with
    | some (cfg, files, sets) => some (answerRun (runConfig (fun p => files.lookup p) cfg sets) true)
    | none => some "bad-op"
  | "config.dump" :: ws =>
    match parseRun ws with
    | some (cfg, files, sets) => some (answerRun (runConfig (fun p => files.lookup p) cfg sets) false)
    | none => some "bad-op"
  | ["config.split", sep, hex] =>
    match bytesOfHex hex with
    | some l =>
      match splitArgs (if sep = "v" then isVargSep else isArgSep) l with
      | .ok as => some ("ok " ++ " ".intercalate (as.map hexOfBytes))
      | .error .unterminated => some "unterminated"
      | .error .unexpectedText => some "unexpected-text"
    | none => some "bad-op"
  | ["config.count"] => some (toString optionTable.length)
  | _ => none

end Unc
