import Driver.UnicodeDrv
import Driver.RenderDrv
import Driver.FsDrv
import Driver.LexDrv
import Driver.SpaceDrv
import Driver.ConfigDrv
import Driver.CliDrv
import Driver.BlankDrv
import Driver.BracketDrv
import Driver.MiniCDrv
import Driver.StripDrv
import Driver.ParenDrv
import Driver.IntTyDrv
import Driver.RmRetDrv
import Driver.EnumCDrv
import Driver.PpBodyDrv
import Driver.DupIncDrv
open Unc

/-- try every handler in turn; a request nobody understands is `bad-op`.
    `blk` = the payload lines (those sent with a leading `+`) preceding the request. -/
def dispatch (ws : List String) (blk : Array String) : String :=
  let hs : List (List String → Array String → Option String) :=
    [fun w _ => handleUnicode w, handleRender, fun w _ => handleFs w, handleLex, fun w _ => handleSpace w, fun w _ => handleConfig w, fun w _ => handleCli w, fun w _ => handleBlank w, fun w _ => handleBracket w, fun w _ => handleMiniC w, fun w _ => handleStrip w, fun w _ => handleParen w, fun w _ => handleIntTy w, fun w _ => handleRmRet w, fun w _ => handleEnumC w, fun w _ => handlePpBody w, fun w _ => handleDupInc w]
  match hs.findSome? (fun h => h ws blk) with
  | some r => r
  | none => "bad-op"

partial def loop (h : IO.FS.Stream) (out : IO.FS.Stream) (blk : Array String) : IO Unit := do
  let line ← h.getLine
  if line.isEmpty then return ()
  if line.startsWith "+" then
    loop h out (blk.push (line.drop 1).trimAscii.toString)
  else
    let ws := (line.trimAscii.toString.splitOn " ").filter (· ≠ "")
    out.putStrLn (dispatch ws blk)
    loop h out #[]

def main : IO Unit := do
  let out ← IO.getStdout
  loop (← IO.getStdin) out #[]
  out.flush
