import Driver.UnicodeDrv
open Unc

/-- try every handler in turn; a request nobody understands is `bad-op` -/
def dispatch (ws : List String) : String :=
  let hs : List (List String → Option String) := [handleUnicode]
  match hs.findSome? (fun h => h ws) with
  | some r => r
  | none => "bad-op"

partial def loop (h : IO.FS.Stream) (out : IO.FS.Stream) : IO Unit := do
  let line ← h.getLine
  if line.isEmpty then return ()
  let ws := (line.trimAscii.toString.splitOn " ").filter (· ≠ "")
  out.putStrLn (dispatch ws)
  loop h out

def main : IO Unit := do
  let out ← IO.getStdout
  loop (← IO.getStdin) out
  out.flush
