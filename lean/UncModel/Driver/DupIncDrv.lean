import UncModel.DupInclude
/-! driver request for the model of remove_duplicate_include():
    `dupinc.run <ev> ...` with ev = `I` (#if) `L` (#else/#elif) `N` (#endif) `i<n>` (#include of header n)
    → one character per #include in order: `1` kept, `0` deleted (`-` when there is no #include) -/
namespace Unc
open DupInc

def dupincEv (w : String) : Option Ev :=
  match w.toList with
  | ['I'] => some .ifE
  | ['L'] => some .elseE
  | ['N'] => some .endifE
  | 'i' :: ds => (String.ofList ds).toNat?.map Ev.inc
  | _ => none

def handleDupInc : List String → Option String
  | "dupinc.run" :: evs =>
    match evs.mapM dupincEv with
    | some l =>
      let r := (trace {} l).map (fun e => if e.kept then '1' else '0')
      some (if r.isEmpty then "-" else String.ofList r)
    | none => some "bad-op"
  | _ => none

end Unc
