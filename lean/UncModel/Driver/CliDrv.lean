import UncModel.Cli
import UncModel.CheckMode
/-!
Line protocol of the CLI layer.  Strings travel as dotted hex byte lists (`2d.66`, `-` = empty).

  cli.plan  <key=value>* -- <argv word>*      → `exit n` | `run …|job …|job …`
  cli.run   <key=value>* -- <argv word>*      → `status n|effect|effect…`; extra keys raw=<name:hex,…>
                                                 fmt=<name:lang:hex,…> stdinraw=<hex> give the world and the formatter
  cli.opts  <argv word>*                       → the `Opts` record (what every lookup of main() returned)
  cli.lang  <ext:lang,…> <name>                → language_flags_from_filename
  cli.langname <name>                          → language_flags_from_name
  cli.list  <hex text>                         → names process_source_list hands on
  check.cmp <raw hex> <out hex>                → same | size a b | byte i
  check.run <quiet 0/1> <name:raw:out>*        → status, fail count, report lines (check mode over files)
  check.ifchanged <raw hex> <out hex>          → `skip` | `write <hex>`

Environment keys of `cli.plan` (all optional):
  envcfg=<str|none> home=<str|none> cfgbad=<name:status,…> ext=<ext:lang,…> opts=<str,…> badval=<str,…>
  hdr=0|1 files=<str,…> nowrite=<str,…> stdin=0|1 tbad=<name:status,…> list=<name:text,…>
-/
namespace Unc
open Cli

def strOfBytes (l : List Nat) : Str := l.map Char.ofNat
def bytesOfStr (s : Str) : List Nat := s.map Char.toNat

def parseStr (w : String) : Option Str := (parseHexList w).map strOfBytes
def showStr (s : Str) : String := hexList (bytesOfStr s)

def showOptStr : Option Str → String
  | none => "none"
  | some s => showStr s

def parseOptStr (w : String) : Option (Option Str) :=
  if w = "none" then some none else (parseStr w).map some

def parseStrList (w : String) : Option (List Str) :=
  if w = "" then some [] else
  (w.splitOn ",").foldr (fun x acc => match parseStr x, acc with
    | some v, some l => some (v :: l)
    | _, _ => none) (some [])

def parsePairList (w : String) : Option (List (Str × Str)) :=
  if w = "" || w = "-" then some [] else
  (w.splitOn ",").foldr (fun x acc => match x.splitOn ":", acc with
    | [a, b], some l => (match parseStr a, parseStr b with
      | some a, some b => some ((a, b) :: l)
      | _, _ => none)
    | _, _ => none) (some [])

def b01 (b : Bool) : String := if b then "1" else "0"

structure EnvSpec where
  envCfg : Option Str := none
  homeCfg : Option Str := none
  cfgBad : List (Str × Nat) := []
  ext : List (Str × Str) := []
  opts : List Str := []
  badVal : List Str := []
  hdr : Bool := true
  files : List Str := []
  noWrite : List Str := []
  stdinOk : Bool := true
  tbad : List (Str × Nat) := []
  lists : List (Str × Str) := []

def EnvSpec.toEnv (e : EnvSpec) : Env :=
  { envCfg := e.envCfg, homeCfg := e.homeCfg
    cfgLoad := fun n => (e.cfgBad.find? (fun p => p.1 == n)).map (·.2)
    extMap := e.ext
    optKnown := fun n => e.opts.contains n
    optReads := fun _ v => !e.badVal.contains v
    typeFile := fun n => (e.tbad.find? (fun p => p.1 == n)).map (·.2)
    headersOk := e.hdr
    loadable := fun n => e.files.contains n
    writable := fun n => !e.noWrite.contains n
    stdinOk := e.stdinOk
    listText := fun n => (e.lists.find? (fun p => p.1 == n)).map (·.2) }

def EnvSpec.set (e : EnvSpec) (k v : String) : Option EnvSpec :=
  match k with
  | "envcfg" => (parseOptStr v).map (fun x => { e with envCfg := x })
  | "home" => (parseOptStr v).map (fun x => { e with homeCfg := x })
  | "cfgbad" => (parsePairList v).bind (fun x =>
      x.foldr (fun p acc => match (String.ofList p.2).toNat?, acc with
        | some n, some l => some ((p.1, n) :: l)
        | _, _ => none) (some [])) |>.map (fun x => { e with cfgBad := x })
  | "ext" => (parsePairList v).map (fun x => { e with ext := x })
  | "opts" => (parseStrList v).map (fun x => { e with opts := x })
  | "badval" => (parseStrList v).map (fun x => { e with badVal := x })
  | "hdr" => some { e with hdr := v = "1" }
  | "files" => (parseStrList v).map (fun x => { e with files := x })
  | "nowrite" => (parseStrList v).map (fun x => { e with noWrite := x })
  | "stdin" => some { e with stdinOk := v = "1" }
  | "tbad" => (parsePairList v).bind (fun x =>
      x.foldr (fun p acc => match (String.ofList p.2).toNat?, acc with
        | some n, some l => some ((p.1, n) :: l)
        | _, _ => none) (some [])) |>.map (fun x => { e with tbad := x })
  | "list" => (parsePairList v).map (fun x => { e with lists := x })
  | _ => none

def parseEnv : List String → EnvSpec → Option EnvSpec
  | [], e => some e
  | w :: ws, e =>
    match w.splitOn "=" with
    | [k, v] => (e.set k v).bind (parseEnv ws)
    | _ => none

def parseArgv (ws : List String) : Option (List Str) :=
  ws.foldr (fun x acc => match parseStr x, acc with
    | some v, some l => some (v :: l)
    | _, _ => none) (some [])

def showSink : Sink → String
  | .none => "none"
  | .stdout => "stdout"
  | .path p => "path:" ++ showStr p
  | .inplace p b => "inplace:" ++ showStr p ++ ":" ++ b01 b

def showSource : Source → String
  | .stdin => "stdin"
  | .file n => "file:" ++ showStr n

def showJob (j : Job) : String :=
  s!"job src={showSource j.src} name={showStr j.name} lang={j.lang} sink={showSink j.sink} track={showOptStr j.track} parsed={showOptStr j.parsed} dump={showOptStr j.dump} mtime={b01 j.keepMtime}"

def showOptNat : Option Nat → String
  | none => "none"
  | some n => toString n

def showOutcome : Outcome → String
  | .exit n => s!"exit {n}"
  | .exitWriting p => s!"exit 0 writing={showStr p}"
  | .run g jobs stop =>
    "|".intercalate
      (s!"run check={b01 g.doCheck} ifchanged={b01 g.ifChanged} frag={b01 g.frag} quiet={b01 g.quiet} forced={b01 g.langForced} log={showOptStr g.log} sev={b01 g.showSev} stop={showOptNat stop}"
        :: jobs.map showJob)

def showStrs (l : List Str) : String := if l.isEmpty then "" else ",".intercalate (l.map showStr)

def showOpts (o : Opts) : String :=
  s!"version={b01 o.version} help={b01 o.help} count={b01 o.countOptions} showcfg={b01 o.showConfig} check={b01 o.check} ifchanged={b01 o.ifChanged} quiet={b01 o.quiet} finddep={b01 o.findDeprecated} log={showOptStr o.log} frag={b01 o.frag} decode={b01 o.decode} cfg={showOptStr o.cfg} parsed={showOptStr o.parsed} dump={showOptStr o.dump} sev={b01 o.showSev} tfiles={showStrs o.tfiles} types={showStrs o.types} lang={showOptStr o.lang} file={showOptStr o.sourceFile} list={showOptStr o.sourceList} prefix={showOptStr o.pfx} suffix={showOptStr o.sfx} assume={showOptStr o.assume} nobackup={b01 o.noBackup} replace={b01 o.replace} mtime={b01 o.keepMtime} upd={b01 o.updateConfig} updwd={b01 o.updateConfigWd} detect={b01 o.detect} csv={b01 o.csv} output={showOptStr o.output} tracking={showOptStr o.tracking} sets={showStrs o.sets} uig={b01 o.universalindent} unused={showStrs o.unused}"

def showCmp : Cmp → String
  | .same => "same"
  | .sizeChanged a b => s!"size {a} {b}"
  | .diffAt i => s!"byte {i}"

def showLine : Line → String
  | .pass n s => s!"PASS:{showStr n}:{s}"
  | .failSize n a b => s!"FAILSIZE:{showStr n}:{a}:{b}"
  | .failByte n i => s!"FAILBYTE:{showStr n}:{i}"

/-- `name:raw:out` -/
def parseTriple (w : String) : Option (Str × List Nat × List Nat) :=
  match w.splitOn ":" with
  | [a, b, c] => match parseStr a, parseHexList b, parseHexList c with
    | some a, some b, some c => some (a, b, c)
    | _, _, _ => none
  | _ => none

def splitAtDashes : List String → List String × List String
  | [] => ([], [])
  | w :: ws => if w = "--" then ([], ws) else
    let r := splitAtDashes ws
    (w :: r.1, r.2)

def showEff : Eff → String
  | .stdout bs => "stdout:" ++ hexList bs
  | .write p bs => "write:" ++ showStr p ++ ":" ++ hexList bs
  | .replace p bs b => "replace:" ++ showStr p ++ ":" ++ hexList bs ++ ":" ++ b01 b
  | .backup p => "backup:" ++ showStr p
  | .side k p => "side:" ++ String.ofList k ++ ":" ++ showStr p
  | .utime p => "utime:" ++ showStr p
  | .line l => "line:" ++ showLine l

/-- `name:lang:out` (lang decimal) -/
def parseFmtCli (w : String) : Option (Str × Nat × List Nat) :=
  match w.splitOn ":" with
  | [a, b, c] => match parseStr a, b.toNat?, parseHexList c with
    | some a, some b, some c => some (a, b, c)
    | _, _, _ => none
  | _ => none

def parseRaw (w : String) : Option (Str × List Nat) :=
  match w.splitOn ":" with
  | [a, b] => match parseStr a, parseHexList b with
    | some a, some b => some (a, b)
    | _, _ => none
  | _ => none

def parseAll {α} (f : String → Option α) (w : String) : Option (List α) :=
  if w = "" then some [] else
  (w.splitOn ",").foldr (fun x acc => match f x, acc with
    | some v, some l => some (v :: l)
    | _, _ => none) (some [])

/-- split the `raw=`, `fmt=`, `stdinraw=` words (world and formatter table) from the environment words -/
def splitWorld : List String → List String × List String
  | [] => ([], [])
  | w :: ws =>
    let r := splitWorld ws
    if w.startsWith "raw=" || w.startsWith "fmt=" || w.startsWith "stdinraw=" then (w :: r.1, r.2) else (r.1, w :: r.2)

def handleCli : List String → Option String
  | "cli.run" :: rest =>
    -- the whole process on a given world; the formatter is the table (name, lang) ↦ out
    let (envWs0, argvWs) := splitAtDashes rest
    let (worldWs, envWs) := splitWorld envWs0
    let get := fun (k : String) => (worldWs.find? (·.startsWith (k ++ "="))).map (fun w => (w.drop (k.length + 1)).toString)
    match parseEnv envWs {}, parseArgv argvWs, parseAll parseRaw ((get "raw").getD ""),
          parseAll parseFmtCli ((get "fmt").getD ""), parseHexList ((get "stdinraw").getD "-") with
    | some e, some argv, some raws, some fmts, some sin =>
      let F : Formatter := fun _ lang name => match fmts.find? (fun t => t.1 == name && t.2.1 == lang) with
        | some t => t.2.2
        | none => [0xEE, 0xEE]
      let w : World := { file := fun name => match raws.find? (fun t => t.1 == name) with
                           | some t => t.2
                           | none => [], stdin := sin }
      let r := runCli F w argv e.toEnv
      some ("|".intercalate (s!"status {r.1}" :: r.2.map showEff))
    | _, _, _, _, _ => some "bad-op"
  | "cli.plan" :: rest =>
    let (envWs, argvWs) := splitAtDashes rest
    match parseEnv envWs {}, parseArgv argvWs with
    | some e, some argv => some (showOutcome (plan argv e.toEnv))
    | _, _ => some "bad-op"
  | "cli.opts" :: rest =>
    match parseArgv rest with
    | some argv => some (showOpts (parseArgs argv))
    | none => some "bad-op"
  | ["cli.lang", ext, name] =>
    match parsePairList ext, parseStr name with
    | some e, some n => some (toString (langFlagsFromFilename e n))
    | _, _ => some "bad-op"
  | ["cli.langname", name] =>
    match parseStr name with
    | some n => some (toString (langFlagsFromName n))
    | none => some "bad-op"
  | ["cli.list", text] =>
    match parseStr text with
    | some t => some ("names " ++ showStrs (listNames t))
    | none => some "bad-op"
  | ["check.cmp", raw, out] =>
    match parseHexList raw, parseHexList out with
    | some r, some o => some (showCmp (boutCompare r o))
    | _, _ => some "bad-op"
  | "check.run" :: quiet :: files =>
    -- check mode over files: the formatter is the table name ↦ out given on the request line
    let ts := files.map parseTriple
    if ts.any Option.isNone then some "bad-op" else
    let ts := ts.filterMap id
    let g : Globals := { doCheck := true, ifChanged := false, frag := false, quiet := quiet = "1",
                         log := none, showSev := false, langForced := false }
    let F : Formatter := fun _ _ name => match ts.find? (fun t => t.1 == name) with
      | some t => t.2.2
      | none => []
    let w : World := { file := fun name => match ts.find? (fun t => t.1 == name) with
                         | some t => t.2.1
                         | none => [], stdin := [] }
    let jobs := ts.map (fun t => fileJob g 0 [] t.1 none none none false false none)
    let r := runJobs F g w jobs 0
    let lines := r.effs.filterMap (fun e => match e with | .line l => some (showLine l) | _ => none)
    let writes := r.effs.filter Eff.touchesFs
    some s!"status {finalStatus g none r} failcnt {r.failCnt} fswrites {writes.length} lines {" ".intercalate lines}"
  | ["check.ifchanged", raw, out] =>
    match parseHexList raw, parseHexList out with
    | some r, some o =>
      let g : Globals := { doCheck := false, ifChanged := true, frag := false, quiet := false,
                           log := none, showSev := false, langForced := false }
      let j := fileJob g 0 [] c!"in" (some c!"out") none none false false none
      let res := execJob (fun _ _ _ => o) g r j
      (match res.effs with
       | [] => some "skip"
       | [.write _ bs] => some ("write " ++ hexList bs)
       | _ => some "other")
    | _, _ => some "bad-op"
  | _ => none

end Unc
