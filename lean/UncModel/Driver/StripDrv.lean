import UncModel.TokStrip
import Driver.Parse
/-! driver request for the trailing-blank strip of tokenize():  `tokstrip.run <hex code points | ->`  → `<hex> <num_stripped>` -/
namespace Unc

def handleStrip : List String → Option String
  | ["tokstrip.run", h] =>
    let t := if h = "-" then [] else (parseHexList h).getD []
    let r := stripTrailing t
    some ((if r.isEmpty then "-" else ".".intercalate (r.map (fun c => String.ofList (Nat.toDigits 16 c)))) ++ s!" {numStripped t}")
  | _ => none

end Unc
