import UncModel.PpBody
import Driver.Parse
/-! driver request for the body of an unknown directive:  `ppbody.run <hex code points | ->`  → `<chunk text hex | -> <input left hex | ->` -/
namespace Unc

private def hexOut (r : List Nat) : String :=
  if r.isEmpty then "-" else ".".intercalate (r.map (fun c => String.ofList (Nat.toDigits 16 c)))

def handlePpBody : List String → Option String
  | ["ppbody.run", h] =>
    let t := if h = "-" then [] else (parseHexList h).getD []
    some (hexOut (PpBody.body t) ++ " " ++ hexOut (PpBody.rest t))
  | _ => none

end Unc
