import UncModel.Render
/-! parsing of hook records (`key=value` fields) shared by the driver handlers -/
namespace Unc

def fieldsOf (line : String) : List (String × String) :=
  ((line.splitOn " ").filter (· ≠ "")).filterMap fun w =>
    match w.splitOn "=" with
    | [k, v] => some (k, v)
    | k :: v :: rest => some (k, "=".intercalate (v :: rest))
    | _ => none

def getF (fs : List (String × String)) (k : String) : String :=
  match fs.find? (·.1 = k) with
  | some (_, v) => v
  | none => ""

def getN (fs : List (String × String)) (k : String) : Nat := (getF fs k).toNat?.getD 0

def parseChunk (line : String) : Chunk :=
  let fs := fieldsOf line
  { ty := getF fs "t", pty := getF fs "pt", txt := (parseHexList (getF fs "x")).getD [],
    origLine := getN fs "ol", origCol := getN fs "oc", origColEnd := getN fs "oe", prevSp := getN fs "ps",
    col := getN fs "col", colIndent := getN fs "ci", nl := getN fs "nl", nlCol := getN fs "nc",
    level := getN fs "lv", braceLevel := getN fs "bl", ppLevel := getN fs "pl",
    flags := (parseHex (getF fs "fl")).getD 0, afterTab := getF fs "at" = "1" }

def parseOp (w : String) : Option Op :=
  match w.toList with
  | 'A' :: r => (parseHex (String.ofList r)).map (Op.add · false)
  | 'L' :: r => (parseHex (String.ofList r)).map (Op.add · true)
  | 'R' :: r => (parseHex (String.ofList r)).map Op.raw
  | ['T', '0'] => some (.trail false) | ['T', '1'] => some (.trail true)
  | ['S', '0'] => some (.tabSp false) | ['S', '1'] => some (.tabSp true)
  | _ => none

def parseOps (line : String) : List Op :=
  ((line.splitOn " ").filter (· ≠ "")).filterMap parseOp

def iarfOfName (s : String) : IARF :=
  match s with
  | "add" | "1" => .add | "remove" | "2" => .remove | "force" | "3" => .force | _ => .ignore

end Unc
