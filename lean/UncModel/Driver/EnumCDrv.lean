import UncModel.EnumComma
/-! driver request for the model of enum_cleanup():
    `enumc.run <act 0..3> <tok> ...` -- the chunks of the file in order; tok = `<k><pp>` with k in o (open brace) c (comma) s (comment/newline)
    i (ignored) x (other) E (closing brace of an enum), pp in 0 1  →  the chunks after the pass, same coding, blank-separated -/
namespace Unc
open EnumC

def enumcTok (w : String) : Option (Option Bool × Tk) :=
  match w.toList with
  | [k, p] =>
    let pp := p == '1'
    match k with
    | 'o' => some (none, { k := .open, pp := pp })
    | 'c' => some (none, { k := .comma, pp := pp })
    | 's' => some (none, { k := .skip, pp := pp })
    | 'i' => some (none, { k := .ign, pp := pp })
    | 'x' => some (none, { k := .other, pp := pp })
    | 'E' => some (some pp, { k := .other, pp := pp })
    | _ => none
  | _ => none

def enumcShow (t : Tk) : String :=
  (match t.k with | .open => "o" | .comma => "c" | .skip => "s" | .ign => "i" | .other => "x") ++ (if t.pp then "1" else "0")

def handleEnumC : List String → Option String
  | "enumc.run" :: a :: toks =>
    match a.toNat?.bind IARF.ofCode, toks.mapM enumcTok with
    | some act, some l => some (" ".intercalate ((run stepped act [] l).reverse.map enumcShow))
    | _, _ => some "bad-op"
  | _ => none

end Unc
