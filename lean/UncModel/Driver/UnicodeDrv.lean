import UncModel.Unicode
import UncModel.LineEnd
import UncModel.EatSE
import UncModel.Indent
namespace Unc

def encName : Enc → String
  | .ascii => "ascii" | .byte => "byte" | .utf8 => "utf8" | .utf16le => "utf16le" | .utf16be => "utf16be"

def parseBool (s : String) : Bool := s = "1" || s = "true"

def handleUnicode : List String → Option String
  | ["unicode.decode", ov, hex] =>
    match parseHexList hex with
    | none => some "bad-op"
    | some bs =>
      match decodeUnicode (parseBool ov) bs with
      | none => some "fail"
      | some (e, bom, cps) => some s!"{encName e} {if bom then 1 else 0} {hexList cps}"
  | ["unicode.emit", enc, bom, hex] =>
    match parseHexList hex, enc.toNat? >>= Enc.ofCode with
    | some cps, some e => some (hexList (emit e (parseBool bom) cps))
    | _, _ => some "bad-op"
  | ["unicode.policy", enc, bom, ubom, ubyte, uforce] =>
    match enc.toNat? >>= Enc.ofCode, ubom.toNat? >>= IARF.ofCode with
    | some e, some a =>
      let p := encPolicy { utf8Bom := a, utf8Byte := parseBool ubyte, utf8Force := parseBool uforce } e (parseBool bom)
      some s!"{encName p.1} {if p.2 then 1 else 0}"
    | _, _ => some "bad-op"
  | ["unicode.run", ov, ubom, ubyte, uforce, hex] =>
    -- identity formatter: decode, policy, emit
    match parseHexList hex, ubom.toNat? >>= IARF.ofCode with
    | some bs, some a =>
      match runBytes (parseBool ov) { utf8Bom := a, utf8Byte := parseBool ubyte, utf8Force := parseBool uforce } id bs with
      | none => some "fail"
      | some out => some (hexList out)
    | _, _ => some "bad-op"
  | ["lineend.choose", opt, lf, crlf, cr] =>
    match lf.toNat?, crlf.toNat?, cr.toNat? with
    | some a, some b, some c => some (hexList (chooseNewline (LineEnd.ofName opt) { lf := a, crlf := b, cr := c }))
    | _, _, _ => some "bad-op"
  | ["lineend.ws", hex] =>
    match parseHexList hex with
    | some l => let r := wsScan l 0 {}; some s!"{r.1} {r.2.1.lf},{r.2.1.crlf},{r.2.1.cr} {hexList r.2.2}"
    | none => some "bad-op"
  | ["eatse.edge", frag, opt, min, edge] =>
    -- edge: `-` = the edge chunk is not a newline, else its nl_count
    match opt.toNat? >>= IARF.ofCode, min.toNat? with
    | some o, some m =>
      let e : Option Nat := if edge = "-" then none else edge.toNat?
      some (toString (edgeBreaks (fileEdge (parseBool frag) o m e)))
    | _, _ => some "bad-op"
  | ["indent.run", cols, sc, toks] =>
    -- toks: string over s(tmt) o(pen) c(lose) v(open) w(vclose) k(case); answer: columns, `-` for tokens without one
    match cols.toNat?, sc.toNat? with
    | some c, some k =>
      let ts := toks.toList.filterMap fun ch => match ch with
        | 's' => some ITok.stmt | 'o' => some ITok.openB | 'c' => some ITok.closeB
        | 'v' => some ITok.vopen | 'w' => some ITok.vclose | 'k' => some ITok.caseL | _ => none
      some (" ".intercalate ((indentRun { cols := c, switchCase := k } [] ts).map fun x => match x with
        | some n => toString n | none => "-"))
    | _, _ => some "bad-op"
  | ["indent.run2", cols, brace, sc, toks] =>
    -- toks: s(tmt) o(pen plain) O(pen statement body) W(open switch body) c(lose) v(open) w(vclose) k(case)
    match cols.toNat?, brace.toNat?, sc.toNat? with
    | some c, some b, some k =>
      let ts := toks.toList.filterMap fun ch => match ch with
        | 's' => some ITok2.stmt | 'o' => some (ITok2.openK .plain) | 'O' => some (ITok2.openK .stmt) | 'W' => some (ITok2.openK .switch)
        | 'c' => some ITok2.closeB | 'v' => some ITok2.vopen | 'w' => some ITok2.vclose | 'k' => some ITok2.caseL | _ => none
      some (" ".intercalate ((indentRun2 { cols := c, brace := b, switchCase := k } [] ts).map fun x => match x with
        | some n => toString n | none => "-"))
    | _, _, _ => some "bad-op"
  | _ => none

end Unc
