import UncModel.MiniC
/-! driver requests for C01 (L8b MiniC)

* `minic.norm <tok> <tok> …`   → `ok <norm of stmt 1>;<norm of stmt 2>;…` | `fail`
      tokens: `x<id>` simple statement, `{` `}`, `B<id>` opaque block, `i<c>` if (c), `e` else, `w<c>` loop head
* `minic.rm <tok> …`           → the token list after the model's guarded brace removal (same encoding) | `fail`
-/
namespace Unc
open MiniC

def tokStr : MiniC.Tok → String
  | .s i => s!"x{i}" | .lb => "{" | .rb => "}" | .blk i => s!"B{i}" | .iff c => s!"i{c}" | .els => "e" | .lp c => s!"w{c}"

def handleMiniC : List String → Option String
  | "minic.norm" :: ws =>
    match ws.mapM MiniC.Tok.ofString with
    | none => some "fail"
    | some ts =>
      match parseAll (ts.length + 1) ts with
      | none => some "fail"
      | some sts => some ("ok " ++ ";".intercalate (sts.map (fun st => (norm st).show)))
  | "minic.rm" :: ws =>
    match ws.mapM MiniC.Tok.ofString with
    | none => some "fail"
    | some ts =>
      match parseAll (ts.length + 1) ts with
      | none => some "fail"
      | some sts => some ("ok " ++ " ".intercalate ((sts.flatMap (fun st => unparse (rmBraces false st))).map tokStr))
  | _ => none

end Unc
