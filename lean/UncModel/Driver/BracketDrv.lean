import UncModel.Brackets
/-! driver requests for C04/C01 (L8a Brackets)

* `bracket.nested <s>`      → `1` | `0`   — `wellNested` of the stream encoded one character per token:
                               a b = ( )   c d = [ ]   e f = { }   g h = virtual braces   anything else = other token
* `bracket.others <k> <s>`  → the stream without the brackets of kind k (same encoding)
-/
namespace Unc

def btokOfChar : Char → BTok
  | 'a' => .op 0 | 'b' => .cl 0 | 'c' => .op 1 | 'd' => .cl 1
  | 'e' => .op 2 | 'f' => .cl 2 | 'g' => .op 3 | 'h' => .cl 3
  | _ => .other

def handleBracket : List String → Option String
  | ["bracket.nested"] => some "1"
  | ["bracket.nested", s] => some (if wellNested (s.toList.map btokOfChar) then "1" else "0")
  | ["bracket.others", k, s] =>
    let kk := k.toNat?.getD 0
    some (String.ofList (s.toList.filter (fun c => !(btokOfChar c).isBracketOf kk)))
  | _ => none

end Unc
