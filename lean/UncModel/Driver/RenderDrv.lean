import Driver.Parse
namespace Unc

structure OcRec where
  idx : Nat
  col : Nat
  dn : Bool
  pcol : Nat
  ci : Nat
  ops : List Op
deriving Inhabited

/-- split the block into chunk lines and output records -/
def parseTrace (blk : Array String) : Array Chunk × Array OcRec × OutSt :=
  Id.run do
    let mut cs : Array Chunk := #[]
    let mut ocs : Array OcRec := #[]
    let mut init : OutSt := {}
    for ln in blk do
      if ln.startsWith "C " then cs := cs.push (parseChunk ln)
      else if ln.startsWith "OC " then
        let fs := fieldsOf ln
        ocs := ocs.push { idx := getN fs "i", col := getN fs "col", dn := getF fs "dn" = "1",
                          pcol := getN fs "pcol", ci := getN fs "ci", ops := [] }
      else if ln.startsWith "OPS" then
        if ocs.size > 0 then
          let last := ocs[ocs.size - 1]!
          ocs := ocs.set! (ocs.size - 1) { last with ops := last.ops ++ parseOps (ln.drop 3).toString }
      else if ln.startsWith "OUTBEGIN" then
        let fs := fieldsOf ln
        init := { init with spaces := getN fs "spaces", last := (getF fs "last").toNat?.getD 0 }
    return (cs, ocs, init)

def opStr : Op → String
  | .add ch lit => (if lit then "L" else "A") ++ toHex ch
  | .raw ch => "R" ++ toHex ch
  | .trail b => if b then "T1" else "T0"
  | .tabSp b => if b then "S1" else "S0"

/-- `render.check` with fields nl= tab= iwt= ppiwt= inpp= awt= akt= spnc= ftad= cts=
    block: the P1 dump lines, then OUTBEGIN/OC/OPS lines of the same file.
    answer: `ok <out hex>` when the model's io-op log equals the recorded one, else the first difference. -/
def handleRender (ws : List String) (blk : Array String) : Option String :=
  match ws with
  | "render.check" :: args =>
    let fs := fieldsOf (" ".intercalate args)
    let cfg : OutCfg := { nl := (parseHexList (getF fs "nl")).getD [10], tab := getN fs "tab", iwt := getN fs "iwt",
                          ppIwt := (getF fs "ppiwt").toInt?.getD (-1), inPP := getF fs "inpp" = "1" }
    let ro : RenderOpts := { alignWithTabs := getF fs "awt" = "1", alignKeepTabs := getF fs "akt" = "1",
                             spBeforeNlCont := iarfOfName (getF fs "spnc"), forceTabAfterDefine := getF fs "ftad" = "1",
                             cmtTabToSpaces := getF fs "cts" = "1" }
    let (cs0, ocs, init) := parseTrace blk
    -- columns as they were when output_text() reached the chunk
    let cs := ocs.foldl (fun (a : Array Chunk) r =>
      match a[r.idx]? with
      | some c => a.set! r.idx { c with col := r.pcol, colIndent := r.ci }
      | none => a) cs0
    let cmt (i : Nat) : Option CmtInfo :=
      match ocs.findIdx? (·.idx = i) with
      | none => none
      | some k =>
        let r := ocs[k]!
        let (nextIdx, dn) := match ocs[k+1]? with
          | some n => (n.idx, n.dn)
          | none => (cs.size, false)
        some { ops := r.ops, consumed := nextIdx - i, dnAfter := dn }
    let s := render cfg ro cs cmt init
    let mine := (s.log.reverse.filter Op.isIo)
    let theirs := (ocs.toList.flatMap (·.ops)).filter Op.isIo
    if mine = theirs then some ("ok " ++ hexList s.o.out)
    else
      let k := (mine.zip theirs).takeWhile (fun p => p.1 = p.2) |>.length
      some s!"diff at={k} model={" ".intercalate ((mine.drop k).take 12 |>.map opStr)} real={" ".intercalate ((theirs.drop k).take 12 |>.map opStr)} nmodel={mine.length} nreal={theirs.length}"
  | "addchar.run" :: args =>
    -- run the recorded op trace through the AddChar machine only
    let fs := fieldsOf (" ".intercalate args)
    let cfg : OutCfg := { nl := (parseHexList (getF fs "nl")).getD [10], tab := getN fs "tab", iwt := getN fs "iwt",
                          ppIwt := (getF fs "ppiwt").toInt?.getD (-1), inPP := getF fs "inpp" = "1" }
    let (_, ocs, init) := parseTrace blk
    let s := execOps cfg { init with didNl := true, col := 1 } (ocs.toList.flatMap (·.ops))
    some ("ok " ++ hexList s.out)
  | _ => none

end Unc
