import UncModel.Blank
import Driver.Parse
/-! driver requests for C20 (L6 Blank + the generated write inventory)

* `blank.inventory` → `ok mid=<n> shape=<0|1> callees=<0|1> setcmp=<..> maxcmp=<..> opts=<name,name,…>`
* `blank.visit opts=<name:val,…> n=<count before> edge=<0|1> caninc=<0|1|?> w=<s|t>:<old>:<new>,… final=<count after>`
     one visited newline chunk of a real run (hook H6): the recorded writes (`s` = to the chunk itself, `t` = to another
     chunk) must be explained, in order, by the prologue / the middle entries of the inventory / the final "−1", and the
     model's `visitSelf` under the fires found must give the recorded final count.
     → `ok final=<n> fired=<indices of middle entries>` | `bad <reason>`
* `blank.caninc nsn= nsef= nbn= eao= ebc= sof= eof= pbo= pbc= nbc= ppn= npn= ppf= npf= head= tail=` → `0` | `1`
-/
namespace Unc
open Gen

def parseOpts (s : String) : Sigma :=
  let l := (s.splitOn ",").filterMap fun kv =>
    match kv.splitOn ":" with
    | [k, v] => some (k, v.toNat?.getD 0)
    | _ => none
  fun o => match l.find? (·.1 = o) with
    | some (_, v) => v
    | none => 0

def parseWrites (s : String) : List (Bool × Nat × Nat) :=
  if s = "-" ∨ s = "" then [] else
  (s.splitOn ",").filterMap fun w =>
    match w.splitOn ":" with
    | [t, a, b] => some (t = "s", a.toNat?.getD 0, b.toNat?.getD 0)
    | _ => none

/-- explanation of one visit under a given `canInc`; returns (final count of the model, fired middle indices) -/
def explainVisit (σ : Sigma) (mid : List BW) (n0 : Nat) (edge canInc : Bool) (ws : List (Bool × Nat × Nat)) :
    Except String (Nat × List Nat) := do
  -- prologue "+1"
  let n1 := if edge then n0 + 1 else n0
  let ws ← if edge then
      match ws with
      | (true, a, b) :: r => if a = n0 ∧ b = n0 + 1 then pure r else throw "plus1-mismatch"
      | _ => throw "plus1-missing"
    else pure ws
  -- cap
  let N := σ "nl_max"
  let capFires := N > 0 ∧ n1 > N
  let n2 := if capFires then blankMax N n1 else n1
  let ws ← if capFires ∧ n2 ≠ n1 then
      match ws with
      | (true, a, b) :: r => if a = n1 ∧ b = n2 then pure r else throw "cap-mismatch"
      | _ => throw "cap-missing"
    else pure ws
  if !canInc then
    let ws ← if n2 ≠ 1 then
        match ws with
        | (true, a, b) :: r => if a = n2 ∧ b = 1 then pure r else throw "one-mismatch"
        | _ => throw "one-missing"
      else pure ws
    if ws.isEmpty then pure (visitSelf σ mid edge false [] n0, []) else throw "writes-after-continue"
  else
    -- final "−1": strip it when the model will perform it
    let tryMid (mws : List (Bool × Nat × Nat)) : Option (List (Option Nat)) := matchWrites σ mid mws
    let withFires (fs : List (Option Nat)) : Nat × List Nat :=
      (visitSelf σ mid edge true fs n0,
       (List.range fs.length).filter (fun i => (fs[i]?).join.isSome))
    let selfTrace (mws : List (Bool × Nat × Nat)) (start : Nat) : Nat :=
      mws.foldl (fun n w => if w.1 then w.2.2 else n) start
    let cand1 : Option (Nat × List Nat) :=
      match ws.getLast? with
      | some (true, a, b) =>
        if edge ∧ a > 1 ∧ b = a - 1 ∧ selfTrace ws.dropLast n2 = a then (tryMid ws.dropLast).map withFires else none
      | _ => none
    let cand2 : Option (Nat × List Nat) :=
      if edge ∧ selfTrace ws n2 > 1 then none else (tryMid ws).map withFires
    match cand1, cand2 with
    | some r, _ => pure r
    | none, some r => pure r
    | none, none => throw "unexplained-write"

def blB01 (s : String) : Bool := s = "1"

def handleBlank : List String → Option String
  | ["blank.inventory"] =>
    let mid := midOf Gen.blankWrites
    some s!"ok mid={mid.length} shape={if shapeOk Gen.blankWrites then 1 else 0} callees={if Gen.blankCallees.all (fun c => knownCallees.contains c) then 1 else 0} setcmp={Gen.blankSetCmp} maxcmp={Gen.blankMaxCmp} opts={",".intercalate (mid.flatMap (·.opts))}"
  | "blank.visit" :: args =>
    let fs := fieldsOf (" ".intercalate args)
    let σ := parseOpts (getF fs "opts")
    let mid := midOf Gen.blankWrites
    let n0 := getN fs "n"
    let edge := blB01 (getF fs "edge")
    let ws := parseWrites (getF fs "w")
    let final := getN fs "final"
    let run (ci : Bool) : Except String (Nat × List Nat) := do
      let r ← explainVisit σ mid n0 edge ci ws
      if r.1 = final then pure r else throw s!"final-mismatch model={r.1}"
    let res := match getF fs "caninc" with
      | "1" => run true
      | "0" => run false
      | _ => match run true with
        | .ok r => .ok r
        | .error e1 => match run false with
          | .ok r => .ok r
          | .error e2 => .error s!"{e1}/{e2}"
    match res with
    | .ok (n, fired) => some s!"ok final={n} fired={",".intercalate (fired.map toString)}"
    | .error e => some s!"bad {e}"
  | "blank.caninc" :: args =>
    let fs := fieldsOf (" ".intercalate args)
    let o : IncOpts := { nlInsideNamespace := getN fs "nsn", nlInsideEmptyFunc := getN fs "nsef", nlBeforeNamespace := getN fs "nbn",
                         eatAfterOpen := blB01 (getF fs "eao"), eatBeforeClose := blB01 (getF fs "ebc"),
                         sof := iarfOfName (getF fs "sof"), eof := iarfOfName (getF fs "eof") }
    let i : IncIn := { prevIsBraceOpen := blB01 (getF fs "pbo"), prevIsBraceClose := blB01 (getF fs "pbc"), nextIsBraceClose := blB01 (getF fs "nbc"),
                       prevParentNamespace := blB01 (getF fs "ppn"), nextParentNamespace := blB01 (getF fs "npn"),
                       prevParentFunc := blB01 (getF fs "ppf"), nextParentFunc := blB01 (getF fs "npf"),
                       isHead := blB01 (getF fs "head"), isTail := blB01 (getF fs "tail") }
    some (if canIncrease o i then "1" else "0")
  | _ => none

end Unc
