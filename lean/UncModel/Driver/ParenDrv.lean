import UncModel.ParenBool
/-! driver request for the model of check_bool_parens():
    `parenbool.run <0|1> <string over a c b e>`  → the output of `addParens` as a string over a c b e ( ) -/
namespace Unc
open PB

def ptokOfChar : Char → Option PTok
  | 'a' => some (.atom 0) | 'c' => some .cmp | 'b' => some .bool | 'e' => some .asg | _ => none

def charOfPTok : PTok → Char
  | .atom _ => 'a' | .cmp => 'c' | .bool => 'b' | .asg => 'e' | .lp => '(' | .rp => ')'

def handleParen : List String → Option String
  | ["parenbool.run", f, s] =>
    match s.toList.mapM ptokOfChar with
    | some ts => some (String.ofList ((addParens (f == "1") ts).map charOfPTok))
    | none => some "bad-op"
  | _ => none

end Unc
