import UncModel.IntTypes
/-! driver request for the model of change_int_types():
    `intty.run <9 digits: int_short short_int int_long long_int int_signed signed_int int_unsigned unsigned_int (0..3 = ignore add remove force) prefer_left (0|1)> <tok> ...`
    every token is written `text` or `text@` (the `@` = inside a preprocessor line)  → the output tokens, blank-separated -/
namespace Unc
open IntTy

def inttyOpts (d : List Char) : Option Opts :=
  match d.mapM (fun c => if c.isDigit then some (c.toNat - '0'.toNat) else none) with
  | some [a, b, c, dd, e, f, g, h, p] =>
    match [a, b, c, dd, e, f, g, h].mapM IARF.ofCode with
    | some [a, b, c, dd, e, f, g, h] =>
      some { intShort := a, shortInt := b, intLong := c, longInt := dd, intSigned := e, signedInt := f, intUnsigned := g, unsignedInt := h,
             preferLeft := p == 1 }
    | _ => none
  | _ => none

def handleIntTy : List String → Option String
  | "intty.run" :: o :: toks =>
    match inttyOpts o.toList with
    | some opts =>
      let ws := toks.map fun t => if t.endsWith "@" then ((t.dropRight 1), true) else (t, false)
      some (" ".intercalate (changeIntTypesPP opts ws))
    | none => some "bad-op"
  | _ => none

end Unc
