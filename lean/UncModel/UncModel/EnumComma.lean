import UncModel.Unicode
/-
`enum_cleanup()` (src/tokenizer/enum_cleanup.cpp, option mod_enum_last_comma), transliterated over the chunks to the left of the
closing brace of an enum: kind, PCF_IN_PREPROC.  `L` is the list of chunks in front of the brace, NEAREST FIRST.
-/
namespace Unc.EnumC

inductive K | open | comma | skip | ign | other       -- `{`, `,`, comment/newline, CT_IGNORED, anything else
deriving DecidableEq, Repr

structure Tk where
  k : K
  pp : Bool := false
deriving DecidableEq, Repr

/-- stepped over on the way back from the closing brace: comments, newlines, ignored chunks (`GetPrevNcNnlNi`) and, since fix fcbb384,
    every chunk of a preprocessor line when the brace itself is not in one -/
def stepped (closePP : Bool) (t : Tk) : Bool := t.k = .skip || t.k = .ign || (t.pp && !closePP)

/-- the same before the fix (the `#endif` special case aside): preprocessor chunks were not stepped over -/
def steppedOld (_closePP : Bool) (t : Tk) : Bool := t.k = .skip || t.k = .ign

/-- the body of the loop for one closing brace -/
def step (st : Bool → Tk → Bool) (act : IARF) (closePP : Bool) : List Tk → List Tk
  | [] => []                                            -- prev is the null chunk
  | t :: rest =>
    if st closePP t then t :: step st act closePP rest
    else if t.k = .comma then (if act = .remove then rest else t :: rest)
    else if t.k = .open then t :: rest                  -- nothing between the braces
    else if act = .add ∨ act = .force then { k := .comma, pp := false } :: t :: rest
    else t :: rest

/-- the whole pass over a file: `cl` marks the closing braces of enums (with their preprocessor flag); other chunks are pushed -/
def run (st : Bool → Tk → Bool) (act : IARF) : List Tk → List (Option Bool × Tk) → List Tk
  | L, [] => L
  | L, (some closePP, c) :: r => run st act (c :: step st act closePP L) r
  | L, (none, c) :: r => run st act (c :: L) r

end Unc.EnumC
