/-!
# L2a: `TokenContext` of the tokenizer (`src/tokenizer/tokenize.cpp`) and its scanning loops

`more()`  : `c.idx < data.size()`
`peek()`  : `more() ? data[c.idx] : 0`
`get()`   : `if more() { ch = data[c.idx++]; … return ch } else return 0`   (row/column bookkeeping left out)

A scanning loop `while (P(ctx.peek())) { … ctx.get() … }` leaves the data behind it exactly when `P 0 = false`:
at the end of the data `peek()` is 0 and `get()` no longer advances.
-/
namespace Unc

structure TokCtx where
  data : List Nat
  idx : Nat
deriving Repr

def TokCtx.more (c : TokCtx) : Bool := c.idx < c.data.length
def TokCtx.peek (c : TokCtx) : Nat := if c.more then c.data.getD c.idx 0 else 0
def TokCtx.get (c : TokCtx) : TokCtx := if c.more then { c with idx := c.idx + 1 } else c
def TokCtx.remaining (c : TokCtx) : Nat := c.data.length - c.idx

/-- `while (p(ctx.peek())) ctx.get();` run for at most `fuel` iterations; `none` = still running when the fuel is used up -/
def scanWhile (p : Nat → Bool) : Nat → TokCtx → Option TokCtx
  | 0, _ => none
  | f + 1, c => if p c.peek then scanWhile p f c.get else some c

/-- `while (ctx.more() && p(ctx.peek())) ctx.get();` -/
def scanWhileMore (p : Nat → Bool) : Nat → TokCtx → Option TokCtx
  | 0, _ => none
  | f + 1, c => if c.more && p c.peek then scanWhileMore p f c.get else some c

/-! the character predicates used in loop conditions of tokenize.cpp (`unc_*` = <cctype> on 0..255, else false) -/
def isDecC (c : Nat) : Bool := 48 ≤ c && c ≤ 57
def isHexC (c : Nat) : Bool := isDecC c || (97 ≤ c && c ≤ 102) || (65 ≤ c && c ≤ 70)
def isOctC (c : Nat) : Bool := 48 ≤ c && c ≤ 55
def isBinC (c : Nat) : Bool := c = 48 || c = 49
def sepOk (c : Nat) : Bool := c = 95 || c = 39            -- `_` and `'` digit separators
def isAlphaC (c : Nat) : Bool := (65 ≤ c && c ≤ 90) || (97 ≤ c && c ≤ 122)
def isSpaceC (c : Nat) : Bool := c = 32 || (9 ≤ c && c ≤ 13)

/-- value of a condition atom (as emitted by translators/t_loops.py) when `peek()` is 0; `none` = unknown predicate -/
def atomAtZero (a : String) : Option Bool :=
  if a = "cmp==" then some false                     -- `ctx.peek() == 'c'`, c a character constant (never NUL in this file)
  else if a = "cmp!=" then some true
  else if a = "is_dec_" then some (isDecC 0 || sepOk 0)
  else if a = "is_hex_" then some (isHexC 0 || sepOk 0)
  else if a = "is_oct_" then some (isOctC 0 || sepOk 0)
  else if a = "is_bin_" then some (isBinC 0 || sepOk 0)
  else if a = "is_dec" then some (isDecC 0)
  else if a = "is_hex" then some (isHexC 0)
  else if a = "unc_isalpha" then some (isAlphaC 0)
  else if a = "unc_isdigit" then some (isDecC 0)
  else if a = "unc_isspace" then some (isSpaceC 0)
  else if a = "not:unc_isspace" then some (!isSpaceC 0)
  else if a = "not:unc_isalpha" then some (!isAlphaC 0)
  else none

end Unc
