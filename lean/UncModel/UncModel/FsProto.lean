import UncModel.Basic
/-!
# L10 `FsProto` — the in-place rewriting protocol of `do_source_file()`

Models `src/uncrustify.cpp` `do_source_file()` (the part that runs when the output file name equals
the input file name: `--replace`, `--no-backup`, `-o X -f X`), `src/backup.cpp`
`backup_copy_file()` / `backup_create_md5_file()`, and the file system they act on.

* The file system is a record over an ENUMERATED path type (`target` = the source file,
  `tmp` = `<name>.uncrustify`, `bak` = `<name>.unc-backup~`, `md5` = `<name>.unc-backup.md5~`).
* System calls are abstract: the mutating ones `creat p` (open `O_WRONLY|O_CREAT|O_TRUNC`),
  `write p bytes` (all `write(2)` calls between one `fopen(.,"wb")` and its `fclose`, plus the
  `close(2)`, merged — stdio buffering is below the model), `rename a b`, `unlink p`; and the
  read-side ones `load p` (stat/open/read*/close of `p`), `cmp` (`file_content_matches(tmp,target)`),
  `mkdirs` (`make_folders`: `mkdir` of every directory prefix, all of which exist).
* Every call has the outcomes ok / error; a `write` that fails, or during which the process dies, may
  leave ANY prefix of its bytes (torn write).
* The program is a decision tree `Prog` over the outcomes, built by `doSourceFile` in the statement
  order of the C++.  `Fix.md5AfterRename = false` gives the order of the code before
  `fixes/fs-1-c14-md5-after-rename.patch`, `Fix.checkIO = false` the unchecked `fclose`/`unlink`
  results before `fixes/fs-2-c13-check-write-errors.patch` (faithful for files smaller than the
  stdio buffer; used for the `…_witness_before_fix` theorems only).
-/
namespace Unc

/-- the four paths `do_source_file` touches for one source file -/
inductive P | target | tmp | bak | md5
  deriving DecidableEq, Repr

abbrev FBytes := List Nat

/-- file system: content of each path, `none` = does not exist -/
structure FS where
  target : Option FBytes
  tmp : Option FBytes
  bak : Option FBytes
  md5 : Option FBytes
  deriving DecidableEq, Repr

def FS.get (f : FS) : P → Option FBytes
  | .target => f.target | .tmp => f.tmp | .bak => f.bak | .md5 => f.md5

def FS.set (f : FS) (p : P) (v : Option FBytes) : FS :=
  match p with
  | .target => { f with target := v } | .tmp => { f with tmp := v }
  | .bak => { f with bak := v } | .md5 => { f with md5 := v }

/-- abstract system calls that change the file system -/
inductive Sys
  | creat (p : P)                 -- open(O_WRONLY|O_CREAT|O_TRUNC)
  | write (p : P) (bs : FBytes)    -- all writes to one open file + its close, merged
  | rename (a b : P)
  | unlink (p : P)
  deriving DecidableEq, Repr

/-- effect of a successful call -/
def step (f : FS) : Sys → FS
  | .creat p => f.set p (some [])
  | .write p bs => f.set p (some ((f.get p).getD [] ++ bs))
  | .rename a b => (f.set b (f.get a)).set a none
  | .unlink p => f.set p none

/-- states observable if the process dies *during* the call (torn write = any prefix);
    `creat`/`rename`/`unlink` are atomic -/
def during (f : FS) : Sys → FS → Prop
  | .write p bs, g => ∃ k, g = f.set p (some ((f.get p).getD [] ++ bs.take k))
  | s, g => g = f ∨ g = step f s

/-- state left behind by a call that FAILS: a failed `write` may have written any prefix, the
    other calls fail without effect -/
def failed (f : FS) : Sys → FS → Prop
  | .write p bs, g => ∃ k, g = f.set p (some ((f.get p).getD [] ++ bs.take k))
  | _, g => g = f

/-- the same, computable: `k` = number of bytes of a failed/killed `write` that reached the file;
    for the atomic calls `k = 0` means "not executed", anything else "executed" -/
def partialStep (f : FS) (k : Nat) : Sys → FS
  | .write p bs => f.set p (some ((f.get p).getD [] ++ bs.take k))
  | s => if k = 0 then f else step f s

/-- state after a call that fails, computable: `k` bytes of a failed `write` reached the file -/
def failStep (f : FS) (k : Nat) : Sys → FS
  | .write p bs => f.set p (some ((f.get p).getD [] ++ bs.take k))
  | _ => f

/-- result of the formatter (`uncrustify_file()`): the complete output, or `exit(status)` somewhere
    inside (stdio flushes whatever part of the output was already produced, normally nothing) -/
inductive FmtRes
  | ok (out : FBytes)
  | fail (status : Nat) (partialOut : FBytes)
  deriving DecidableEq, Repr

/-- the three ways to rewrite in place -/
inductive FsMode | replace | noBackup | oEqualsF
  deriving DecidableEq, Repr

/-- `!no_backup` in `do_source_file` (`-o X -f X` passes `no_backup = false`, like `--replace`) -/
def FsMode.backup : FsMode → Bool
  | .noBackup => false
  | _ => true

/-- which version of the C++ is modelled -/
structure Fix where
  /-- `backup_create_md5_file()` is called after the rename/unlink block (fs-1 patch) -/
  md5AfterRename : Bool
  /-- results of `ferror`/`fclose`/`unlink` and of the md5 write are checked (fs-2 patch) -/
  checkIO : Bool
  deriving DecidableEq, Repr

def Fix.fixed : Fix := ⟨true, true⟩
def Fix.original : Fix := ⟨false, false⟩

def EX_OK : Nat := 0
def EX_SOFTWARE : Nat := 70
def EX_IOERR : Nat := 74

/-- the program as a decision tree over call outcomes -/
inductive Prog
  | done (status : Nat)
  /-- read the whole of `p`; `err` when `p` does not exist or a call fails -/
  | load (p : P) (ok : FBytes → Prog) (err : Prog)
  /-- `file_content_matches(tmp, target)`; any failure inside makes it answer `false` -/
  | cmp (res : Bool → Prog)
  /-- `make_folders(tmp)` -/
  | mkdirs (ok err : Prog)
  /-- a mutating call -/
  | eff (s : Sys) (ok err : Prog)

/-- `backup_create_md5_file(filename_in)`, then `k`.
    backup.cpp: fopen(filename,"rb") fails → exit(EX_SOFTWARE); read it back, digest it;
    fopen(md5,"wb"); fprintf; fclose.  Before the fs-2 patch failures of the md5 file were ignored. -/
def md5Part (fx : Fix) (h : FBytes → FBytes) (k : Prog) : Prog :=
  .load .target
    (fun cur => .eff (.creat .md5)
      (.eff (.write .md5 (h cur)) k (if fx.checkIO then .done EX_IOERR else k))
      (if fx.checkIO then .done EX_IOERR else k))
    (.done EX_SOFTWARE)

/-- `do_source_file` after a successful `fclose(pfout)`: md5 (old position), compare, unlink or
    rename, md5 (new position); `keep_mtime` is not modelled (`--mtime` not given). -/
def finishPart (fx : Fix) (mode : FsMode) (h : FBytes → FBytes) : Prog :=
  let md5K (k : Prog) : Prog := if mode.backup then md5Part fx h k else k
  let tail : Prog := if fx.md5AfterRename then md5K (.done EX_OK) else .done EX_OK
  let body : Prog :=
    .cmp (fun same =>
      if same then .eff (.unlink .tmp) tail (if fx.checkIO then .done EX_IOERR else tail)
      else .eff (.rename .tmp .target) tail (.done EX_IOERR))
  if fx.md5AfterRename then body else md5K body

/-- `uncrustify_file(fm, pfout, …)` writing to the temp file, then `fclose(pfout)` -/
def fmtPart (fx : Fix) (mode : FsMode) (h : FBytes → FBytes) (r : FmtRes) : Prog :=
  match r with
  | .fail st part => .eff (.write .tmp part) (.done st) (.done st)   -- exit(st) inside uncrustify_file
  | .ok out =>
    .eff (.write .tmp out) (finishPart fx mode h)
      (if fx.checkIO then .done EX_IOERR else finishPart fx mode h)

/-- `make_folders(filename_tmp)`, `fopen(filename_tmp,"wb")`, the formatter and everything after it
    (the part of `do_source_file` that follows the backup) -/
def restPart (fx : Fix) (mode : FsMode) (h : FBytes → FBytes) (r : FmtRes) : Prog :=
  .mkdirs                                            -- make_folders(filename_tmp)
    (.eff (.creat .tmp)                              -- fopen(filename_tmp, "wb")
      (fmtPart fx mode h r)
      (.done EX_IOERR))
    (.done EX_IOERR)

/-- `backup_copy_file()` once the md5 did not match: fopen(bak,"wb"); fwrite; fclose; then `rest` -/
def backupPart (fx : Fix) (orig : FBytes) (rest : Prog) : Prog :=
  .eff (.creat .bak)
    (.eff (.write .bak orig) rest (if fx.checkIO then .done EX_SOFTWARE else rest))
    (.done EX_SOFTWARE)

/-- `do_source_file(filename_in, filename_out = filename_in, …, no_backup, keep_mtime = false)`.
    `F` = the formatter as a function of the bytes loaded, `h` = content of the md5 file that
    describes given bytes (abstract; the stored md5 "matches" iff the md5 file equals `h orig`). -/
def doSourceFile (fx : Fix) (mode : FsMode) (F : FBytes → FmtRes) (h : FBytes → FBytes) : Prog :=
  .load .target                                      -- load_mem_file(filename_in, fm)
    (fun orig =>
      let rest : Prog := restPart fx mode h (F orig)
      if mode.backup then
        .load .md5                                   -- backup_copy_file: fopen(md5,"rb"); fgets; compare
          (fun m => if m = h orig then rest else backupPart fx orig rest)
          (backupPart fx orig rest)
      else rest)
    (.done EX_IOERR)                                 -- "Failed to load": exit(EX_IOERR)

/-! ## Execution under a schedule of outcomes (computable; used by the driver) -/

inductive Outcome
  | ok
  | err (k : Nat)    -- the call fails; `k` bytes of a write reached the file
  | kill (k : Nat)   -- the process dies in the call; `k` as for `partialStep`
  deriving DecidableEq, Repr

/-- one executed call, for the trace -/
inductive Ev
  | load (p : P) | cmp | mkdirs | sys (s : Sys)
  deriving DecidableEq, Repr

/-- an observation of a run in which calls may fail -/
structure Obs where
  fs : FS
  /-- number of calls that failed so far -/
  faults : Nat
  /-- a failed call other than the two tolerated read-side ones (reading the md5 file, comparing
      temp file and target: the code falls back to "make a backup" / "rename") -/
  hard : Bool
  /-- `some s` = the run ended with exit status `s`; `none` = still running (or killed here) -/
  status : Option Nat
  deriving DecidableEq, Repr

structure Result where
  trace : List (Ev × Outcome)
  obs : Obs
  deriving Repr

def Result.push (e : Ev × Outcome) (r : Result) : Result := { r with trace := e :: r.trace }
def Result.fs (r : Result) : FS := r.obs.fs
def Result.status (r : Result) : Option Nat := r.obs.status

/-- run `prog` from `f`; the i-th executed call gets the i-th outcome of `sch` (`ok` when exhausted);
    `n`/`hd` accumulate the number of failed calls / whether a hard failure happened -/
def execFrom : Prog → FS → List Outcome → Nat → Bool → Result
  | .done s, f, _, n, hd => ⟨[], ⟨f, n, hd, some s⟩⟩
  | .load p ok err, f, sch, n, hd =>
    match sch.headD .ok with
    | .ok =>
      match f.get p with
      | some c => (execFrom (ok c) f sch.tail n hd).push (.load p, .ok)
      | none => (execFrom err f sch.tail n hd).push (.load p, .ok)
    | .err k => (execFrom err f sch.tail (n + 1) (hd || decide (p ≠ .md5))).push (.load p, .err k)
    | .kill k => ⟨[(.load p, .kill k)], ⟨f, n, hd, none⟩⟩
  | .cmp res, f, sch, n, hd =>
    match sch.headD .ok with
    | .ok => (execFrom (res (decide (f.tmp = f.target ∧ f.tmp ≠ none))) f sch.tail n hd).push (.cmp, .ok)
    | .err k => (execFrom (res false) f sch.tail (n + 1) hd).push (.cmp, .err k)
    | .kill k => ⟨[(.cmp, .kill k)], ⟨f, n, hd, none⟩⟩
  | .mkdirs ok err, f, sch, n, hd =>
    match sch.headD .ok with
    | .ok => (execFrom ok f sch.tail n hd).push (.mkdirs, .ok)
    | .err k => (execFrom err f sch.tail (n + 1) true).push (.mkdirs, .err k)
    | .kill k => ⟨[(.mkdirs, .kill k)], ⟨f, n, hd, none⟩⟩
  | .eff s ok err, f, sch, n, hd =>
    match sch.headD .ok with
    | .ok => (execFrom ok (step f s) sch.tail n hd).push (.sys s, .ok)
    | .err k => (execFrom err (failStep f k s) sch.tail (n + 1) true).push (.sys s, .err k)
    | .kill k => ⟨[(.sys s, .kill k)], ⟨partialStep f k s, n, hd, none⟩⟩

def exec (p : Prog) (f : FS) (sch : List Outcome) : Result := execFrom p f sch 0 false

/-! ## Everything observable, as relations defined by structural recursion over the program -/

/-- crash states when no call fails: the process is killed before, during or after any call -/
def CrashFrom (f : FS) : Prog → FS → Prop
  | .done _, g => g = f
  | .load p ok err, g =>
    g = f ∨ (match f.get p with | some c => CrashFrom f (ok c) g | none => CrashFrom f err g)
  | .cmp res, g => g = f ∨ CrashFrom f (res (decide (f.tmp = f.target ∧ f.tmp ≠ none))) g
  | .mkdirs ok _, g => g = f ∨ CrashFrom f ok g
  | .eff s ok _, g => g = f ∨ during f s g ∨ CrashFrom (step f s) ok g

/-- every observation of a run from `f` in which any subset of the calls fails, with the process
    possibly killed at any point -/
def Reach (f : FS) (n : Nat) (hd : Bool) : Prog → Obs → Prop
  | .done s, o => o = ⟨f, n, hd, some s⟩
  | .load p ok err, o =>
    o = ⟨f, n, hd, none⟩
    ∨ (match f.get p with | some c => Reach f n hd (ok c) o | none => Reach f n hd err o)
    ∨ Reach f (n + 1) (hd || decide (p ≠ .md5)) err o
  | .cmp res, o =>
    o = ⟨f, n, hd, none⟩
    ∨ Reach f n hd (res (decide (f.tmp = f.target ∧ f.tmp ≠ none))) o
    ∨ Reach f (n + 1) hd (res false) o
  | .mkdirs ok err, o =>
    o = ⟨f, n, hd, none⟩ ∨ Reach f n hd ok o ∨ Reach f (n + 1) true err o
  | .eff s ok err, o =>
    o = ⟨f, n, hd, none⟩ ∨ (∃ g, during f s g ∧ o = ⟨g, n, hd, none⟩)
    ∨ Reach (step f s) n hd ok o
    ∨ ∃ g, failed f s g ∧ Reach g (n + 1) true err o

/-- the run without faults and kills: final file system and exit status -/
def runOk (p : Prog) (f : FS) : FS × Nat :=
  let r := exec p f []
  (r.fs, r.status.getD 0)

/-! ## The predicates of C13 -/

/-- what C13 allows the target path to hold: the complete original or the complete formatted bytes -/
def TargetOK (orig : FBytes) (r : FmtRes) (g : FS) : Prop :=
  g.target = some orig ∨ ∃ out, r = .ok out ∧ g.target = some out

/-- C13, backup clause: once the target no longer holds the original, the backup does — unless the
    stored md5 said that the "original" is uncrustify's own earlier output, in which case the
    backup is left exactly as it was (it holds the older user text: C14) -/
def BackupOK (h : FBytes → FBytes) (orig : FBytes) (f0 g : FS) : Prop :=
  g.target ≠ some orig → g.bak = some orig ∨ (f0.md5 = some (h orig) ∧ g.bak = f0.bak)

end Unc
