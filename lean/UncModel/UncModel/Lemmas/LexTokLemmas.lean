import UncModel.Lemmas.LexCodeLemmas
import UncModel.Lemmas.PunctLemmas
/-! Per-class isolation lemmas for the specification lexer: identifiers. -/
namespace Unc

theorem spanLen_append_stop (p : CP → Bool) : ∀ (r y : List CP), (∀ x ∈ r, p x = true) →
    (∀ d ∈ y.head?, p d = false) → spanLen p (r ++ y) = r.length := by
  intro r
  induction r with
  | nil =>
    intro y _ hy
    cases y with
    | nil => rfl
    | cons d y' => simp [spanLen, hy d (by simp)]
  | cons c r ih =>
    intro y hr hy
    have hc : p c = true := hr c (by simp)
    simp only [List.cons_append, spanLen, hc, if_true, List.length_cons]
    rw [ih y (fun x hx => hr x (by simp [hx])) hy]

/-- `a` is an identifier: KW1 then identifier-continuation characters -/
def IsIdent (a : List CP) : Prop :=
  ∃ c r, a = c :: r ∧ isIdStart c = true ∧ ∀ x ∈ r, isIdCont x = true

theorem identLen_ident_append {a : List CP} (ha : IsIdent a) (y : List CP)
    (hy : ∀ d ∈ y.head?, isIdCont d = false) : identLen (a ++ y) = a.length := by
  obtain ⟨c, r, rfl, hc, hr⟩ := ha
  simp only [List.cons_append, identLen, hc, if_true, List.length_cons]
  rw [spanLen_append_stop isIdCont r y hr hy]

theorem isIdStart_ne (c : CP) (h : isIdStart c = true) : c ≠ 92 ∧ c ≠ 47 ∧ c ≠ 34 ∧ c ≠ 39 := by
  refine ⟨?_, ?_, ?_, ?_⟩ <;> (intro hc; subst hc; revert h; decide)

/-- an identifier followed by a character that is neither an identifier character nor a quote is the
    token, whatever comes after -/
theorem munchTok_ident_append (l : Nat) {a : List CP} (ha : IsIdent a) (y : List CP)
    (hy : ∀ d ∈ y.head?, isIdCont d = false ∧ d ≠ 34 ∧ d ≠ 39) :
    munchTok l (a ++ y) = some (a.length, .ident) := by
  have hlen := identLen_ident_append ha y (fun d hd => (hy d hd).1)
  obtain ⟨c, r, rfl, hc, hr⟩ := ha
  obtain ⟨h92, h47, _, _⟩ := isIdStart_ne c hc
  have hdrop : (c :: r ++ y).drop (c :: r).length = y := by simp
  have hw : wordLen l (c :: r ++ y) = ((c :: r).length, Kind.ident) := by
    unfold wordLen
    simp only [hlen, hdrop]
    cases y with
    | nil => rfl
    | cons d y' =>
      obtain ⟨_, h34, h39⟩ := hy d (by simp)
      split
      · rename_i heq; simp at heq; exact absurd heq.1 h34
      · rename_i heq; simp at heq; exact absurd heq.1 h39
      · rfl
  simp only [List.cons_append] at hw ⊢
  simp only [munchTok, hc, if_true]
  have e1 : (c == 92) = false := by simpa using h92
  have e2 : (c == 47) = false := by simpa using h47
  simp [e1, e2, hw]

theorem isWsChar_cases (c : Nat) (h : isWsChar c = true) :
    c = 32 ∨ c = 9 ∨ c = 11 ∨ c = 12 ∨ c = 10 ∨ c = 13 := by
  simp [isWsChar, isBlankWs, isNl] at h
  rcases h with (((h | h) | h) | h) | h | h <;> simp [h]

theorem isWsChar_not_idCont (c : CP) (h : isWsChar c = true) : isIdCont c = false ∧ c ≠ 34 ∧ c ≠ 39 := by
  rcases isWsChar_cases c h with rfl | rfl | rfl | rfl | rfl | rfl <;> decide

/-- **isolation of identifiers** -/
theorem isolated_ident (l : Nat) {a : List CP} (ha : IsIdent a) : Isolated l a .ident := by
  constructor
  · exact munchTok_ident_append l ha [] (by simp)
  · intro c rest hc
    exact munchTok_ident_append l ha (c :: rest) (by
      intro d hd
      simp only [List.head?_cons, Option.mem_def, Option.some.injEq] at hd
      subst hd
      exact isWsChar_not_idCont c hc)

theorem plainTok_ident (l : Nat) {a : List CP} (ha : IsIdent a) : PlainTok l .ident a := by
  obtain ⟨c, r, rfl, hc, hr⟩ := ha
  refine ⟨by simp, ?_, ?_, isolated_ident l ⟨c, r, rfl, hc, hr⟩⟩
  · intro d hd
    simp only [List.head?_cons, Option.mem_def, Option.some.injEq] at hd
    subst hd
    cases hw : isWsChar c with
    | false => rfl
    | true =>
      rcases isWsChar_cases c hw with rfl | rfl | rfl | rfl | rfl | rfl <;> revert hc <;> decide
  · simp only [List.head?_cons, ne_eq, Option.some.injEq]
    intro h; subst h; revert hc; decide

/-- identifier followed by anything that does not start with an identifier character or a quote -/
theorem safePairK_ident (l : Nat) {a : List CP} (ha : IsIdent a) (b : List CP) (d : CP) (b' : List CP)
    (hb : b = d :: b') (hd : isIdCont d = false ∧ d ≠ 34 ∧ d ≠ 39) : SafePairK l a .ident b := by
  intro rest
  subst hb
  exact munchTok_ident_append l ha (d :: b' ++ rest) (by
    intro x hx
    simp only [List.cons_append, List.head?_cons, Option.mem_def, Option.some.injEq] at hx
    subst hx; exact hd)

end Unc
