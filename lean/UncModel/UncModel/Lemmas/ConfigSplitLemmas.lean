import UncModel.Config
/-!
# Lemmas about `split_args`
-/
namespace Unc

/-- a character that an unquoted argument can contain without any special treatment -/
def plainCh (c : Nat) : Bool := !(isArgSep c) && c != 35 && c != 92 && !(isQuoteCh c)

theorem plainCh_spec {c : Nat} (h : plainCh c = true) :
    isArgSep c = false ∧ c ≠ 35 ∧ c ≠ 92 ∧ isQuoteCh c = false := by
  simp [plainCh] at h; simp [h]

theorem splitRun_unq_plain (w acc : Bytes) (out : List Bytes) (rest : Bytes)
    (hw : ∀ c ∈ w, plainCh c = true) :
    splitRun isArgSep (.unq acc) out (w ++ rest) = splitRun isArgSep (.unq (w.reverse ++ acc)) out rest := by
  induction w generalizing acc with
  | nil => simp
  | cons c cs ih =>
    obtain ⟨h1, _, h3, _⟩ := plainCh_spec (hw c (by simp))
    have h3' : (c == 92) = false := by simp [h3]
    simp only [List.cons_append, splitRun, h1, h3', Bool.false_eq_true, ↓reduceIte]
    rw [ih _ (fun x hx => hw x (by simp [hx]))]
    simp

theorem splitRun_skip_plain (c : Nat) (cs : Bytes) (out : List Bytes) (rest : Bytes)
    (hw : ∀ x ∈ c :: cs, plainCh x = true) :
    splitRun isArgSep .skip out ((c :: cs) ++ rest) = splitRun isArgSep (.unq ((c :: cs).reverse)) out rest := by
  obtain ⟨h1, h2, h3, h4⟩ := plainCh_spec (hw c (by simp))
  have h2' : (c == 35) = false := by simp [h2]
  have h3' : (c == 92) = false := by simp [h3]
  simp only [List.cons_append, splitRun, h1, h2', h3', h4, Bool.false_eq_true, ↓reduceIte]
  rw [splitRun_unq_plain cs [c] out rest (fun x hx => hw x (by simp [hx]))]
  simp

theorem splitRun_skip_seps (seps : Bytes) (out : List Bytes) (rest : Bytes)
    (hs : ∀ c ∈ seps, isArgSep c = true) :
    splitRun isArgSep .skip out (seps ++ rest) = splitRun isArgSep .skip out rest := by
  induction seps with
  | nil => simp
  | cons c cs ih =>
    have h1 := hs c (by simp)
    simp only [List.cons_append, splitRun, h1, ↓reduceIte]
    exact ih (fun x hx => hs x (by simp [hx]))

theorem splitRun_unq_sep (acc : Bytes) (out : List Bytes) (c : Nat) (cs : Bytes) (h : isArgSep c = true) :
    splitRun isArgSep (.unq acc) out (c :: cs) = splitRun isArgSep .skip (acc.reverse :: out) cs := by
  simp [splitRun, h]

theorem splitRun_quoted_escape (s acc : Bytes) (out : List Bytes) (rest : Bytes) :
    splitRun isArgSep (.quoted 34 acc) out (escapeArg s ++ 34 :: rest)
      = splitRun isArgSep .afterQ ((s.reverse ++ acc).reverse :: out) rest := by
  induction s generalizing acc with
  | nil => simp [escapeArg, splitRun]
  | cons c cs ih =>
    by_cases h : c = 92 ∨ c = 34
    · have : (c == 92 || c == 34) = true := by rcases h with h | h <;> simp [h]
      simp only [escapeArg, this, ↓reduceIte, List.cons_append, splitRun]
      have e1 : ((92 : Nat) == 34) = false := by decide
      simp only [e1, Bool.false_eq_true, ↓reduceIte, BEq.rfl]
      rw [ih]; simp
    · have h92 : (c == 92) = false := by simp; omega
      have h34 : (c == 34) = false := by simp; omega
      simp only [escapeArg, h92, h34, Bool.or_self, Bool.false_eq_true, ↓reduceIte, List.cons_append, splitRun]
      rw [ih]; simp

/-- how the writer renders an argument: as it is (only for plain non-empty words) or quoted with escapes -/
inductive Renders : Bytes → Bytes → Prop
  | plain (w : Bytes) (hne : w ≠ []) (hp : ∀ c ∈ w, plainCh c = true) : Renders w w
  | quoted (w : Bytes) : Renders (34 :: (escapeArg w ++ [34])) w

/-- the value part of a line, up to the end of the line -/
theorem splitRun_skip_renders {txt w : Bytes} (h : Renders txt w) (out : List Bytes) :
    splitRun isArgSep .skip out txt = .ok (w :: out).reverse := by
  cases h with
  | plain _ hne hp =>
    cases txt with
    | nil => exact absurd rfl hne
    | cons c cs =>
      have := splitRun_skip_plain c cs out [] hp
      simp only [List.append_nil] at this
      rw [this]; simp [splitRun]
  | quoted _ =>
    have e1 : isArgSep 34 = false := by decide
    have e2 : isQuoteCh 34 = true := by decide
    have e3 : ((34 : Nat) == 35) = false := by decide
    simp only [splitRun, e1, e2, e3, Bool.false_eq_true, ↓reduceIte]
    have := splitRun_quoted_escape w [] out []
    simp only [List.append_nil] at this
    rw [this]; simp [splitRun]

/-- the value part of a line, followed by a separator and more text -/
theorem splitRun_skip_renders_sep {txt w : Bytes} (h : Renders txt w) (out : List Bytes) (c : Nat) (rest : Bytes)
    (hc : isArgSep c = true) :
    splitRun isArgSep .skip out (txt ++ c :: rest) = splitRun isArgSep .skip (w :: out) rest := by
  cases h with
  | plain _ hne hp =>
    cases txt with
    | nil => exact absurd rfl hne
    | cons d ds =>
      rw [splitRun_skip_plain d ds out (c :: rest) hp, splitRun_unq_sep _ _ _ _ hc]; simp
  | quoted _ =>
    have e1 : isArgSep 34 = false := by decide
    have e2 : isQuoteCh 34 = true := by decide
    have e3 : ((34 : Nat) == 35) = false := by decide
    simp only [List.cons_append, List.append_assoc, List.nil_append, splitRun, e1, e2, e3, Bool.false_eq_true, ↓reduceIte]
    rw [splitRun_quoted_escape w [] out (c :: rest)]
    simp [splitRun, hc]

/-- `name <separators> value` splits into exactly these two arguments -/
theorem splitArgs_name_value (name seps txt w : Bytes) (hn : name ≠ []) (hp : ∀ c ∈ name, plainCh c = true)
    (hs1 : seps ≠ []) (hs : ∀ c ∈ seps, isArgSep c = true) (hv : Renders txt w) :
    splitArgs isArgSep (name ++ seps ++ txt) = .ok [name, w] := by
  unfold splitArgs
  cases seps with
  | nil => exact absurd rfl hs1
  | cons s ss =>
    rw [List.append_assoc, List.cons_append]
    have h1 := splitRun_skip_renders_sep (Renders.plain name hn hp) [] s (ss ++ txt) (hs s (by simp))
    rw [h1, splitRun_skip_seps ss _ txt (fun x hx => hs x (by simp [hx])), splitRun_skip_renders hv]
    simp

/-- … also when a separator and a `#` comment follow -/
theorem splitArgs_name_value_comment (name seps txt w seps2 cmt : Bytes) (hn : name ≠ [])
    (hp : ∀ c ∈ name, plainCh c = true) (hs1 : seps ≠ []) (hs : ∀ c ∈ seps, isArgSep c = true)
    (hv : Renders txt w) (hs2 : seps2 ≠ []) (hs3 : ∀ c ∈ seps2, isArgSep c = true) :
    splitArgs isArgSep (name ++ seps ++ txt ++ seps2 ++ 35 :: cmt) = .ok [name, w] := by
  unfold splitArgs
  cases seps with
  | nil => exact absurd rfl hs1
  | cons s ss =>
    cases seps2 with
    | nil => exact absurd rfl hs2
    | cons t ts =>
      have e : name ++ s :: ss ++ txt ++ t :: ts ++ 35 :: cmt = name ++ s :: (ss ++ (txt ++ t :: (ts ++ 35 :: cmt))) := by simp
      rw [e, splitRun_skip_renders_sep (Renders.plain name hn hp) [] s _ (hs s (by simp)),
        splitRun_skip_seps ss _ _ (fun x hx => hs x (by simp [hx])),
        splitRun_skip_renders_sep hv _ t _ (hs3 t (by simp)),
        splitRun_skip_seps ts _ _ (fun x hx => hs3 x (by simp [hx]))]
      have e35 : isArgSep 35 = false := by decide
      simp [splitRun, e35]

/-- a line that starts (after separators) with `#` has no arguments -/
theorem splitArgs_comment (seps cmt : Bytes) (hs : ∀ c ∈ seps, isArgSep c = true) :
    splitArgs isArgSep (seps ++ 35 :: cmt) = .ok [] := by
  unfold splitArgs
  rw [splitRun_skip_seps seps [] _ hs]
  have : isArgSep 35 = false := by decide
  simp [splitRun, this]

end Unc
