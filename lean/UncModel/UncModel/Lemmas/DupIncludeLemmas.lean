import UncModel.DupInclude
/-! helper lemmas for Props/DupInclude.lean -/
namespace Unc.DupInc

theorem active_of_prefix (taken : Nat → Bool) (p q : List Nat) (h : p.isPrefixOf q = true) (hq : active taken q = true) :
    active taken p = true := by
  rw [List.isPrefixOf_iff_prefix] at h
  obtain ⟨r, rfl⟩ := h
  simp only [active, List.all_append, Bool.and_eq_true] at hq
  exact hq.1

theorem step_first_of_some (s : St) (e : Ev) (m : Nat) (p : List Nat) (h : s.first = some (m, p)) : (step s e).1.first = some (m, p) := by
  cases e with
  | ifE => simpa [step] using h
  | elseE => simp only [step]; split <;> exact h
  | endifE => simpa [step] using h
  | inc n => simp [step, h]

/-- every deleted `#include` has the text of the remembered one, whose path is a prefix of its own; the remembered one is either
    already in the state or a kept entry of the trace -/
theorem deleted_has_keeper (evs : List Ev) : ∀ (s : St) (e : Entry), e ∈ trace s evs → e.kept = false →
    ∃ p, p.isPrefixOf e.path = true ∧
      (s.first = some (e.name, p) ∨ (s.first = none ∧ (⟨e.name, p, true⟩ : Entry) ∈ trace s evs)) := by
  induction evs with
  | nil => intro s e h; simp [trace] at h
  | cons ev evs ih =>
    intro s e hmem hdel
    cases ev with
    | inc n =>
      cases hf : s.first with
      | none =>
        have hs : step s (.inc n) = ({ s with first := some (n, s.branches) }, some ⟨n, s.branches, true⟩) := by simp [step, hf]
        simp only [trace, hs, List.mem_cons] at hmem ⊢
        rcases hmem with rfl | hmem
        · simp at hdel
        · obtain ⟨p, hp, h⟩ := ih _ e hmem hdel
          rcases h with h | ⟨h, _⟩
          · simp only [Option.some.injEq, Prod.mk.injEq] at h
            refine ⟨p, hp, Or.inr ⟨by first | rfl | trivial, Or.inl ?_⟩⟩
            rw [← h.1, ← h.2]
          · simp at h
      | some mp =>
        obtain ⟨m, p0⟩ := mp
        have hs : step s (.inc n) = (s, some ⟨n, s.branches, !(n == m && p0.isPrefixOf s.branches)⟩) := by simp [step, hf]
        simp only [trace, hs, List.mem_cons] at hmem
        rcases hmem with rfl | hmem
        · simp only [Bool.not_eq_eq_eq_not, Bool.not_false, Bool.and_eq_true, beq_iff_eq] at hdel
          exact ⟨p0, hdel.2, Or.inl (by first | rw [hdel.1] | (rw [hf, hdel.1]))⟩
        · obtain ⟨p, hp, h⟩ := ih _ e hmem hdel
          rcases h with h | ⟨h, _⟩
          · exact ⟨p, hp, Or.inl (by rw [← hf]; exact h)⟩
          · rw [hf] at h; simp at h
    | ifE =>
      have h2 : (step s .ifE).2 = none := rfl
      simp only [trace, h2] at hmem ⊢
      obtain ⟨p, hp, h⟩ := ih _ e hmem hdel
      exact ⟨p, hp, by simpa [step] using h⟩
    | endifE =>
      have h2 : (step s .endifE).2 = none := rfl
      simp only [trace, h2] at hmem ⊢
      obtain ⟨p, hp, h⟩ := ih _ e hmem hdel
      exact ⟨p, hp, by simpa [step] using h⟩
    | elseE =>
      have h2 : (step s .elseE).2 = none := by simp only [step]; split <;> rfl
      have h1 : (step s .elseE).1.first = s.first := by simp only [step]; split <;> rfl
      simp only [trace, h2] at hmem ⊢
      obtain ⟨p, hp, h⟩ := ih _ e hmem hdel
      exact ⟨p, hp, by rw [h1] at h; exact h⟩

/-- as long as nothing is remembered, the next `#include` is kept -/
theorem head_kept_of_first_none (evs : List Ev) : ∀ (s : St), s.first = none → ∀ (e : Entry) (rest : List Entry),
    trace s evs = e :: rest → e.kept = true := by
  induction evs with
  | nil => intro s _ e rest h; simp [trace] at h
  | cons ev evs ih =>
    intro s hf e rest h
    cases ev with
    | inc n =>
      have hs : step s (.inc n) = ({ s with first := some (n, s.branches) }, some ⟨n, s.branches, true⟩) := by simp [step, hf]
      simp only [trace, hs, List.cons.injEq] at h
      rw [← h.1]
    | ifE =>
      have h2 : (step s .ifE).2 = none := rfl
      simp only [trace, h2] at h
      exact ih _ (by simpa [step] using hf) e rest h
    | endifE =>
      have h2 : (step s .endifE).2 = none := rfl
      simp only [trace, h2] at h
      exact ih _ (by simpa [step] using hf) e rest h
    | elseE =>
      have h2 : (step s .elseE).2 = none := by simp only [step]; split <;> rfl
      have h1 : (step s .elseE).1.first = s.first := by simp only [step]; split <;> rfl
      simp only [trace, h2] at h
      exact ih _ (by rw [h1]; exact hf) e rest h

end Unc.DupInc
