import UncModel.Lemmas.ConfigTableDefs
/-!
# Facts decided over the WHOLE generated tables (`decide +kernel`), part 2 (value spellings)

Re-checked whenever `Gen/*.lean` is regenerated from the sources.  Only linear-time checks (the kernel
needs ~0.1 ms per list step; a quadratic check over 857 options takes minutes); spread over several
files so that lake checks them in parallel.
-/
namespace Unc
open Gen

theorem rows_ok_b : optionTable.all rowOKb = true := by decide +kernel

theorem enumTables_ok : enumTableOK .bool = true ∧ enumTableOK .iarf = true ∧ enumTableOK .lineend = true
    ∧ enumTableOK .tokenpos = true := by decide +kernel

end Unc
