import UncModel.Lemmas.LexGenLemmas
/-! Instantiation of the whitespace-insertion theorem for the C-family lexer, outside directives. -/
namespace Unc

def isWsChar (c : CP) : Bool := isBlankWs c || isNl c

/-- in the text `t ++ x` the specification lexer finds exactly the token `t`, of kind `k` -/
def MunchesAs (l : Nat) (t : List CP) (k : Kind) (x : List CP) : Prop :=
  munchTok l (t ++ x) = some (t.length, k)

/-- `t` is a token on its own: at the end of the text and before any white space -/
structure Isolated (l : Nat) (t : List CP) (k : Kind) : Prop where
  atEnd : MunchesAs l t k []
  beforeWs : ∀ c rest, isWsChar c = true → MunchesAs l t k (c :: rest)

/-- `b` glued directly after `a` never changes where `a` ends (nor its kind) -/
def SafePairK (l : Nat) (a : List CP) (k : Kind) (b : List CP) : Prop := ∀ rest, MunchesAs l a k (b ++ rest)

/-- an ordinary token outside a directive: does not begin with white space or with `#` -/
structure PlainTok (l : Nat) (k : Kind) (t : List CP) : Prop where
  ne : t ≠ []
  headNotWs : ∀ c ∈ t.head?, isWsChar c = false
  headNotHash : t.head? ≠ some 35
  iso : Isolated l t k

/-- adjacent tokens are separated by white space or form a safe pair -/
def Adj (l : Nat) : List (Kind × List CP × List CP) → Prop
  | [] => True
  | [_] => True
  | (k, t, w) :: (k', t', w') :: rest => (w ≠ [] ∨ SafePairK l t k t') ∧ Adj l ((k', t', w') :: rest)

theorem cWs_code_of_ws (b : Bool) (c : CP) (h : isWsChar c = true) :
    ∃ b', cWs (.code b) c = some (.code b') := by
  unfold isWsChar at h
  unfold cWs
  by_cases hb : isBlankWs c = true
  · exact ⟨b, by simp [hb]⟩
  · have hn : isNl c = true := by simpa [hb] using h
    exact ⟨true, by simp [hb, hn]⟩

theorem cWs_none_of_not_ws (m : Mode) (c : CP) (h : isWsChar c = false) : cWs m c = none := by
  unfold isWsChar at h
  simp only [Bool.or_eq_false_iff] at h
  simp [cWs, h.1, h.2]

theorem wsRun_code (l : Nat) : ∀ (w : List CP) (b : Bool), (∀ c ∈ w, isWsChar c = true) →
    ∃ b', WsRun (cLexer l) (.code b) w (.code b') := by
  intro w
  induction w with
  | nil => intro b _; exact ⟨b, rfl⟩
  | cons c w ih =>
    intro b h
    obtain ⟨b1, h1⟩ := cWs_code_of_ws b c (h c (by simp))
    obtain ⟨b2, h2⟩ := ih b1 (fun d hd => h d (by simp [hd]))
    exact ⟨b2, b1 |> fun _ => ⟨.code b1, h1, h2⟩⟩

theorem cMunch_code (l : Nat) (b : Bool) (t x : List CP) (k : Kind) (hne : t ≠ [])
    (hhash : t.head? ≠ some 35) (hm : MunchesAs l t k x) :
    ∃ b', cMunch l (.code b) (t ++ x) = some (t.length, k, .code b') := by
  obtain ⟨c, r, rfl⟩ : ∃ c r, t = c :: r := by
    cases t with
    | nil => exact absurd rfl hne
    | cons c r => exact ⟨c, r, rfl⟩
  unfold MunchesAs at hm
  simp only [List.cons_append] at hm ⊢
  have hc : (c == 35) = false := by
    simp only [List.head?_cons, ne_eq, Option.some.injEq] at hhash
    simpa using hhash
  simp only [cMunch, Mode.inDir, Bool.false_and, Bool.false_eq_true, if_false, hm]
  have hd : (Mode.code b == Mode.dirInc) = false := by decide +revert
  simp only [hd, Bool.false_and, Bool.false_eq_true, if_false]
  by_cases hk : (k == Kind.bsnl || k == Kind.cmtLine || k == Kind.cmtBlock) = true
  · exact ⟨b, by simp [hk]⟩
  · refine ⟨false, ?_⟩
    simp only [hk, Bool.false_eq_true, if_false]
    simp [modeAfter, hc]

/-- outside directives: isolated tokens with white-space separators, glued directly only where the pair
    is safe, satisfy the hypothesis `Good` of the generic theorem -/
theorem good_code (l : Nat) : ∀ (lst : List (Kind × List CP × List CP)) (b : Bool),
    (∀ x ∈ lst, PlainTok l x.1 x.2.1 ∧ ∀ c ∈ x.2.2, isWsChar c = true) → Adj l lst →
    ∃ b', Good (cLexer l) (.code b) lst (.code b') := by
  intro lst
  induction lst with
  | nil => intro b _ _; exact ⟨b, rfl⟩
  | cons x rest ih =>
    intro b hall hadj
    obtain ⟨k, t, w⟩ := x
    obtain ⟨hp, hw⟩ := hall (k, t, w) (by simp)
    have hm : MunchesAs l t k (w ++ glue rest) := by
      cases w with
      | cons c w' => exact hp.iso.beforeWs c _ (hw c (by simp))
      | nil =>
        cases rest with
        | nil => simpa [glue] using hp.iso.atEnd
        | cons y rest' =>
          obtain ⟨k', t', w'⟩ := y
          rcases hadj.1 with h | h
          · exact absurd rfl h
          · have := h (w' ++ glue rest')
            simpa [glue, List.append_assoc] using this
    obtain ⟨b1, h1⟩ := cMunch_code l b t (w ++ glue rest) k hp.ne hp.headNotHash hm
    obtain ⟨b2, h2⟩ := wsRun_code l w b1 hw
    have hadj' : Adj l rest := by
      cases rest with
      | nil => trivial
      | cons y rest' => exact hadj.2
    obtain ⟨b3, h3⟩ := ih b2 (fun y hy => hall y (by simp [hy])) hadj'
    refine ⟨b3, .code b1, .code b2, hp.ne, ?_, ?_, h2, h3⟩
    · intro c hc
      show cWs (Mode.code b) c = none
      exact cWs_none_of_not_ws _ c (hp.headNotWs c hc)
    · simpa [cLexer, List.append_assoc] using h1

/-- replace every separator by a single space -/
def respace (lst : List (Kind × List CP × List CP)) : List (Kind × List CP × List CP) :=
  lst.map fun x => (x.1, x.2.1, [32])

theorem adj_respace (l : Nat) : ∀ lst, Adj l (respace lst) := by
  intro lst
  induction lst with
  | nil => trivial
  | cons x rest ih =>
    cases rest with
    | nil => trivial
    | cons y rest' => exact ⟨Or.inl (by simp), ih⟩

theorem lex_code (l : Nat) (lst : List (Kind × List CP × List CP)) (w0 : List CP)
    (hw0 : ∀ c ∈ w0, isWsChar c = true)
    (hall : ∀ x ∈ lst, PlainTok l x.1 x.2.1 ∧ ∀ c ∈ x.2.2, isWsChar c = true) (hadj : Adj l lst) :
    (cLexer l).lex (.code true) (w0 ++ glue lst) = some (lst.map fun x => (x.1, x.2.1)) := by
  obtain ⟨b0, h0⟩ := wsRun_code l w0 true hw0
  obtain ⟨b', hg⟩ := good_code l lst b0 hall hadj
  have := lex_glue (cLexer l) lst (.code true) (.code b0) (.code b') w0 h0 hg
  simpa [cLexer, Mode.inDir] using this

end Unc

namespace Unc

/-! ### inside a directive body: separators are blanks only, the mode stays `.dir`, the text ends with `eod` -/

theorem cWs_dir_of_blank (c : CP) (h : isBlankWs c = true) : cWs .dir c = some .dir := by
  simp [cWs, h]

theorem wsRun_dir (l : Nat) : ∀ (w : List CP), (∀ c ∈ w, isBlankWs c = true) →
    WsRun (cLexer l) .dir w .dir := by
  intro w
  induction w with
  | nil => intro _; rfl
  | cons c w ih =>
    intro h
    exact ⟨.dir, cWs_dir_of_blank c (h c (by simp)), ih (fun d hd => h d (by simp [hd]))⟩

theorem cMunch_dir (l : Nat) (t x : List CP) (k : Kind) (hne : t ≠ [])
    (hws : ∀ c ∈ t.head?, isWsChar c = false) (hm : MunchesAs l t k x) :
    cMunch l .dir (t ++ x) = some (t.length, k, .dir) := by
  obtain ⟨c, r, rfl⟩ : ∃ c r, t = c :: r := by
    cases t with
    | nil => exact absurd rfl hne
    | cons c r => exact ⟨c, r, rfl⟩
  unfold MunchesAs at hm
  simp only [List.cons_append] at hm ⊢
  have hnl : isNl c = false := by
    have := hws c (by simp)
    simp only [isWsChar, Bool.or_eq_false_iff] at this
    exact this.2
  have hd : (Mode.dir == Mode.dirInc) = false := by decide
  simp only [cMunch, Mode.inDir, hnl, Bool.and_false, Bool.false_eq_true, if_false, hd, Bool.false_and, hm]
  by_cases hk : (k == Kind.bsnl || k == Kind.cmtLine || k == Kind.cmtBlock) = true
  · simp [hk]
  · simp [hk, modeAfter]

theorem good_dir (l : Nat) : ∀ (lst : List (Kind × List CP × List CP)),
    (∀ x ∈ lst, PlainTok l x.1 x.2.1 ∧ ∀ c ∈ x.2.2, isBlankWs c = true) → Adj l lst →
    Good (cLexer l) .dir lst .dir := by
  intro lst
  induction lst with
  | nil => intro _ _; rfl
  | cons x rest ih =>
    intro hall hadj
    obtain ⟨k, t, w⟩ := x
    obtain ⟨hp, hw⟩ := hall (k, t, w) (by simp)
    have hm : MunchesAs l t k (w ++ glue rest) := by
      cases w with
      | cons c w' => exact hp.iso.beforeWs c _ (by simp [isWsChar, hw c (by simp)])
      | nil =>
        cases rest with
        | nil => simpa [glue] using hp.iso.atEnd
        | cons y rest' =>
          obtain ⟨k', t', w'⟩ := y
          rcases hadj.1 with h | h
          · exact absurd rfl h
          · have := h (w' ++ glue rest')
            simpa [glue, List.append_assoc] using this
    have h1 := cMunch_dir l t (w ++ glue rest) k hp.ne hp.headNotWs hm
    have hadj' : Adj l rest := by
      cases rest with
      | nil => trivial
      | cons y rest' => exact hadj.2
    refine ⟨.dir, .dir, hp.ne, ?_, ?_, wsRun_dir l w hw, ih (fun y hy => hall y (by simp [hy])) hadj'⟩
    · intro c hc
      show cWs Mode.dir c = none
      exact cWs_none_of_not_ws _ c (hp.headNotWs c hc)
    · simpa [cLexer, List.append_assoc] using h1

/-- a directive body (lexer started in mode `.dir`): blank separators, the tokens come out unchanged and are
    followed by the `eod` of the directive -/
theorem lex_dir (l : Nat) (lst : List (Kind × List CP × List CP)) (w0 : List CP)
    (hw0 : ∀ c ∈ w0, isBlankWs c = true)
    (hall : ∀ x ∈ lst, PlainTok l x.1 x.2.1 ∧ ∀ c ∈ x.2.2, isBlankWs c = true) (hadj : Adj l lst) :
    (cLexer l).lex .dir (w0 ++ glue lst) = some (lst.map (fun x => (x.1, x.2.1)) ++ [(Kind.eod, [])]) := by
  have := lex_glue (cLexer l) lst .dir .dir .dir w0 (wsRun_dir l w0 hw0) (good_dir l lst hall hadj)
  simpa [cLexer, Mode.inDir] using this

end Unc
