import UncModel.Lemmas.ConfigTableFacts
import UncModel.Lemmas.ConfigTableFacts2
import UncModel.Lemmas.ConfigTableFacts3
/-!
# Facts about the generated tables, decided over the WHOLE tables, and their lifting lemmas

Everything here is re-checked whenever `Gen/*.lean` is regenerated from the sources.
Quadratic checks are avoided (the kernel needs ~0.1 ms per list step): distinctness of the option
names is shown through a perfect hash (`nameHashMod`) and a bit mask, in linear time.
-/
namespace Unc
open Gen

/-! ## option names are pairwise distinct -/

theorem distinctMask_sound (l : List Nat) (m : Nat) (h : distinctMask l m = true) :
    l.Nodup ∧ ∀ x ∈ l, m.testBit x = false := by
  induction l generalizing m with
  | nil => simp
  | cons a as ih =>
    simp only [distinctMask, Bool.and_eq_true, Bool.not_eq_eq_eq_not, Bool.not_true] at h
    obtain ⟨ha, hrest⟩ := h
    obtain ⟨hnd, hm⟩ := ih _ hrest
    have key : ∀ x ∈ as, x ≠ a ∧ m.testBit x = false := by
      intro x hx
      have := hm x hx
      rw [Nat.testBit_or, Nat.one_shiftLeft, Nat.testBit_two_pow] at this
      simp only [Bool.or_eq_false_iff, decide_eq_false_iff_not] at this
      exact ⟨fun e => this.2 e.symm, this.1⟩
    refine ⟨List.nodup_cons.2 ⟨fun hmem => (key a hmem).1 rfl, hnd⟩, ?_⟩
    intro x hx
    rcases List.mem_cons.1 hx with rfl | hx
    · exact ha
    · exact (key x hx).2

theorem optionNames_nodup : (optionTable.map (·.name)).Nodup := by
  have h := (distinctMask_sound _ _ nameHashes_distinct).1
  have e : nameHashes = (optionTable.map (·.name)).map (fun n => encB n % nameHashMod) := by
    simp [nameHashes, List.map_map, Function.comp_def]
  rw [e] at h
  exact List.Pairwise.of_map (fun n => encB n % nameHashMod) (fun a b hab e => hab (by rw [e])) h

theorem findIdx?_of_nodup {α : Type} [BEq α] [LawfulBEq α] (l : List α) (hnd : l.Nodup) (i : Nat) (a : α)
    (h : l[i]? = some a) : l.findIdx? (· == a) = some i := by
  induction l generalizing i with
  | nil => simp at h
  | cons x xs ih =>
    cases i with
    | zero => simp at h; subst h; simp [List.findIdx?_cons]
    | succ i =>
      simp at h
      have hx : x ≠ a := by
        intro e; subst e
        exact (List.nodup_cons.1 hnd).1 (List.mem_of_getElem? h)
      rw [List.findIdx?_cons]
      simp [hx, ih (List.nodup_cons.1 hnd).2 i h]

/-- looking an option up by its own name finds it (names are unique) -/
theorem findExact_name {i : Nat} {d : OptDecl} (h : optionTable[i]? = some d) : findExact d.name = some i := by
  have h1 : (optionTable.map (·.name))[i]? = some d.name := by simp [h]
  have h2 := findIdx?_of_nodup _ optionNames_nodup i d.name h1
  unfold findExact
  rw [List.findIdx?_map] at h2
  simpa [Function.comp_def] using h2

/-! ## per-row facts -/

theorem rowOKa_of_get {i : Nat} {d : OptDecl} (h : optionTable[i]? = some d) : rowOKa d = true :=
  List.all_eq_true.1 rows_ok_a d (List.mem_of_getElem? h)

theorem rowOKb_of_get {i : Nat} {d : OptDecl} (h : optionTable[i]? = some d) : rowOKb d = true :=
  List.all_eq_true.1 rows_ok_b d (List.mem_of_getElem? h)

theorem lt_count_of_get {i : Nat} {d : OptDecl} (h : optionTable[i]? = some d) : i < optionCount := by
  have := (List.getElem?_eq_some_iff.1 h).1
  rw [optionTable_length] at this; exact this

theorem nameCh_spec {c : Nat} (h : nameCh c = true) :
    plainCh c = true ∧ lowerB c = c ∧ c ≠ 0 ∧ c < 128 ∧ c ≠ 61 := by
  simp only [nameCh, Bool.or_eq_true, Bool.and_eq_true, decide_eq_true_eq, beq_iff_eq] at h
  have hr : (97 ≤ c ∧ c ≤ 122) ∨ (48 ≤ c ∧ c ≤ 57) ∨ c = 95 := by omega
  refine ⟨?_, ?_, by omega, by omega, by omega⟩
  · simp only [plainCh, isArgSep, isSpaceB, isQuoteCh, Bool.and_eq_true, Bool.not_eq_eq_eq_not, Bool.not_true,
      Bool.or_eq_false_iff, beq_eq_false_iff_ne, ne_eq, bne_iff_ne, Bool.and_eq_false_imp, decide_eq_true_eq,
      decide_eq_false_iff_not]
    omega
  · simp only [lowerB]; split <;> omega

theorem cstr_of_nonzero (s : Bytes) (h : ∀ c ∈ s, c ≠ 0) : cstr s = s := by
  unfold cstr
  induction s with
  | nil => rfl
  | cons c cs ih =>
    have hc : c ≠ 0 := h c (by simp)
    have hb : (c != 0) = true := by simp [hc]
    simp only [List.takeWhile, hb]
    rw [ih (fun x hx => h x (by simp [hx]))]

theorem toLowerS_name (n : Bytes) (h : n.all nameCh = true) : toLowerS n = n := by
  have hh : ∀ c ∈ n, nameCh c = true := by simpa using h
  unfold toLowerS
  rw [cstr_of_nonzero n (fun c hc => (nameCh_spec (hh c hc)).2.2.1)]
  conv => rhs; rw [← List.map_id n]
  apply List.map_congr_left
  intro c hc; simp [(nameCh_spec (hh c hc)).2.1]

/-! ## enum tables -/

/-! ## guarded options, languages, tokens -/

end Unc
