import UncModel.Unicode
/-!
# Helper lemmas about the model of `src/unicode.cpp`

`Byte` and `CP` are reducible abbreviations of `Nat`, but `omega` does not look
through them when it inspects the *type* of an (in)equality.  Every lemma below
therefore binds its variables as `Nat`, and the model functions are given
`Nat`-typed equation / inversion lemmas which are used instead of unfolding.
-/

namespace Unc

def BytesOK (bs : List Byte) : Prop := ∀ b ∈ bs, b < 256
def CpsInt (cps : List CP) : Prop := ∀ c ∈ cps, c < 2^31            -- fits a C++ int
def IsScalar (c : CP) : Prop := c < 0xD800 ∨ (0xE000 ≤ c ∧ c < 0x110000)
def Scalars (cps : List CP) : Prop := ∀ c ∈ cps, IsScalar c

/-! ### `Nat`-typed accessors for the predicates -/

theorem BytesOK.lt {bs : List Nat} (h : BytesOK bs) (b : Nat) (hb : b ∈ bs) : b < 256 := h b hb
theorem BytesOK.nil : BytesOK [] := fun _ h => nomatch h
theorem BytesOK.head {b : Nat} {bs : List Nat} (h : BytesOK (b :: bs)) : b < 256 :=
  h b (List.mem_cons_self ..)
theorem BytesOK.tail {b : Nat} {bs : List Nat} (h : BytesOK (b :: bs)) : BytesOK bs :=
  fun c hc => h c (List.mem_cons_of_mem _ hc)
theorem BytesOK.cons {b : Nat} {bs : List Nat} (hb : b < 256) (h : BytesOK bs) : BytesOK (b :: bs) := by
  intro c hc
  rcases List.mem_cons.1 hc with rfl | hc
  · exact hb
  · exact h c hc
theorem BytesOK.append {as bs : List Nat} (ha : BytesOK as) (hb : BytesOK bs) : BytesOK (as ++ bs) := by
  intro c hc
  rcases List.mem_append.1 hc with hc | hc
  · exact ha c hc
  · exact hb c hc
theorem BytesOK.drop {bs : List Nat} (h : BytesOK bs) (n : Nat) : BytesOK (bs.drop n) :=
  fun c hc => h c (List.mem_of_mem_drop hc)
theorem BytesOK.take {bs : List Nat} (h : BytesOK bs) (n : Nat) : BytesOK (bs.take n) :=
  fun c hc => h c (List.mem_of_mem_take hc)

theorem IsScalar.nat {c : Nat} (h : IsScalar c) : c < 0xD800 ∨ (0xE000 ≤ c ∧ c < 0x110000) := h
theorem IsScalar.of_nat {c : Nat} (h : c < 0xD800 ∨ (0xE000 ≤ c ∧ c < 0x110000)) : IsScalar c := h
theorem IsScalar.lt {c : Nat} (h : IsScalar c) : c < 0x110000 := by
  have := h.nat; omega
theorem Scalars.head {c : Nat} {cs : List Nat} (h : Scalars (c :: cs)) : IsScalar c :=
  h c (List.mem_cons_self ..)
theorem Scalars.tail {c : Nat} {cs : List Nat} (h : Scalars (c :: cs)) : Scalars cs :=
  fun d hd => h d (List.mem_cons_of_mem _ hd)
theorem Scalars.cpsInt {cs : List Nat} (h : Scalars cs) : CpsInt cs := by
  intro (c : Nat) hc
  have := (h c hc).lt
  have h' : c < 2147483648 := by omega
  exact h'
theorem CpsInt.head {c : Nat} {cs : List Nat} (h : CpsInt (c :: cs)) : c < 2147483648 :=
  h c (List.mem_cons_self ..)
theorem CpsInt.tail {c : Nat} {cs : List Nat} (h : CpsInt (c :: cs)) : CpsInt cs :=
  fun d hd => h d (List.mem_cons_of_mem _ hd)

/-! ### list helpers -/

theorem len_eq_1 {α} {l : List α} (h : l.length = 1) : ∃ a, l = [a] := by
  rcases l with _ | ⟨a, _ | ⟨b, l⟩⟩ <;> simp at h ⊢
theorem len_eq_2 {α} {l : List α} (h : l.length = 2) : ∃ a b, l = [a, b] := by
  rcases l with _ | ⟨a, l⟩
  · simp at h
  · obtain ⟨b, rfl⟩ := len_eq_1 (l := l) (by simpa using h)
    exact ⟨a, b, rfl⟩
theorem len_eq_3 {α} {l : List α} (h : l.length = 3) : ∃ a b c, l = [a, b, c] := by
  rcases l with _ | ⟨a, l⟩
  · simp at h
  · obtain ⟨b, c, rfl⟩ := len_eq_2 (l := l) (by simpa using h)
    exact ⟨a, b, c, rfl⟩
theorem len_eq_4 {α} {l : List α} (h : l.length = 4) : ∃ a b c d, l = [a, b, c, d] := by
  rcases l with _ | ⟨a, l⟩
  · simp at h
  · obtain ⟨b, c, d, rfl⟩ := len_eq_3 (l := l) (by simpa using h)
    exact ⟨a, b, c, d, rfl⟩
theorem len_eq_5 {α} {l : List α} (h : l.length = 5) : ∃ a b c d e, l = [a, b, c, d, e] := by
  rcases l with _ | ⟨a, l⟩
  · simp at h
  · obtain ⟨b, c, d, e, rfl⟩ := len_eq_4 (l := l) (by simpa using h)
    exact ⟨a, b, c, d, e, rfl⟩

/-! ### UTF-8: equation lemmas -/

theorem isCont_iff (b : Nat) : isCont b = true ↔ b / 64 = 2 := by
  simp [isCont]

theorem utf8Lead_inv (b hi cnt : Nat) (h : utf8Lead b = some (hi, cnt)) :
    (b / 32 = 6 ∧ hi = b % 32 ∧ cnt = 1) ∨ (b / 16 = 14 ∧ hi = b % 16 ∧ cnt = 2) ∨
    (b / 8 = 30 ∧ hi = b % 8 ∧ cnt = 3) ∨ (b / 4 = 62 ∧ hi = b % 4 ∧ cnt = 4) ∨
    (b / 2 = 126 ∧ hi = b % 2 ∧ cnt = 5) := by
  unfold utf8Lead at h
  split at h
  · simp only [Option.some.injEq, Prod.mk.injEq] at h
    exact Or.inl ⟨‹_›, h.1.symm, h.2.symm⟩
  split at h
  · simp only [Option.some.injEq, Prod.mk.injEq] at h
    exact Or.inr (Or.inl ⟨‹_›, h.1.symm, h.2.symm⟩)
  split at h
  · simp only [Option.some.injEq, Prod.mk.injEq] at h
    exact Or.inr (Or.inr (Or.inl ⟨‹_›, h.1.symm, h.2.symm⟩))
  split at h
  · simp only [Option.some.injEq, Prod.mk.injEq] at h
    exact Or.inr (Or.inr (Or.inr (Or.inl ⟨‹_›, h.1.symm, h.2.symm⟩)))
  split at h
  · simp only [Option.some.injEq, Prod.mk.injEq] at h
    exact Or.inr (Or.inr (Or.inr (Or.inr ⟨‹_›, h.1.symm, h.2.symm⟩)))
  · cases h

theorem utf8Lead_1 (b : Nat) (h : b / 32 = 6) : utf8Lead b = some (b % 32, 1) := by
  simp only [utf8Lead, h, if_true]
theorem utf8Lead_2 (b : Nat) (h : b / 16 = 14) : utf8Lead b = some (b % 16, 2) := by
  have h0 : ¬ b / 32 = 6 := by omega
  simp only [utf8Lead, h0, h, if_true, if_false]
theorem utf8Lead_3 (b : Nat) (h : b / 8 = 30) : utf8Lead b = some (b % 8, 3) := by
  have h0 : ¬ b / 32 = 6 := by omega
  have h1 : ¬ b / 16 = 14 := by omega
  simp only [utf8Lead, h0, h1, h, if_true, if_false]
theorem utf8Lead_4 (b : Nat) (h : b / 4 = 62) : utf8Lead b = some (b % 4, 4) := by
  have h0 : ¬ b / 32 = 6 := by omega
  have h1 : ¬ b / 16 = 14 := by omega
  have h2 : ¬ b / 8 = 30 := by omega
  simp only [utf8Lead, h0, h1, h2, h, if_true, if_false]
theorem utf8Lead_5 (b : Nat) (h : b / 2 = 126) : utf8Lead b = some (b % 2, 5) := by
  have h0 : ¬ b / 32 = 6 := by omega
  have h1 : ¬ b / 16 = 14 := by omega
  have h2 : ¬ b / 8 = 30 := by omega
  have h3 : ¬ b / 4 = 62 := by omega
  simp only [utf8Lead, h0, h1, h2, h3, h, if_true, if_false]

theorem encodeUtf8_1 (ch : Nat) (h : ch < 0x80) : encodeUtf8 ch = [ch] := by
  simp only [encodeUtf8, h, if_true]
theorem encodeUtf8_2 (ch : Nat) (h1 : 0x80 ≤ ch) (h2 : ch < 0x800) :
    encodeUtf8 ch = [0xC0 + ch / 64, 0x80 + ch % 64] := by
  have a1 : ¬ ch < 0x80 := by omega
  simp only [encodeUtf8, a1, h2, if_true, if_false]
theorem encodeUtf8_3 (ch : Nat) (h1 : 0x800 ≤ ch) (h2 : ch < 0x10000) :
    encodeUtf8 ch = [0xE0 + ch / 4096, 0x80 + ch / 64 % 64, 0x80 + ch % 64] := by
  have a1 : ¬ ch < 0x80 := by omega
  have a2 : ¬ ch < 0x800 := by omega
  simp only [encodeUtf8, a1, a2, h2, if_true, if_false]
theorem encodeUtf8_4 (ch : Nat) (h1 : 0x10000 ≤ ch) (h2 : ch < 0x200000) :
    encodeUtf8 ch =
      [0xF0 + ch / 262144, 0x80 + ch / 4096 % 64, 0x80 + ch / 64 % 64, 0x80 + ch % 64] := by
  have a1 : ¬ ch < 0x80 := by omega
  have a2 : ¬ ch < 0x800 := by omega
  have a3 : ¬ ch < 0x10000 := by omega
  simp only [encodeUtf8, a1, a2, a3, h2, if_true, if_false]
theorem encodeUtf8_5 (ch : Nat) (h1 : 0x200000 ≤ ch) (h2 : ch < 0x4000000) :
    encodeUtf8 ch =
      [0xF8 + ch / 16777216, 0x80 + ch / 262144 % 64, 0x80 + ch / 4096 % 64,
       0x80 + ch / 64 % 64, 0x80 + ch % 64] := by
  have a1 : ¬ ch < 0x80 := by omega
  have a2 : ¬ ch < 0x800 := by omega
  have a3 : ¬ ch < 0x10000 := by omega
  have a4 : ¬ ch < 0x200000 := by omega
  simp only [encodeUtf8, a1, a2, a3, a4, h2, if_true, if_false]
theorem encodeUtf8_6 (ch : Nat) (h1 : 0x4000000 ≤ ch) :
    encodeUtf8 ch =
      [0xFC + ch / 1073741824, 0x80 + ch / 16777216 % 64, 0x80 + ch / 262144 % 64,
       0x80 + ch / 4096 % 64, 0x80 + ch / 64 % 64, 0x80 + ch % 64] := by
  have a1 : ¬ ch < 0x80 := by omega
  have a2 : ¬ ch < 0x800 := by omega
  have a3 : ¬ ch < 0x10000 := by omega
  have a4 : ¬ ch < 0x200000 := by omega
  have a5 : ¬ ch < 0x4000000 := by omega
  simp only [encodeUtf8, a1, a2, a3, a4, a5, if_false]

/-- the accumulator of `decode_utf8` -/
abbrev accF : Nat → Nat → Nat := fun acc t => acc * 64 + t % 64

theorem decodeUtf8Body_nil (ov : Bool) : decodeUtf8Body ov [] = some [] := by
  rw [decodeUtf8Body]

theorem decodeUtf8Body_cons_lt (ov : Bool) (b : Nat) (rest : List Nat) (h : b < 0x80) :
    decodeUtf8Body ov (b :: rest) = (decodeUtf8Body ov rest).map (b :: ·) := by
  rw [decodeUtf8Body]; simp only [h, if_true]

theorem decodeUtf8Body_cons_lead (ov : Bool) (b : Nat) (rest : List Nat) (hi cnt : Nat)
    (h : ¬ b < 0x80) (hl : utf8Lead b = some (hi, cnt)) :
    decodeUtf8Body ov (b :: rest) =
      if (rest.take cnt).length = cnt ∧ (rest.take cnt).all isCont then
        if ov ∧ (rest.take cnt).foldl accF hi < utf8MinFor cnt then none
        else (decodeUtf8Body ov (rest.drop cnt)).map ((rest.take cnt).foldl accF hi :: ·)
      else none := by
  rw [decodeUtf8Body]; simp only [h, hl, if_false]

theorem decodeUtf8Body_cons_nolead (ov : Bool) (b : Nat) (rest : List Nat)
    (h : ¬ b < 0x80) (hl : utf8Lead b = none) : decodeUtf8Body ov (b :: rest) = none := by
  rw [decodeUtf8Body]; simp only [h, hl, if_false]

theorem decodeUtf8Body_lead_append (ov : Bool) (b hi cnt : Nat) (cs tl : List Nat) (ch : Nat)
    (nb : ¬ b < 0x80) (hl : utf8Lead b = some (hi, cnt)) (hlen : cs.length = cnt)
    (hc : cs.all isCont = true) (hch : cs.foldl accF hi = ch)
    (hmin : ov = true → ¬ ch < utf8MinFor cnt) :
    decodeUtf8Body ov (b :: (cs ++ tl)) = (decodeUtf8Body ov tl).map (ch :: ·) := by
  rw [decodeUtf8Body_cons_lead ov b _ hi cnt nb hl]
  have ht : (cs ++ tl).take cnt = cs := by rw [← hlen]; exact List.take_left
  have hd : (cs ++ tl).drop cnt = tl := by rw [← hlen]; exact List.drop_left
  rw [ht, hd, hch]
  have hno : ¬ (ov = true ∧ ch < utf8MinFor cnt) := fun h => hmin h.1 h.2
  simp only [hlen, hc, hno, and_self, if_true, if_false]

/-- per-character round trip, decode ∘ encode -/
theorem decodeUtf8Body_encode_append (ov : Bool) (ch : Nat) (h : ch < 2147483648) (tl : List Nat) :
    decodeUtf8Body ov (encodeUtf8 ch ++ tl) = (decodeUtf8Body ov tl).map (ch :: ·) := by
  by_cases h1 : ch < 0x80
  · rw [encodeUtf8_1 ch h1]
    exact decodeUtf8Body_cons_lt ov ch tl h1
  by_cases h2 : ch < 0x800
  · rw [encodeUtf8_2 ch (by omega) h2]
    have hb : (0xC0 + ch / 64) / 32 = 6 := by omega
    exact decodeUtf8Body_lead_append ov _ _ _ [0x80 + ch % 64] tl ch (by omega) (utf8Lead_1 _ hb) rfl
      (by simp only [List.all_cons, List.all_nil, Bool.and_true, isCont_iff]; omega)
      (by simp only [List.foldl_cons, List.foldl_nil, accF]; omega)
      (fun _ => by simp only [utf8MinFor]; omega)
  by_cases h3 : ch < 0x10000
  · rw [encodeUtf8_3 ch (by omega) h3]
    have hb : (0xE0 + ch / 4096) / 16 = 14 := by omega
    exact decodeUtf8Body_lead_append ov _ _ _ [0x80 + ch / 64 % 64, 0x80 + ch % 64] tl ch (by omega)
      (utf8Lead_2 _ hb) rfl
      (by simp only [List.all_cons, List.all_nil, Bool.and_true, Bool.and_eq_true, isCont_iff]; omega)
      (by simp only [List.foldl_cons, List.foldl_nil, accF]; omega)
      (fun _ => by simp only [utf8MinFor]; omega)
  by_cases h4 : ch < 0x200000
  · rw [encodeUtf8_4 ch (by omega) h4]
    have hb : (0xF0 + ch / 262144) / 8 = 30 := by omega
    exact decodeUtf8Body_lead_append ov _ _ _
      [0x80 + ch / 4096 % 64, 0x80 + ch / 64 % 64, 0x80 + ch % 64] tl ch (by omega)
      (utf8Lead_3 _ hb) rfl
      (by simp only [List.all_cons, List.all_nil, Bool.and_true, Bool.and_eq_true, isCont_iff]; omega)
      (by simp only [List.foldl_cons, List.foldl_nil, accF]; omega)
      (fun _ => by simp only [utf8MinFor]; omega)
  by_cases h5 : ch < 0x4000000
  · rw [encodeUtf8_5 ch (by omega) h5]
    have hb : (0xF8 + ch / 16777216) / 4 = 62 := by omega
    exact decodeUtf8Body_lead_append ov _ _ _
      [0x80 + ch / 262144 % 64, 0x80 + ch / 4096 % 64, 0x80 + ch / 64 % 64, 0x80 + ch % 64] tl ch
      (by omega) (utf8Lead_4 _ hb) rfl
      (by simp only [List.all_cons, List.all_nil, Bool.and_true, Bool.and_eq_true, isCont_iff]; omega)
      (by simp only [List.foldl_cons, List.foldl_nil, accF]; omega)
      (fun _ => by simp only [utf8MinFor]; omega)
  · rw [encodeUtf8_6 ch (by omega)]
    have hb : (0xFC + ch / 1073741824) / 2 = 126 := by omega
    exact decodeUtf8Body_lead_append ov _ _ _
      [0x80 + ch / 16777216 % 64, 0x80 + ch / 262144 % 64, 0x80 + ch / 4096 % 64,
       0x80 + ch / 64 % 64, 0x80 + ch % 64] tl ch
      (by omega) (utf8Lead_5 _ hb) rfl
      (by simp only [List.all_cons, List.all_nil, Bool.and_true, Bool.and_eq_true, isCont_iff]; omega)
      (by simp only [List.foldl_cons, List.foldl_nil, accF]; omega)
      (fun _ => by simp only [utf8MinFor]; omega)

theorem decodeUtf8Body_flatMap_encode (ov : Bool) (cps : List Nat) (h : CpsInt cps) :
    decodeUtf8Body ov (cps.flatMap encodeUtf8) = some cps := by
  induction cps with
  | nil => exact decodeUtf8Body_nil ov
  | cons c cs ih =>
    rw [List.flatMap_cons, decodeUtf8Body_encode_append ov c h.head, ih h.tail]
    rfl

/-- a decoded multi-byte sequence that is not overlong re-encodes to itself -/
theorem encodeUtf8_of_lead (b hi cnt : Nat) (cs : List Nat)
    (hl : utf8Lead b = some (hi, cnt)) (hlen : cs.length = cnt) (hc : cs.all isCont = true)
    (hmin : ¬ cs.foldl accF hi < utf8MinFor cnt) :
    encodeUtf8 (cs.foldl accF hi) = b :: cs := by
  rcases utf8Lead_inv b hi cnt hl with ⟨hb, rfl, rfl⟩ | ⟨hb, rfl, rfl⟩ | ⟨hb, rfl, rfl⟩ |
      ⟨hb, rfl, rfl⟩ | ⟨hb, rfl, rfl⟩
  · obtain ⟨c1, rfl⟩ := len_eq_1 hlen
    simp only [List.all_cons, List.all_nil, Bool.and_true, isCont_iff] at hc
    simp only [List.foldl_cons, List.foldl_nil, accF, utf8MinFor] at hmin ⊢
    rw [encodeUtf8_2 _ (by omega) (by omega)]
    congr 1
    · omega
    · congr 1; omega
  · obtain ⟨c1, c2, rfl⟩ := len_eq_2 hlen
    simp only [List.all_cons, List.all_nil, Bool.and_true, Bool.and_eq_true, isCont_iff] at hc
    simp only [List.foldl_cons, List.foldl_nil, accF, utf8MinFor] at hmin ⊢
    rw [encodeUtf8_3 _ (by omega) (by omega)]
    congr 1
    · omega
    congr 1
    · omega
    congr 1
    omega
  · obtain ⟨c1, c2, c3, rfl⟩ := len_eq_3 hlen
    simp only [List.all_cons, List.all_nil, Bool.and_true, Bool.and_eq_true, isCont_iff] at hc
    simp only [List.foldl_cons, List.foldl_nil, accF, utf8MinFor] at hmin ⊢
    rw [encodeUtf8_4 _ (by omega) (by omega)]
    congr 1
    · omega
    congr 1
    · omega
    congr 1
    · omega
    congr 1
    omega
  · obtain ⟨c1, c2, c3, c4, rfl⟩ := len_eq_4 hlen
    simp only [List.all_cons, List.all_nil, Bool.and_true, Bool.and_eq_true, isCont_iff] at hc
    simp only [List.foldl_cons, List.foldl_nil, accF, utf8MinFor] at hmin ⊢
    rw [encodeUtf8_5 _ (by omega) (by omega)]
    congr 1
    · omega
    congr 1
    · omega
    congr 1
    · omega
    congr 1
    · omega
    congr 1
    omega
  · obtain ⟨c1, c2, c3, c4, c5, rfl⟩ := len_eq_5 hlen
    simp only [List.all_cons, List.all_nil, Bool.and_true, Bool.and_eq_true, isCont_iff] at hc
    simp only [List.foldl_cons, List.foldl_nil, accF, utf8MinFor] at hmin ⊢
    rw [encodeUtf8_6 _ (by omega)]
    congr 1
    · omega
    congr 1
    · omega
    congr 1
    · omega
    congr 1
    · omega
    congr 1
    · omega
    congr 1
    omega

/-- one step of the decoder, inverted -/
theorem decodeUtf8Body_cons_some (b : Nat) (rest cps : List Nat)
    (h : decodeUtf8Body true (b :: rest) = some cps) :
    ∃ ch cps' n, cps = ch :: cps' ∧ encodeUtf8 ch = b :: rest.take n ∧
      decodeUtf8Body true (rest.drop n) = some cps' := by
  by_cases hb : b < 0x80
  · rw [decodeUtf8Body_cons_lt true b rest hb] at h
    cases hd : decodeUtf8Body true rest with
    | none => rw [hd] at h; cases h
    | some cps' =>
      rw [hd] at h
      refine ⟨b, cps', 0, ?_, ?_, ?_⟩
      · injection h with h; exact h.symm
      · rw [encodeUtf8_1 b hb]; rfl
      · exact hd
  · cases hl : utf8Lead b with
    | none => rw [decodeUtf8Body_cons_nolead true b rest hb hl] at h; cases h
    | some p =>
      obtain ⟨hi, cnt⟩ := p
      rw [decodeUtf8Body_cons_lead true b rest hi cnt hb hl] at h
      split at h
      · rename_i hcond
        split at h
        · cases h
        · rename_i hov
          have hmin : ¬ (rest.take cnt).foldl accF hi < utf8MinFor cnt := fun hlt => hov ⟨rfl, hlt⟩
          cases hd : decodeUtf8Body true (rest.drop cnt) with
          | none => rw [hd] at h; cases h
          | some cps' =>
            rw [hd] at h
            refine ⟨_, cps', cnt, ?_, encodeUtf8_of_lead b hi cnt _ hl hcond.1 hcond.2 hmin, hd⟩
            injection h with h; exact h.symm
      · cases h

theorem flatMap_encode_of_decodeUtf8Body (n : Nat) :
    ∀ (bs cps : List Nat), bs.length ≤ n → decodeUtf8Body true bs = some cps →
      cps.flatMap encodeUtf8 = bs := by
  induction n with
  | zero =>
    intro bs cps hlen h
    have : bs = [] := List.eq_nil_of_length_eq_zero (by omega)
    subst this
    rw [decodeUtf8Body_nil] at h
    injection h with h; subst h; rfl
  | succ n ih =>
    intro bs cps hlen h
    cases bs with
    | nil => rw [decodeUtf8Body_nil] at h; injection h with h; subst h; rfl
    | cons b rest =>
      obtain ⟨ch, cps', k, rfl, he, hd⟩ := decodeUtf8Body_cons_some b rest cps h
      have hl : (rest.drop k).length ≤ n := by
        simp only [List.length_cons, List.length_drop] at hlen ⊢; omega
      rw [List.flatMap_cons, he, ih _ _ hl hd, List.cons_append, List.take_append_drop]

/-! ### UTF-16: equation lemmas -/

theorem word_true (b0 b1 : Nat) : word true b0 b1 = b0 * 256 + b1 := rfl
theorem word_false (b0 b1 : Nat) : word false b0 b1 = b0 + b1 * 256 := rfl

theorem word_lt (be : Bool) (b0 b1 : Nat) (h0 : b0 < 256) (h1 : b1 < 256) : word be b0 b1 < 65536 := by
  cases be
  · rw [word_false]; omega
  · rw [word_true]; omega

theorem writeByte_lt (v : Nat) (h : v < 256) : writeByte v = [v] := by
  simp only [writeByte, h, if_true]

theorem flatMap_writeByte (bs : List Nat) (h : BytesOK bs) : bs.flatMap writeByte = bs := by
  induction bs with
  | nil => rfl
  | cons b bs ih => rw [List.flatMap_cons, writeByte_lt b h.head, ih h.tail]; rfl

theorem decodeUtf16Body_nil (be : Bool) : decodeUtf16Body be [] = some [] := by
  rw [decodeUtf16Body]

theorem decodeUtf16Body_single (be : Bool) (b : Nat) : decodeUtf16Body be [b] = none := by
  rw [decodeUtf16Body]

theorem decodeUtf16Body_bmp (be : Bool) (b0 b1 : Nat) (rest : List Nat)
    (h : word be b0 b1 < 0xD800 ∨ 0xE000 ≤ word be b0 b1) :
    decodeUtf16Body be (b0 :: b1 :: rest) = (decodeUtf16Body be rest).map (word be b0 b1 :: ·) := by
  have h1 : ¬ word be b0 b1 / 1024 = 54 := by omega
  have h2 : word be b0 b1 < 0xD800 ∨ word be b0 b1 ≥ 0xE000 := by omega
  rw [decodeUtf16Body.eq_def]
  simp only [h1, h2, if_true, if_false]

theorem decodeUtf16Body_pair (be : Bool) (b0 b1 c0 c1 : Nat) (rest : List Nat)
    (h1 : word be b0 b1 / 1024 = 54) (h2 : word be c0 c1 / 1024 = 55) :
    decodeUtf16Body be (b0 :: b1 :: c0 :: c1 :: rest) =
      (decodeUtf16Body be rest).map
        ((word be b0 b1 % 1024 * 1024 + word be c0 c1 % 1024 + 0x10000) :: ·) := by
  rw [decodeUtf16Body]
  simp only [h1, h2, if_true]

theorem decodeUtf16Body_low_first (be : Bool) (b0 b1 : Nat) (rest : List Nat)
    (h1 : 0xDC00 ≤ word be b0 b1) (h2 : word be b0 b1 < 0xE000) :
    decodeUtf16Body be (b0 :: b1 :: rest) = none := by
  have a1 : ¬ word be b0 b1 / 1024 = 54 := by omega
  have a2 : ¬ (word be b0 b1 < 0xD800 ∨ word be b0 b1 ≥ 0xE000) := by omega
  rw [decodeUtf16Body.eq_def]
  simp only [a1, a2, if_false]

theorem decodeUtf16Body_high_end (be : Bool) (b0 b1 : Nat) (rest : List Nat)
    (h1 : word be b0 b1 / 1024 = 54) (hr : rest.length < 2) :
    decodeUtf16Body be (b0 :: b1 :: rest) = none := by
  rcases rest with _ | ⟨c0, _ | ⟨c1, r⟩⟩
  · rw [decodeUtf16Body.eq_def]; simp only [h1, if_true]
  · rw [decodeUtf16Body.eq_def]; simp only [h1, if_true]
  · simp only [List.length_cons] at hr; omega

theorem decodeUtf16Body_high_nonlow (be : Bool) (b0 b1 c0 c1 : Nat) (rest : List Nat)
    (h1 : word be b0 b1 / 1024 = 54) (h2 : ¬ word be c0 c1 / 1024 = 55) :
    decodeUtf16Body be (b0 :: b1 :: c0 :: c1 :: rest) = none := by
  rw [decodeUtf16Body]
  simp only [h1, h2, if_true, if_false]

theorem writeUtf16_bmp_be (ch : Nat) (h : ch < 0xD800 ∨ (0xE000 ≤ ch ∧ ch < 0x10000)) :
    writeUtf16 true ch = [ch / 256, ch % 256] := by
  simp only [writeUtf16, h, if_true]
  rw [writeByte_lt _ (by omega), writeByte_lt _ (by omega)]; rfl

theorem writeUtf16_bmp_le (ch : Nat) (h : ch < 0xD800 ∨ (0xE000 ≤ ch ∧ ch < 0x10000)) :
    writeUtf16 false ch = [ch % 256, ch / 256] := by
  simp only [writeUtf16, h, if_true, Bool.false_eq_true, if_false]
  rw [writeByte_lt _ (by omega), writeByte_lt _ (by omega)]; rfl

theorem writeUtf16_supp_be (ch : Nat) (h1 : 0x10000 ≤ ch) (h2 : ch < 0x110000) :
    writeUtf16 true ch =
      [(0xD800 + (ch - 0x10000) / 1024) / 256, (0xD800 + (ch - 0x10000) / 1024) % 256,
       (0xDC00 + (ch - 0x10000) % 1024) / 256, (0xDC00 + (ch - 0x10000) % 1024) % 256] := by
  have a : ¬ (ch < 0xD800 ∨ (0xE000 ≤ ch ∧ ch < 0x10000)) := by omega
  have b : 0x10000 ≤ ch ∧ ch < 0x110000 := ⟨h1, h2⟩
  simp only [writeUtf16, a, b, if_true, if_false]
  rw [writeByte_lt _ (by omega), writeByte_lt _ (by omega), writeByte_lt _ (by omega),
    writeByte_lt _ (by omega)]; rfl

theorem writeUtf16_supp_le (ch : Nat) (h1 : 0x10000 ≤ ch) (h2 : ch < 0x110000) :
    writeUtf16 false ch =
      [(0xD800 + (ch - 0x10000) / 1024) % 256, (0xD800 + (ch - 0x10000) / 1024) / 256,
       (0xDC00 + (ch - 0x10000) % 1024) % 256, (0xDC00 + (ch - 0x10000) % 1024) / 256] := by
  have a : ¬ (ch < 0xD800 ∨ (0xE000 ≤ ch ∧ ch < 0x10000)) := by omega
  have b : 0x10000 ≤ ch ∧ ch < 0x110000 := ⟨h1, h2⟩
  simp only [writeUtf16, a, b, if_false, Bool.false_eq_true]
  rw [writeByte_lt _ (by omega), writeByte_lt _ (by omega), writeByte_lt _ (by omega),
    writeByte_lt _ (by omega)]; rfl

theorem writeUtf16_nonscalar (be : Bool) (ch : Nat) (h : ¬ IsScalar ch) : writeUtf16 be ch = [] := by
  have h' : ¬ (ch < 0xD800 ∨ (0xE000 ≤ ch ∧ ch < 0x110000)) := h
  have a : ¬ (ch < 0xD800 ∨ (0xE000 ≤ ch ∧ ch < 0x10000)) := by omega
  have b : ¬ (0x10000 ≤ ch ∧ ch < 0x110000) := by omega
  simp only [writeUtf16, a, b, if_false]

/-- per-character round trip, decode ∘ encode -/
theorem decodeUtf16Body_write_append (be : Bool) (ch : Nat) (h : IsScalar ch) (tl : List Nat) :
    decodeUtf16Body be (writeUtf16 be ch ++ tl) = (decodeUtf16Body be tl).map (ch :: ·) := by
  have hs := h.nat
  by_cases hb : ch < 0x10000
  · have hb' : ch < 0xD800 ∨ (0xE000 ≤ ch ∧ ch < 0x10000) := by omega
    cases be
    · rw [writeUtf16_bmp_le ch hb']
      have hw : word false (ch % 256) (ch / 256) = ch := by rw [word_false]; omega
      have := decodeUtf16Body_bmp false (ch % 256) (ch / 256) tl (by rw [hw]; omega)
      rw [hw] at this; exact this
    · rw [writeUtf16_bmp_be ch hb']
      have hw : word true (ch / 256) (ch % 256) = ch := by rw [word_true]; omega
      have := decodeUtf16Body_bmp true (ch / 256) (ch % 256) tl (by rw [hw]; omega)
      rw [hw] at this; exact this
  · have h1 : 0x10000 ≤ ch := by omega
    have h2 : ch < 0x110000 := by omega
    cases be
    · rw [writeUtf16_supp_le ch h1 h2]
      have hw1 : word false ((0xD800 + (ch - 0x10000) / 1024) % 256) ((0xD800 + (ch - 0x10000) / 1024) / 256)
          = 0xD800 + (ch - 0x10000) / 1024 := by rw [word_false]; omega
      have hw2 : word false ((0xDC00 + (ch - 0x10000) % 1024) % 256) ((0xDC00 + (ch - 0x10000) % 1024) / 256)
          = 0xDC00 + (ch - 0x10000) % 1024 := by rw [word_false]; omega
      have := decodeUtf16Body_pair false _ _ _ _ tl (by rw [hw1]; omega) (by rw [hw2]; omega)
      rw [hw1, hw2] at this
      have e : (0xD800 + (ch - 0x10000) / 1024) % 1024 * 1024 + (0xDC00 + (ch - 0x10000) % 1024) % 1024
          + 0x10000 = ch := by omega
      rw [e] at this; exact this
    · rw [writeUtf16_supp_be ch h1 h2]
      have hw1 : word true ((0xD800 + (ch - 0x10000) / 1024) / 256) ((0xD800 + (ch - 0x10000) / 1024) % 256)
          = 0xD800 + (ch - 0x10000) / 1024 := by rw [word_true]; omega
      have hw2 : word true ((0xDC00 + (ch - 0x10000) % 1024) / 256) ((0xDC00 + (ch - 0x10000) % 1024) % 256)
          = 0xDC00 + (ch - 0x10000) % 1024 := by rw [word_true]; omega
      have := decodeUtf16Body_pair true _ _ _ _ tl (by rw [hw1]; omega) (by rw [hw2]; omega)
      rw [hw1, hw2] at this
      have e : (0xD800 + (ch - 0x10000) / 1024) % 1024 * 1024 + (0xDC00 + (ch - 0x10000) % 1024) % 1024
          + 0x10000 = ch := by omega
      rw [e] at this; exact this

theorem decodeUtf16Body_flatMap_write (be : Bool) (cps : List Nat) (h : Scalars cps) :
    decodeUtf16Body be (cps.flatMap (writeUtf16 be)) = some cps := by
  induction cps with
  | nil => exact decodeUtf16Body_nil be
  | cons c cs ih =>
    rw [List.flatMap_cons, decodeUtf16Body_write_append be c h.head, ih h.tail]
    rfl

theorem list2_ext {α} {a a' b b' : α} (h1 : a = a') (h2 : b = b') : [a, b] = [a', b'] := by
  rw [h1, h2]
theorem list4_ext {α} {a a' b b' c c' d d' : α} (h1 : a = a') (h2 : b = b') (h3 : c = c')
    (h4 : d = d') : [a, b, c, d] = [a', b', c', d'] := by
  rw [h1, h2, h3, h4]

theorem writeUtf16_pair (be : Bool) (b0 b1 c0 c1 : Nat) (h0 : b0 < 256) (h1 : b1 < 256)
    (hc0 : c0 < 256) (hc1 : c1 < 256) (hhi : word be b0 b1 / 1024 = 54)
    (hlo : word be c0 c1 / 1024 = 55) :
    writeUtf16 be (word be b0 b1 % 1024 * 1024 + word be c0 c1 % 1024 + 0x10000) =
      [b0, b1, c0, c1] := by
  generalize hch : word be b0 b1 % 1024 * 1024 + word be c0 c1 % 1024 + 0x10000 = ch
  have hge : 0x10000 ≤ ch := by omega
  have hlt : ch < 0x110000 := by omega
  cases be
  · simp only [word_false] at hhi hlo hch
    rw [writeUtf16_supp_le ch hge hlt]
    exact list4_ext (by omega) (by omega) (by omega) (by omega)
  · simp only [word_true] at hhi hlo hch
    rw [writeUtf16_supp_be ch hge hlt]
    exact list4_ext (by omega) (by omega) (by omega) (by omega)

/-- one step of the UTF-16 decoder, inverted -/
theorem decodeUtf16Body_cons_some (be : Bool) (b0 b1 : Nat) (rest cps : List Nat)
    (h0 : b0 < 256) (h1 : b1 < 256) (hr : BytesOK rest)
    (h : decodeUtf16Body be (b0 :: b1 :: rest) = some cps) :
    ∃ ch cps' n, cps = ch :: cps' ∧ IsScalar ch ∧ writeUtf16 be ch = b0 :: b1 :: rest.take n ∧
      decodeUtf16Body be (rest.drop n) = some cps' := by
  have hw := word_lt be b0 b1 h0 h1
  by_cases hhi : word be b0 b1 / 1024 = 54
  · rcases rest with _ | ⟨c0, _ | ⟨c1, r⟩⟩
    · rw [decodeUtf16Body_high_end be b0 b1 _ hhi (by simp)] at h; cases h
    · rw [decodeUtf16Body_high_end be b0 b1 _ hhi (by simp)] at h; cases h
    · by_cases hlo : word be c0 c1 / 1024 = 55
      · rw [decodeUtf16Body_pair be b0 b1 c0 c1 r hhi hlo] at h
        have hc0 : c0 < 256 := hr.head
        have hc1 : c1 < 256 := hr.tail.head
        cases hd : decodeUtf16Body be r with
        | none => rw [hd] at h; cases h
        | some cps' =>
          rw [hd] at h
          injection h with h
          refine ⟨_, cps', 2, h.symm, ?_, ?_, hd⟩
          · apply IsScalar.of_nat; omega
          · exact writeUtf16_pair be b0 b1 c0 c1 h0 h1 hc0 hc1 hhi hlo
      · rw [decodeUtf16Body_high_nonlow be b0 b1 c0 c1 r hhi hlo] at h; cases h
  · by_cases hbmp : word be b0 b1 < 0xD800 ∨ 0xE000 ≤ word be b0 b1
    · rw [decodeUtf16Body_bmp be b0 b1 rest hbmp] at h
      cases hd : decodeUtf16Body be rest with
      | none => rw [hd] at h; cases h
      | some cps' =>
        rw [hd] at h
        injection h with h
        refine ⟨_, cps', 0, h.symm, ?_, ?_, hd⟩
        · apply IsScalar.of_nat; omega
        · cases be
          · rw [word_false] at hbmp hw ⊢
            rw [writeUtf16_bmp_le _ (by omega)]
            simp only [List.take_zero]
            exact list2_ext (by omega) (by omega)
          · rw [word_true] at hbmp hw ⊢
            rw [writeUtf16_bmp_be _ (by omega)]
            simp only [List.take_zero]
            exact list2_ext (by omega) (by omega)
    · rw [decodeUtf16Body_low_first be b0 b1 rest (by omega) (by omega)] at h; cases h

theorem flatMap_write_of_decodeUtf16Body (be : Bool) (n : Nat) :
    ∀ (bs cps : List Nat), bs.length ≤ n → BytesOK bs → decodeUtf16Body be bs = some cps →
      cps.flatMap (writeUtf16 be) = bs ∧ Scalars cps := by
  induction n with
  | zero =>
    intro bs cps hlen _ h
    have : bs = [] := List.eq_nil_of_length_eq_zero (by omega)
    subst this
    rw [decodeUtf16Body_nil] at h
    injection h with h; subst h
    exact ⟨rfl, fun _ hc => nomatch hc⟩
  | succ n ih =>
    intro bs cps hlen hb h
    rcases bs with _ | ⟨b0, _ | ⟨b1, rest⟩⟩
    · rw [decodeUtf16Body_nil] at h; injection h with h; subst h
      exact ⟨rfl, fun _ hc => nomatch hc⟩
    · rw [decodeUtf16Body_single] at h; cases h
    · obtain ⟨ch, cps', k, rfl, hsc, he, hd⟩ :=
        decodeUtf16Body_cons_some be b0 b1 rest cps hb.head hb.tail.head hb.tail.tail h
      have hl : (rest.drop k).length ≤ n := by
        simp only [List.length_cons, List.length_drop] at hlen ⊢; omega
      obtain ⟨ih1, ih2⟩ := ih _ _ hl (hb.tail.tail.drop k) hd
      refine ⟨?_, ?_⟩
      · rw [List.flatMap_cons, he, ih1, List.cons_append, List.cons_append, List.take_append_drop]
      · intro c hc
        rcases List.mem_cons.1 hc with rfl | hc
        · exact hsc
        · exact ih2 c hc

/-! ### BOM detection and `decode_unicode` -/

theorem decodeBom_cases (bs : List Nat) :
    (decodeBom bs = some .utf16be ∧ ∃ r, bs = 0xfe :: 0xff :: r) ∨
    (decodeBom bs = some .utf16le ∧ ∃ r, bs = 0xff :: 0xfe :: r) ∨
    (decodeBom bs = some .utf8 ∧ ∃ r, bs = 0xef :: 0xbb :: 0xbf :: r) ∨
    (decodeBom bs = none ∧ (∀ r, bs ≠ 0xfe :: 0xff :: r) ∧ (∀ r, bs ≠ 0xff :: 0xfe :: r) ∧
      (∀ r, bs ≠ 0xef :: 0xbb :: 0xbf :: r)) := by
  unfold decodeBom
  split
  · exact Or.inl ⟨rfl, _, rfl⟩
  · exact Or.inr (Or.inl ⟨rfl, _, rfl⟩)
  · exact Or.inr (Or.inr (Or.inl ⟨rfl, _, rfl⟩))
  · rename_i h1 h2 h3
    exact Or.inr (Or.inr (Or.inr ⟨rfl, fun r e => h1 r e, fun r e => h2 r e, fun r e => h3 r e⟩))

theorem hasUtf8Bom_cons (r : List Nat) : hasUtf8Bom (0xef :: 0xbb :: 0xbf :: r) = true := rfl

theorem hasUtf8Bom_false (bs : List Nat) (h : ∀ r, bs ≠ 0xef :: 0xbb :: 0xbf :: r) :
    hasUtf8Bom bs = false := by
  unfold hasUtf8Bom
  split
  · exact absurd rfl (h _)
  · rfl

theorem decodeUtf16_be (r : List Nat) (hl : r.length % 2 = 0) :
    decodeUtf16 (0xfe :: 0xff :: r) = (decodeUtf16Body true r).map (Enc.utf16be, ·) := by
  unfold decodeUtf16
  have h1 : ¬ (0xfe :: 0xff :: r).length % 2 = 1 := by simp only [List.length_cons]; omega
  have h2 : ¬ (0xfe :: 0xff :: r).length < 2 := by simp only [List.length_cons]; omega
  simp only [h1, h2, if_false]

theorem decodeUtf16_le (r : List Nat) (hl : r.length % 2 = 0) :
    decodeUtf16 (0xff :: 0xfe :: r) = (decodeUtf16Body false r).map (Enc.utf16le, ·) := by
  unfold decodeUtf16
  have h1 : ¬ (0xff :: 0xfe :: r).length % 2 = 1 := by simp only [List.length_cons]; omega
  have h2 : ¬ (0xff :: 0xfe :: r).length < 2 := by simp only [List.length_cons]; omega
  simp only [h1, h2, if_false]

theorem decodeUtf16_odd (bs : List Nat) (hl : bs.length % 2 = 1) : decodeUtf16 bs = none := by
  unfold decodeUtf16
  simp only [hl, if_true]

theorem decodeUtf16_nobom (bs : List Nat) (e : Enc) (cps : List Nat)
    (h1 : ∀ r, bs ≠ 0xfe :: 0xff :: r) (h2 : ∀ r, bs ≠ 0xff :: 0xfe :: r)
    (h : decodeUtf16 bs = some (e, cps)) :
    (e = .utf16be ∧ decodeUtf16Body true bs = some cps) ∨
    (e = .utf16le ∧ decodeUtf16Body false bs = some cps) := by
  unfold decodeUtf16 at h
  split at h
  · cases h
  split at h
  · cases h
  split at h
  · exact absurd rfl (h1 _)
  · exact absurd rfl (h2 _)
  · split at h
    · rw [Option.map_eq_some_iff] at h
      obtain ⟨a, ha, he⟩ := h
      injection he with he1 he2
      exact Or.inl ⟨he1.symm, by rw [ha, he2]⟩
    · split at h
      · rw [Option.map_eq_some_iff] at h
        obtain ⟨a, ha, he⟩ := h
        injection he with he1 he2
        exact Or.inr ⟨he1.symm, by rw [ha, he2]⟩
      · cases h
  · cases h
theorem decodeUtf8_bom (ov : Bool) (r : List Nat) :
    decodeUtf8 ov (0xef :: 0xbb :: 0xbf :: r) = decodeUtf8Body ov r := by
  unfold decodeUtf8
  rw [hasUtf8Bom_cons]
  rfl

theorem decodeUtf8_nobom (ov : Bool) (bs : List Nat) (h : ∀ r, bs ≠ 0xef :: 0xbb :: 0xbf :: r) :
    decodeUtf8 ov bs = decodeUtf8Body ov bs := by
  unfold decodeUtf8
  rw [hasUtf8Bom_false bs h]
  rfl

/-- complete inversion of a successful `decode_unicode` -/
theorem decodeUnicode_cases (ov : Bool) (bs : List Nat) (e : Enc) (bom : Bool) (cps : List Nat)
    (h : decodeUnicode ov bs = some (e, bom, cps)) :
    (∃ r, bs = 0xef :: 0xbb :: 0xbf :: r ∧ e = .utf8 ∧ bom = true ∧ decodeUtf8Body ov r = some cps) ∨
    (∃ r, bs = 0xfe :: 0xff :: r ∧ e = .utf16be ∧ bom = true ∧ decodeUtf16Body true r = some cps) ∨
    (∃ r, bs = 0xff :: 0xfe :: r ∧ e = .utf16le ∧ bom = true ∧ decodeUtf16Body false r = some cps) ∨
    (e = .ascii ∧ bom = false ∧ cps = bs ∧ nonAsciiCnt bs + zeroCnt bs = 0) ∨
    (e = .utf16be ∧ bom = false ∧ decodeUtf16Body true bs = some cps) ∨
    (e = .utf16le ∧ bom = false ∧ decodeUtf16Body false bs = some cps) ∨
    (e = .utf8 ∧ bom = false ∧ decodeUtf8Body ov bs = some cps) ∨
    (e = .byte ∧ bom = false ∧ cps = bs) := by
  unfold decodeUnicode at h
  rcases decodeBom_cases bs with ⟨hb, r, rfl⟩ | ⟨hb, r, rfl⟩ | ⟨hb, r, rfl⟩ | ⟨hb, n1, n2, n3⟩
  · rw [hb] at h
    simp only [Option.map_eq_some_iff] at h
    obtain ⟨⟨e', cps'⟩, ha, he⟩ := h
    simp only [Prod.mk.injEq] at he
    obtain ⟨rfl, rfl, rfl⟩ := he
    by_cases hl : r.length % 2 = 0
    · rw [decodeUtf16_be r hl, Option.map_eq_some_iff] at ha
      obtain ⟨a, ha, he⟩ := ha
      injection he with he1 he2
      exact Or.inr (Or.inl ⟨r, rfl, he1.symm, rfl, by rw [ha, he2]⟩)
    · rw [decodeUtf16_odd _ (by simp only [List.length_cons]; omega)] at ha; cases ha
  · rw [hb] at h
    simp only [Option.map_eq_some_iff] at h
    obtain ⟨⟨e', cps'⟩, ha, he⟩ := h
    simp only [Prod.mk.injEq] at he
    obtain ⟨rfl, rfl, rfl⟩ := he
    by_cases hl : r.length % 2 = 0
    · rw [decodeUtf16_le r hl, Option.map_eq_some_iff] at ha
      obtain ⟨a, ha, he⟩ := ha
      injection he with he1 he2
      exact Or.inr (Or.inr (Or.inl ⟨r, rfl, he1.symm, rfl, by rw [ha, he2]⟩))
    · rw [decodeUtf16_odd _ (by simp only [List.length_cons]; omega)] at ha; cases ha
  · rw [hb] at h
    simp only [Option.map_eq_some_iff] at h
    obtain ⟨cps', ha, he⟩ := h
    simp only [Prod.mk.injEq] at he
    obtain ⟨rfl, rfl, rfl⟩ := he
    rw [decodeUtf8_bom] at ha
    exact Or.inl ⟨r, rfl, rfl, rfl, ha⟩
  · rw [hb, decodeUtf8_nobom ov bs n3] at h
    simp only at h
    have try8 : ∀ (x : Option (Enc × Bool × List CP)),
        x = (match decodeUtf8Body ov bs with
          | some cps => some (Enc.utf8, false, cps)
          | none => some (Enc.byte, false, bs)) → x = some (e, bom, cps) →
        (e = .utf8 ∧ bom = false ∧ decodeUtf8Body ov bs = some cps) ∨
        (e = .byte ∧ bom = false ∧ cps = bs) := by
      intro x hx hx'
      rw [hx'] at hx
      cases hd : decodeUtf8Body ov bs with
      | none =>
        rw [hd] at hx; simp only [Option.some.injEq, Prod.mk.injEq] at hx
        exact Or.inr ⟨hx.1, hx.2.1, hx.2.2⟩
      | some c =>
        rw [hd] at hx; simp only [Option.some.injEq, Prod.mk.injEq] at hx
        exact Or.inl ⟨hx.1, hx.2.1, by rw [hx.2.2]⟩
    split at h
    · rename_i hz
      simp only [Option.some.injEq, Prod.mk.injEq] at h
      exact Or.inr (Or.inr (Or.inr (Or.inl ⟨h.1.symm, h.2.1.symm, h.2.2.symm, hz⟩)))
    · split at h
      · split at h
        · rename_i r hr
          simp only [Option.some.injEq, Prod.mk.injEq] at h
          obtain ⟨h1, h2, h3⟩ := h
          rcases decodeUtf16_nobom bs r.1 r.2 n1 n2 hr with ⟨he, hd⟩ | ⟨he, hd⟩
          · exact Or.inr (Or.inr (Or.inr (Or.inr (Or.inl ⟨by rw [← h1, he], h2.symm, by rw [← h3, hd]⟩))))
          · exact Or.inr (Or.inr (Or.inr (Or.inr (Or.inr (Or.inl ⟨by rw [← h1, he], h2.symm, by rw [← h3, hd]⟩)))))
        · exact Or.inr (Or.inr (Or.inr (Or.inr (Or.inr (Or.inr (try8 _ rfl h))))))
      · exact Or.inr (Or.inr (Or.inr (Or.inr (Or.inr (Or.inr (try8 _ rfl h))))))
/-! ### writers -/

theorem writeBom_utf8 : writeBom .utf8 = [0xef, 0xbb, 0xbf] := rfl
theorem writeBom_utf16be : writeBom .utf16be = [0xfe, 0xff] := by
  show writeUtf16 true 0xfeff = _
  rw [writeUtf16_bmp_be _ (by omega)]
theorem writeBom_utf16le : writeBom .utf16le = [0xff, 0xfe] := by
  show writeUtf16 false 0xfeff = _
  rw [writeUtf16_bmp_le _ (by omega)]
theorem writeBom_ascii : writeBom .ascii = [] := rfl
theorem writeBom_byte : writeBom .byte = [] := rfl

theorem flatMap_writeUtf8 (cps : List Nat) :
    cps.flatMap writeUtf8 = (cps.flatMap encodeUtf8).flatMap writeByte := by
  rw [List.flatMap_assoc]; rfl

theorem flatMap_writeChar_utf8 (cps : List Nat) :
    cps.flatMap (writeChar .utf8) = (cps.flatMap encodeUtf8).flatMap writeByte :=
  flatMap_writeUtf8 cps

theorem flatMap_writeChar_ascii (bs : List Nat) (h : BytesOK bs) :
    bs.flatMap (writeChar .ascii) = bs := flatMap_writeByte bs h

theorem flatMap_writeChar_byte (bs : List Nat) (h : BytesOK bs) :
    bs.flatMap (writeChar .byte) = bs := by
  induction bs with
  | nil => rfl
  | cons b bs ih =>
    have hb : b < 256 := h.head
    have e : b % 256 = b := by omega
    rw [List.flatMap_cons, ih h.tail]
    show writeByte (b % 256) ++ bs = _
    rw [e, writeByte_lt b hb]; rfl

theorem encPolicy_default (e : Enc) (bom : Bool) :
    encPolicy {} e bom = (e, match e with | .utf16le => true | .utf16be => true | _ => bom) := by
  cases e <;> rfl

/-! ### the identity-rewrite theorem -/

theorem identity_rewrite (bs : List Nat) (hb : BytesOK bs) (e : Enc) (bom : Bool) (cps : List Nat)
    (h : decodeUnicode true bs = some (e, bom, cps)) :
    emit (encPolicy {} e bom).1 (encPolicy {} e bom).2 cps
      = (if (e = .utf16le ∨ e = .utf16be) ∧ bom = false then writeBom e else []) ++ bs := by
  rw [encPolicy_default]
  rcases decodeUnicode_cases true bs e bom cps h with
    ⟨r, rfl, rfl, rfl, hd⟩ | ⟨r, rfl, rfl, rfl, hd⟩ | ⟨r, rfl, rfl, rfl, hd⟩ | ⟨rfl, rfl, rfl, _⟩ |
    ⟨rfl, rfl, hd⟩ | ⟨rfl, rfl, hd⟩ | ⟨rfl, rfl, hd⟩ | ⟨rfl, rfl, rfl⟩
  · -- UTF-8 with BOM
    have hr : BytesOK r := hb.tail.tail.tail
    have := flatMap_encode_of_decodeUtf8Body _ r cps (Nat.le_refl _) hd
    simp only [emit, if_true, writeBom_utf8, flatMap_writeChar_utf8, this, flatMap_writeByte r hr]
    simp
  · -- UTF-16 BE with BOM
    have hr : BytesOK r := hb.tail.tail
    have := (flatMap_write_of_decodeUtf16Body true _ r cps (Nat.le_refl _) hr hd).1
    simp only [emit, if_true, writeBom_utf16be]
    show _ ++ cps.flatMap (writeUtf16 true) = _
    rw [this]; simp
  · -- UTF-16 LE with BOM
    have hr : BytesOK r := hb.tail.tail
    have := (flatMap_write_of_decodeUtf16Body false _ r cps (Nat.le_refl _) hr hd).1
    simp only [emit, if_true, writeBom_utf16le]
    show _ ++ cps.flatMap (writeUtf16 false) = _
    rw [this]; simp
  · -- ASCII
    simp only [emit, flatMap_writeChar_ascii _ hb]
    simp
  · -- UTF-16 BE, no BOM
    have := (flatMap_write_of_decodeUtf16Body true _ bs cps (Nat.le_refl _) hb hd).1
    simp only [emit, if_true]
    show _ ++ cps.flatMap (writeUtf16 true) = _
    rw [this]; simp
  · -- UTF-16 LE, no BOM
    have := (flatMap_write_of_decodeUtf16Body false _ bs cps (Nat.le_refl _) hb hd).1
    simp only [emit, if_true]
    show _ ++ cps.flatMap (writeUtf16 false) = _
    rw [this]; simp
  · -- UTF-8, no BOM
    have := flatMap_encode_of_decodeUtf8Body _ bs cps (Nat.le_refl _) hd
    simp only [emit, flatMap_writeChar_utf8, this, flatMap_writeByte bs hb]
    simp
  · -- BYTE
    simp only [emit, flatMap_writeChar_byte _ hb]
    simp

/-! ### policy table -/

theorem bom_policy_table (o : EncOpts) (e : Enc) (bom : Bool) :
    (encPolicy o e bom).1 = (if o.utf8Force ∨ (e = .byte ∧ o.utf8Byte) then Enc.utf8 else e) ∧
    (encPolicy o e bom).2 =
      (match (encPolicy o e bom).1 with
       | .utf16le => true
       | .utf16be => true
       | .utf8 => (match o.utf8Bom with | .remove => false | .ignore => bom | _ => true)
       | _ => bom) := by
  refine ⟨rfl, ?_⟩
  obtain ⟨ub, uby, uf⟩ := o
  cases uf <;> cases uby <;> cases e <;> cases ub <;> rfl

/-! ### detection -/

theorem decodeUnicode_utf8bom (ov : Bool) (r : List Nat) :
    decodeUnicode ov (0xef :: 0xbb :: 0xbf :: r) =
      (decodeUtf8Body ov r).map (fun cps => (Enc.utf8, true, cps)) := by
  unfold decodeUnicode
  have hb : decodeBom (0xef :: 0xbb :: 0xbf :: r) = some .utf8 := rfl
  rw [hb, decodeUtf8_bom]

theorem decodeUnicode_utf16be (ov : Bool) (r : List Nat) (hl : r.length % 2 = 0) :
    decodeUnicode ov (0xfe :: 0xff :: r) =
      (decodeUtf16Body true r).map (fun cps => (Enc.utf16be, true, cps)) := by
  unfold decodeUnicode
  have hb : decodeBom (0xfe :: 0xff :: r) = some .utf16be := rfl
  rw [hb, decodeUtf16_be r hl]
  simp only [Option.map_map]
  rfl

theorem decodeUnicode_utf16le (ov : Bool) (r : List Nat) (hl : r.length % 2 = 0) :
    decodeUnicode ov (0xff :: 0xfe :: r) =
      (decodeUtf16Body false r).map (fun cps => (Enc.utf16le, true, cps)) := by
  unfold decodeUnicode
  have hb : decodeBom (0xff :: 0xfe :: r) = some .utf16le := rfl
  rw [hb, decodeUtf16_le r hl]
  simp only [Option.map_map]
  rfl

theorem decodeUnicode_nobom_nozero (ov : Bool) (bs : List Nat) (hbom : decodeBom bs = none)
    (hna : nonAsciiCnt bs ≠ 0) (hz : zeroCnt bs = 0) :
    decodeUnicode ov bs =
      match decodeUtf8 ov bs with
      | some cps => some (.utf8, false, cps)
      | none => some (.byte, false, bs) := by
  unfold decodeUnicode
  have h1 : ¬ (nonAsciiCnt bs + 0 = 0) := by omega
  have h2 : ¬ (0 > bs.length / 4 ∧ 0 ≤ bs.length / 2) := by omega
  rw [hbom]
  simp only [hz, h1, h2, if_false]
  cases decodeUtf8 ov bs <;> rfl

theorem decodeUnicode_ascii (ov : Bool) (bs : List Nat) (hbom : decodeBom bs = none)
    (hna : nonAsciiCnt bs = 0) (hz : zeroCnt bs = 0) :
    decodeUnicode ov bs = some (.ascii, false, bs) := by
  unfold decodeUnicode
  have h1 : nonAsciiCnt bs + zeroCnt bs = 0 := by omega
  rw [hbom]
  simp only [h1, if_true]

/-! ### facts about the bytes produced by the encoders -/

/-- the first byte of `encodeUtf8 ch` -/
theorem encodeUtf8_head (ch : Nat) :
    ∃ (b : Nat) (tl : List Nat), encodeUtf8 ch = b :: tl ∧ (ch < 128 → b = ch) ∧ (128 ≤ ch → 128 ≤ b) ∧
      (ch < 2147483648 → b < 254) := by
  by_cases h1 : ch < 0x80
  · refine ⟨_, _, encodeUtf8_1 ch h1, ?_, ?_, ?_⟩ <;> omega
  by_cases h2 : ch < 0x800
  · refine ⟨_, _, encodeUtf8_2 ch (by omega) h2, ?_, ?_, ?_⟩ <;> omega
  by_cases h3 : ch < 0x10000
  · refine ⟨_, _, encodeUtf8_3 ch (by omega) h3, ?_, ?_, ?_⟩ <;> omega
  by_cases h4 : ch < 0x200000
  · refine ⟨_, _, encodeUtf8_4 ch (by omega) h4, ?_, ?_, ?_⟩ <;> omega
  by_cases h5 : ch < 0x4000000
  · refine ⟨_, _, encodeUtf8_5 ch (by omega) h5, ?_, ?_, ?_⟩ <;> omega
  · refine ⟨_, _, encodeUtf8_6 ch (by omega), ?_, ?_, ?_⟩ <;> omega

/-- UTF-8 encodings of non-zero code points contain no zero byte -/
theorem encodeUtf8_ne_zero (ch : Nat) (h0 : ch ≠ 0) (b : Nat) (hb : b ∈ encodeUtf8 ch) : b ≠ 0 := by
  by_cases h1 : ch < 0x80
  · rw [encodeUtf8_1 ch h1] at hb
    simp only [List.mem_cons, List.not_mem_nil, or_false] at hb
    omega
  by_cases h2 : ch < 0x800
  · rw [encodeUtf8_2 ch (by omega) h2] at hb
    simp only [List.mem_cons, List.not_mem_nil, or_false] at hb
    omega
  by_cases h3 : ch < 0x10000
  · rw [encodeUtf8_3 ch (by omega) h3] at hb
    simp only [List.mem_cons, List.not_mem_nil, or_false] at hb
    omega
  by_cases h4 : ch < 0x200000
  · rw [encodeUtf8_4 ch (by omega) h4] at hb
    simp only [List.mem_cons, List.not_mem_nil, or_false] at hb
    omega
  by_cases h5 : ch < 0x4000000
  · rw [encodeUtf8_5 ch (by omega) h5] at hb
    simp only [List.mem_cons, List.not_mem_nil, or_false] at hb
    omega
  · rw [encodeUtf8_6 ch (by omega)] at hb
    simp only [List.mem_cons, List.not_mem_nil, or_false] at hb
    omega

/-- only U+FEFF encodes to a byte string starting with the UTF-8 BOM -/
theorem encodeUtf8_prefix_bom (ch : Nat) (tl r : List Nat)
    (h : encodeUtf8 ch ++ tl = 0xef :: 0xbb :: 0xbf :: r) : ch = 0xFEFF := by
  by_cases h1 : ch < 0x80
  · rw [encodeUtf8_1 ch h1] at h
    simp only [List.cons_append, List.nil_append, List.cons.injEq] at h
    omega
  by_cases h2 : ch < 0x800
  · rw [encodeUtf8_2 ch (by omega) h2] at h
    simp only [List.cons_append, List.nil_append, List.cons.injEq] at h
    omega
  by_cases h3 : ch < 0x10000
  · rw [encodeUtf8_3 ch (by omega) h3] at h
    simp only [List.cons_append, List.nil_append, List.cons.injEq] at h
    omega
  by_cases h4 : ch < 0x200000
  · rw [encodeUtf8_4 ch (by omega) h4] at h
    simp only [List.cons_append, List.nil_append, List.cons.injEq] at h
    omega
  by_cases h5 : ch < 0x4000000
  · rw [encodeUtf8_5 ch (by omega) h5] at h
    simp only [List.cons_append, List.nil_append, List.cons.injEq] at h
    omega
  · rw [encodeUtf8_6 ch (by omega)] at h
    simp only [List.cons_append, List.nil_append, List.cons.injEq] at h
    omega

theorem encodeUtf8_feff : encodeUtf8 0xFEFF = [0xef, 0xbb, 0xbf] := by
  rw [encodeUtf8_3 _ (by omega) (by omega)]

theorem writeUtf16_length_even (be : Bool) (ch : Nat) : (writeUtf16 be ch).length % 2 = 0 := by
  by_cases hs : IsScalar ch
  · have hs' := hs.nat
    by_cases hb : ch < 0x10000
    · cases be
      · rw [writeUtf16_bmp_le ch (by omega)]; simp only [List.length_cons, List.length_nil]
      · rw [writeUtf16_bmp_be ch (by omega)]; simp only [List.length_cons, List.length_nil]
    · cases be
      · rw [writeUtf16_supp_le ch (by omega) (by omega)]; simp only [List.length_cons, List.length_nil]
      · rw [writeUtf16_supp_be ch (by omega) (by omega)]; simp only [List.length_cons, List.length_nil]
  · rw [writeUtf16_nonscalar be ch hs]; rfl

theorem flatMap_writeUtf16_length_even (be : Bool) (cps : List Nat) :
    (cps.flatMap (writeUtf16 be)).length % 2 = 0 := by
  induction cps with
  | nil => rfl
  | cons c cs ih =>
    have := writeUtf16_length_even be c
    rw [List.flatMap_cons, List.length_append]; omega

theorem zeroCnt_eq_zero (bs : List Nat) (h : ∀ b : Nat, b ∈ bs → b ≠ 0) : zeroCnt bs = 0 := by
  unfold zeroCnt
  rw [List.length_eq_zero_iff, List.filter_eq_nil_iff]
  intro (b : Nat) hb
  have := h b hb
  simpa using this

theorem nonAsciiCnt_eq_zero (bs : List Nat) (h : ∀ b : Nat, b ∈ bs → b < 128) : nonAsciiCnt bs = 0 := by
  unfold nonAsciiCnt
  rw [List.length_eq_zero_iff, List.filter_eq_nil_iff]
  intro (b : Nat) hb
  have := h b hb
  have goal : ¬ 128 ≤ b := by omega
  simpa using goal

theorem nonAsciiCnt_ne_zero (bs : List Nat) (b : Nat) (hb : b ∈ bs) (h : 128 ≤ b) :
    nonAsciiCnt bs ≠ 0 := by
  unfold nonAsciiCnt
  intro h0
  rw [List.length_eq_zero_iff, List.filter_eq_nil_iff] at h0
  have := h0 b hb
  have this' : ¬ 128 ≤ b := by simpa using this
  omega

/-! ### detection round trips -/

theorem detect_ascii (ov : Bool) (cps : List Nat) (hlt : ∀ c : Nat, c ∈ cps → c < 128)
    (h0 : ∀ c : Nat, c ∈ cps → c ≠ 0) :
    decodeUnicode ov cps = some (.ascii, false, cps) := by
  apply decodeUnicode_ascii ov cps ?_ (nonAsciiCnt_eq_zero cps hlt) (zeroCnt_eq_zero cps h0)
  rcases decodeBom_cases cps with ⟨_, r, rfl⟩ | ⟨_, r, rfl⟩ | ⟨_, r, rfl⟩ | ⟨hb, _⟩
  · have := hlt 0xfe (List.mem_cons_self ..); omega
  · have := hlt 0xff (List.mem_cons_self ..); omega
  · have := hlt 0xef (List.mem_cons_self ..); omega
  · exact hb

theorem detect_utf8bom (ov : Bool) (cps : List Nat) (h : CpsInt cps) :
    decodeUnicode ov ([0xef, 0xbb, 0xbf] ++ cps.flatMap encodeUtf8) = some (.utf8, true, cps) := by
  show decodeUnicode ov (0xef :: 0xbb :: 0xbf :: cps.flatMap encodeUtf8) = _
  rw [decodeUnicode_utf8bom, decodeUtf8Body_flatMap_encode ov cps h]
  rfl

theorem detect_utf16be (ov : Bool) (cps : List Nat) (h : Scalars cps) :
    decodeUnicode ov (writeBom .utf16be ++ cps.flatMap (writeUtf16 true)) =
      some (.utf16be, true, cps) := by
  rw [writeBom_utf16be]
  show decodeUnicode ov (0xfe :: 0xff :: cps.flatMap (writeUtf16 true)) = _
  rw [decodeUnicode_utf16be ov _ (flatMap_writeUtf16_length_even true cps),
    decodeUtf16Body_flatMap_write true cps h]
  rfl

theorem detect_utf16le (ov : Bool) (cps : List Nat) (h : Scalars cps) :
    decodeUnicode ov (writeBom .utf16le ++ cps.flatMap (writeUtf16 false)) =
      some (.utf16le, true, cps) := by
  rw [writeBom_utf16le]
  show decodeUnicode ov (0xff :: 0xfe :: cps.flatMap (writeUtf16 false)) = _
  rw [decodeUnicode_utf16le ov _ (flatMap_writeUtf16_length_even false cps),
    decodeUtf16Body_flatMap_write false cps h]
  rfl

theorem decodeBom_flatMap_encode (cps : List Nat) (h : CpsInt cps)
    (hhead : cps.head? ≠ some 0xFEFF) : decodeBom (cps.flatMap encodeUtf8) = none := by
  rcases decodeBom_cases (cps.flatMap encodeUtf8) with ⟨_, r, hr⟩ | ⟨_, r, hr⟩ | ⟨_, r, hr⟩ | ⟨hb, _⟩
  · cases cps with
    | nil => cases hr
    | cons c cs =>
      obtain ⟨b, tl, he, _, _, hlt⟩ := encodeUtf8_head c
      have := hlt h.head
      rw [List.flatMap_cons, he] at hr
      simp only [List.cons_append, List.cons.injEq] at hr
      omega
  · cases cps with
    | nil => cases hr
    | cons c cs =>
      obtain ⟨b, tl, he, _, _, hlt⟩ := encodeUtf8_head c
      have := hlt h.head
      rw [List.flatMap_cons, he] at hr
      simp only [List.cons_append, List.cons.injEq] at hr
      omega
  · cases cps with
    | nil => cases hr
    | cons c cs =>
      rw [List.flatMap_cons] at hr
      have := encodeUtf8_prefix_bom c _ r hr
      subst this
      exact absurd rfl hhead
  · exact hb

theorem detect_utf8 (ov : Bool) (cps : List Nat) (h : CpsInt cps)
    (h0 : ∀ c : Nat, c ∈ cps → c ≠ 0) (hna : ∃ c : Nat, c ∈ cps ∧ 128 ≤ c)
    (hhead : cps.head? ≠ some 0xFEFF) :
    decodeUnicode ov (cps.flatMap encodeUtf8) = some (.utf8, false, cps) := by
  have hbom := decodeBom_flatMap_encode cps h hhead
  have hz : zeroCnt (cps.flatMap encodeUtf8) = 0 := by
    apply zeroCnt_eq_zero
    intro b hb
    obtain ⟨c, hc, hbc⟩ := List.mem_flatMap.1 hb
    exact encodeUtf8_ne_zero c (h0 c hc) b hbc
  have hn : nonAsciiCnt (cps.flatMap encodeUtf8) ≠ 0 := by
    obtain ⟨c, hc, hge⟩ := hna
    obtain ⟨b, tl, he, _, hb, _⟩ := encodeUtf8_head c
    apply nonAsciiCnt_ne_zero _ b _ (hb hge)
    exact List.mem_flatMap.2 ⟨c, hc, by rw [he]; exact List.mem_cons_self ..⟩
  rw [decodeUnicode_nobom_nozero ov _ hbom hn hz]
  have hnb : ∀ r, cps.flatMap encodeUtf8 ≠ 0xef :: 0xbb :: 0xbf :: r := by
    intro r hr
    have : decodeBom (cps.flatMap encodeUtf8) = some .utf8 := by rw [hr]; rfl
    rw [hbom] at this; cases this
  rw [decodeUtf8_nobom ov _ hnb, decodeUtf8Body_flatMap_encode ov cps h]

/-- what happens when the hypothesis `head? ≠ U+FEFF` of `detect_utf8` fails: the leading
    U+FEFF is taken for a BOM and removed from the text -/
theorem detect_utf8_leading_feff (ov : Bool) (cps : List Nat) (h : CpsInt cps) :
    decodeUnicode ov ((0xFEFF :: cps).flatMap encodeUtf8) = some (.utf8, true, cps) := by
  rw [List.flatMap_cons, encodeUtf8_feff]
  exact detect_utf8bom ov cps h

theorem noEmbeddedZero_of_ne_zero (cps : List Nat) (h0 : ∀ c : Nat, c ∈ cps → c ≠ 0) :
    noEmbeddedZero cps = true := by
  unfold noEmbeddedZero
  rw [List.all_eq_true]
  intro (c : Nat) hc
  have := h0 c (List.dropLast_subset _ hc)
  simpa using this

/-- the historical decoder accepts the overlong form `C1 81` of `A` -/
theorem decodeUtf8Body_overlong_example : decodeUtf8Body false [0xC1, 0x81] = some [0x41] := by
  have h := decodeUtf8Body_lead_append false 0xC1 _ _ [0x81] [] 0x41 (by omega)
    (utf8Lead_1 0xC1 (by omega)) rfl
    (by simp only [List.all_cons, List.all_nil, Bool.and_true, isCont_iff])
    (by simp only [List.foldl_cons, List.foldl_nil, accF])
    (fun h => by cases h)
  rw [decodeUtf8Body_nil] at h
  exact h

end Unc
