import UncModel.FsProto
/-!
# Lemmas about `FsProto`: one frame lemma per part of `doSourceFile` (fixed code), composed bottom-up.

Each lemma says, for EVERY observation `o` of the part started in `f` (any subset of calls failing,
killed anywhere): what the target may hold, that the backup is untouched (or what it holds), and
that a hard failure never ends in exit status 0.
-/
namespace Unc

/-- a run that had a hard failure does not report success -/
def StatusOK (o : Obs) : Prop := o.hard = true → o.status ≠ some 0

/-- crash states of fault-free runs are observations of `Reach` (with no fault counted) -/
theorem crash_reach (p : Prog) : ∀ (f g : FS) (n : Nat) (hd : Bool),
    CrashFrom f p g → ∃ st, Reach f n hd p ⟨g, n, hd, st⟩ := by
  induction p with
  | done s =>
    intro f g n hd hc; simp only [CrashFrom] at hc; subst hc; exact ⟨some s, by simp [Reach]⟩
  | load p ok err iho ihe =>
    intro f g n hd hc
    simp only [CrashFrom] at hc
    rcases hc with rfl | hc
    · exact ⟨none, by simp [Reach]⟩
    · cases hg : f.get p with
      | none =>
        rw [hg] at hc; obtain ⟨st, h⟩ := ihe f g n hd hc
        exact ⟨st, by simp only [Reach, hg]; exact Or.inr (Or.inl h)⟩
      | some c =>
        rw [hg] at hc; obtain ⟨st, h⟩ := iho c f g n hd hc
        exact ⟨st, by simp only [Reach, hg]; exact Or.inr (Or.inl h)⟩
  | cmp res ih =>
    intro f g n hd hc
    simp only [CrashFrom] at hc
    rcases hc with rfl | hc
    · exact ⟨none, by simp [Reach]⟩
    · obtain ⟨st, h⟩ := ih _ f g n hd hc
      exact ⟨st, by simp only [Reach]; exact Or.inr (Or.inl h)⟩
  | mkdirs ok err iho _ =>
    intro f g n hd hc
    simp only [CrashFrom] at hc
    rcases hc with rfl | hc
    · exact ⟨none, by simp [Reach]⟩
    · obtain ⟨st, h⟩ := iho f g n hd hc
      exact ⟨st, by simp only [Reach]; exact Or.inr (Or.inl h)⟩
  | eff s ok err iho _ =>
    intro f g n hd hc
    simp only [CrashFrom] at hc
    rcases hc with rfl | hc | hc
    · exact ⟨none, by simp [Reach]⟩
    · exact ⟨none, by simp only [Reach]; exact Or.inr (Or.inl ⟨g, hc, rfl⟩)⟩
    · obtain ⟨st, h⟩ := iho _ g n hd hc
      exact ⟨st, by simp only [Reach]; exact Or.inr (Or.inr (Or.inl h))⟩

/-- everything the computable `execFrom` (used by the driver) produces is an observation of `Reach`
    (the relation the theorems quantify over) -/
theorem exec_reach (p : Prog) : ∀ (f : FS) (sch : List Outcome) (n : Nat) (hd : Bool),
    Reach f n hd p (execFrom p f sch n hd).obs := by
  induction p with
  | done s => intro f sch n hd; simp [execFrom, Reach]
  | load p ok err iho ihe =>
    intro f sch n hd
    cases ho : sch.headD .ok with
    | ok =>
      cases hg : f.get p with
      | none =>
        simp only [execFrom, ho, hg, Reach, Result.push]
        exact Or.inr (Or.inl (ihe f sch.tail n hd))
      | some c =>
        simp only [execFrom, ho, hg, Reach, Result.push]
        exact Or.inr (Or.inl (iho c f sch.tail n hd))
    | err k =>
      simp only [execFrom, ho, Reach, Result.push]
      exact Or.inr (Or.inr (ihe f sch.tail _ _))
    | kill k => simp only [execFrom, ho, Reach]; exact Or.inl trivial
  | cmp res ih =>
    intro f sch n hd
    cases ho : sch.headD .ok with
    | ok => simp only [execFrom, ho, Reach, Result.push]; exact Or.inr (Or.inl (ih _ f sch.tail n hd))
    | err k => simp only [execFrom, ho, Reach, Result.push]; exact Or.inr (Or.inr (ih _ f sch.tail _ hd))
    | kill k => simp only [execFrom, ho, Reach]; exact Or.inl trivial
  | mkdirs ok err iho ihe =>
    intro f sch n hd
    cases ho : sch.headD .ok with
    | ok => simp only [execFrom, ho, Reach, Result.push]; exact Or.inr (Or.inl (iho f sch.tail n hd))
    | err k => simp only [execFrom, ho, Reach, Result.push]; exact Or.inr (Or.inr (ihe f sch.tail _ _))
    | kill k => simp only [execFrom, ho, Reach]; exact Or.inl trivial
  | eff s ok err iho ihe =>
    intro f sch n hd
    cases ho : sch.headD .ok with
    | ok =>
      simp only [execFrom, ho, Reach, Result.push]
      exact Or.inr (Or.inr (Or.inl (iho _ sch.tail n hd)))
    | err k =>
      simp only [execFrom, ho, Reach, Result.push]
      refine Or.inr (Or.inr (Or.inr ⟨failStep f k s, ?_, ihe _ sch.tail _ _⟩))
      cases s <;> first | exact ⟨k, rfl⟩ | rfl
    | kill k =>
      simp only [execFrom, ho, Reach]
      refine Or.inr (Or.inl ⟨partialStep f k s, ?_, rfl⟩)
      cases s <;> first | exact ⟨k, rfl⟩ | (by_cases hk : k = 0 <;> simp [during, partialStep, hk])

/-! ### the fixed code, part by part -/

/-- `backup_create_md5_file` touches only the md5 file -/
theorem reach_md5Part (h : FBytes → FBytes) (f : FS) (n : Nat) (t : FBytes) (ht : f.target = some t) :
    ∀ o, Reach f n false (md5Part Fix.fixed h (.done EX_OK)) o →
      o.fs.target = some t ∧ o.fs.bak = f.bak ∧ o.fs.tmp = f.tmp ∧ StatusOK o := by
  simp [md5Part, Reach, FS.get, ht, Fix.fixed, during, failed, step, FS.set, or_imp, forall_and,
    StatusOK, EX_OK, EX_IOERR, EX_SOFTWARE]


/-- after a successful `fclose(pfout)`: compare, unlink or rename, md5 -/
theorem reach_finishPart (mode : FsMode) (h : FBytes → FBytes) (f : FS) (n : Nat) (orig out : FBytes)
    (ht : f.target = some orig) (htmp : f.tmp = some out) :
    ∀ o, Reach f n false (finishPart Fix.fixed mode h) o →
      (o.fs.target = some orig ∨ o.fs.target = some out) ∧ o.fs.bak = f.bak ∧ StatusOK o := by
  cases hb : mode.backup <;> by_cases hoo : out = orig
  all_goals
    simp [finishPart, Fix.fixed, Reach, ht, htmp, hb, hoo, during, failed, step, FS.set, FS.get, or_imp, forall_and,
      StatusOK, EX_OK, EX_IOERR]
  all_goals repeat' apply And.intro
  all_goals
    intro x hx
    obtain ⟨a, b, _, d⟩ := reach_md5Part h _ _ _ rfl x hx
    first | exact a | exact Or.inl a | exact Or.inr a | exact b | exact d

/-- `uncrustify_file` writing the temp file, `fclose`, and everything after it -/
theorem reach_fmtPart (mode : FsMode) (h : FBytes → FBytes) (f : FS) (n : Nat) (orig : FBytes) (r : FmtRes)
    (ht : f.target = some orig) (htmp : f.tmp = some []) :
    ∀ o, Reach f n false (fmtPart Fix.fixed mode h r) o →
      (o.fs.target = some orig ∨ ∃ out, r = .ok out ∧ o.fs.target = some out)
      ∧ o.fs.bak = f.bak ∧ ((∀ st p, r = .fail st p → st ≠ 0) → StatusOK o) := by
  cases r with
  | fail st part =>
    simp [fmtPart, Reach, ht, htmp, during, failed, step, FS.set, FS.get, or_imp, forall_and, StatusOK]
  | ok out =>
    simp [fmtPart, Fix.fixed, Reach, ht, htmp, during, failed, step, FS.set, FS.get, or_imp, forall_and,
      StatusOK, EX_IOERR]
    repeat' apply And.intro
    all_goals
      intro x hx
      obtain ⟨a, b, d⟩ := reach_finishPart mode h _ _ orig out rfl rfl x hx
      first | exact a | exact b | exact d

theorem reach_restPart (mode : FsMode) (h : FBytes → FBytes) (f : FS) (n : Nat) (orig : FBytes) (r : FmtRes)
    (ht : f.target = some orig) :
    ∀ o, Reach f n false (restPart Fix.fixed mode h r) o →
      (o.fs.target = some orig ∨ ∃ out, r = .ok out ∧ o.fs.target = some out)
      ∧ o.fs.bak = f.bak ∧ ((∀ st p, r = .fail st p → st ≠ 0) → StatusOK o) := by
  simp [restPart, Reach, ht, during, failed, step, FS.set, or_imp, forall_and, StatusOK, EX_IOERR]
  repeat' apply And.intro
  all_goals
    intro x hx
    obtain ⟨a, b, d⟩ := reach_fmtPart mode h _ _ orig r rfl rfl x hx
    first | exact a | exact b | exact d

/-- the whole of `do_source_file` (fixed code) -/
theorem reach_doSourceFile (mode : FsMode) (F : FBytes → FmtRes) (h : FBytes → FBytes) (f0 : FS) (orig : FBytes)
    (h0 : f0.target = some orig) :
    ∀ o, Reach f0 0 false (doSourceFile Fix.fixed mode F h) o →
      (o.fs.target = some orig ∨ ∃ out, F orig = .ok out ∧ o.fs.target = some out)
      ∧ (mode.backup = true → o.fs.target ≠ some orig →
          (o.fs.bak = some orig ∨ (f0.md5 = some (h orig) ∧ o.fs.bak = f0.bak)))
      ∧ ((∀ st p, F orig = .fail st p → st ≠ 0) → StatusOK o) := by
  cases hb : mode.backup
  · simp [doSourceFile, Reach, h0, hb, FS.get, or_imp, forall_and, StatusOK, EX_IOERR]
    repeat' apply And.intro
    all_goals
      intro x hx
      obtain ⟨a, _, d⟩ := reach_restPart mode h _ _ orig (F orig) h0 x hx
      first | exact a | exact d
  · cases hm : f0.md5 with
    | none =>
      simp [doSourceFile, backupPart, Fix.fixed, Reach, h0, hb, hm, FS.get, during, failed, step, FS.set, or_imp,
        forall_and, StatusOK, EX_IOERR, EX_SOFTWARE]
      repeat' apply And.intro
      all_goals
        intro x hx
        obtain ⟨a, b, d⟩ := reach_restPart mode h _ _ orig (F orig) (by first | exact h0 | rfl) x hx
        first | exact a | exact d | exact fun _ => b | exact fun _ => Or.inl b | exact fun _ => Or.inr b
    | some m =>
      by_cases hmm : m = h orig
      · simp [doSourceFile, backupPart, Fix.fixed, Reach, h0, hb, hm, hmm, FS.get, during, failed, step, FS.set, or_imp,
          forall_and, StatusOK, EX_IOERR, EX_SOFTWARE]
        repeat' apply And.intro
        all_goals
          intro x hx
          obtain ⟨a, b, d⟩ := reach_restPart mode h _ _ orig (F orig) (by first | exact h0 | rfl) x hx
          first | exact a | exact d | exact fun _ => b | exact fun _ => Or.inl b | exact fun _ => Or.inr b
      · simp [doSourceFile, backupPart, Fix.fixed, Reach, h0, hb, hm, hmm, FS.get, during, failed, step, FS.set, or_imp,
          forall_and, StatusOK, EX_IOERR, EX_SOFTWARE]
        repeat' apply And.intro
        all_goals
          intro x hx
          obtain ⟨a, b, d⟩ := reach_restPart mode h _ _ orig (F orig) (by first | exact h0 | rfl) x hx
          first | exact a | exact d | exact fun _ => b | exact fun _ => Or.inl b | exact fun _ => Or.inr b

end Unc
