import UncModel.Lemmas.LexTokLemmas
/-! Per-class isolation lemmas for the specification lexer: pp-numbers. -/
namespace Unc

def isExpChar (c : CP) : Bool := c == 101 || c == 69 || c == 112 || c == 80
def isSign (d : CP) : Bool := d == 43 || d == 45

/-- `y` cannot continue a pp-number whose last character is `last` -/
def NumStop (last : Option CP) (y : List CP) : Prop :=
  ∀ d ∈ y.head?, isIdCont d = false ∧ d ≠ 46 ∧ d ≠ 39 ∧ (isSign d = true → ∀ c ∈ last, isExpChar c = false)

theorem not_idCont_not_exp (d : Nat) (h : isIdCont d = false) : isExpChar d = false := by
  cases he : isExpChar d with
  | false => rfl
  | true =>
    simp [isExpChar] at he
    rcases he with ((he | he) | he) | he <;> subst he <;> revert h <;> decide

theorem ppNumRest_stop (sep : Bool) (y : List CP) (hy : NumStop none y) : ppNumRest sep y = 0 := by
  cases y with
  | nil => rfl
  | cons d z =>
    obtain ⟨h1, h2, h3, _⟩ := hy d (by simp)
    have he := not_idCont_not_exp d h1
    have e46 : (d == 46) = false := by simpa using h2
    have e39 : (d == 39) = false := by simpa using h3
    simp only [isExpChar] at he
    cases z with
    | nil => simp [ppNumRest, h1, e46]
    | cons e z' => simp [ppNumRest, h1, e46, e39, he]

theorem ppNumRest_append (sep : Bool) : ∀ (n : Nat) (r y : List CP), r.length = n →
    ppNumRest sep r = r.length → NumStop r.getLast? y → ppNumRest sep (r ++ y) = r.length := by
  intro n
  induction n using Nat.strongRecOn with
  | _ n ih =>
    intro r y hn hr hy
    match r, hn, hr, hy with
    | [], _, _, hy => simpa using ppNumRest_stop sep y hy
    | [c], _, hr, hy =>
      have hc : (isIdCont c || c == 46) = true := by
        by_cases h : (isIdCont c || c == 46) = true
        · exact h
        · simp [ppNumRest, h] at hr
      cases y with
      | nil => simp [ppNumRest, hc]
      | cons d z =>
        obtain ⟨h1, h2, h3, h4⟩ := hy d (by simp)
        have hstop : ppNumRest sep (d :: z) = 0 :=
          ppNumRest_stop sep (d :: z) (by
            intro x hx
            simp only [List.head?_cons, Option.mem_def, Option.some.injEq] at hx
            subst hx
            exact ⟨h1, h2, h3, fun _ c hc => by simp at hc⟩)
        have hb1 : ((c == 101 || c == 69 || c == 112 || c == 80) && (d == 43 || d == 45)) = false := by
          by_cases hs : isSign d = true
          · have := h4 hs c (by simp)
            simp only [isExpChar] at this
            simp [this]
          · simp only [isSign] at hs
            simp [hs]
        simp only [List.cons_append, List.nil_append, ppNumRest, hb1, Bool.false_eq_true, if_false, hc,
          if_true, hstop, List.length_cons, List.length_nil]
    | c :: d' :: r', hn, hr, hy =>
      have hlast : (c :: d' :: r').getLast? = (d' :: r').getLast? := by simp [List.getLast?_cons_cons]
      simp only [List.cons_append, ppNumRest] at hr ⊢
      by_cases hb1 : ((c == 101 || c == 69 || c == 112 || c == 80) && (d' == 43 || d' == 45)) = true
      · simp only [hb1, if_true, List.length_cons] at hr ⊢
        have hr' : ppNumRest sep r' = r'.length := by omega
        have hy' : NumStop r'.getLast? y := by
          intro x hx
          obtain ⟨a1, a2, a3, a4⟩ := hy x hx
          refine ⟨a1, a2, a3, fun hs c' hc' => ?_⟩
          apply a4 hs c'
          cases r' with
          | nil => simp at hc'
          | cons e r'' => simpa [List.getLast?_cons_cons] using hc'
        have := ih r'.length (by subst hn; simp <;> omega) r' y rfl hr' hy'
        omega
      · simp only [hb1, Bool.false_eq_true, if_false] at hr ⊢
        by_cases hb2 : (isIdCont c || c == 46) = true
        · simp only [hb2, if_true, List.length_cons] at hr ⊢
          have hr' : ppNumRest sep (d' :: r') = (d' :: r').length := by simp; omega
          have := ih (d' :: r').length (by subst hn; simp <;> omega) (d' :: r') y rfl hr' (hlast ▸ hy)
          simp only [List.cons_append, List.length_cons] at this
          omega
        · simp only [hb2, Bool.false_eq_true, if_false] at hr ⊢
          by_cases hb3 : (sep && c == 39 && isIdCont d') = true
          · simp only [hb3, if_true, List.length_cons] at hr ⊢
            have hr' : ppNumRest sep (d' :: r') = (d' :: r').length := by simp; omega
            have := ih (d' :: r').length (by subst hn; simp <;> omega) (d' :: r') y rfl hr' (hlast ▸ hy)
            simp only [List.cons_append, List.length_cons] at this
            omega
          · simp [hb3] at hr

end Unc

namespace Unc

/-- digit separators (`1'000`) are lexed in C and C++ -/
def langSep (l : Nat) : Bool := langC l || langCpp l

/-- `a` is a pp-number of the specification lexer -/
def IsNumber (sep : Bool) (a : List CP) : Prop := a ≠ [] ∧ ppNumLen sep a = a.length

theorem numStop_weaken {last : Option CP} {y : List CP} (h : NumStop last y) : NumStop none y := by
  intro d hd
  obtain ⟨a1, a2, a3, _⟩ := h d hd
  exact ⟨a1, a2, a3, fun _ c hc => by simp at hc⟩

theorem numStop_tail {c : CP} {r y : List CP} (h : NumStop (c :: r).getLast? y) : NumStop r.getLast? y := by
  cases r with
  | nil => exact numStop_weaken h
  | cons d r' => simpa [List.getLast?_cons_cons] using h

theorem isDigit_facts (c : Nat) (h : isDigit c = true) :
    c ≠ 92 ∧ c ≠ 47 ∧ c ≠ 34 ∧ c ≠ 39 ∧ c ≠ 46 ∧ isIdStart c = false ∧ isIdCont c = true := by
  have h : 48 ≤ c ∧ c ≤ 57 := by simpa [isDigit] using h
  have : c = 48 ∨ c = 49 ∨ c = 50 ∨ c = 51 ∨ c = 52 ∨ c = 53 ∨ c = 54 ∨ c = 55 ∨ c = 56 ∨ c = 57 := by omega
  rcases this with h | h | h | h | h | h | h | h | h | h <;> subst h <;> decide

theorem ppNumLen_append (sep : Bool) {a : List CP} (ha : IsNumber sep a) (y : List CP)
    (hy : NumStop a.getLast? y) : ppNumLen sep (a ++ y) = a.length := by
  obtain ⟨hne, hlen⟩ := ha
  match a, hne, hlen, hy with
  | c :: r, _, hlen, hy =>
    simp only [ppNumLen, List.cons_append] at hlen ⊢
    by_cases hd : isDigit c = true
    · simp only [hd, if_true, List.length_cons] at hlen ⊢
      have hr : ppNumRest sep r = r.length := by omega
      rw [ppNumRest_append sep r.length r y rfl hr (numStop_tail hy)]
    · simp only [hd, Bool.false_eq_true, if_false] at hlen ⊢
      by_cases h46 : (c == 46) = true
      · simp only [h46, if_true] at hlen ⊢
        match r, hlen, hy with
        | [], hlen, _ => simp at hlen
        | d :: r', hlen, hy =>
          simp only [List.cons_append] at hlen ⊢
          by_cases hdd : isDigit d = true
          · simp only [hdd, if_true, List.length_cons] at hlen ⊢
            have hr : ppNumRest sep r' = r'.length := by omega
            rw [ppNumRest_append sep r'.length r' y rfl hr (numStop_tail (numStop_tail hy))]
          · simp [hdd] at hlen
      · simp [h46] at hlen

/-- a pp-number followed by something that cannot continue it is the token -/
theorem munchTok_number_append (l : Nat) {a : List CP} (ha : IsNumber (langSep l) a) (y : List CP)
    (hy : NumStop a.getLast? y) : munchTok l (a ++ y) = some (a.length, .number) := by
  have hlen := ppNumLen_append (langSep l) ha y hy
  obtain ⟨hne, hl0⟩ := ha
  match a, hne, hl0, hlen with
  | c :: r, _, hl0, hlen =>
    have hpos : ppNumLen (langSep l) (c :: r ++ y) ≠ 0 := by rw [hlen]; simp
    have hfacts : c ≠ 92 ∧ c ≠ 47 ∧ isIdStart c = false := by
      simp only [ppNumLen] at hl0
      by_cases hd : isDigit c = true
      · obtain ⟨a1, a2, _, _, _, a6, _⟩ := isDigit_facts c hd
        exact ⟨a1, a2, a6⟩
      · simp only [hd, Bool.false_eq_true, if_false] at hl0
        by_cases h46 : (c == 46) = true
        · have : c = 46 := by simpa using h46
          subst this
          exact ⟨by decide, by decide, by decide⟩
        · simp [h46] at hl0
    obtain ⟨h92, h47, hid⟩ := hfacts
    have e1 : (c == 92) = false := by simpa using h92
    have e2 : (c == 47) = false := by simpa using h47
    simp only [List.cons_append] at hpos hlen ⊢
    simp only [langSep] at hpos hlen
    simp [munchTok, e1, e2, hid, hlen]

theorem numStop_ws (last : Option CP) (c : Nat) (rest : List CP) (h : isWsChar c = true) :
    NumStop last (c :: rest) := by
  intro d hd
  simp only [List.head?_cons, Option.mem_def, Option.some.injEq] at hd
  subst hd
  rcases isWsChar_cases c h with rfl | rfl | rfl | rfl | rfl | rfl <;>
    exact ⟨by decide, by decide, by decide, fun hs => absurd hs (by decide)⟩

/-- **isolation of pp-numbers** -/
theorem isolated_number (l : Nat) {a : List CP} (ha : IsNumber (langSep l) a) : Isolated l a .number := by
  constructor
  · exact munchTok_number_append l ha [] (by intro d hd; simp at hd)
  · intro c rest hc
    exact munchTok_number_append l ha (c :: rest) (numStop_ws _ c rest hc)

end Unc
