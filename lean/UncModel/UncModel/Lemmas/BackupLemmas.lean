import UncModel.Backup
/-! # Lemmas about `Backup`: what one complete run does, and what a run killed early leaves -/
namespace Unc

/-- a complete `--replace` run of the FIXED code, in closed form -/
theorem run_fixed (F : Nat → FBytes → FBytes) (h : FBytes → FBytes) (cfg : Nat) (s : FS) (c : FBytes)
    (hc : s.target = some c) :
    (exec (runProg Fix.fixed F h cfg) s []).fs =
      { target := some (F cfg c), tmp := none,
        bak := if s.md5 = some (h c) then s.bak else some c,
        md5 := some (h (F cfg c)) } := by
  cases hm : s.md5 with
  | none =>
    by_cases hoo : F cfg c = c <;>
    simp [runProg, doSourceFile, restPart, backupPart, fmtPart, finishPart, md5Part, Fix.fixed, FsMode.backup, exec, execFrom,
      Result.push, Result.fs, FS.get, FS.set, step, hc, hm, hoo]
  | some m =>
    by_cases hmm : m = h c <;> by_cases hoo : F cfg c = c <;>
    simp [runProg, doSourceFile, restPart, backupPart, fmtPart, finishPart, md5Part, Fix.fixed, FsMode.backup, exec, execFrom,
      Result.push, Result.fs, FS.get, FS.set, step, hc, hm, hmm, hoo]

/-- a complete `--replace` run of the code BEFORE the fs-1 patch: the md5 is taken of the original -/
theorem run_md5_before (ck : Bool) (F : Nat → FBytes → FBytes) (h : FBytes → FBytes) (cfg : Nat) (s : FS) (c : FBytes)
    (hc : s.target = some c) :
    (exec (runProg ⟨false, ck⟩ F h cfg) s []).fs =
      { target := some (F cfg c), tmp := none,
        bak := if s.md5 = some (h c) then s.bak else some c,
        md5 := some (h c) } := by
  cases hm : s.md5 with
  | none =>
    by_cases hoo : F cfg c = c <;>
    simp [runProg, doSourceFile, restPart, backupPart, fmtPart, finishPart, md5Part, FsMode.backup, exec, execFrom,
      Result.push, Result.fs, FS.get, FS.set, step, hc, hm, hoo]
  | some m =>
    by_cases hmm : m = h c <;> by_cases hoo : F cfg c = c <;>
    simp [runProg, doSourceFile, restPart, backupPart, fmtPart, finishPart, md5Part, FsMode.backup, exec, execFrom,
      Result.push, Result.fs, FS.get, FS.set, step, hc, hm, hmm, hoo]

theorem injOn_tail {h : FBytes → FBytes} {F : Nat → FBytes → FBytes} {sp : Spec} {op : HistOp} {ops : List HistOp}
    (hi : InjOn h (occurring F sp (op :: ops))) : InjOn h (occurring F (sp.step F op) ops) := by
  intro a b ha hb hab
  apply hi a b _ _ hab <;> simp [occurring] <;> simp [ha, hb]

/-- one step preserves the invariant (fixed code) -/
theorem inv_step (F : Nat → FBytes → FBytes) (h : FBytes → FBytes) (s : FS) (sp : Spec) (op : HistOp)
    (hinv : BackupInv h s sp) (hi : InjOn h (sp.file :: sp.lastOut.toList)) :
    BackupInv h (applyOp Fix.fixed F h s op) (sp.step F op) := by
  obtain ⟨ht, hb, hm⟩ := hinv
  cases op with
  | userWrite c => simp [applyOp, Spec.step, BackupInv, hb, hm]
  | run cfg =>
    simp only [applyOp, run_fixed F h cfg s sp.file ht, Spec.step, BackupInv, hb, hm]
    refine ⟨trivial, ?_, rfl⟩
    cases hl : sp.lastOut with
    | none => simp
    | some lo =>
      by_cases heq : sp.file = lo
      · simp [heq]
      · have : h lo ≠ h sp.file := by
          intro hh
          exact heq (hi sp.file lo (by simp) (by simp [hl]) hh.symm)
        simp [heq, this]

/-- a run killed before the backup is touched, before the rename and before the md5 file is
    touched leaves file, backup and md5 file alone -/
theorem crash_before_backup (F : Nat → FBytes → FBytes) (h : FBytes → FBytes) (cfg : Nat) (s : FS) (c : FBytes)
    (hc : s.target = some c) :
    ∀ o, CrashAt s [] (runProg Fix.fixed F h cfg) o → early o.2 → Sys.creat .bak ∉ o.2 →
      o.1.target = some c ∧ o.1.md5 = s.md5 ∧ o.1.bak = s.bak := by
  cases hm : s.md5 with
  | none =>
    by_cases hoo : F cfg c = c <;>
    simp [runProg, doSourceFile, restPart, backupPart, fmtPart, finishPart, md5Part, Fix.fixed, FsMode.backup, CrashAt,
      torn, early, FS.get, FS.set, step, hc, hm, hoo, or_imp, forall_and]
  | some m =>
    by_cases hmm : m = h c <;> by_cases hoo : F cfg c = c <;>
    simp [runProg, doSourceFile, restPart, backupPart, fmtPart, finishPart, md5Part, Fix.fixed, FsMode.backup, CrashAt,
      torn, early, FS.get, FS.set, step, hc, hm, hmm, hoo, or_imp, forall_and]

/-- a run killed after the backup was written and before the rename: the backup holds the file's
    content (and the md5 did not match), file and md5 file are untouched -/
theorem crash_after_backup (F : Nat → FBytes → FBytes) (h : FBytes → FBytes) (cfg : Nat) (s : FS) (c : FBytes)
    (hc : s.target = some c) :
    ∀ o, CrashAt s [] (runProg Fix.fixed F h cfg) o → early o.2 → (∃ bs, Sys.write .bak bs ∈ o.2) →
      o.1.target = some c ∧ o.1.md5 = s.md5 ∧ o.1.bak = some c ∧ s.md5 ≠ some (h c) := by
  cases hm : s.md5 with
  | none =>
    by_cases hoo : F cfg c = c <;>
    simp [runProg, doSourceFile, restPart, backupPart, fmtPart, finishPart, md5Part, Fix.fixed, FsMode.backup, CrashAt,
      torn, early, FS.get, FS.set, step, hc, hm, hoo, or_imp, forall_and]
  | some m =>
    by_cases hmm : m = h c <;> by_cases hoo : F cfg c = c <;>
    simp [runProg, doSourceFile, restPart, backupPart, fmtPart, finishPart, md5Part, Fix.fixed, FsMode.backup, CrashAt,
      torn, early, FS.get, FS.set, step, hc, hm, hmm, hoo, or_imp, forall_and]

theorem kinjOn_tail {h : FBytes → FBytes} {F : Nat → FBytes → FBytes} {sp : Spec} {op : KOp} {ops : List KOp}
    (hi : InjOn h (koccurring F sp (op :: ops))) : InjOn h (koccurring F (sp.kstep F op) ops) := by
  intro a b ha hb hab
  apply hi a b _ _ hab <;> simp [koccurring] <;> simp [ha, hb]

theorem kinjOn_head {h : FBytes → FBytes} {F : Nat → FBytes → FBytes} {sp : Spec} {ops : List KOp}
    (hi : InjOn h (koccurring F sp ops)) : InjOn h (sp.file :: sp.lastOut.toList) := by
  intro a b ha hb hab
  cases ops with
  | nil => exact hi a b ha hb hab
  | cons op ops =>
    apply hi a b _ _ hab <;> simp only [koccurring, List.cons_append, List.mem_cons, List.mem_append]
    · simp only [List.mem_cons] at ha; rcases ha with ha | ha <;> simp [ha]
    · simp only [List.mem_cons] at hb; rcases hb with hb | hb <;> simp [hb]

theorem injOn_head {h : FBytes → FBytes} {F : Nat → FBytes → FBytes} {sp : Spec} {ops : List HistOp}
    (hi : InjOn h (occurring F sp ops)) : InjOn h (sp.file :: sp.lastOut.toList) := by
  intro a b ha hb hab
  cases ops with
  | nil => exact hi a b ha hb hab
  | cons op ops =>
    apply hi a b _ _ hab <;> simp only [occurring, List.cons_append, List.mem_cons, List.mem_append]
    · simp only [List.mem_cons] at ha; rcases ha with ha | ha <;> simp [ha]
    · simp only [List.mem_cons] at hb; rcases hb with hb | hb <;> simp [hb]

/-- one step of a history with kills outside the windows preserves the invariant -/
theorem kinv_step (F : Nat → FBytes → FBytes) (h : FBytes → FBytes) (s s' : FS) (sp : Spec) (op : KOp)
    (hinv : BackupInv h s sp) (hi : InjOn h (sp.file :: sp.lastOut.toList))
    (hs : KStep Fix.fixed F h s op s') : BackupInv h s' (sp.kstep F op) := by
  cases op with
  | userWrite c =>
    simp only [KStep] at hs; subst hs
    exact inv_step F h s sp (.userWrite c) hinv hi
  | run cfg =>
    simp only [KStep] at hs; subst hs
    exact inv_step F h s sp (.run cfg) hinv hi
  | runKilledBeforeBackup cfg =>
    obtain ⟨ht, hb, hm⟩ := hinv
    obtain ⟨cs, hca, he, hnb⟩ := hs
    obtain ⟨a, b, c⟩ := crash_before_backup F h cfg s sp.file ht (s', cs) hca he hnb
    exact ⟨a, by simp only [Spec.kstep]; rw [c, hb], by simp only [Spec.kstep]; rw [b, hm]⟩
  | runKilledAfterBackup cfg =>
    obtain ⟨ht, hb, hm⟩ := hinv
    obtain ⟨cs, hca, he, hwb⟩ := hs
    obtain ⟨a, b, c, d⟩ := crash_after_backup F h cfg s sp.file ht (s', cs) hca he hwb
    refine ⟨a, ?_, by simp only [Spec.kstep]; rw [b, hm]⟩
    have : some sp.file ≠ sp.lastOut := by
      intro heq
      apply d
      rw [hm, ← heq]; rfl
    simp only [Spec.kstep, this, if_false]
    exact c

end Unc
