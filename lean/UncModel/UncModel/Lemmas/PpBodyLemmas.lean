import UncModel.PpBody
import UncModel.Props.TokStrip
/-! helper lemmas for Props/PpBody.lean -/
namespace Unc.PpBody

theorem cleanR_cons (ch : Nat) (accR : List Nat) :
    cleanR (ch :: accR) = true ↔ (¬ (accR.head? = some 92 ∧ isBlankCh ch = true) ∧ cleanR accR = true) := by
  cases accR with
  | nil => simp [cleanR]
  | cons a t =>
    simp only [cleanR, List.head?_cons, Option.some.injEq, Bool.and_eq_true, Bool.not_eq_true', Bool.and_eq_false_iff,
      decide_eq_false_iff_not, not_and]
    constructor
    · rintro ⟨h1, h2⟩
      refine ⟨?_, h2⟩
      intro ha
      rcases h1 with h1 | h1
      · exact absurd ha h1
      · simp [h1]
    · rintro ⟨h1, h2⟩
      refine ⟨?_, h2⟩
      by_cases ha : a = 92
      · right
        have := h1 ha
        simpa using this
      · left; exact ha

theorem cleanR_tail (l : List Nat) (h : cleanR l = true) : cleanR l.tail = true := by
  cases l with
  | nil => rfl
  | cons c t => exact ((cleanR_cons c t).1 h).2

theorem cleanR_suffix (p s : List Nat) (h : cleanR (p ++ s) = true) : cleanR s = true := by
  induction p with
  | nil => simpa using h
  | cons c p ih => exact ih ((cleanR_cons c (p ++ s)).1 h).2

/-- the text collected by the loop never holds a backslash directly followed by a blank -/
theorem scan_cleanR (inp : List Nat) : ∀ (accR since : List Nat), cleanR accR = true → cleanR (scan accR since inp).1.reverse = true := by
  induction inp with
  | nil => intro accR since h; simpa [scan] using h
  | cons ch rest ih =>
    intro accR since h
    unfold scan
    split
    · exact ih _ _ h
    · split
      · split
        · simpa using cleanR_tail accR h
        · simpa using h
      · split
        · simpa using h
        · rename_i hskip _ _
          exact ih _ _ ((cleanR_cons ch accR).2 ⟨hskip, h⟩)

/-- ... and no line break -/
theorem scan_noEol (inp : List Nat) : ∀ (accR since : List Nat), (∀ x ∈ accR, isEol x = false) →
    ∀ x ∈ (scan accR since inp).1, isEol x = false := by
  induction inp with
  | nil => intro accR since h x hx; simp [scan] at hx; exact h x hx
  | cons ch rest ih =>
    intro accR since h
    unfold scan
    split
    · exact ih _ _ h
    · split
      · split
        · intro x hx
          simp only [List.mem_reverse] at hx
          exact h x (List.mem_of_mem_tail hx)
        · intro x hx; simp only [List.mem_reverse] at hx; exact h x hx
      · split
        · intro x hx; simp only [List.mem_reverse] at hx; exact h x hx
        · rename_i _ heol _
          apply ih
          intro x hx
          simp only [List.mem_cons] at hx
          rcases hx with rfl | hx
          · simpa using heol
          · exact h x hx

def nb (c : Nat) : Bool := !isBlankCh c

/-- `since` = the last appended character and the blanks dropped behind it -/
def SinceInv (accR since : List Nat) : Prop :=
  (accR = [] ∧ since = []) ∨ ∃ h t bl, accR = h :: t ∧ since = h :: bl ∧ ∀ x ∈ bl, isBlankCh x = true

theorem filter_nb_blanks (bl : List Nat) (h : ∀ x ∈ bl, isBlankCh x = true) : bl.filter nb = [] := by
  induction bl with
  | nil => rfl
  | cons c t ih =>
    have hc := h c (by simp)
    simp only [List.filter_cons, nb, hc, Bool.not_true]
    exact ih (fun x hx => h x (by simp [hx]))

/-- the loop only drops blanks: the non-blank characters of (chunk text ++ input left) are those of the input, in order -/
theorem scan_filter (inp : List Nat) : ∀ (accR since : List Nat), SinceInv accR since →
    ((scan accR since inp).1 ++ (scan accR since inp).2).filter nb = (accR.reverse ++ inp).filter nb := by
  induction inp with
  | nil => intro accR since _; simp [scan]
  | cons ch rest ih =>
    intro accR since hinv
    unfold scan
    split
    · rename_i hskip
      have hinv' : SinceInv accR (since ++ [ch]) := by
        rcases hinv with ⟨ha, _⟩ | ⟨h, t, bl, ha, hs, hb⟩
        · subst ha; simp at hskip
        · refine Or.inr ⟨h, t, bl ++ [ch], ha, by simp [hs], ?_⟩
          intro x hx
          simp only [List.mem_append, List.mem_singleton] at hx
          rcases hx with hx | rfl
          · exact hb x hx
          · exact hskip.2
      rw [ih _ _ hinv']
      have : nb ch = false := by simp [nb, hskip.2]
      simp [this]
    · split
      · split
        · rename_i _ _ h92
          rcases hinv with ⟨ha, _⟩ | ⟨h, t, bl, ha, hs, hb⟩
          · subst ha; simp at h92
          · subst ha hs
            simp only [List.head?_cons, Option.some.injEq] at h92
            subst h92
            simp only [List.tail_cons, List.reverse_cons, List.cons_append, List.append_assoc, List.filter_append,
              List.filter_cons, List.nil_append]
            rw [filter_nb_blanks bl hb]
            simp
        · rfl
      · split
        · rfl
        · have hinv' : SinceInv (ch :: accR) [ch] := Or.inr ⟨ch, accR, [], rfl, rfl, by simp⟩
          rw [ih _ _ hinv']
          simp

theorem getLast?_reverse_head (l : List Nat) : l.getLast? = l.reverse.head? := by
  simp [List.head?_reverse]

end Unc.PpBody
