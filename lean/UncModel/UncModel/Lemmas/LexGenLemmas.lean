import UncModel.Lex
/-! The whitespace-insertion theorem for the generic (stateful) maximal-munch driver `Lexer.run`. -/
namespace Unc

variable {σ κ : Type}

/-- a formatted text: (kind, token text, separator after it)* -/
def glue : List (κ × List CP × List CP) → List CP
  | [] => []
  | (_, t, w) :: rest => t ++ w ++ glue rest

/-- `w` is whitespace of `L` leading from state `s` to state `s'` -/
def WsRun (L : Lexer σ κ) : σ → List CP → σ → Prop
  | s, [], s' => s = s'
  | s, c :: w, s' => ∃ s1, L.ws s c = some s1 ∧ WsRun L s1 w s'

/-- every token of the list is munched exactly in the text `glue l`, whatever follows it there;
    `s` = state at the first token, `sf` = state at the end -/
def Good (L : Lexer σ κ) : σ → List (κ × List CP × List CP) → σ → Prop
  | s, [], sf => s = sf
  | s, (k, t, w) :: rest, sf =>
    ∃ s1 s2, t ≠ [] ∧ (∀ c ∈ t.head?, L.ws s c = none) ∧
      L.munch s (t ++ w ++ glue rest) = some (t.length, k, s1) ∧ WsRun L s1 w s2 ∧ Good L s2 rest sf

theorem skip_wsRun (L : Lexer σ κ) : ∀ (w : List CP) (s s' : σ) (r : List CP),
    WsRun L s w s' → L.skip s (w ++ r) = L.skip s' r := by
  intro w
  induction w with
  | nil => intro s s' r h; simp only [WsRun] at h; subst h; rfl
  | cons c w ih =>
    intro s s' r h
    obtain ⟨s1, h1, h2⟩ := h
    simp only [List.cons_append, Lexer.skip, h1]
    exact ih s1 s' r h2

theorem skip_nonws (L : Lexer σ κ) (s : σ) (c : CP) (r : List CP) (h : L.ws s c = none) :
    L.skip s (c :: r) = (s, c :: r) := by
  simp [Lexer.skip, h]

theorem skip_nil (L : Lexer σ κ) (s : σ) : L.skip s [] = (s, []) := rfl

theorem glue_length_ge (l : List (κ × List CP × List CP)) (h : ∀ x ∈ l, x.2.1 ≠ []) :
    l.length ≤ (glue l).length := by
  induction l with
  | nil => simp [glue]
  | cons x rest ih =>
    obtain ⟨k, t, w⟩ := x
    have ht : t ≠ [] := h (k, t, w) (by simp)
    have := ih (fun y hy => h y (by simp [hy]))
    have htl : 0 < t.length := List.length_pos_iff.2 ht
    simp only [glue, List.length_cons, List.length_append]
    omega

/-- **whitespace insertion, generic form**: if every token is munched exactly in the glued text then
    the driver returns exactly the tokens (followed by the end-of-text tokens of the final state) -/
theorem run_glue (L : Lexer σ κ) :
    ∀ (l : List (κ × List CP × List CP)) (f : Nat) (s0 s sf : σ) (w0 : List CP) (acc : List (κ × List CP)),
      l.length + 1 ≤ f → WsRun L s0 w0 s → Good L s l sf →
      L.run f s0 (w0 ++ glue l) acc = some (acc.reverse ++ l.map (fun x => (x.1, x.2.1)) ++ L.fin sf) := by
  intro l
  induction l with
  | nil =>
    intro f s0 s sf w0 acc hf hw hg
    simp only [Good] at hg
    subst hg
    obtain ⟨f', rfl⟩ : ∃ f', f = f' + 1 := ⟨f - 1, by simp at hf; omega⟩
    have hs : L.skip s0 (w0 ++ glue ([] : List (κ × List CP × List CP))) = (s, []) := by
      rw [skip_wsRun L w0 s0 s _ hw]; rfl
    simp only [Lexer.run, hs, List.map_nil, List.append_nil]
  | cons x rest ih =>
    intro f s0 s sf w0 acc hf hw hg
    obtain ⟨k, t, w⟩ := x
    obtain ⟨s1, s2, hne, hhead, hm, hw2, hrest⟩ := hg
    obtain ⟨f', rfl⟩ : ∃ f', f = f' + 1 := ⟨f - 1, by simp at hf; omega⟩
    obtain ⟨c, r, rfl⟩ : ∃ c r, t = c :: r := by
      cases t with
      | nil => exact absurd rfl hne
      | cons c r => exact ⟨c, r, rfl⟩
    have hc : L.ws s c = none := hhead c (by simp)
    have hs : L.skip s0 (w0 ++ glue ((k, c :: r, w) :: rest)) = (s, c :: (r ++ w ++ glue rest)) := by
      rw [skip_wsRun L w0 s0 s _ hw]
      simp only [glue, List.cons_append, List.append_assoc]
      exact skip_nonws L s c _ hc
    have hm' : L.munch s (c :: (r ++ w ++ glue rest)) = some (r.length + 1, k, s1) := by
      simpa [List.append_assoc] using hm
    have hdrop : (r ++ w ++ glue rest).drop r.length = w ++ glue rest := by
      simp [List.append_assoc]
    have htake : (r ++ w ++ glue rest).take r.length = r := by
      simp [List.append_assoc]
    simp only [Lexer.run, hs, hm', hdrop, htake]
    have := ih f' s1 s2 sf w ((k, c :: r) :: acc) (by simp at hf ⊢; omega) hw2 hrest
    rw [this]
    simp [List.append_assoc]

/-- the same for `Lexer.lex` (fuel = text length + 1), starting with empty accumulator -/
theorem lex_glue (L : Lexer σ κ) (l : List (κ × List CP × List CP)) (s0 s sf : σ) (w0 : List CP)
    (hw : WsRun L s0 w0 s) (hg : Good L s l sf) :
    L.lex s0 (w0 ++ glue l) = some (l.map (fun x => (x.1, x.2.1)) ++ L.fin sf) := by
  have hne : ∀ x ∈ l, x.2.1 ≠ [] := by
    clear hw
    induction l generalizing s with
    | nil => intro x hx; simp at hx
    | cons y rest ih =>
      obtain ⟨k, t, w⟩ := y
      obtain ⟨s1, s2, hne, _, _, _, hrest⟩ := hg
      intro x hx
      rcases List.mem_cons.1 hx with rfl | hx
      · exact hne
      · exact ih s2 hrest x hx
  have hlen := glue_length_ge l hne
  have := run_glue L l ((w0 ++ glue l).length + 1) s0 s sf w0 [] (by simp; omega) hw hg
  simpa [Lexer.lex] using this

end Unc
