import UncModel.Brackets
namespace Unc

theorem brun_append (st : List Nat) (a b : List BTok) :
    brun st (a ++ b) = (brun st a).bind (fun s => brun s b) := by
  induction a generalizing st with
  | nil => simp [brun]
  | cons t ts ih =>
    simp only [List.cons_append, brun]
    cases h : bstep st t with
    | none => simp
    | some st' => simp [ih]

/-- a step that succeeds on a stack succeeds the same way with more below -/
theorem bstep_frame (s s' base : List Nat) (t : BTok) (h : bstep s t = some s') :
    bstep (s ++ base) t = some (s' ++ base) := by
  cases t with
  | op k => simp [bstep] at h ⊢; exact h ▸ rfl
  | other => simp [bstep] at h ⊢; exact h ▸ rfl
  | cl k =>
    cases s with
    | nil => simp [bstep] at h
    | cons k' r =>
      simp only [bstep, List.cons_append] at h ⊢
      by_cases hk : k = k'
      · simp [hk] at h ⊢; exact h ▸ rfl
      · simp [hk] at h

theorem brun_frame (s s' base : List Nat) (ts : List BTok) (h : brun s ts = some s') :
    brun (s ++ base) ts = some (s' ++ base) := by
  induction ts generalizing s with
  | nil => simp [brun] at h ⊢; exact h ▸ rfl
  | cons t ts ih =>
    simp only [brun] at h ⊢
    cases hs : bstep s t with
    | none => simp [hs] at h
    | some s1 =>
      rw [hs] at h
      rw [bstep_frame s s1 base t hs]
      exact ih s1 h

theorem brun_nested (base : List Nat) (m : List BTok) (h : wellNested m = true) : brun base m = some base := by
  have h' : brun [] m = some [] := by simpa [wellNested] using h
  simpa using brun_frame [] [] base m h'

/-- the converse direction needed for removal: a segment that runs from `k :: base` … is handled where used -/
theorem brun_rename (f : Nat → Nat) (st st' : List Nat) (ts : List BTok) (h : brun st ts = some st') :
    brun (st.map f) (ts.map (BTok.rename f)) = some (st'.map f) := by
  induction ts generalizing st with
  | nil => simp [brun] at h ⊢; exact h ▸ rfl
  | cons t ts ih =>
    simp only [brun, List.map_cons] at h ⊢
    cases hs : bstep st t with
    | none => simp [hs] at h
    | some s1 =>
      rw [hs] at h
      have : bstep (st.map f) (t.rename f) = some (s1.map f) := by
        cases t with
        | op k => simp [bstep, BTok.rename] at hs ⊢; exact hs ▸ rfl
        | other => simp [bstep, BTok.rename] at hs ⊢; exact hs ▸ rfl
        | cl k =>
          cases st with
          | nil => simp [bstep] at hs
          | cons k' r =>
            simp only [bstep] at hs
            by_cases hk : k = k'
            · simp [hk] at hs
              simp [bstep, BTok.rename, hk, hs]
            · simp [hk] at hs
      rw [this]
      exact ih s1 h

end Unc
