import UncModel.Punct
/-! `findPunct` returns the longest enabled table entry that is a prefix of the text. -/
namespace Unc

/-- `best` is the length of the longest enabled entry of `T` that is a prefix of `s` and has length `≤ k`
    (`none`: there is no such entry) -/
def IsBest (T : List PEnt) (lang : Nat) (dig : Bool) (s : List CP) (k : Nat) : Option Nat → Prop
  | none => ∀ e ∈ T, punctEnabled lang dig e = true → e.1 <+: s → e.1.length ≤ k → False
  | some n => n ≤ k ∧ (∃ e ∈ T, punctEnabled lang dig e = true ∧ e.1 <+: s ∧ e.1.length = n) ∧
      ∀ e ∈ T, punctEnabled lang dig e = true → e.1 <+: s → e.1.length ≤ k → e.1.length ≤ n

theorem IsBest.mono {T lang dig s k k' best} (h : IsBest T lang dig s k best) (hk : k ≤ k')
    (hno : ∀ e ∈ T, punctEnabled lang dig e = true → e.1 <+: s → e.1.length ≤ k) :
    IsBest T lang dig s k' best := by
  cases best with
  | none => intro e he hen hp _; exact h e he hen hp (hno e he hen hp)
  | some n =>
    obtain ⟨h1, h2, h3⟩ := h
    exact ⟨Nat.le_trans h1 hk, h2, fun e he hen hp _ => h3 e he hen hp (hno e he hen hp)⟩

theorem punctIsNode_iff (T : List PEnt) (p : List CP) :
    punctIsNode T p = true ↔ ∃ e ∈ T, p <+: e.1 := by
  simp [punctIsNode, List.any_eq_true]

theorem punctHasTag_iff (T : List PEnt) (lang : Nat) (dig : Bool) (p : List CP) :
    punctHasTag T lang dig p = true ↔ ∃ e ∈ T, e.1 = p ∧ punctEnabled lang dig e = true := by
  simp [punctHasTag, List.any_eq_true]

theorem prefix_take_of_prefix {α} {t s : List α} (h : t <+: s) : t = s.take t.length := by
  obtain ⟨r, rfl⟩ := h
  simp

theorem findPunctGo_spec (T : List PEnt) (lang : Nat) (dig : Bool) (s : List CP) :
    ∀ (f k : Nat) (best : Option Nat), IsBest T lang dig s k best →
      IsBest T lang dig s (k + f) (findPunctGo T lang dig s f k best) := by
  intro f
  induction f with
  | zero => intro k best h; simpa [findPunctGo] using h
  | succ f ih =>
    intro k best h
    rw [findPunctGo]
    by_cases hc : (!(s.drop k).isEmpty && punctIsNode T (s.take (k+1))) = true
    · rw [if_pos hc]
      simp only [Bool.and_eq_true, Bool.not_eq_true', List.isEmpty_eq_false_iff] at hc
      obtain ⟨hlen, hnode⟩ := hc
      have hk : k < s.length := by
        rcases Nat.lt_or_ge k s.length with h1 | h1
        · exact h1
        · exact absurd (List.drop_eq_nil_of_le h1) hlen
      have hplen : (s.take (k+1)).length = k + 1 := by
        rw [List.length_take]; omega
      have hnext : IsBest T lang dig s (k+1)
          (if punctHasTag T lang dig (s.take (k+1)) then some (k+1) else best) := by
        by_cases ht : punctHasTag T lang dig (s.take (k+1)) = true
        · rw [if_pos ht]
          obtain ⟨e, he, hep, hen⟩ := (punctHasTag_iff _ _ _ _).1 ht
          refine ⟨Nat.le_refl _, ⟨e, he, hen, ?_, ?_⟩, fun e' _ _ _ hl => hl⟩
          · rw [hep]; exact List.take_prefix _ _
          · rw [hep]; exact hplen
        · rw [if_neg ht]
          have hno : ∀ e ∈ T, punctEnabled lang dig e = true → e.1 <+: s → e.1.length ≤ k + 1 →
              e.1.length ≤ k := by
            intro e he hen hp hl
            rcases Nat.lt_or_ge e.1.length (k+1) with h1 | h1
            · omega
            · exfalso
              have heq : e.1.length = k + 1 := Nat.le_antisymm hl h1
              have : e.1 = s.take (k+1) := by
                have := prefix_take_of_prefix hp
                rw [heq] at this; exact this
              exact ht ((punctHasTag_iff _ _ _ _).2 ⟨e, he, this, hen⟩)
          cases best with
          | none =>
            intro e he hen hp hl
            exact h e he hen hp (hno e he hen hp hl)
          | some n =>
            obtain ⟨h1, h2, h3⟩ := h
            exact ⟨Nat.le_succ_of_le h1, h2, fun e he hen hp hl => h3 e he hen hp (hno e he hen hp hl)⟩
      have := ih (k+1) _ hnext
      have e : k + 1 + f = k + (f + 1) := by omega
      rw [e] at this
      exact this
    · rw [if_neg hc]
      refine h.mono (Nat.le_add_right _ _) ?_
      intro e he hen hp
      rcases Nat.lt_or_ge k e.1.length with h1 | h1
      · exfalso
        apply hc
        have hlen : k < s.length := Nat.lt_of_lt_of_le h1 hp.length_le
        simp only [Bool.and_eq_true, Bool.not_eq_true', List.isEmpty_eq_false_iff]
        refine ⟨?_, ?_⟩
        · intro hnil
          have := List.drop_eq_nil_iff.1 hnil
          omega
        · refine (punctIsNode_iff _ _).2 ⟨e, he, ?_⟩
          obtain ⟨r, hr⟩ := hp
          rw [← hr, List.take_append_of_le_length (by omega)]
          exact List.take_prefix _ _
      · exact h1

/-- the general statement, for any table whose tags are non-empty and at most 6 long -/
theorem findPunctT_longest (T : List PEnt) (hT : ∀ e ∈ T, e.1 ≠ [] ∧ e.1.length ≤ 6)
    (lang : Nat) (dig : Bool) (s : List CP) :
    match findPunctT T lang dig s with
    | none => ∀ e ∈ T, punctEnabled lang dig e = true → ¬ e.1 <+: s
    | some n => (∃ e ∈ T, punctEnabled lang dig e = true ∧ e.1 <+: s ∧ e.1.length = n) ∧
        ∀ e ∈ T, punctEnabled lang dig e = true → e.1 <+: s → e.1.length ≤ n := by
  have h0 : IsBest T lang dig s 0 none := by
    intro e he _ _ hl
    have := (hT e he).1
    cases hx : e.1 with
    | nil => exact this hx
    | cons a l => rw [hx] at hl; simp at hl
  have := findPunctGo_spec T lang dig s 6 0 none h0
  unfold findPunctT
  cases hr : findPunctGo T lang dig s 6 0 none with
  | none =>
    rw [hr] at this
    intro e he hen hp
    exact this e he hen hp (by have := (hT e he).2; omega)
  | some n =>
    rw [hr] at this
    obtain ⟨_, h2, h3⟩ := this
    exact ⟨h2, fun e he hen hp => h3 e he hen hp (by have := (hT e he).2; omega)⟩

theorem punctTable_wf : ∀ e ∈ Gen.punctTable, e.1 ≠ [] ∧ e.1.length ≤ 6 := by decide

end Unc
