import UncModel.Lemmas.FuseDefs
namespace Unc
set_option maxRecDepth 100000 in
theorem ppCheck_CPP : ppCheck 2 = true := by decide +kernel
theorem langFacts_CPP : langFacts 2 = true := by decide +kernel
end Unc
