import UncModel.Render
/-!
# Lemmas about the output machine (`AddChar.lean`) and `output_text()` (`Render.lean`)

Everything the property file `UncModel/Props/Render.lean` needs.  Sections:

1. predicates (`isBlank`, `isEol`, `NlOK`, `TermOK`, `OpsRawOK`, `vis`, `opChars`, `Tidy`, `chunkVis`)
2. "what was written" equations for the primitives (`*_out`)
3. terminators (`*_ok`)
4. visible code points (`*_vis`)
5. projections `RSt → OutSt` of the logged helpers
6. extension lemmas (`ExtP`): the output only grows, and by what
7. exact equations for indentation (`SpRes`, `TabRes`)
-/

namespace Unc

/-! ## 1. predicates -/

def isBlank (c : CP) : Bool := c = 32 || c = 9
def isEol (c : CP) : Bool := c = 10 || c = 13

/-- `cpd.newline` is `"\n"`, `"\r\n"` or `"\r"` -/
def NlOK (nl : List CP) : Prop := nl ≠ [] ∧ ∀ x ∈ nl, x = 10 ∨ x = 13

/-- the output consists of non-terminator code points and WHOLE copies of `nl` -/
inductive TermOK (nl : List CP) : List CP → Prop
  | nil : TermOK nl []
  | char (l : List CP) (ch : CP) : TermOK nl l → ch ≠ 10 → ch ≠ 13 → TermOK nl (l ++ [ch])
  | brk (l : List CP) : TermOK nl l → TermOK nl (l ++ nl)

/-- raw writes never carry a line break -/
def OpsRawOK (ops : List Op) : Prop := ∀ ch, Op.raw ch ∈ ops → ch ≠ 10 ∧ ch ≠ 13

/-- the visible (non-whitespace) code points -/
def vis (l : List CP) : List CP := l.filter (fun c => !(isBlank c) && !(isEol c))

def opChars (ops : List Op) : List CP :=
  ops.filterMap (fun o => match o with | .add ch _ => some ch | .raw ch => some ch | _ => none)

/-- no pending spaces, and the last emitted code point is not a blank -/
def Tidy (s : OutSt) : Prop := s.spaces = 0 ∧ ∀ x, s.rout.head? = some x → isBlank x = false

/-- what is written once the pending spaces are flushed (newest first) -/
def flushed (s : OutSt) : List CP := List.replicate s.spaces 32 ++ s.rout

theorem flushed_eq (s : OutSt) : flushed s = (flushSpaces s).rout := rfl

/-! ## 2. what the primitives write -/

theorem crPrologue_out (c : OutCfg) (s : OutSt) (ch : CP) :
    (crPrologue c s ch).out = s.out ++ (if s.last = 13 ∧ ch ≠ 10 then c.nl else []) := by
  unfold crPrologue; split <;> simp [OutSt.out]

theorem flushSpaces_out (s : OutSt) : (flushSpaces s).out = s.out ++ List.replicate s.spaces 32 := by
  simp [flushSpaces, OutSt.out]

theorem addPlain_out (c : OutCfg) (s : OutSt) (ch : CP) :
    (addPlain c s ch).out = (crPrologue c s ch).out ++
      (if ch = 10 then List.replicate (crPrologue c s ch).spaces 32 ++ c.nl
       else if ch = 13 then []
       else if ch = 32 ∧ (crPrologue c s ch).trail = false then []
       else List.replicate (crPrologue c s ch).spaces 32 ++ [ch]) := by
  unfold addPlain
  simp only []
  split
  · simp [OutSt.out, flushSpaces]
  · split
    · simp [OutSt.out]
    · split
      · rename_i h; simp at h; obtain ⟨rfl, h⟩ := h; simp [OutSt.out, h]
      · rename_i h; simp at h
        simp [OutSt.out, flushSpaces]
        intro h1; exact h h1

/-! ## 3. terminators -/

theorem TermOK.replicate32 {nl l} (h : TermOK nl l) (n : Nat) :
    TermOK nl (l ++ List.replicate n 32) := by
  induction n with
  | zero => simpa using h
  | succ n ih =>
    rw [List.replicate_succ', ← List.append_assoc]
    exact TermOK.char _ 32 ih (by decide) (by decide)

theorem TermOK.append_chars {nl l} (h : TermOK nl l) (t : List CP) (ht : ∀ x ∈ t, x ≠ 10 ∧ x ≠ 13) :
    TermOK nl (l ++ t) := by
  induction t generalizing l with
  | nil => simpa using h
  | cons x t ih =>
    have := ih (TermOK.char _ x h (ht x (by simp)).1 (ht x (by simp)).2)
      (fun y hy => ht y (by simp [hy]))
    simpa using this

theorem crPrologue_ok (c : OutCfg) (s : OutSt) (ch : CP) (h : TermOK c.nl s.out) :
    TermOK c.nl (crPrologue c s ch).out := by
  rw [crPrologue_out]; split
  · exact TermOK.brk _ h
  · simpa using h

theorem addPlain_ok (c : OutCfg) (s : OutSt) (ch : CP) (h : TermOK c.nl s.out) :
    TermOK c.nl (addPlain c s ch).out := by
  have h1 := crPrologue_ok c s ch h
  rw [addPlain_out]
  split
  · rw [← List.append_assoc]; exact TermOK.brk _ (h1.replicate32 _)
  · split
    · simpa using h1
    · split
      · simpa using h1
      · rename_i h10 h13 _
        rw [← List.append_assoc]
        exact TermOK.char _ ch (h1.replicate32 _) h10 h13

theorem addSpacesTo_ok (c : OutCfg) (n : Nat) (s : OutSt) (h : TermOK c.nl s.out) :
    TermOK c.nl (addSpacesTo c n s).out := by
  induction n generalizing s with
  | zero => exact h
  | succ n ih => exact ih _ (addPlain_ok c s 32 h)

theorem addChar_ok (c : OutCfg) (s : OutSt) (ch : CP) (lit : Bool) (h : TermOK c.nl s.out) :
    TermOK c.nl (addChar c s ch lit).out := by
  unfold addChar
  simp only []
  split
  · exact addSpacesTo_ok _ _ _ (crPrologue_ok c s ch h)
  · split
    · exact addSpacesTo_ok _ _ _ (crPrologue_ok c s ch h)
    · exact addPlain_ok c s ch h

theorem addText_ok (c : OutCfg) (s : OutSt) (txt : List CP) (lit : Bool) (h : TermOK c.nl s.out) :
    TermOK c.nl (addText c s txt lit).out := by
  unfold addText
  induction txt generalizing s with
  | nil => exact h
  | cons x t ih => exact ih _ (addChar_ok c s x lit h)

theorem execOp_ok (c : OutCfg) (s : OutSt) (op : Op) (h : TermOK c.nl s.out)
    (hr : ∀ ch, op = Op.raw ch → ch ≠ 10 ∧ ch ≠ 13) : TermOK c.nl (execOp c s op).out := by
  cases op with
  | add ch lit => exact addChar_ok c s ch lit h
  | raw ch =>
    have := hr ch rfl
    show TermOK c.nl (ch :: s.rout).reverse
    rw [List.reverse_cons]
    exact TermOK.char _ ch h this.1 this.2
  | trail b => exact h
  | tabSp b => exact h

theorem execOps_ok (c : OutCfg) (ops : List Op) (s : OutSt) (h : TermOK c.nl s.out)
    (hr : OpsRawOK ops) : TermOK c.nl (execOps c s ops).out := by
  unfold execOps
  induction ops generalizing s with
  | nil => exact h
  | cons o os ih =>
    refine ih _ (execOp_ok c s o h ?_) (fun ch hch => hr ch (List.mem_cons_of_mem _ hch))
    intro ch hch; exact hr ch (by simp [hch])

/-! ## 4. visible code points -/

@[simp] theorem vis_nil : vis [] = [] := rfl

theorem vis_append (a b : List CP) : vis (a ++ b) = vis a ++ vis b := by simp [vis]

theorem vis_blank {l : List CP} (h : ∀ x ∈ l, isBlank x = true) : vis l = [] := by
  simp only [vis, List.filter_eq_nil_iff]
  intro x hx; simp [h x hx]

theorem vis_replicate32 (n : Nat) : vis (List.replicate n 32) = [] :=
  vis_blank (fun x hx => by rw [(List.mem_replicate.1 hx).2]; rfl)

theorem vis_nl {nl : List CP} (h : NlOK nl) : vis nl = [] := by
  simp only [vis, List.filter_eq_nil_iff]
  intro x hx; rcases h.2 x hx with rfl | rfl <;> decide

theorem vis_reverse (l : List CP) : vis l.reverse = (vis l).reverse := by
  simp [vis, List.filter_reverse]

theorem crPrologue_vis (c : OutCfg) (s : OutSt) (ch : CP) (hnl : NlOK c.nl) :
    vis (crPrologue c s ch).out = vis s.out := by
  rw [crPrologue_out, vis_append]; split <;> simp [vis_nl hnl]

theorem addPlain_vis (c : OutCfg) (s : OutSt) (ch : CP) (hnl : NlOK c.nl) :
    vis (addPlain c s ch).out = vis s.out ++ vis [ch] := by
  rw [addPlain_out, vis_append, crPrologue_vis c s ch hnl]
  congr 1
  split
  · rename_i h; subst h; simp [vis_append, vis_replicate32, vis_nl hnl]; rfl
  · split
    · rename_i h; subst h; rfl
    · split
      · rename_i h; rw [h.1]; rfl
      · simp [vis_append, vis_replicate32]

theorem addSpacesTo_vis (c : OutCfg) (n : Nat) (s : OutSt) (hnl : NlOK c.nl) :
    vis (addSpacesTo c n s).out = vis s.out := by
  induction n generalizing s with
  | zero => rfl
  | succ n ih =>
    show vis (addSpacesTo c n (addPlain c s 32)).out = _
    rw [ih, addPlain_vis c s 32 hnl]; simp; rfl

theorem addChar_vis (c : OutCfg) (s : OutSt) (ch : CP) (lit : Bool) (hnl : NlOK c.nl) :
    vis (addChar c s ch lit).out = vis s.out ++ vis [ch] := by
  unfold addChar
  simp only []
  split
  · rename_i h; rw [addSpacesTo_vis c _ _ hnl, crPrologue_vis c s ch hnl, h.1]; simp; rfl
  · split
    · rename_i h; rw [addSpacesTo_vis c _ _ hnl, crPrologue_vis c s ch hnl, h.1]; simp; rfl
    · exact addPlain_vis c s ch hnl

theorem addText_vis (c : OutCfg) (s : OutSt) (txt : List CP) (lit : Bool) (hnl : NlOK c.nl) :
    vis (addText c s txt lit).out = vis s.out ++ vis txt := by
  unfold addText
  induction txt generalizing s with
  | nil => simp
  | cons x t ih =>
    rw [List.foldl_cons, ih, addChar_vis c s x lit hnl, List.append_assoc, ← vis_append]; rfl

theorem opChars_cons (o : Op) (os : List Op) : opChars (o :: os) = opChars [o] ++ opChars os := by
  cases o <;> simp [opChars]

theorem execOp_vis (c : OutCfg) (s : OutSt) (op : Op) (hnl : NlOK c.nl) :
    vis (execOp c s op).out = vis s.out ++ vis (opChars [op]) := by
  cases op with
  | add ch lit => exact addChar_vis c s ch lit hnl
  | raw ch =>
    show vis (ch :: s.rout).reverse = vis s.rout.reverse ++ vis [ch]
    rw [List.reverse_cons, vis_append]
  | trail b => show vis s.out = vis s.out ++ []; simp
  | tabSp b => show vis s.out = vis s.out ++ []; simp

theorem execOps_vis (c : OutCfg) (s : OutSt) (ops : List Op) (hnl : NlOK c.nl) :
    vis (execOps c s ops).out = vis s.out ++ vis (opChars ops) := by
  unfold execOps
  induction ops generalizing s with
  | nil => simp [opChars]
  | cons o os ih =>
    rw [List.foldl_cons, ih, execOp_vis c s o hnl, opChars_cons o os, vis_append, List.append_assoc]

theorem addRaw_out (s : OutSt) (txt : List CP) : (addRaw s txt).out = s.out ++ txt := by
  simp [addRaw, OutSt.out]

/-! ## 5. the logged helpers project onto the machine -/

@[simp] theorem rAdd_o (c : OutCfg) (s : RSt) (ch : CP) (lit : Bool) :
    (rAdd c s ch lit).o = addChar c s.o ch lit := rfl

theorem rText_o (c : OutCfg) (s : RSt) (txt : List CP) (lit : Bool) :
    (rText c s txt lit).o = addText c s.o txt lit := by
  unfold rText addText
  induction txt generalizing s with
  | nil => rfl
  | cons x t ih => rw [List.foldl_cons, ih]; rfl

theorem rRaw_o (s : RSt) (txt : List CP) : (rRaw s txt).o = addRaw s.o txt := by
  unfold rRaw addRaw
  induction txt generalizing s with
  | nil => rfl
  | cons x t ih => rw [List.foldl_cons, ih]; simp

theorem rTabsTo_o (c : OutCfg) (t f : Nat) (s : RSt) : (rTabsTo c t f s).o = tabsTo c t f s.o := by
  induction f generalizing s with
  | zero => rfl
  | succ f ih =>
    unfold rTabsTo tabsTo
    split
    · rw [ih]; rfl
    · rfl

theorem rSpacesTo_o (c : OutCfg) (t f : Nat) (s : RSt) : (rSpacesTo c t f s).o = spacesTo c t f s.o := by
  induction f generalizing s with
  | zero => rfl
  | succ f ih =>
    unfold rSpacesTo spacesTo
    split
    · rw [ih]; rfl
    · rfl

theorem rToCol_o (c : OutCfg) (s : RSt) (col : Nat) (at' : Bool) :
    (rToCol c s col at').o = outputToColumn c s.o col at' := by
  unfold rToCol outputToColumn
  cases at' <;> simp [rSpacesTo_o, rTabsTo_o]

@[simp] theorem rExecOps_o (c : OutCfg) (s : RSt) (ops : List Op) :
    (rExecOps c s ops).o = execOps c s.o ops := rfl

theorem foldl_inv {α β : Type} (P : α → Prop) (f : α → β → α) (l : List β) (a : α)
    (h0 : P a) (hs : ∀ a b, P a → P (f a b)) : P (l.foldl f a) := by
  induction l generalizing a with
  | nil => exact h0
  | cons x t ih => exact ih _ (hs a x h0)

/-! ## 5a. terminators: `output_to_column` and the branches of `output_text` -/

theorem tabsTo_ok (c : OutCfg) (t f : Nat) (s : OutSt) (h : TermOK c.nl s.out) :
    TermOK c.nl (tabsTo c t f s).out := by
  induction f generalizing s with
  | zero => exact h
  | succ f ih =>
    unfold tabsTo; split
    · exact ih _ (addChar_ok c s 9 false h)
    · exact h

theorem spacesTo_ok (c : OutCfg) (t f : Nat) (s : OutSt) (h : TermOK c.nl s.out) :
    TermOK c.nl (spacesTo c t f s).out := by
  induction f generalizing s with
  | zero => exact h
  | succ f ih =>
    unfold spacesTo; split
    · exact ih _ (addChar_ok c s 32 false h)
    · exact h

theorem outputToColumn_ok (c : OutCfg) (s : OutSt) (col : Nat) (at' : Bool) (h : TermOK c.nl s.out) :
    TermOK c.nl (outputToColumn c s col at').out := by
  unfold outputToColumn
  apply spacesTo_ok
  cases at'
  · exact h
  · exact tabsTo_ok c _ _ _ h

theorem rToCol_ok (c : OutCfg) (s : RSt) (col : Nat) (at' : Bool) (h : TermOK c.nl s.o.out) :
    TermOK c.nl (rToCol c s col at').o.out := by
  rw [rToCol_o]; exact outputToColumn_ok c _ col at' h

theorem rAdd_ok (c : OutCfg) (s : RSt) (ch : CP) (lit : Bool) (h : TermOK c.nl s.o.out) :
    TermOK c.nl (rAdd c s ch lit).o.out := addChar_ok c s.o ch lit h

theorem rText_ok (c : OutCfg) (s : RSt) (txt : List CP) (lit : Bool) (h : TermOK c.nl s.o.out) :
    TermOK c.nl (rText c s txt lit).o.out := by
  rw [rText_o]; exact addText_ok c _ txt lit h

theorem rRaw_ok (c : OutCfg) (s : RSt) (txt : List CP) (h : TermOK c.nl s.o.out)
    (ht : ∀ x ∈ txt, x ≠ 10 ∧ x ≠ 13) : TermOK c.nl (rRaw s txt).o.out := by
  rw [rRaw_o, addRaw_out]; exact h.append_chars txt ht

theorem renderNewline_ok (c : OutCfg) (s : RSt) (pc : Chunk) (h : TermOK c.nl s.o.out) :
    TermOK c.nl (renderNewline c s pc).o.out := by
  unfold renderNewline
  simp only []
  refine foldl_inv (fun s : RSt => TermOK c.nl s.o.out) _ _ _ h ?_
  intro a b ha
  apply rAdd_ok
  split
  · exact rToCol_ok c a _ _ ha
  · exact ha

/-- shape of the `NL_CONT` branch: one `output_to_column`, then `\` and `\n` -/
theorem renderNlCont_shape (c : OutCfg) (o : RenderOpts) (cs : Array Chunk) (i : Nat) (s : RSt) (pc : Chunk) :
    ∃ col at', (renderNlCont c o cs i s pc).o =
      { addChar c (addChar c (outputToColumn c s.o col at') 92 false) 10 false with didNl := true, col := 1 } := by
  have key : ∀ col at', ({ (rAdd c (rAdd c (rToCol c s col at') 92 false) 10 false) with
      o := { (rAdd c (rAdd c (rToCol c s col at') 92 false) 10 false).o with didNl := true, col := 1 } } : RSt).o =
      { addChar c (addChar c (outputToColumn c s.o col at') 92 false) 10 false with didNl := true, col := 1 } := by
    intro col at'; simp only [rAdd_o, rToCol_o]
  unfold renderNlCont
  simp only []
  split
  · exact ⟨_, _, key _ _⟩
  · exact ⟨_, _, key _ _⟩

theorem renderNlCont_ok (c : OutCfg) (o : RenderOpts) (cs : Array Chunk) (i : Nat) (s : RSt) (pc : Chunk)
    (h : TermOK c.nl s.o.out) : TermOK c.nl (renderNlCont c o cs i s pc).o.out := by
  obtain ⟨col, at', he⟩ := renderNlCont_shape c o cs i s pc
  rw [he]
  exact addChar_ok c _ 10 false (addChar_ok c _ 92 false (outputToColumn_ok c _ col at' h))

/-- `lvlcol` of the `indent_with_tabs = 1` case -/
def lvlCol (pc : Chunk) : Nat :=
  if pc.ty = "BRACE_CLOSE" ∨ pc.ty = "CASE_COLON" ∨ pc.isPP then pc.col
  else if pc.colIndent > pc.col then pc.col else pc.colIndent

/-- first-on-line, `indent_with_tabs = 1`: tab out to the indent level -/
def preIndent (c : OutCfg) (s : OutSt) (pc : Chunk) : OutSt :=
  if (pc.isPP ∧ ppIwtEff c = 1) ∨ (!pc.isPP ∧ c.iwt = 1) then
    if lvlCol pc > 1 then outputToColumn c s (lvlCol pc) true else s
  else s

/-- the indentation part of the general branch, on the machine -/
def textIndent (c : OutCfg) (o : RenderOpts) (s : OutSt) (pc : Chunk) (prevCol prevLen : Nat) : OutSt :=
  let s := { s with trail := pc.ty = "STRING_MULTI" }
  if s.didNl then
    outputToColumn c (preIndent c s pc) pc.col ((pc.isPP ∧ ppIwtEff c = 2) ∨ (!pc.isPP ∧ c.iwt = 2))
  else
    let col := sameLineCol s pc
    outputToColumn c s col ((o.alignWithTabs ∧ pc.wasAligned ∧ prevCol + prevLen + 1 ≠ col)
                     ∨ (o.alignKeepTabs ∧ pc.afterTab))

/-- the general branch = indentation, then the text, then the optional tab after `#define` -/
theorem renderText_o (c : OutCfg) (o : RenderOpts) (s : RSt) (pc : Chunk) (prevCol prevLen : Nat) :
    (renderText c o s pc prevCol prevLen).1.o =
      let s1 := addText c (textIndent c o s.o pc prevCol prevLen) pc.txt (pc.ty = "STRING" ∨ pc.ty = "STRING_MULTI")
      let s2 := if pc.ty = "PP_DEFINE" ∧ o.forceTabAfterDefine then addChar c s1 9 false else s1
      { s2 with didNl := pc.isNewline, trail := false } := by
  unfold renderText textIndent preIndent lvlCol
  simp only []
  split
  · split <;> split <;> simp only [apply_ite RSt.o, rAdd_o, rText_o, rToCol_o]
  · split <;> simp only [rAdd_o, rText_o, rToCol_o]

theorem textIndent_ok (c : OutCfg) (o : RenderOpts) (s : OutSt) (pc : Chunk) (prevCol prevLen : Nat)
    (h : TermOK c.nl s.out) : TermOK c.nl (textIndent c o s pc prevCol prevLen).out := by
  unfold textIndent
  simp only []
  split
  · apply outputToColumn_ok
    unfold preIndent
    split
    · split
      · apply outputToColumn_ok; exact h
      · exact h
    · exact h
  · apply outputToColumn_ok; exact h

theorem renderText_ok (c : OutCfg) (o : RenderOpts) (s : RSt) (pc : Chunk) (prevCol prevLen : Nat)
    (h : TermOK c.nl s.o.out) : TermOK c.nl (renderText c o s pc prevCol prevLen).1.o.out := by
  rw [renderText_o]
  simp only []
  have h1 := addText_ok c _ pc.txt (pc.ty = "STRING" ∨ pc.ty = "STRING_MULTI") (textIndent_ok c o s.o pc prevCol prevLen h)
  split
  · exact addChar_ok c _ 9 false h1
  · exact h1

theorem renderLoop_ok (c : OutCfg) (o : RenderOpts) (cs : Array Chunk) (cmt : Nat → Option CmtInfo)
    (hc : ∀ i ci, cmt i = some ci → OpsRawOK ci.ops)
    (hi : ∀ pc ∈ cs.toList, (pc.ty = "JUNK" ∨ pc.ty = "IGNORED") → ∀ x ∈ pc.txt, x ≠ 10 ∧ x ≠ 13)
    (f : Nat) : ∀ (i : Nat) (prev : Nat × Nat) (s : RSt), TermOK c.nl s.o.out →
      TermOK c.nl (renderLoop c o cs cmt f i prev s).o.out := by
  induction f with
  | zero => intro i prev s h; exact h
  | succ f ih =>
    intro i prev s h
    unfold renderLoop
    split
    · exact h
    · rename_i pc hpc
      simp only []
      split
      · exact ih _ _ _ (renderNewline_ok c _ pc h)
      · split
        · exact ih _ _ _ (renderNlCont_ok c o cs i _ pc h)
        · split
          · split
            · exact h
            · rename_i ci hci
              apply ih
              have hops := hc i ci hci
              split <;> exact execOps_ok c ci.ops _ h hops
          · split
            · rename_i hj
              have hm : pc ∈ cs.toList := Array.mem_toList_iff.2 (Array.mem_of_getElem? hpc)
              exact ih _ _ _ (rRaw_ok c _ pc.txt h (hi pc hm hj))
            · split
              · exact ih _ _ _ h
              · exact ih _ _ _ (renderText_ok c o _ pc _ _ h)

/-! ## 5b. visible code points: `output_to_column` and the branches of `output_text` -/

theorem vis_blank1 (ch : CP) (h : isBlank ch = true) : vis [ch] = [] :=
  vis_blank (fun x hx => by rw [List.mem_singleton.1 hx]; exact h)

theorem vis_lf : vis [10] = [] := by decide
theorem vis_bsl : vis [92] = [92] := by decide

theorem tabsTo_vis (c : OutCfg) (t f : Nat) (s : OutSt) (hnl : NlOK c.nl) :
    vis (tabsTo c t f s).out = vis s.out := by
  induction f generalizing s with
  | zero => rfl
  | succ f ih =>
    unfold tabsTo; split
    · rw [ih, addChar_vis c s 9 false hnl, vis_blank1 9 rfl, List.append_nil]
    · rfl

theorem spacesTo_vis (c : OutCfg) (t f : Nat) (s : OutSt) (hnl : NlOK c.nl) :
    vis (spacesTo c t f s).out = vis s.out := by
  induction f generalizing s with
  | zero => rfl
  | succ f ih =>
    unfold spacesTo; split
    · rw [ih, addChar_vis c s 32 false hnl, vis_blank1 32 rfl, List.append_nil]
    · rfl

theorem outputToColumn_vis (c : OutCfg) (s : OutSt) (col : Nat) (at' : Bool) (hnl : NlOK c.nl) :
    vis (outputToColumn c s col at').out = vis s.out := by
  unfold outputToColumn
  rw [spacesTo_vis c _ _ _ hnl]
  cases at'
  · rfl
  · exact tabsTo_vis c _ _ _ hnl

theorem preIndent_vis (c : OutCfg) (s : OutSt) (pc : Chunk) (hnl : NlOK c.nl) :
    vis (preIndent c s pc).out = vis s.out := by
  unfold preIndent
  split
  · split
    · exact outputToColumn_vis c s _ true hnl
    · rfl
  · rfl

theorem textIndent_vis (c : OutCfg) (o : RenderOpts) (s : OutSt) (pc : Chunk) (prevCol prevLen : Nat)
    (hnl : NlOK c.nl) : vis (textIndent c o s pc prevCol prevLen).out = vis s.out := by
  unfold textIndent
  simp only []
  split
  · rw [outputToColumn_vis c _ _ _ hnl, preIndent_vis c _ pc hnl]; rfl
  · rw [outputToColumn_vis c _ _ _ hnl]; rfl

theorem renderText_vis (c : OutCfg) (o : RenderOpts) (s : RSt) (pc : Chunk) (prevCol prevLen : Nat)
    (hnl : NlOK c.nl) : vis (renderText c o s pc prevCol prevLen).1.o.out = vis s.o.out ++ vis pc.txt := by
  rw [renderText_o]
  simp only []
  have h1 := addText_vis c (textIndent c o s.o pc prevCol prevLen) pc.txt (pc.ty = "STRING" ∨ pc.ty = "STRING_MULTI") hnl
  rw [textIndent_vis c o s.o pc prevCol prevLen hnl] at h1
  split
  · show vis (addChar c _ 9 false).out = _
    rw [addChar_vis c _ 9 false hnl, h1, vis_blank1 9 rfl, List.append_nil]
  · exact h1

theorem renderNewline_vis (c : OutCfg) (s : RSt) (pc : Chunk) (hnl : NlOK c.nl) :
    vis (renderNewline c s pc).o.out = vis s.o.out := by
  unfold renderNewline
  simp only []
  refine foldl_inv (fun a : RSt => vis a.o.out = vis s.o.out) _ _ _ rfl ?_
  intro a b ha
  show vis (addChar c _ 10 false).out = _
  rw [addChar_vis c _ 10 false hnl]
  split
  · rw [rToCol_o, outputToColumn_vis c _ _ _ hnl, ha, vis_lf, List.append_nil]
  · rw [ha, vis_lf, List.append_nil]

theorem renderNlCont_vis (c : OutCfg) (o : RenderOpts) (cs : Array Chunk) (i : Nat) (s : RSt) (pc : Chunk)
    (hnl : NlOK c.nl) : vis (renderNlCont c o cs i s pc).o.out = vis s.o.out ++ [92] := by
  obtain ⟨col, at', he⟩ := renderNlCont_shape c o cs i s pc
  rw [he]
  show vis (addChar c (addChar c (outputToColumn c s.o col at') 92 false) 10 false).out = _
  rw [addChar_vis c _ 10 false hnl, addChar_vis c _ 92 false hnl, outputToColumn_vis c _ _ _ hnl,
    vis_lf, vis_bsl, List.append_nil]

theorem rRaw_vis (s : RSt) (txt : List CP) : vis (rRaw s txt).o.out = vis s.o.out ++ vis txt := by
  rw [rRaw_o, addRaw_out, vis_append]

/-- the visible code points `output_text` should emit, by the recursion of `renderLoop` -/
def chunkVisLoop (cs : Array Chunk) (cmt : Nat → Option CmtInfo) : Nat → Nat → List CP
  | 0, _ => []
  | f+1, i =>
    match cs[i]? with
    | none => []
    | some pc =>
      if pc.ty = "NEWLINE" then chunkVisLoop cs cmt f (i+1)
      else if pc.ty = "NL_CONT" then 92 :: chunkVisLoop cs cmt f (i+1)
      else if pc.isCommentTy then
        match cmt i with
        | none => []
        | some ci => vis (opChars ci.ops) ++ chunkVisLoop cs cmt f (i + max 1 ci.consumed)
      else vis pc.txt ++ chunkVisLoop cs cmt f (i+1)

def chunkVis (cs : Array Chunk) (cmt : Nat → Option CmtInfo) : List CP :=
  chunkVisLoop cs cmt (cs.size + 1) 0

theorem consumed_max (n : Nat) : (if n = 0 then 1 else n) = max 1 n := by
  split <;> omega

theorem renderLoop_vis (c : OutCfg) (o : RenderOpts) (cs : Array Chunk) (cmt : Nat → Option CmtInfo)
    (hnl : NlOK c.nl) (f : Nat) : ∀ (i : Nat) (prev : Nat × Nat) (s : RSt),
      vis (renderLoop c o cs cmt f i prev s).o.out = vis s.o.out ++ chunkVisLoop cs cmt f i := by
  induction f with
  | zero => intro i prev s; simp [renderLoop, chunkVisLoop]
  | succ f ih =>
    intro i prev s
    unfold renderLoop chunkVisLoop
    cases hpc : cs[i]? with
    | none => simp
    | some pc =>
      simp only []
      split
      · rw [ih, renderNewline_vis c _ pc hnl]; rfl
      · split
        · rw [ih, renderNlCont_vis c o cs i _ pc hnl, List.append_assoc]; rfl
        · split
          · cases hci : cmt i with
            | none => simp; rfl
            | some ci =>
              simp only []
              rw [ih, consumed_max, ← List.append_assoc]
              congr 1
              split <;> exact execOps_vis c _ ci.ops hnl
          · split
            · rw [ih, rRaw_vis, List.append_assoc]; rfl
            · split
              · rename_i hl
                have : pc.txt = [] := List.length_eq_zero_iff.1 hl
                rw [ih, this]; simp; rfl
              · rw [ih, renderText_vis c o _ pc _ _ hnl, List.append_assoc]; rfl

/-- visible code points of one non-comment chunk -/
def chunkVis1 (pc : Chunk) : List CP :=
  if pc.ty = "NL_CONT" then [92] else if pc.ty = "NEWLINE" then [] else vis pc.txt

theorem chunkVisLoop_no_comments (cs : Array Chunk) (cmt : Nat → Option CmtInfo)
    (hno : ∀ pc ∈ cs.toList, pc.isCommentTy = false) (f : Nat) :
    ∀ i, cs.size < i + f → chunkVisLoop cs cmt f i = (cs.toList.drop i).flatMap chunkVis1 := by
  induction f with
  | zero =>
    intro i hi
    rw [List.drop_eq_nil_of_le (by simp; omega)]; rfl
  | succ f ih =>
    intro i hi
    unfold chunkVisLoop
    cases hpc : cs[i]? with
    | none =>
      have : cs.size ≤ i := Array.getElem?_eq_none_iff.1 hpc
      rw [List.drop_eq_nil_of_le (by simpa using this)]; rfl
    | some pc =>
      obtain ⟨hlt, heq⟩ := Array.getElem?_eq_some_iff.1 hpc
      have hm : pc ∈ cs.toList := Array.mem_toList_iff.2 (Array.mem_of_getElem? hpc)
      have hd : cs.toList.drop i = pc :: cs.toList.drop (i + 1) := by
        rw [List.drop_eq_getElem_cons (by simpa using hlt)]; simp [heq]
      rw [hd, List.flatMap_cons, ← ih (i + 1) (by omega)]
      simp only [chunkVis1]
      split
      · rename_i h
        have : ¬ pc.ty = "NL_CONT" := by rw [h]; decide
        simp [this]
      · split
        · rfl
        · simp [hno pc hm]

/-! ## 6. exact equations for single `add_char` calls -/

theorem addChar_eq_addPlain (c : OutCfg) (s : OutSt) (ch : CP) (lit : Bool) (h : ch ≠ 9) :
    addChar c s ch lit = addPlain c s ch := by
  unfold addChar; simp [h]

theorem crPrologue_of_ne (c : OutCfg) (s : OutSt) (ch : CP) (h : s.last ≠ 13) : crPrologue c s ch = s := by
  unfold crPrologue; simp [h]

theorem crPrologue_lf (c : OutCfg) (s : OutSt) : crPrologue c s 10 = s := by
  unfold crPrologue; simp

theorem crPrologue_last (c : OutCfg) (s : OutSt) (ch : CP) : (crPrologue c s ch).last = s.last := by
  unfold crPrologue; split <;> rfl

theorem addPlain_last (c : OutCfg) (s : OutSt) (ch : CP) : (addPlain c s ch).last = ch := by
  unfold addPlain; simp only []
  split
  · rfl
  · split
    · rfl
    · split <;> rfl

/-- `add_char('\n')`: flush the pending spaces, write `cpd.newline` -/
theorem addChar_lf (c : OutCfg) (s : OutSt) (lit : Bool) :
    addChar c s 10 lit =
      { s with rout := c.nl.reverse ++ (List.replicate s.spaces 32 ++ s.rout), col := 1, didNl := true,
               spaces := 0, last := 10 } := by
  rw [addChar_eq_addPlain c s 10 lit (by decide)]
  unfold addPlain
  simp [crPrologue_lf, flushSpaces]

/-- `add_char(ch)` for a code point that is neither blank nor a line break, no CR pending -/
theorem addChar_visible (c : OutCfg) (s : OutSt) (ch : CP) (lit : Bool)
    (hb : isBlank ch = false) (he : isEol ch = false) (hl : s.last ≠ 13) :
    addChar c s ch lit =
      { s with rout := ch :: (List.replicate s.spaces 32 ++ s.rout), col := s.col + 1, spaces := 0, last := ch } := by
  simp [isBlank] at hb
  simp [isEol] at he
  rw [addChar_eq_addPlain c s ch lit hb.2]
  unfold addPlain
  simp [crPrologue_of_ne c s ch hl, flushSpaces, hb.1, hb.2, he.1, he.2]

/-- for a visible code point the state is tidy afterwards, whatever the state before -/
theorem addChar_visible_tidy (c : OutCfg) (s : OutSt) (ch : CP) (lit : Bool)
    (hb : isBlank ch = false) (he : isEol ch = false) : Tidy (addChar c s ch lit) := by
  have hb' := hb
  simp [isBlank] at hb
  simp [isEol] at he
  rw [addChar_eq_addPlain c s ch lit hb.2]
  unfold addPlain Tidy
  simp [flushSpaces, hb.1, he.1, he.2]
  exact hb'

/-- `add_char(' ')` with `output_trailspace` off: the space stays pending -/
theorem addChar_space_pending (c : OutCfg) (s : OutSt) (lit : Bool) (hl : s.last ≠ 13) (ht : s.trail = false) :
    addChar c s 32 lit = { s with spaces := s.spaces + 1, col := s.col + 1, last := 32 } := by
  rw [addChar_eq_addPlain c s 32 lit (by decide)]
  unfold addPlain
  simp [crPrologue_of_ne c s 32 hl, ht]

/-- `add_char(' ')` with `output_trailspace` on: written at once -/
theorem addChar_space_trail (c : OutCfg) (s : OutSt) (lit : Bool) (hl : s.last ≠ 13) (ht : s.trail = true) :
    addChar c s 32 lit =
      { s with rout := 32 :: (List.replicate s.spaces 32 ++ s.rout), spaces := 0, col := s.col + 1, last := 32 } := by
  rw [addChar_eq_addPlain c s 32 lit (by decide)]
  unfold addPlain
  simp [crPrologue_of_ne c s 32 hl, ht, flushSpaces]

/-- `add_char('\t')` when no expansion applies and nothing is pending -/
theorem addChar_tab (c : OutCfg) (s : OutSt) (hl : s.last ≠ 13) (h32 : s.last ≠ 32) (hts : s.tabSp = false)
    (hs : s.spaces = 0) :
    addChar c s 9 false = { s with rout := 9 :: s.rout, col := nextTab c.tab s.col, last := 9 } := by
  unfold addChar
  simp [crPrologue_of_ne c s 9 hl, hts, h32]
  unfold addPlain
  cases s
  simp at hs hl hts h32
  simp [crPrologue, hl, flushSpaces, hs, hts]

/-! ## 7. the output only grows (`ExtP P s s'`: `s'` wrote what `s` wrote, then code points satisfying `P`) -/

def ExtP (P : CP → Prop) (s s' : OutSt) : Prop := ∃ e, s'.out = s.out ++ e ∧ ∀ x ∈ e, P x

theorem ExtP.refl (P : CP → Prop) (s : OutSt) : ExtP P s s := ⟨[], by simp, by simp⟩

theorem ExtP.of_out_eq {P : CP → Prop} {s s' : OutSt} (h : s'.out = s.out) : ExtP P s s' :=
  ⟨[], by simp [h], by simp⟩

theorem ExtP.trans {P : CP → Prop} {a b d : OutSt} (h1 : ExtP P a b) (h2 : ExtP P b d) : ExtP P a d := by
  obtain ⟨e1, he1, hp1⟩ := h1
  obtain ⟨e2, he2, hp2⟩ := h2
  refine ⟨e1 ++ e2, by rw [he2, he1, List.append_assoc], ?_⟩
  intro x hx
  rcases List.mem_append.1 hx with h | h
  · exact hp1 x h
  · exact hp2 x h

theorem ExtP.rout {P : CP → Prop} {s s' : OutSt} (h : ExtP P s s') :
    ∃ pre, s'.rout = pre ++ s.rout ∧ ∀ x ∈ pre, P x := by
  obtain ⟨e, he, hp⟩ := h
  refine ⟨e.reverse, ?_, fun x hx => hp x (List.mem_reverse.1 hx)⟩
  have := congrArg List.reverse he
  simpa [OutSt.out] using this

theorem crPrologue_ext (P : CP → Prop) (c : OutCfg) (s : OutSt) (ch : CP)
    (hnl : s.last = 13 → ∀ x ∈ c.nl, P x) : ExtP P s (crPrologue c s ch) := by
  refine ⟨_, crPrologue_out c s ch, ?_⟩
  split
  · rename_i h; exact hnl h.1
  · simp

theorem addPlain_ext (P : CP → Prop) (c : OutCfg) (s : OutSt) (ch : CP) (h32 : P 32)
    (hnl : s.last = 13 ∨ ch = 10 → ∀ x ∈ c.nl, P x) (hch : ch ≠ 10 → ch ≠ 13 → P ch) :
    ExtP P s (addPlain c s ch) := by
  refine (crPrologue_ext P c s ch (fun h => hnl (Or.inl h))).trans ⟨_, addPlain_out c s ch, ?_⟩
  have hsp : ∀ n, ∀ x ∈ List.replicate n 32, P x := fun n x hx => by
    rw [(List.mem_replicate.1 hx).2]; exact h32
  split
  · rename_i h
    intro x hx
    rcases List.mem_append.1 hx with h' | h'
    · exact hsp _ x h'
    · exact hnl (Or.inr h) x h'
  · split
    · simp
    · split
      · simp
      · rename_i h10 h13 _
        intro x hx
        rcases List.mem_append.1 hx with h' | h'
        · exact hsp _ x h'
        · rw [List.mem_singleton.1 h']; exact hch h10 h13

theorem addSpacesTo_ext (P : CP → Prop) (c : OutCfg) (n : Nat) (s : OutSt) (h32 : P 32)
    (hnl : s.last = 13 → ∀ x ∈ c.nl, P x) : ExtP P s (addSpacesTo c n s) := by
  induction n generalizing s with
  | zero => exact ExtP.refl P s
  | succ n ih =>
    refine (addPlain_ext P c s 32 h32 ?_ (fun _ _ => h32)).trans (ih _ ?_)
    · intro h; rcases h with h | h
      · exact hnl h
      · exact absurd h (by decide)
    · intro h; rw [addPlain_last] at h; exact absurd h (by decide)

theorem addChar_ext (P : CP → Prop) (c : OutCfg) (s : OutSt) (ch : CP) (lit : Bool) (h32 : P 32)
    (hnl : s.last = 13 ∨ ch = 10 → ∀ x ∈ c.nl, P x) (hch : ch ≠ 10 → ch ≠ 13 → P ch) :
    ExtP P s (addChar c s ch lit) := by
  have hx : ExtP P s (addSpacesTo c (nextTab c.tab (crPrologue c s ch).col - (crPrologue c s ch).col)
      (crPrologue c s ch)) := by
    refine (crPrologue_ext P c s ch (fun h => hnl (Or.inl h))).trans (addSpacesTo_ext P c _ _ h32 ?_)
    intro h; rw [crPrologue_last] at h; exact hnl (Or.inl h)
  unfold addChar
  simp only []
  split
  · exact hx
  · split
    · exact hx
    · exact addPlain_ext P c s ch h32 hnl hch

theorem addSpacesTo_last (c : OutCfg) (n : Nat) (s : OutSt) (h : s.last ≠ 13) :
    (addSpacesTo c n s).last ≠ 13 := by
  induction n generalizing s with
  | zero => exact h
  | succ n ih => exact ih _ (by rw [addPlain_last]; decide)

theorem addChar_last (c : OutCfg) (s : OutSt) (ch : CP) (lit : Bool) (h : s.last ≠ 13) (hch : ch ≠ 13) :
    (addChar c s ch lit).last ≠ 13 := by
  have hx := addSpacesTo_last c (nextTab c.tab (crPrologue c s ch).col - (crPrologue c s ch).col)
    (crPrologue c s ch) (by rw [crPrologue_last]; exact h)
  unfold addChar
  simp only []
  split
  · exact hx
  · split
    · exact hx
    · rw [addPlain_last]; exact hch

/-- plain extension: what was written stays written -/
abbrev Ext (s s' : OutSt) : Prop := ExtP (fun _ => True) s s'

theorem addChar_ext' (c : OutCfg) (s : OutSt) (ch : CP) (lit : Bool) : Ext s (addChar c s ch lit) :=
  addChar_ext _ c s ch lit trivial (fun _ _ _ => trivial) (fun _ _ => trivial)

theorem addText_ext' (c : OutCfg) (s : OutSt) (txt : List CP) (lit : Bool) : Ext s (addText c s txt lit) := by
  unfold addText
  induction txt generalizing s with
  | nil => exact ExtP.refl _ s
  | cons x t ih => exact (addChar_ext' c s x lit).trans (ih _)

/-- blank extension: no CR pending before or after, and only blanks were written -/
def BExt (s s' : OutSt) : Prop := s'.last ≠ 13 ∧ ExtP (fun x => isBlank x = true) s s'

theorem BExt.trans {a b d : OutSt} (h1 : BExt a b) (h2 : BExt b d) : BExt a d := ⟨h2.1, h1.2.trans h2.2⟩

theorem addChar_bext (c : OutCfg) (s : OutSt) (ch : CP) (lit : Bool) (hl : s.last ≠ 13)
    (hch : ch = 32 ∨ ch = 9) : BExt s (addChar c s ch lit) := by
  refine ⟨addChar_last c s ch lit hl (by rcases hch with h | h <;> rw [h] <;> decide), ?_⟩
  refine addChar_ext _ c s ch lit rfl ?_ ?_
  · intro h; rcases h with h | h
    · exact absurd h hl
    · rcases hch with h' | h' <;> rw [h'] at h <;> exact absurd h (by decide)
  · intro _ _; rcases hch with h | h <;> rw [h] <;> rfl

theorem tabsTo_bext (c : OutCfg) (t f : Nat) (s : OutSt) (hl : s.last ≠ 13) : BExt s (tabsTo c t f s) := by
  induction f generalizing s with
  | zero => exact ⟨hl, ExtP.refl _ s⟩
  | succ f ih =>
    unfold tabsTo; split
    · have h1 := addChar_bext c s 9 false hl (Or.inr rfl)
      exact h1.trans (ih _ h1.1)
    · exact ⟨hl, ExtP.refl _ s⟩

theorem spacesTo_bext (c : OutCfg) (t f : Nat) (s : OutSt) (hl : s.last ≠ 13) : BExt s (spacesTo c t f s) := by
  induction f generalizing s with
  | zero => exact ⟨hl, ExtP.refl _ s⟩
  | succ f ih =>
    unfold spacesTo; split
    · have h1 := addChar_bext c s 32 false hl (Or.inl rfl)
      exact h1.trans (ih _ h1.1)
    · exact ⟨hl, ExtP.refl _ s⟩

theorem outputToColumn_bext (c : OutCfg) (s : OutSt) (col : Nat) (at' : Bool) (hl : s.last ≠ 13) :
    BExt s (outputToColumn c s col at') := by
  unfold outputToColumn
  simp only []
  have h0 : BExt s { s with didNl := false } := ⟨hl, ExtP.of_out_eq rfl⟩
  cases at'
  · exact h0.trans (spacesTo_bext c _ _ _ hl)
  · have h1 := tabsTo_bext c col (col + 1) { s with didNl := false } hl
    exact h0.trans (h1.trans (spacesTo_bext c _ _ _ h1.1))

theorem outputToColumn_ext' (c : OutCfg) (s : OutSt) (col : Nat) (at' : Bool) :
    Ext s (outputToColumn c s col at') := by
  have hT : ∀ t f s, Ext s (tabsTo c t f s) := by
    intro t f
    induction f with
    | zero => intro s; exact ExtP.refl _ s
    | succ f ih => intro s; unfold tabsTo; split
                   · exact (addChar_ext' c s 9 false).trans (ih _)
                   · exact ExtP.refl _ s
  have hS : ∀ t f s, Ext s (spacesTo c t f s) := by
    intro t f
    induction f with
    | zero => intro s; exact ExtP.refl _ s
    | succ f ih => intro s; unfold spacesTo; split
                   · exact (addChar_ext' c s 32 false).trans (ih _)
                   · exact ExtP.refl _ s
  unfold outputToColumn
  simp only []
  have h0 : Ext s { s with didNl := false } := ExtP.of_out_eq rfl
  cases at'
  · exact h0.trans (hS _ _ _)
  · exact h0.trans ((hT _ _ _).trans (hS _ _ _))

/-! ## 8. exact shape of the indentation written by `output_to_column` -/

/-- `s'` is `s` after `n` calls `add_char(' ')` -/
structure SpRes (s s' : OutSt) (n : Nat) : Prop where
  fl : flushed s' = List.replicate n 32 ++ flushed s
  col : s'.col = s.col + n
  last : s'.last ≠ 13
  trail : s'.trail = s.trail
  tabSp : s'.tabSp = s.tabSp
  pend : s.trail = false → s'.rout = s.rout ∧ s'.spaces = s.spaces + n

theorem SpRes.refl (s : OutSt) (h : s.last ≠ 13) : SpRes s s 0 :=
  ⟨by simp, rfl, h, rfl, rfl, fun _ => ⟨rfl, rfl⟩⟩

theorem SpRes.trans {a b d : OutSt} {n m : Nat} (h1 : SpRes a b n) (h2 : SpRes b d m) : SpRes a d (n + m) := by
  refine ⟨?_, ?_, h2.last, h2.trail.trans h1.trail, h2.tabSp.trans h1.tabSp, ?_⟩
  · rw [h2.fl, h1.fl, ← List.append_assoc, List.replicate_append_replicate, Nat.add_comm]
  · rw [h2.col, h1.col]; omega
  · intro ht
    have p1 := h1.pend ht
    have p2 := h2.pend (h1.trail.trans ht)
    exact ⟨p2.1.trans p1.1, by rw [p2.2, p1.2]; omega⟩

theorem addChar_space_res (c : OutCfg) (s : OutSt) (lit : Bool) (hl : s.last ≠ 13) :
    SpRes s (addChar c s 32 lit) 1 := by
  cases ht : s.trail with
  | false =>
    rw [addChar_space_pending c s lit hl ht]
    refine ⟨?_, rfl, (show (32 : CP) ≠ 13 by decide), rfl, rfl, fun _ => ⟨rfl, rfl⟩⟩
    simp [flushed, List.replicate_succ]
  | true =>
    rw [addChar_space_trail c s lit hl ht]
    refine ⟨?_, rfl, (show (32 : CP) ≠ 13 by decide), rfl, rfl, fun h => ?_⟩
    · simp [flushed]
    · rw [ht] at h; exact absurd h (by decide)

theorem spacesTo_res (c : OutCfg) (t : Nat) : ∀ (f : Nat) (s : OutSt), s.last ≠ 13 → t - s.col < f →
    SpRes s (spacesTo c t f s) (t - s.col) := by
  intro f
  induction f with
  | zero => intro s _ h; omega
  | succ f ih =>
    intro s hl hf
    unfold spacesTo
    split
    · rename_i hlt
      have h1 := addChar_space_res c s false hl
      have h2 := ih (addChar c s 32 false) h1.last (by rw [h1.col]; omega)
      have e : 1 + (t - (addChar c s 32 false).col) = t - s.col := by rw [h1.col]; omega
      rw [← e]; exact h1.trans h2
    · have e : t - s.col = 0 := by omega
      rw [e]; exact SpRes.refl s hl

/-- `output_to_column(col, false)`: `col - cpd.column` calls `add_char(' ')` -/
theorem toCol_spaces (c : OutCfg) (s : OutSt) (col : Nat) (hl : s.last ≠ 13) :
    SpRes s (outputToColumn c s col false) (col - s.col) := by
  have h := spacesTo_res c col (col + 1) { s with didNl := false } hl
    (by show col - s.col < col + 1; omega)
  exact ⟨h.fl, h.col, h.last, h.trail, h.tabSp, h.pend⟩

/-- the tab loop writes tabs only (nothing pending, previous code point not a space, no tab expansion) -/
theorem tabsTo_tabs (c : OutCfg) (t : Nat) : ∀ (f : Nat) (s : OutSt), s.spaces = 0 → s.last ≠ 13 → s.last ≠ 32 →
    s.tabSp = false →
    ∃ a, (tabsTo c t f s).rout = List.replicate a 9 ++ s.rout ∧ (tabsTo c t f s).spaces = 0 ∧
      (tabsTo c t f s).last ≠ 13 ∧ (tabsTo c t f s).trail = s.trail ∧ (tabsTo c t f s).tabSp = false := by
  intro f
  induction f with
  | zero => intro s hs hl _ hts; exact ⟨0, by simp [tabsTo], hs, hl, rfl, hts⟩
  | succ f ih =>
    intro s hs hl h32 hts
    unfold tabsTo
    split
    · rw [addChar_tab c s hl h32 hts hs]
      obtain ⟨a, h1, h2, h3, h4, h5⟩ :=
        ih { s with rout := 9 :: s.rout, col := nextTab c.tab s.col, last := 9 } hs
          (show (9 : CP) ≠ 13 by decide) (show (9 : CP) ≠ 32 by decide) hts
      refine ⟨a + 1, ?_, h2, h3, h4, h5⟩
      rw [h1]; simp [List.replicate_succ']
    · exact ⟨0, by simp, hs, hl, rfl, hts⟩

theorem nextTab_at (tab j : Nat) (htab : 0 < tab) : nextTab tab (1 + j * tab) = 1 + (j + 1) * tab := by
  unfold nextTab
  have : ¬ (1 + j * tab = 0) := by omega
  simp only [this, if_false, Nat.add_sub_cancel_left, Nat.mul_div_cancel _ htab]

/-- the tab loop from a tab stop: exactly the tab stops up to the target -/
theorem tabsTo_exact (c : OutCfg) (t : Nat) (htab : 0 < c.tab) : ∀ (f j : Nat) (s : OutSt),
    s.col = 1 + j * c.tab → s.spaces = 0 → s.last ≠ 13 → s.last ≠ 32 → s.tabSp = false →
    j ≤ (t - 1) / c.tab → (t - 1) / c.tab - j < f →
    (tabsTo c t f s).rout = List.replicate ((t - 1) / c.tab - j) 9 ++ s.rout ∧
    (tabsTo c t f s).col = 1 + ((t - 1) / c.tab) * c.tab ∧ (tabsTo c t f s).spaces = 0 ∧
    (tabsTo c t f s).last ≠ 13 ∧ (tabsTo c t f s).trail = s.trail ∧ (tabsTo c t f s).tabSp = false := by
  intro f
  induction f with
  | zero => intro j s _ _ _ _ _ _ h; omega
  | succ f ih =>
    intro j s hcol hs hl h32 hts hj hf
    unfold tabsTo
    rw [hcol, nextTab_at c.tab j htab]
    by_cases hjk : j + 1 ≤ (t - 1) / c.tab
    · have hm : (j + 1) * c.tab ≤ t - 1 := (Nat.le_div_iff_mul_le htab).1 hjk
      have hpos : 0 < (j + 1) * c.tab := Nat.mul_pos (by omega) htab
      have hc : 1 + (j + 1) * c.tab ≤ t := by
        generalize (j + 1) * c.tab = m at hm hpos; omega
      rw [if_pos hc, addChar_tab c s hl h32 hts hs]
      obtain ⟨h1, h2, h3, h4, h5, h6⟩ :=
        ih (j + 1) { s with rout := 9 :: s.rout, col := nextTab c.tab s.col, last := 9 }
          (by show nextTab c.tab s.col = _; rw [hcol, nextTab_at c.tab j htab]) hs
          (show (9 : CP) ≠ 13 by decide) (show (9 : CP) ≠ 32 by decide) hts hjk
          (by omega)
      refine ⟨?_, h2, h3, h4, h5, h6⟩
      rw [h1]
      have e : (t - 1) / c.tab - j = ((t - 1) / c.tab - (j + 1)) + 1 := by omega
      rw [e]; simp [List.replicate_succ']
    · have hc : ¬ (1 + (j + 1) * c.tab ≤ t) := by
        intro hc
        apply hjk
        apply (Nat.le_div_iff_mul_le htab).2
        generalize (j + 1) * c.tab = m at hc; omega
      have e : (t - 1) / c.tab = j := by omega
      rw [if_neg hc, e]
      exact ⟨by simp, hcol, hs, hl, rfl, hts⟩

/-- `output_to_column(col, true)` when nothing is pending: tabs, then spaces -/
theorem toCol_tabs_spaces (c : OutCfg) (s : OutSt) (col : Nat) (hs : s.spaces = 0) (hl : s.last ≠ 13)
    (h32 : s.last ≠ 32) (hts : s.tabSp = false) :
    ∃ a b, flushed (outputToColumn c s col true) = List.replicate b 32 ++ (List.replicate a 9 ++ s.rout) ∧
      (outputToColumn c s col true).last ≠ 13 ∧ (outputToColumn c s col true).trail = s.trail ∧
      (outputToColumn c s col true).tabSp = false := by
  obtain ⟨a, h1, h2, h3, h4, h5⟩ := tabsTo_tabs c col (col + 1) { s with didNl := false } hs hl h32 hts
  have hr := spacesTo_res c col (col + 1) (tabsTo c col (col + 1) { s with didNl := false }) h3 (by omega)
  refine ⟨a, col - (tabsTo c col (col + 1) { s with didNl := false }).col, ?_, hr.last,
    hr.trail.trans h4, hr.tabSp.trans h5⟩
  show flushed (spacesTo c col (col + 1) (tabsTo c col (col + 1) { s with didNl := false })) = _
  rw [hr.fl]
  simp [flushed, h1, h2]

/-- `output_to_column(col, true)` at the start of a line: `(col-1)/tab` tabs, then `(col-1)%tab` spaces -/
theorem toCol_tabs_exact (c : OutCfg) (s : OutSt) (col : Nat) (h1 : s.col = 1) (hs : s.spaces = 0)
    (hl : s.last ≠ 13) (h32 : s.last ≠ 32) (htab : 0 < c.tab) (hts : s.tabSp = false) :
    flushed (outputToColumn c s col true) =
      List.replicate ((col - 1) % c.tab) 32 ++ (List.replicate ((col - 1) / c.tab) 9 ++ s.rout) ∧
    (s.trail = false → (outputToColumn c s col true).rout = List.replicate ((col - 1) / c.tab) 9 ++ s.rout ∧
      (outputToColumn c s col true).spaces = (col - 1) % c.tab) ∧
    (outputToColumn c s col true).col = max 1 col ∧ (outputToColumn c s col true).last ≠ 13 := by
  have hk : (col - 1) / c.tab ≤ col - 1 := Nat.div_le_self _ _
  obtain ⟨t1, t2, t3, t4, t5, _⟩ := tabsTo_exact c col htab (col + 1) 0 { s with didNl := false }
    (by show s.col = 1 + 0 * c.tab; omega) hs hl h32 hts (Nat.zero_le _) (by omega)
  have hr := spacesTo_res c col (col + 1) (tabsTo c col (col + 1) { s with didNl := false }) t4 (by omega)
  have hdm := Nat.div_add_mod (col - 1) c.tab
  rw [Nat.mul_comm] at hdm
  have en : col - (tabsTo c col (col + 1) { s with didNl := false }).col = (col - 1) % c.tab := by
    rw [t2]; generalize (col - 1) / c.tab * c.tab = m at hdm; omega
  rw [en] at hr
  rw [Nat.sub_zero] at t1
  refine ⟨?_, ?_, ?_, hr.last⟩
  · show flushed (spacesTo c col (col + 1) (tabsTo c col (col + 1) { s with didNl := false })) = _
    rw [hr.fl]; simp [flushed, t1, t3]
  · intro ht
    have := hr.pend (t5.trans ht)
    show (spacesTo c col (col + 1) (tabsTo c col (col + 1) { s with didNl := false })).rout = _ ∧
      (spacesTo c col (col + 1) (tabsTo c col (col + 1) { s with didNl := false })).spaces = _
    rw [this.1, this.2, t1, t3]; exact ⟨rfl, by omega⟩
  · show (spacesTo c col (col + 1) (tabsTo c col (col + 1) { s with didNl := false })).col = _
    rw [hr.col, t2]; generalize (col - 1) / c.tab * c.tab = m at hdm; omega

/-! ## 9. newline runs and `\`-newline -/

theorem addChar_lf_out (c : OutCfg) (s : OutSt) (lit : Bool) :
    (addChar c s 10 lit).out = s.out ++ List.replicate s.spaces 32 ++ c.nl := by
  rw [addChar_lf]; simp [OutSt.out]

theorem flatten_replicate_succ_reverse (n : Nat) (nl : List CP) :
    (List.replicate (n + 1) nl).flatten.reverse = nl.reverse ++ (List.replicate n nl).flatten.reverse := by
  rw [List.replicate_succ', List.flatten_append, List.reverse_append]; simp

/-- a run of `add_char('\n')` from a state with nothing pending -/
theorem nl_fold_plain (c : OutCfg) (body : RSt → Nat → RSt) (n : Nat)
    (hb : ∀ s k, k < n → (body s k).o = addChar c s.o 10 false) (s : RSt) (hs : s.o.spaces = 0) :
    ((List.range n).foldl body s).o.rout = (List.replicate n c.nl).flatten.reverse ++ s.o.rout ∧
    ((List.range n).foldl body s).o.spaces = 0 := by
  induction n with
  | zero => exact ⟨by simp, hs⟩
  | succ n ih =>
    have ih' := ih (fun s k hk => hb s k (by omega))
    rw [List.range_succ, List.foldl_append, List.foldl_cons, List.foldl_nil, hb _ n (by omega), addChar_lf]
    refine ⟨?_, rfl⟩
    show c.nl.reverse ++ (List.replicate _ 32 ++ _) = _
    rw [ih'.1, ih'.2, flatten_replicate_succ_reverse]; simp

/-- a run of newlines with optional indentation of the blank lines, from any state -/
theorem nl_fold_general (c : OutCfg) (body : RSt → Nat → RSt) (n : Nat)
    (hb : ∀ s k, (body s k).o = addChar c s.o 10 false ∨
      (0 < k ∧ ∃ col at', (body s k).o = addChar c (outputToColumn c s.o col at') 10 false)) (s : RSt) :
    ∃ ws : List (List CP), ws.length = n ∧ (∀ w ∈ ws, ∀ x ∈ w, isBlank x = true) ∧
      ((List.range n).foldl body s).o.out = s.o.out ++ ws.flatMap (fun w => w ++ c.nl) ∧
      (0 < n → ((List.range n).foldl body s).o.last = 10) := by
  induction n with
  | zero => exact ⟨[], rfl, by simp, by simp, by omega⟩
  | succ n ih =>
    obtain ⟨ws, hlen, hbl, hout, hlast⟩ := ih
    rw [List.range_succ, List.foldl_append, List.foldl_cons, List.foldl_nil]
    have hsp : ∀ m, ∀ x ∈ List.replicate m 32, isBlank x = true := fun m x hx => by
      rw [(List.mem_replicate.1 hx).2]; rfl
    rcases hb ((List.range n).foldl body s) n with h | ⟨hn, col, at', h⟩
    · refine ⟨ws ++ [List.replicate ((List.range n).foldl body s).o.spaces 32], by simp [hlen], ?_, ?_, ?_⟩
      · intro w hw
        rcases List.mem_append.1 hw with h' | h'
        · exact hbl w h'
        · rw [List.mem_singleton.1 h']; exact hsp _
      · rw [h, addChar_lf_out, hout]; simp [List.flatMap_append]
      · intro _; rw [h, addChar_lf]
    · have hl : ((List.range n).foldl body s).o.last ≠ 13 := by rw [hlast hn]; decide
      obtain ⟨_, e, he, hpe⟩ := outputToColumn_bext c _ col at' hl
      refine ⟨ws ++ [e ++ List.replicate (outputToColumn c ((List.range n).foldl body s).o col at').spaces 32],
        by simp [hlen], ?_, ?_, ?_⟩
      · intro w hw
        rcases List.mem_append.1 hw with h' | h'
        · exact hbl w h'
        · rw [List.mem_singleton.1 h']
          intro x hx
          rcases List.mem_append.1 hx with h'' | h''
          · exact hpe x h''
          · exact hsp _ x h''
      · rw [h, addChar_lf_out, he, hout]; simp [List.flatMap_append]
      · intro _; rw [h, addChar_lf]

/-- `\`-newline: (blanks,) `\`, `cpd.newline` -/
theorem renderNlCont_out (c : OutCfg) (o : RenderOpts) (cs : Array Chunk) (i : Nat) (s : RSt) (pc : Chunk) :
    ∃ pre, (renderNlCont c o cs i s pc).o.out = s.o.out ++ pre ++ [92] ++ c.nl ∧
      (s.o.last ≠ 13 → ∀ x ∈ pre, isBlank x = true) := by
  obtain ⟨col, at', he⟩ := renderNlCont_shape c o cs i s pc
  obtain ⟨e, he1, _⟩ := outputToColumn_ext' c s.o col at'
  have hsp : ∀ m, ∀ x ∈ List.replicate m 32, isBlank x = true := fun m x hx => by
    rw [(List.mem_replicate.1 hx).2]; rfl
  have h2 : (addChar c (outputToColumn c s.o col at') 92 false).spaces = 0 :=
    (addChar_visible_tidy c _ 92 false rfl rfl).1
  have hout : (renderNlCont c o cs i s pc).o.out =
      (addChar c (outputToColumn c s.o col at') 92 false).out ++ c.nl := by
    rw [he]
    show (addChar c (addChar c (outputToColumn c s.o col at') 92 false) 10 false).out = _
    rw [addChar_lf_out, h2]; simp
  rw [hout, addChar_eq_addPlain c _ 92 false (by decide), addPlain_out, crPrologue_out, he1]
  refine ⟨e ++ (if (outputToColumn c s.o col at').last = 13 ∧ (92 : CP) ≠ 10 then c.nl else []) ++
    List.replicate (crPrologue c (outputToColumn c s.o col at') 92).spaces 32, ?_, ?_⟩
  · simp
  · intro hl
    obtain ⟨hl', e', he', hpe'⟩ := outputToColumn_bext c s.o col at' hl
    have : e' = e := List.append_cancel_left (he'.symm.trans he1)
    subst this
    intro x hx
    rcases List.mem_append.1 hx with h | h
    · rcases List.mem_append.1 h with h' | h'
      · exact hpe' x h'
      · simp [hl'] at h'
    · exact hsp _ x h

/-! ## 10. tidy states -/

theorem addText_tidy (c : OutCfg) (s : OutSt) (txt : List CP) (lit : Bool) (hne : txt ≠ [])
    (hlast : ∀ x, txt.getLast? = some x → isBlank x = false ∧ isEol x = false) :
    Tidy (addText c s txt lit) := by
  cases hg : txt.getLast? with
  | none => exact absurd (List.getLast?_eq_none_iff.1 hg) hne
  | some x =>
    obtain ⟨ys, rfl⟩ := List.getLast?_eq_some_iff.1 hg
    have hx := hlast x hg
    unfold addText
    rw [List.foldl_append, List.foldl_cons, List.foldl_nil]
    exact addChar_visible_tidy c _ x lit hx.1 hx.2

/-! ## 11. what precedes the text of a chunk -/

theorem textIndent_of_didNl (c : OutCfg) (o : RenderOpts) (s : OutSt) (pc : Chunk) (prevCol prevLen : Nat)
    (h : s.didNl = true) : textIndent c o s pc prevCol prevLen =
      outputToColumn c (preIndent c { s with trail := pc.ty = "STRING_MULTI" } pc) pc.col
        ((pc.isPP ∧ ppIwtEff c = 2) ∨ (!pc.isPP ∧ c.iwt = 2)) := by
  unfold textIndent
  exact if_pos h

theorem textIndent_of_not_didNl (c : OutCfg) (o : RenderOpts) (s : OutSt) (pc : Chunk) (prevCol prevLen : Nat)
    (h : s.didNl = false) : textIndent c o s pc prevCol prevLen =
      outputToColumn c { s with trail := pc.ty = "STRING_MULTI" } (sameLineCol { s with trail := pc.ty = "STRING_MULTI" } pc)
        ((o.alignWithTabs ∧ pc.wasAligned ∧ prevCol + prevLen + 1 ≠ (sameLineCol { s with trail := pc.ty = "STRING_MULTI" } pc))
                     ∨ (o.alignKeepTabs ∧ pc.afterTab)) := by
  unfold textIndent
  exact if_neg (by rw [h]; decide)

/-- first chunk on a line: tabs, then spaces; no tabs when indenting with spaces only -/
theorem textIndent_first (c : OutCfg) (o : RenderOpts) (s : OutSt) (pc : Chunk) (prevCol prevLen : Nat)
    (hsp : s.spaces = 0) (hlast : s.last = 10) (hdn : s.didNl = true) (hts : s.tabSp = false) :
    ∃ a b, flushed (textIndent c o s pc prevCol prevLen) = List.replicate b 32 ++ (List.replicate a 9 ++ s.rout) ∧
      (textIndent c o s pc prevCol prevLen).last ≠ 13 ∧
      (((pc.isPP = false ∧ c.iwt = 0) ∨ (pc.isPP = true ∧ ppIwtEff c = 0)) → a = 0) := by
  have hl13 : s.last ≠ 13 := by rw [hlast]; decide
  have hl32 : s.last ≠ 32 := by rw [hlast]; decide
  rw [textIndent_of_didNl c o s pc prevCol prevLen hdn]
  by_cases h1 : (pc.isPP = true ∧ ppIwtEff c = 1) ∨ ((!pc.isPP) = true ∧ c.iwt = 1)
  · have hat : decide ((pc.isPP = true ∧ ppIwtEff c = 2) ∨ ((!pc.isPP) = true ∧ c.iwt = 2)) = false := by
      rcases h1 with h | h <;> simp [h.1, h.2] <;> simp_all
    have h0 : ¬ ((pc.isPP = false ∧ c.iwt = 0) ∨ (pc.isPP = true ∧ ppIwtEff c = 0)) := by
      rcases h1 with h | h <;> simp [h.2] <;> simp_all
    rw [hat]
    unfold preIndent
    rw [if_pos h1]
    split
    · obtain ⟨a, b, hf, hl, _, _⟩ := toCol_tabs_spaces c { s with trail := pc.ty = "STRING_MULTI" } (lvlCol pc)
        hsp hl13 hl32 hts
      obtain ⟨n, hr⟩ : ∃ n, SpRes _ (outputToColumn c (outputToColumn c
          { s with trail := pc.ty = "STRING_MULTI" } (lvlCol pc) true) pc.col false) n :=
        ⟨_, toCol_spaces c _ pc.col hl⟩
      refine ⟨a, n + b, ?_, hr.last, fun h => absurd h h0⟩
      rw [hr.fl, hf, ← List.append_assoc, List.replicate_append_replicate]
    · obtain ⟨n, hr⟩ : ∃ n, SpRes _ (outputToColumn c { s with trail := pc.ty = "STRING_MULTI" } pc.col false) n :=
        ⟨_, toCol_spaces c _ pc.col hl13⟩
      refine ⟨0, n, ?_, hr.last, fun _ => rfl⟩
      rw [hr.fl]; simp [flushed, hsp]
  · unfold preIndent
    rw [if_neg h1]
    cases hat : decide ((pc.isPP = true ∧ ppIwtEff c = 2) ∨ ((!pc.isPP) = true ∧ c.iwt = 2)) with
    | false =>
      obtain ⟨n, hr⟩ : ∃ n, SpRes _ (outputToColumn c { s with trail := pc.ty = "STRING_MULTI" } pc.col false) n :=
        ⟨_, toCol_spaces c _ pc.col hl13⟩
      refine ⟨0, n, ?_, hr.last, fun _ => rfl⟩
      rw [hr.fl]; simp [flushed, hsp]
    | true =>
      obtain ⟨a, b, hf, hl, _, _⟩ := toCol_tabs_spaces c { s with trail := pc.ty = "STRING_MULTI" } pc.col
        hsp hl13 hl32 hts
      refine ⟨a, b, hf, hl, fun h => ?_⟩
      exfalso
      simp at hat
      rcases h with h | h <;> rcases hat with h' | h' <;> simp_all

theorem sameLineCol_trail (s : OutSt) (t : Bool) (pc : Chunk) : sameLineCol { s with trail := t } pc = sameLineCol s pc := rfl

/-- a chunk that is not first on its line, spaces only: exactly the difference to the column `sameLineCol` gives it -/
theorem textIndent_gap (c : OutCfg) (o : RenderOpts) (s : OutSt) (pc : Chunk) (prevCol prevLen : Nat)
    (hdn : s.didNl = false) (hl : s.last ≠ 13)
    (hat : ¬ ((o.alignWithTabs = true ∧ pc.wasAligned = true ∧ prevCol + prevLen + 1 ≠ sameLineCol s pc)
              ∨ (o.alignKeepTabs = true ∧ pc.afterTab = true))) :
    flushed (textIndent c o s pc prevCol prevLen) = List.replicate (sameLineCol s pc - s.col) 32 ++ flushed s ∧
    (textIndent c o s pc prevCol prevLen).last ≠ 13 := by
  rw [textIndent_of_not_didNl c o s pc prevCol prevLen hdn, sameLineCol_trail]
  have hat' : decide ((o.alignWithTabs = true ∧ pc.wasAligned = true ∧ prevCol + prevLen + 1 ≠ sameLineCol s pc)
              ∨ (o.alignKeepTabs = true ∧ pc.afterTab = true)) = false := by simpa using hat
  rw [hat']
  have hr := toCol_spaces c { s with trail := pc.ty = "STRING_MULTI" } (sameLineCol s pc) hl
  exact ⟨hr.fl, hr.last⟩

/-- the column is never left of what was written, and right of it by at least one between two words -/
theorem sameLineCol_ge (s : OutSt) (pc : Chunk) : sameLineCol s pc ≥ s.col := by
  unfold sameLineCol
  simp only []
  split <;> split <;> omega

theorem sameLineCol_words (s : OutSt) (pc : Chunk) (x : CP) (rest : List CP) (htxt : pc.txt = x :: rest)
    (hl : s.last > 0) (h2 : isKw2 s.last = true) (h1 : isKw1 x = true) : sameLineCol s pc > s.col := by
  unfold sameLineCol
  simp only [htxt, List.length_cons, List.head?_cons, Option.getD_some]
  by_cases hlt : pc.col < s.col
  · simp only [hlt, if_true]
    have : (True ∧ rest.length + 1 > 0 ∧ s.last > 0 ∧ isKw2 s.last = true ∧ isKw1 x = true) := ⟨trivial, by omega, hl, h2, h1⟩
    rw [if_pos this]; omega
  · simp only [hlt, if_false]
    by_cases he : pc.col = s.col
    · have : (pc.col = s.col ∧ rest.length + 1 > 0 ∧ s.last > 0 ∧ isKw2 s.last = true ∧ isKw1 x = true) := ⟨he, by omega, hl, h2, h1⟩
      rw [if_pos this]; omega
    · have : ¬ (pc.col = s.col ∧ rest.length + 1 > 0 ∧ s.last > 0 ∧ isKw2 s.last = true ∧ isKw1 x = true) := fun h => he h.1
      rw [if_neg this]; omega

/-- the general branch writes: the indentation, the first code point of the text, then the rest -/
theorem renderText_rout_after (c : OutCfg) (o : RenderOpts) (s : RSt) (pc : Chunk) (prevCol prevLen : Nat)
    (x : CP) (rest : List CP) (htxt : pc.txt = x :: rest) (hb : isBlank x = false) (he : isEol x = false)
    (hl : (textIndent c o s.o pc prevCol prevLen).last ≠ 13) :
    ∃ tail, (renderText c o s pc prevCol prevLen).1.o.rout =
      tail ++ x :: flushed (textIndent c o s.o pc prevCol prevLen) := by
  rw [renderText_o, htxt]
  simp only []
  have h1 : (addChar c (textIndent c o s.o pc prevCol prevLen) x (pc.ty = "STRING" ∨ pc.ty = "STRING_MULTI")).rout =
      x :: flushed (textIndent c o s.o pc prevCol prevLen) := by
    rw [addChar_visible c _ x _ hb he hl]; rfl
  have e1 : Ext (addChar c (textIndent c o s.o pc prevCol prevLen) x (pc.ty = "STRING" ∨ pc.ty = "STRING_MULTI"))
      (addText c (textIndent c o s.o pc prevCol prevLen) (x :: rest) (pc.ty = "STRING" ∨ pc.ty = "STRING_MULTI")) :=
    addText_ext' c _ rest _
  split
  · obtain ⟨tail, ht, _⟩ := (e1.trans (addChar_ext' c _ 9 false)).rout
    exact ⟨tail, by rw [← h1]; exact ht⟩
  · obtain ⟨tail, ht, _⟩ := e1.rout
    exact ⟨tail, by rw [← h1]; exact ht⟩

/-! ## 12. what `TermOK` means for the three possible values of `cpd.newline` -/

theorem TermOK.lf_no_cr {l : List CP} (h : TermOK [10] l) : 13 ∉ l := by
  induction h with
  | nil => simp
  | char l ch _ _ h13 ih => simp [ih]; exact fun h => h13 h.symm
  | brk l _ ih => simp [ih]

theorem TermOK.cr_no_lf {l : List CP} (h : TermOK [13] l) : 10 ∉ l := by
  induction h with
  | nil => simp
  | char l ch _ h10 _ ih => simp [ih]; exact fun h => h10 h.symm
  | brk l _ ih => simp [ih]

theorem TermOK.crlf_pairs {l : List CP} (h : TermOK [13, 10] l) :
    (∀ i, l[i]? = some 13 → l[i + 1]? = some 10) ∧
    (∀ i, l[i]? = some 10 → ∃ j, i = j + 1 ∧ l[j]? = some 13) := by
  induction h with
  | nil => simp
  | char l ch _ h10 h13 ih =>
    constructor
    · intro i hi
      by_cases hlt : i < l.length
      · rw [List.getElem?_append_left hlt] at hi
        have h1 := ih.1 i hi
        have hlt' : i + 1 < l.length := (List.getElem?_eq_some_iff.1 h1).1
        rw [List.getElem?_append_left hlt']; exact h1
      · rw [List.getElem?_append_right (by omega)] at hi
        cases hk : i - l.length with
        | zero => rw [hk] at hi; simp at hi; exact absurd hi h13
        | succ k => rw [hk] at hi; simp at hi
    · intro i hi
      by_cases hlt : i < l.length
      · rw [List.getElem?_append_left hlt] at hi
        obtain ⟨j, hj, h1⟩ := ih.2 i hi
        exact ⟨j, hj, by rw [List.getElem?_append_left (by omega)]; exact h1⟩
      · rw [List.getElem?_append_right (by omega)] at hi
        cases hk : i - l.length with
        | zero => rw [hk] at hi; simp at hi; exact absurd hi h10
        | succ k => rw [hk] at hi; simp at hi
  | brk l _ ih =>
    constructor
    · intro i hi
      by_cases hlt : i < l.length
      · rw [List.getElem?_append_left hlt] at hi
        have h1 := ih.1 i hi
        have hlt' : i + 1 < l.length := (List.getElem?_eq_some_iff.1 h1).1
        rw [List.getElem?_append_left hlt']; exact h1
      · rw [List.getElem?_append_right (by omega)] at hi
        rw [List.getElem?_append_right (by omega)]
        cases hk : i - l.length with
        | zero =>
          have : i + 1 - l.length = 1 := by omega
          rw [this]; rfl
        | succ k =>
          rw [hk] at hi
          cases k with
          | zero => simp at hi
          | succ k => simp at hi
    · intro i hi
      by_cases hlt : i < l.length
      · rw [List.getElem?_append_left hlt] at hi
        obtain ⟨j, hj, h1⟩ := ih.2 i hi
        exact ⟨j, hj, by rw [List.getElem?_append_left (by omega)]; exact h1⟩
      · rw [List.getElem?_append_right (by omega)] at hi
        cases hk : i - l.length with
        | zero => rw [hk] at hi; simp at hi
        | succ k =>
          rw [hk] at hi
          cases k with
          | zero =>
            refine ⟨l.length, by omega, ?_⟩
            rw [List.getElem?_append_right (Nat.le_refl _), Nat.sub_self]; rfl
          | succ k => simp at hi


end Unc
