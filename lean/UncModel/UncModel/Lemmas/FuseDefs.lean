import UncModel.Lemmas.LexPunctLemmas
import UncModel.FuseGuard
/-! Definitions for the completeness statement of the fusion guard: the token classes, the explicit
    exclusion predicate `guardGap`, and the finite check for punctuator pairs. -/
namespace Unc

def lastC (a : List CP) : CP := a.getLast?.getD 0
def headC (b : List CP) : CP := b.head?.getD 0
def isNumberB (sep : Bool) (a : List CP) : Bool := !a.isEmpty && ppNumLen sep a == a.length

def sameHead (a e : List CP) : Bool := a.head? == e.head?

/-- some tag of `Ta` longer than `a` is a prefix of `a ++ b` or is begun by `a ++ b` -/
def fusableWith (Ta : List (List CP)) (a b : List CP) : Bool :=
  Ta.any fun t => decide (a.length < t.length) && (t.isPrefixOf (a ++ b) || (a ++ b).isPrefixOf t)

/-- `a ++ b` is a proper prefix of an enabled tag -/
def tagPrefixGap (l : Nat) (a b : List CP) : Bool :=
  (enabledTags l).any fun t => decide ((a ++ b).length < t.length) && (a ++ b).isPrefixOf t

/-- The explicit exclusions of `fuse_guard_complete_partial`: the pairs on which the guard of the unchanged
    code does not force a space although gluing can change the token (each clause has a witness theorem
    `C02_fuse_guard_gap_*`):
    1. `/` before `/` or `*` (comment openers are not punctuators)
    2. a digit after an identifier / pp-number character  (`a 1`, `1 2`: `kw2` tests KW1 of the digit)
    3. a pp-number before `.`  (`1 .5`, `1 ...`, `1 . a`)
    4. a pp-number ending in e E p P before a sign  (`0x1e + 3`)
    5. a pp-number ending in `.` or a sign before an identifier character  (`1. f`)
    6. `.` before a digit  (`. 5`)
    7. a chunk of four or more characters switches the punctuator test off  (Java `>` `>>>=`)
    8. `a ++ b` begins a longer punctuator without containing one  (`.` `.` then `.`; `%` `:` then `@`) -/
def guardGap (l : Nat) (a b : List CP) : Bool :=
  let la := lastC a
  let hb := headC b
  let num := isNumberB (langSep l) a
  (a == [47] && (hb == 47 || hb == 42)) ||
  (isKw2 la && isDigit hb) ||
  (num && hb == 46) ||
  (num && isExpChar la && isSign hb) ||
  (num && !isKw2 la && isIdCont hb) ||
  (a == [46] && isDigit hb) ||
  ((decide (4 ≤ a.length) || decide (4 ≤ b.length)) && !isKw2 la && !isIdCont hb) ||
  tagPrefixGap l a b

/-- the finite check over all pairs of punctuator tokens of language `l` -/
def ppCheck (l : Nat) : Bool :=
  (punctToks l).all fun a =>
    let Ta := (enabledTags l).filter (sameHead a)
    (punctToks l).all fun b =>
      !((fusableWith Ta a b && a.head? != some 91) || opensComment (a ++ b) || dotDigit (a ++ b)) ||
        forceSpace l false false a false b false || guardGap l a b

/-- Boolean form of `PunctHead`, plus: the first character is not an identifier-continuation character -/
def punctHeadB (a : List CP) : Bool :=
  match a with
  | [] => false
  | c :: r => c != 92 && c != 34 && c != 39 && !isIdStart c && !isDigit c && !isIdCont c && (c != 91 || r.isEmpty)

/-- per-language table facts used by the proof (all decidable) -/
def langFacts (l : Nat) : Bool :=
  langDig l == false &&
  (punctToks l).all punctHeadB &&
  (enabledTags l).all (fun t => t.all fun x => !isIdStart x && !isDigit x) &&
  (punctToks l).all (fun a => !(enabledTags l).contains (a ++ [46])) &&
  (punctToks l).all (fun a => decide (a.length < 2) || (!opensComment a && !dotDigit a))

/-- the single-language masks of the C family -/
def cFamily : List Nat := [Gen.langC, Gen.langCPP, Gen.langJAVA, Gen.langOC]

inductive TokClass
  | word | number | punct
  deriving DecidableEq, Repr

/-- `a` is a token of class `k` of the specification lexer for language `l` (digraphs off) -/
def IsTok (l : Nat) : TokClass → List CP → Prop
  | .word, a => IsIdent a
  | .number, a => IsNumber (langSep l) a
  | .punct, a => a ∈ punctToks l

end Unc
