import UncModel.Config
import UncModel.Lemmas.ConfigSplitLemmas
/-!
# Definitions of the checks that are decided over the generated tables
-/
namespace Unc
open Gen

/-- base-256 code of a name (injective on byte strings because of the leading 1) -/
def encB (s : Bytes) : Nat := s.foldl (fun a c => a * 256 + c) 1

/-- all hashes are distinct: `m` is the bit mask of the hashes seen so far -/
def distinctMask : List Nat → Nat → Bool
  | [], _ => true
  | h :: hs, m => !(m.testBit h) && distinctMask hs (m ||| (1 <<< h))

def nameHashes : List Nat := optionTable.map (fun d => encB d.name % nameHashMod)

def nameCh (c : Nat) : Bool := (97 ≤ c && c ≤ 122) || (48 ≤ c && c ≤ 57) || c == 95

def directives : List Bytes := [sType, sSet, sFileExt, sMacroOpen, sMacroClose, sMacroElse, sInclude, sUsing]

def allSpellings : List (Bytes × Nat) := boolSpellings ++ iarfSpellings ++ lineendSpellings ++ tokenposSpellings

/-- what the theorems need to know about one declaration (part A: name shape, type, bounds) -/
def rowOKa (d : OptDecl) : Bool :=
  !d.name.isEmpty && d.name.all nameCh && d.name.head?.all (fun c => 97 ≤ c && c ≤ 122)
  && !(directives.contains d.name)
  && compatTable.all (fun e => e.2.1 != d.name)
  && admissible d d.dflt
  && (!d.bounded || ((d.kind == .num || d.kind == .unum) && decide (d.lo ≤ d.hi)
        && decide (-2147483648 ≤ d.lo) && decide (d.hi ≤ 2147483647)))
  && (d.kind != .unum || (d.bounded && decide (0 ≤ d.lo)))

/-- part B: no option is named like a value spelling (so that a reference is never shadowed) -/
def rowOKb (d : OptDecl) : Bool := allSpellings.all (fun p => p.1 != d.name)

/-- `convert(to_string(v)) = v` for every enumerator of the four enum kinds, and every value a spelling
    denotes has a name -/
def enumTableOK (k : OKind) : Bool :=
  (namesOf k).all (fun p => convertString (spellingsOf k) p.2 == some p.1)
  && (spellingsOf k).all (fun p => ((namesOf k).lookup p.2).isSome)
  && (namesOf k).all (fun p => !p.2.isEmpty && p.2.all nameCh)
  && (spellingsOf k).all (fun p => p.1.all nameCh)

/-- the generated index hints point at unsigned options with the guarded names -/
def guardIdxOK : Bool :=
  nlMaxGuardedIdx.length == nlMaxGuarded.length
  && (nlMaxGuarded.zip nlMaxGuardedIdx).all (fun p =>
      match optionTable[p.2]? with
      | some d => d.name == p.1 && d.kind == .unum
      | none => false)
  && (match optionTable[nlMaxIdx]? with
      | some d => d.name == sNlMax && d.kind == .unum
      | none => false)

def languageShapeOK : Bool :=
  languageNames.all (fun p => !p.1.isEmpty && p.1.all (fun c => plainCh c && decide (c < 128)))

def tokenHashes : List Nat := tokenNames.map (fun n => encB (toLowerS n) % tokenHashMod)

def tokenNamesShapeOK : Bool := tokenNames.all (fun n => !n.isEmpty && n.all (fun c => plainCh c && decide (c < 128)))
  && tokenNames[CT_TYPE]? == some (B "TYPE") && tokenNames[CT_MACRO_OPEN]? == some (B "MACRO_OPEN")
  && tokenNames[CT_MACRO_CLOSE]? == some (B "MACRO_CLOSE") && tokenNames[CT_MACRO_ELSE]? == some (B "MACRO_ELSE")

end Unc
