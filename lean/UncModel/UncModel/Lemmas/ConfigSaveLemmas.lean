import UncModel.Lemmas.ConfigProcLemmas
/-!
# Lemmas about the writer (`save_option_file`) read back by the loader
-/
namespace Unc
open Gen

theorem escapeArg_nonzero (s : Bytes) (h : ∀ c ∈ s, c ≠ 0) : ∀ c ∈ escapeArg s, c ≠ 0 := by
  induction s with
  | nil => simp [escapeArg]
  | cons a as ih =>
    have ha := h a (by simp)
    have ih' := ih (fun c hc => h c (by simp [hc]))
    intro c hc
    simp only [escapeArg] at hc
    split at hc
    · rcases List.mem_cons.1 hc with rfl | hc
      · decide
      · rcases List.mem_cons.1 hc with rfl | hc
        · exact ha
        · exact ih' c hc
    · rcases List.mem_cons.1 hc with rfl | hc
      · exact ha
      · exact ih' c hc

theorem cstr_quote (s : Bytes) (h : ∀ c ∈ s, c ≠ 0) : cstr (quoteArg true s) = quoteArg true s := by
  apply cstr_of_nonzero
  intro c hc
  simp only [quoteArg, Bool.not_true, Bool.false_and, Bool.false_eq_true, ↓reduceIte, List.mem_cons,
    List.mem_append, List.not_mem_nil, or_false] at hc
  rcases hc with rfl | hc | rfl
  · decide
  · exact escapeArg_nonzero s h c hc
  · decide

theorem spaces_sep (n : Nat) : ∀ c ∈ spaces n, isArgSep c = true := by
  intro c hc
  simp only [spaces, List.mem_replicate] at hc
  rw [hc.2]; decide

/-- the value text of a saved line renders the argument that the reader of the option gets, and that
    argument is a C string -/
theorem saveLine_renders {i : Nat} {d : OptDecl} (_h : optionTable[i]? = some d) (v : Val)
    (hv : admissible d v = true) :
    ∃ txt w, saveLine d v = d.name ++ (spaces (if d.name.length < maxOptionNameLen then maxOptionNameLen - d.name.length else 1) ++ [61, 32]) ++ txt
      ∧ Renders txt w ∧ cstr w = w ∧ w = valueArg d v := by
  by_cases hs : d.kind = .string
  · -- quoted string
    cases v <;> simp only [admissible, hs, Bool.false_eq_true] at hv
    rename_i s
    have hz : ∀ c ∈ s, c ≠ 0 := by
      intro c hc; have := List.all_eq_true.1 hv c hc; simpa using this
    refine ⟨34 :: (escapeArg s ++ [34]), s, ?_, Renders.quoted s, cstr_of_nonzero s hz, by simp [valueArg, valStr]⟩
    have := cstr_quote s hz
    simp only [saveLine, hs, beq_self_eq_true, ↓reduceIte, valStr, this]
    simp [quoteArg]
  · have hne : (d.kind == OKind.string) = false := by simp [hs]
    have key : valueArg d v ≠ [] ∧ (∀ c ∈ valueArg d v, plainCh c = true) ∧ ∀ c ∈ valueArg d v, c ≠ 0 := by
      unfold valueArg
      cases hkind : d.kind <;> cases v <;> simp only [admissible, hkind, Bool.false_eq_true] at hv
      · rename_i b
        have hb := enumTableOK_of_kind .bool (Or.inl rfl)
        cases b
        · have hl : (namesOf .bool).lookup 0 = some (valStr .bool (.b false)) := by rfl
          exact (convert_name .bool hb 0 _ hl).2
        · have hl : (namesOf .bool).lookup 1 = some (valStr .bool (.b true)) := by rfl
          exact (convert_name .bool hb 1 _ hl).2
      · rename_i x
        obtain ⟨nm, hnm⟩ := Option.isSome_iff_exists.1 hv
        simpa [valStr, hnm] using (convert_name .iarf (enumTableOK_of_kind _ (by simp)) x nm hnm).2
      · rename_i x
        obtain ⟨nm, hnm⟩ := Option.isSome_iff_exists.1 hv
        simpa [valStr, hnm] using (convert_name .lineend (enumTableOK_of_kind _ (by simp)) x nm hnm).2
      · rename_i x
        obtain ⟨nm, hnm⟩ := Option.isSome_iff_exists.1 hv
        simpa [valStr, hnm] using (convert_name .tokenpos (enumTableOK_of_kind _ (by simp)) x nm hnm).2
      · rename_i x
        exact ⟨(intDec_plain x).1, (intDec_plain x).2, intDec_nonzero x⟩
      · rename_i x
        exact ⟨(intDec_plain x).1, (intDec_plain x).2, intDec_nonzero x⟩
      · exact absurd hkind hs
    refine ⟨valueArg d v, valueArg d v, ?_, Renders.plain _ key.1 key.2.1, cstr_of_nonzero _ key.2.2, rfl⟩
    simp [saveLine, hne, valueArg]

/-- the line written for (`d`, `v`) sets exactly that option when read in any state -/
theorem processLine_saveLine {i : Nat} {d : OptDecl} (h : optionTable[i]? = some d) (v : Val)
    (hv : admissible d v = true) (incl : Option (Bytes → Int → St → St)) (fname : Bytes) (compat : Int) (st : St) :
    processLine incl fname compat st (saveLine d v) = (st.setOpt i v, compat) := by
  obtain ⟨txt, w, hline, hr, hc, hw⟩ := saveLine_renders h v hv
  have hf := rowFacts h
  generalize hseps : spaces (if d.name.length < maxOptionNameLen then maxOptionNameLen - d.name.length else 1)
    ++ [61, 32] = seps at hline
  have hs1 : seps ≠ [] := by rw [← hseps]; simp
  have hs2 : ∀ c ∈ seps, isArgSep c = true := by
    rw [← hseps]
    intro c hc
    rcases List.mem_append.1 hc with hc | hc
    · exact spaces_sep _ c hc
    · simp at hc; rcases hc with rfl | rfl <;> decide
  have hsplit := splitArgs_name_value d.name seps txt w hf.nameNe (name_plain hf) hs1 hs2 hr
  rw [← hline] at hsplit
  rw [processLine_option h incl fname compat st _ d.name w [] hsplit (toLowerS_name _ hf.nameCh), hc, hw,
    readOption_valueArg h v hv]


end Unc
