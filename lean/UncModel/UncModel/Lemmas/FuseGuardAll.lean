import UncModel.Lemmas.FuseGuardLemmas
import UncModel.Lemmas.FusePP_C
import UncModel.Lemmas.FusePP_CPP
import UncModel.Lemmas.FusePP_JAVA
import UncModel.Lemmas.FusePP_OC
namespace Unc

theorem cFamily_facts (l : Nat) (hl : l ∈ cFamily) : LangFacts l ∧ ppCheck l = true := by
  simp only [cFamily, Gen.langC, Gen.langCPP, Gen.langJAVA, Gen.langOC, List.mem_cons, List.not_mem_nil, or_false] at hl
  rcases hl with rfl | rfl | rfl | rfl
  · exact ⟨langFacts_spec langFacts_C, ppCheck_C⟩
  · exact ⟨langFacts_spec langFacts_CPP, ppCheck_CPP⟩
  · exact ⟨langFacts_spec langFacts_JAVA, ppCheck_JAVA⟩
  · exact ⟨langFacts_spec langFacts_OC, ppCheck_OC⟩

end Unc
