import UncModel.LineEnd
namespace Unc

theorem wsScan_nil (n k) : wsScan [] n k = (n, k, []) := by simp [wsScan]

theorem wsScan_crlf (r n k) : wsScan (13 :: 10 :: r) n k = wsScan r (n + 1) { k with crlf := k.crlf + 1 } := by
  simp [wsScan]

theorem wsScan_lf (r n k) : wsScan (10 :: r) n k = wsScan r (n + 1) { k with lf := k.lf + 1 } := by
  simp [wsScan]

theorem wsScan_cr (r n k) (h : r.head? ≠ some 10) :
    wsScan (13 :: r) n k = wsScan r (n + 1) { k with cr := k.cr + 1 } := by
  cases r with
  | nil => simp [wsScan]
  | cons a r =>
    have : a ≠ 10 := by simpa using h
    rw [wsScan]
    all_goals (intros; simp_all)

theorem wsScan_other (c : Nat) (r n k) (h10 : c ≠ 10) (h13 : c ≠ 13) :
    wsScan (c :: r) n k = if isWs c then wsScan r n k else (n, k, c :: r) := by
  rw [wsScan]
  all_goals (intros; simp_all)

theorem wsScan_blanks (b : List Nat) (hb : IsBlanks b) (l n k) : wsScan (b ++ l) n k = wsScan l n k := by
  induction b with
  | nil => rfl
  | cons c b ih =>
    have hc := hb c (by simp)
    have hb' : IsBlanks b := fun x hx => hb x (by simp [hx])
    simp only [List.cons_append]
    rw [wsScan_other c _ n k hc.2.1 hc.2.2, hc.1]
    simpa using ih hb'

/-- what follows the run does not start with whitespace -/
def StartsNonWs (rest : List Nat) : Prop := ∀ c, rest.head? = some c → isWs c = false

theorem wsScan_stop (rest : List Nat) (h : StartsNonWs rest) (n k) : wsScan rest n k = (n, k, rest) := by
  cases rest with
  | nil => simp [wsScan]
  | cons c r =>
    have hc : isWs c = false := h c rfl
    have h10 : c ≠ 10 := by intro e; subst e; simp [isWs] at hc
    have h13 : c ≠ 13 := by intro e; subst e; simp [isWs] at hc
    rw [wsScan_other c r n k h10 h13, hc]; simp

def LeCounts.add (a b : LeCounts) : LeCounts := { lf := a.lf + b.lf, crlf := a.crlf + b.crlf, cr := a.cr + b.cr }

theorem census_cons (b : List Nat) (t : Term) (rest) :
    census ((b, t) :: rest) =
      LeCounts.add (match t with | .lf => { lf := 1 } | .crlf => { crlf := 1 } | .cr => { cr := 1 }) (census rest) := by
  cases t <;> simp [census, LeCounts.add] <;> omega

/-- the head of what follows a CR terminator is not LF (because of `Unamb`, blanks and `StartsNonWs`) -/
theorem head_after (rest : List (List Nat × Term)) (fin tail : List Nat)
    (hbl : ∀ p ∈ rest, IsBlanks p.1) (hfin : IsBlanks fin) (htail : StartsNonWs tail)
    (hfirst : ∀ b' t', rest.head? = some (b', t') → ¬ (b' = [] ∧ t' = Term.lf)) :
    (encWs rest fin ++ tail).head? ≠ some 10 := by
  cases rest with
  | nil =>
    simp only [encWs]
    cases fin with
    | nil =>
      cases tail with
      | nil => simp
      | cons c r =>
        have := htail c rfl
        intro h; simp at h; subst h; simp [isWs] at this
    | cons c f =>
      have := (hfin c (by simp)).2.1
      intro h; simp at h; exact this h
  | cons p rest =>
    obtain ⟨b', t'⟩ := p
    simp only [encWs]
    cases b' with
    | nil =>
      have := hfirst [] t' rfl
      cases t' with
      | lf => exact absurd ⟨rfl, rfl⟩ this
      | crlf => simp [Term.cps]
      | cr => simp [Term.cps]
    | cons c b =>
      have := (hbl (c :: b, t') (by simp) c (by simp)).2.1
      intro h; simp at h; exact this h

theorem wsScan_enc (segs : List (List Nat × Term)) (fin tail : List Nat)
    (hbl : ∀ p ∈ segs, IsBlanks p.1) (hfin : IsBlanks fin) (hun : Unamb segs) (htail : StartsNonWs tail)
    (n : Nat) (k : LeCounts) :
    wsScan (encWs segs fin ++ tail) n k = (n + segs.length, LeCounts.add k (census segs), tail) := by
  induction segs generalizing n k with
  | nil =>
    simp only [encWs, List.length_nil, Nat.add_zero]
    rw [wsScan_blanks fin hfin, wsScan_stop tail htail]
    simp [census, LeCounts.add]
  | cons p rest ih =>
    obtain ⟨b, t⟩ := p
    have hb : IsBlanks b := hbl (b, t) (by simp)
    have hbl' : ∀ p ∈ rest, IsBlanks p.1 := fun p hp => hbl p (by simp [hp])
    have hun' : Unamb rest := by
      cases rest with
      | nil => trivial
      | cons q r => exact hun.2
    simp only [encWs, List.append_assoc]
    rw [wsScan_blanks b hb, census_cons]
    cases t with
    | lf =>
      simp only [Term.cps, List.cons_append, List.nil_append]
      rw [wsScan_lf, ih hbl' hun']
      simp [LeCounts.add]; omega
    | crlf =>
      simp only [Term.cps, List.cons_append, List.nil_append]
      rw [wsScan_crlf, ih hbl' hun']
      simp [LeCounts.add]; omega
    | cr =>
      simp only [Term.cps, List.cons_append, List.nil_append]
      have hfirst : ∀ b' t', rest.head? = some (b', t') → ¬ (b' = [] ∧ t' = Term.lf) := by
        intro b' t' h
        cases rest with
        | nil => simp at h
        | cons q r =>
          simp at h; subst h
          intro hh; exact hun.1 ⟨rfl, hh.1, hh.2⟩
      rw [wsScan_cr _ _ _ (head_after rest fin tail hbl' hfin htail hfirst), ih hbl' hun']
      simp [LeCounts.add]; omega

end Unc
