import UncModel.Lemmas.ConfigTableLemmas
import UncModel.Lemmas.ConfigCLemmas
/-!
# Lemmas about `process_option_line` and the value readers
-/
namespace Unc
open Gen

theorem kindOf_get {i : Nat} {d : OptDecl} (h : optionTable[i]? = some d) : kindOf i = d.kind := by
  simp [kindOf, h]
theorem nameOf_get {i : Nat} {d : OptDecl} (h : optionTable[i]? = some d) : nameOf i = d.name := by
  simp [nameOf, h]
theorem dfltOf_get {i : Nat} {d : OptDecl} (h : optionTable[i]? = some d) : dfltOf i = d.dflt := by
  simp [dfltOf, h]

/-- the facts of `rowOKa`, unpacked -/
structure RowFacts (d : OptDecl) : Prop where
  nameNe : d.name ≠ []
  nameCh : d.name.all Unc.nameCh = true
  firstLetter : d.name.head?.all (fun c => 97 ≤ c && c ≤ 122) = true
  notDirective : directives.contains d.name = false
  notCompat : compatTable.all (fun e => e.2.1 != d.name) = true
  dfltOK : admissible d d.dflt = true
  boundedNum : d.bounded = true → (d.kind = .num ∨ d.kind = .unum) ∧ d.lo ≤ d.hi ∧ -2147483648 ≤ d.lo ∧ d.hi ≤ 2147483647
  unumBounded : d.kind = .unum → d.bounded = true ∧ 0 ≤ d.lo

theorem rowFacts {i : Nat} {d : OptDecl} (h : optionTable[i]? = some d) : RowFacts d := by
  have := rowOKa_of_get h
  simp only [rowOKa, Bool.and_eq_true, Bool.not_eq_eq_eq_not, Bool.not_true, Bool.or_eq_true,
    decide_eq_true_eq, beq_iff_eq, bne_iff_ne, ne_eq] at this
  obtain ⟨⟨⟨⟨⟨⟨⟨h1, h2⟩, h2'⟩, h3⟩, h4⟩, h5⟩, h6⟩, h7⟩ := this
  refine ⟨by simpa using h1, h2, h2', h3, h4, h5, ?_, ?_⟩
  · intro hb
    rcases h6 with h6 | h6
    · simp [hb] at h6
    · obtain ⟨⟨⟨a, b⟩, c⟩, e⟩ := h6
      exact ⟨a, b, c, e⟩
  · intro hk
    rcases h7 with h7 | h7
    · exact absurd hk h7
    · exact h7

theorem name_plain {d : OptDecl} (hf : RowFacts d) : ∀ c ∈ d.name, plainCh c = true := by
  intro c hc
  have : ∀ c ∈ d.name, Unc.nameCh c = true := by simpa using hf.nameCh
  exact (nameCh_spec (this c hc)).1

theorem findCompat_none {d : OptDecl} (hf : RowFacts d) (compat : Int) : findCompat compat d.name = none := by
  unfold findCompat
  have : compatTable.find? (fun e => decide (compat < e.1) && e.2.1 == d.name) = none := by
    rw [List.find?_eq_none]
    intro e he
    have := List.all_eq_true.1 hf.notCompat e he
    simp only [bne_iff_ne, ne_eq] at this
    simp [this]
  simp [this]

theorem not_directive {d : OptDecl} (hf : RowFacts d) :
    (d.name == sType) = false ∧ (d.name == sSet) = false ∧ (d.name == sFileExt) = false ∧
    (d.name == sMacroOpen) = false ∧ (d.name == sMacroClose) = false ∧ (d.name == sMacroElse) = false ∧
    (d.name == sInclude) = false ∧ (d.name == sUsing) = false := by
  have h := hf.notDirective
  simp only [directives, List.contains_cons, List.contains_nil, Bool.or_false, Bool.or_eq_false_iff] at h
  obtain ⟨a, b, c, e, f, g, i, j⟩ := h
  exact ⟨a, b, c, e, f, g, i, j⟩

/-- a line whose first argument names option `i` (in any letter case) and that has a second argument
    is handed to the reader of that option -/
theorem processLine_option {i : Nat} {d : OptDecl} (h : optionTable[i]? = some d)
    (incl : Option (Bytes → Int → St → St)) (fname : Bytes) (compat : Int) (st : St) (line a0 a1 : Bytes)
    (more : List Bytes) (hs : splitArgs isArgSep line = .ok (a0 :: a1 :: more)) (hn : toLowerS a0 = d.name) :
    processLine incl fname compat st line = ((readOption st i (cstr a1)).1, compat) := by
  have hf := rowFacts h
  obtain ⟨n1, n2, n3, n4, n5, n6, n7, n8⟩ := not_directive hf
  unfold processLine
  simp only [hs, hn, n1, n2, n3, n4, n5, n6, n7, n8, Bool.or_self, Bool.false_eq_true, ↓reduceIte,
    List.length_cons]
  have : ¬ (more.length + 1 < 1) := by omega
  simp only [this, ↓reduceIte]
  unfold processRegular
  simp [findCompat_none hf, findExact_name h]

/-! ## readers on the writer's output -/

theorem mem_of_lookup {α : Type} (l : List (Nat × α)) (k : Nat) (v : α) (h : l.lookup k = some v) : (k, v) ∈ l := by
  induction l with
  | nil => simp [List.lookup] at h
  | cons p ps ih =>
    obtain ⟨a, b⟩ := p
    by_cases e : k = a
    · subst e; simp [List.lookup] at h; simp [h]
    · have : (k == a) = false := by simp [e]
      simp only [List.lookup, this] at h
      exact List.mem_cons_of_mem _ (ih h)

/-- `convert_string(to_string(v)) = v`, lifted from the decided table fact -/
theorem convert_name (k : OKind) (hk : enumTableOK k = true) (x : Nat) (nm : Bytes)
    (h : (namesOf k).lookup x = some nm) :
    convertString (spellingsOf k) nm = some x ∧ nm ≠ [] ∧ (∀ c ∈ nm, plainCh c = true) ∧ ∀ c ∈ nm, c ≠ 0 := by
  simp only [enumTableOK, Bool.and_eq_true, List.all_eq_true, beq_iff_eq, Bool.not_eq_eq_eq_not,
    Bool.not_true] at hk
  obtain ⟨⟨⟨h1, _⟩, h3⟩, _⟩ := hk
  have hm := mem_of_lookup _ _ _ h
  have a := h1 _ hm
  have b := h3 _ hm
  simp only [List.isEmpty_eq_false_iff] at b
  refine ⟨a, b.1, ?_, ?_⟩
  · intro c hc; exact (nameCh_spec (b.2 c hc)).1
  · intro c hc; exact (nameCh_spec (b.2 c hc)).2.2.1

theorem enumTableOK_of_kind (k : OKind) (hk : k = .bool ∨ k = .iarf ∨ k = .lineend ∨ k = .tokenpos) :
    enumTableOK k = true := by
  obtain ⟨a, b, c, e⟩ := enumTables_ok
  rcases hk with rfl | rfl | rfl | rfl <;> assumption

theorem wrap32_id {x : Int} (h1 : -2147483648 ≤ x) (h2 : x ≤ 2147483647) : wrap32 x = x := by
  unfold wrap32
  simp only
  split <;> omega

/-- the text the writer produces for the value `v` of option `d` (before quoting) -/
def valueArg (d : OptDecl) (v : Val) : Bytes := valStr d.kind v

theorem natDec_plain (n : Nat) : ∀ c ∈ natDec n, plainCh c = true := by
  intro c hc
  have := (isDigitB_iff c).1 (natDec_digits n c hc)
  simp only [plainCh, isArgSep, isSpaceB, isQuoteCh, Bool.and_eq_true, Bool.not_eq_eq_eq_not, Bool.not_true,
    Bool.or_eq_false_iff, beq_eq_false_iff_ne, ne_eq, bne_iff_ne, Bool.and_eq_false_imp, decide_eq_true_eq,
    decide_eq_false_iff_not]
  omega

theorem intDec_plain (v : Int) : intDec v ≠ [] ∧ ∀ c ∈ intDec v, plainCh c = true := by
  unfold intDec
  split
  · refine ⟨by simp, ?_⟩
    intro c hc
    rcases List.mem_cons.1 hc with rfl | hc
    · decide
    · exact natDec_plain _ c hc
  · exact ⟨natDec_ne_nil _, natDec_plain _⟩

theorem intDec_nonzero (v : Int) : ∀ c ∈ intDec v, c ≠ 0 := by
  intro c hc
  have := (intDec_plain v).2 c hc
  intro e; subst e; simp [plainCh, isQuoteCh] at this

/-- reading back what `Option<T>::str()` printed stores exactly the value (for every admissible value) -/
theorem readOption_valueArg {i : Nat} {d : OptDecl} (h : optionTable[i]? = some d) (v : Val)
    (hv : admissible d v = true) (st : St) :
    readOption st i (valueArg d v) = (st.setOpt i v, true) := by
  have hf := rowFacts h
  have hk := kindOf_get h
  unfold readOption valueArg
  rw [hk]
  cases hkind : d.kind <;> cases v <;> simp only [admissible, hkind, Bool.false_eq_true] at hv
  all_goals simp only []
  · -- bool
    rename_i b
    have hb := enumTableOK_of_kind .bool (Or.inl rfl)
    cases b
    · have hl : (namesOf .bool).lookup 0 = some (valStr .bool (.b false)) := by rfl
      have c := (convert_name .bool hb 0 _ hl).1
      have c' : convertString boolSpellings (valStr .bool (.b false)) = some 0 := c
      unfold readBool
      rw [c']
      rfl
    · have hl : (namesOf .bool).lookup 1 = some (valStr .bool (.b true)) := by rfl
      have c := (convert_name .bool hb 1 _ hl).1
      have c' : convertString boolSpellings (valStr .bool (.b true)) = some 1 := c
      unfold readBool
      rw [c']
      rfl
  · -- iarf
    rename_i x
    obtain ⟨nm, hnm⟩ := Option.isSome_iff_exists.1 hv
    have c := (convert_name .iarf (enumTableOK_of_kind _ (by simp)) x nm hnm).1
    simp [readEnum, hk, hkind, valStr, hnm, c]
  · rename_i x
    obtain ⟨nm, hnm⟩ := Option.isSome_iff_exists.1 hv
    have c := (convert_name .lineend (enumTableOK_of_kind _ (by simp)) x nm hnm).1
    simp [readEnum, hk, hkind, valStr, hnm, c]
  · rename_i x
    obtain ⟨nm, hnm⟩ := Option.isSome_iff_exists.1 hv
    have c := (convert_name .tokenpos (enumTableOK_of_kind _ (by simp)) x nm hnm).1
    simp [readEnum, hk, hkind, valStr, hnm, c]
  · -- num
    rename_i x
    have hrange : -2147483648 ≤ x ∧ x ≤ 2147483647 ∧ (d.bounded = true → d.lo ≤ x ∧ x ≤ d.hi) := by
      by_cases hb : d.bounded = true
      · have := hf.boundedNum hb
        simp [hb] at hv
        omega
      · simp [hb] at hv
        exact ⟨hv.1, hv.2, fun e => absurd e hb⟩
    have hst := strtol_intDec x (by simp [LONG_MIN]; omega) (by simp [LONG_MAX]; omega)
    have hval : validate st i x = (st, true) := by
      unfold validate
      simp only [h]
      by_cases hb : d.bounded = true
      · have := hrange.2.2 hb
        have h1 : ¬ x < d.lo := by omega
        have h2 : ¬ x > d.hi := by omega
        simp [hb, h1, h2]
      · simp [hb]
    have hstore : storeNumber st i x = (st.setOpt i (.n x), true) := by
      simp [storeNumber, hval, hk, hkind, castNum, wrap32_id hrange.1 hrange.2.1]
    simp [readNumber, valStr, hst, hstore]
  · -- unum
    rename_i x
    simp only [Bool.and_eq_true, decide_eq_true_eq] at hv
    obtain ⟨⟨hb, hlo⟩, hhi⟩ := hv
    have hb' := hf.boundedNum hb
    have hu := hf.unumBounded hkind
    have hst := strtol_intDec x (by simp [LONG_MIN]; omega) (by simp [LONG_MAX]; omega)
    have hval : validate st i x = (st, true) := by
      unfold validate
      have h1 : ¬ x < d.lo := by omega
      have h2 : ¬ x > d.hi := by omega
      simp [h, hb, h1, h2]
    have hmod : x % 4294967296 = x := by omega
    have hstore : storeNumber st i x = (st.setOpt i (.n x), true) := by
      simp [storeNumber, hval, hk, hkind, castNum, hmod]
    simp [readNumber, valStr, hst, hstore]
  · -- string
    simp [valStr]

end Unc
